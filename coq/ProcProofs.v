(** L2 proofs: the life of one actor (Proc.v) — properties C04, C05, C06, C07,
    C13 for every script, every MaxRestarts, every batch bound, every list of
    external operations and every fuel (fuel exhaustion is the explicit event
    [OutOfFuel]; theorems that need a completed run carry the premise
    [out_of_fuel t = false]).

    Plan of the file
      0. unfolding lemmas, projections of traces
      A. premise-free invariants: every delivery through the chain (C13),
         restart counters 1,2,3,… bounded by MaxRestarts (C06, C05)
      B. [stopped_safe]: nothing escapes (C05); the big-step relations
         [Invoke_s]/[Start_s]/[Restart_s]/[RunLoop_s]/[Run_s] that every
         completed run satisfies
      C. the lifecycle monitor: an automaton over the trace accepted by every
         run; consequences C04 (word, nothing after unregister), C05 (restart
         shape), C06 (clean stop), C07 (no early cancel)
      D. accounting: conservation of envelopes (C05 order / exactly once /
         no silent loss, C07 every pill signalled)
      E. statements on [invoke_loop] (C07 drain) and on [spawn] (C04)
      F. soundness of the oracles of ProcExec.v
      G. non-vacuity examples *)
From Coq Require Import List Arith Bool Lia Permutation.
Import ListNotations.
From HV Require Import Proc ProcExec.

(* ------------------------------------------------------------------ *)
(** * 0. Unfolding lemmas *)

Definition rbuf (d : list env) (np : nat) (msgs : list env) : list env := d ++ skipn np msgs.

Lemma invoke_0 c s msgs : invoke 0 c s msgs = (s, [OutOfFuel], Normal).
Proof. reflexivity. Qed.
Lemma start_0 c s : start 0 c s = (s, [OutOfFuel], Normal).
Proof. reflexivity. Qed.
Lemma try_restart_0 c s b : try_restart 0 c s b = (s, [OutOfFuel], Normal).
Proof. reflexivity. Qed.

Lemma invoke_S f c s msgs : invoke (S f) c s msgs =
  let '(s1, t1, o1, nproc, draining) := invoke_loop c s msgs 0 in
  match o1 with
  | Normal => (s1, t1, Normal)
  | Panicking internal =>
    let '(s2, t2, o2) := try_restart f c (upd_mbuf s1 (rbuf draining nproc msgs)) internal in
    (s2, t1 ++ t2, o2)
  end.
Proof. reflexivity. Qed.

Definition start_end (s3 : pst) : pst * list event :=
  if dead s3 then (s3, []) else (upd_istopped s3 false, [InboxStart (istatus_stopped s3)]).

Lemma start_S f c s0 : start (S f) c s0 =
  let s := upd_inc s0 (S (inc s0)) in
  let '(s1, ti, oi) := recv c s true LInit in
  match oi with
  | Panicking b => let '(s', t', o') := try_restart f c s1 b in (s', ([Produce (inc s)] ++ ti) ++ t', o')
  | Normal =>
    let '(s2, ts, os) := recv c s1 true LStarted in
    let t1 := [Produce (inc s)] ++ ti ++ [EvInitialized] ++ ts in
    match os with
    | Panicking b => let '(s', t', o') := try_restart f c s2 b in (s', t1 ++ t', o')
    | Normal =>
      let t2 := t1 ++ [EvStarted] in
      let '(s3, t3, o3) := match mbuf s2 with
                           | [] => (s2, [], Normal)
                           | b => let '(s', t', o') := invoke f c s2 b in
                                  match o' with Normal => (upd_mbuf s' [], t', Normal) | _ => (s', t', o') end
                           end in
      match o3 with
      | Panicking b => let '(s', t', o') := try_restart f c s3 b in (s', (t2 ++ t3) ++ t', o')
      | Normal => (fst (start_end s3), t2 ++ t3 ++ snd (start_end s3), Normal)
      end
    end
  end.
Proof.
  cbn [start]. destruct (recv c (upd_inc s0 (S (inc s0))) true LInit) as [[s1 ti] oi].
  destruct oi; [|reflexivity].
  destruct (recv c s1 true LStarted) as [[s2 ts] os]. destruct os; [|reflexivity].
  destruct (mbuf s2) as [|e0 b0].
  - unfold start_end. destruct (dead s2); cbn [fst snd app]; rewrite ?app_nil_r; reflexivity.
  - destruct (invoke f c s2 (e0 :: b0)) as [[s' t'] o']. destruct o'; [|reflexivity].
    unfold start_end. destruct (dead (upd_mbuf s' [])); cbn [fst snd app]; rewrite ?app_nil_r; reflexivity.
Qed.

Lemma try_restart_S f c s internal : try_restart (S f) c s internal =
  if internal then
    let '(s1, t1, o1) := recv c s true LStopped in
    match o1 with
    | Normal => let '(s2, t2, o2) := start f c s1 in (s2, t1 ++ [Sleep] ++ t2, o2)
    | _ => (s1, t1, o1)
    end
  else if Nat.eqb (restarts s) (maxr c) then
    let '(s1, t1, o1) := cleanup c s None in
    match o1 with
    | Normal => (upd_mbuf s1 [], EvMaxRestarts :: t1 ++ flat_map discard (mbuf s1), Normal)
    | _ => (s1, EvMaxRestarts :: t1, o1)
    end
  else
    let '(s1, t1, o1) := recv c s true LStopped in
    match o1 with
    | Normal =>
      let s2 := upd_restarts s1 (S (restarts s1)) in
      let '(s3, t3, o3) := start f c s2 in (s3, t1 ++ [EvRestarted (restarts s2); Sleep] ++ t3, o3)
    | _ => (s1, t1, o1)
    end.
Proof. reflexivity. Qed.

Lemma run_loop_S f c s : run_loop (S f) c s =
  if istatus_stopped s then (s, []) else
  match queue s with
  | [] => (s, [])
  | q =>
    let '(s1, t1, o1) := invoke f c (upd_queue s (skipn (batch c) q)) (firstn (batch c) q) in
    match o1 with
    | Normal => let '(s2, t2) := run_loop f c s1 in (s2, t1 ++ t2)
    | Panicking _ => (s1, t1 ++ [Escaped])
    end
  end.
Proof. reflexivity. Qed.

Global Opaque invoke start try_restart run_loop.

(* ------------------------------------------------------------------ *)
(** * 0b. Projections of traces *)

Definition rcs (t : list event) : list nat :=
  flat_map (fun e => match e with EvRestarted n => [n] | _ => [] end) t.
Definition dlv (t : list event) : list nat :=
  flat_map (fun e => match e with Recv _ _ (LUser n) _ => [n] | _ => [] end) t.
Definition ddl (t : list event) : list nat :=
  flat_map (fun e => match e with EvDeadLetter (User n) => [n] | _ => [] end) t.
Definition cnc (t : list event) : list nat :=
  flat_map (fun e => match e with Cancel k => [k] | _ => [] end) t.
Definition acc (t : list event) : list env :=
  flat_map (fun e => match e with Enq e => [e] | _ => [] end) t.
Definition has_max (t : list event) : bool :=
  existsb (fun e => match e with EvMaxRestarts => true | _ => false end) t.

Lemma rcs_app a b : rcs (a ++ b) = rcs a ++ rcs b. Proof. apply flat_map_app. Qed.
Lemma dlv_app a b : dlv (a ++ b) = dlv a ++ dlv b. Proof. apply flat_map_app. Qed.
Lemma ddl_app a b : ddl (a ++ b) = ddl a ++ ddl b. Proof. apply flat_map_app. Qed.
Lemma cnc_app a b : cnc (a ++ b) = cnc a ++ cnc b. Proof. apply flat_map_app. Qed.
Lemma acc_app a b : acc (a ++ b) = acc a ++ acc b. Proof. apply flat_map_app. Qed.
Lemma has_max_app a b : has_max (a ++ b) = has_max a || has_max b. Proof. apply existsb_app. Qed.
Lemma out_of_fuel_app a b : out_of_fuel (a ++ b) = out_of_fuel a || out_of_fuel b. Proof. apply existsb_app. Qed.
Lemma has_escaped_app a b : has_escaped (a ++ b) = has_escaped a || has_escaped b. Proof. apply existsb_app. Qed.

Lemma recvs_of_app a b : recvs_of (a ++ b) = recvs_of a ++ recvs_of b.
Proof. induction a as [|e a IH]; [reflexivity|]. destruct e; cbn; rewrite ?IH; reflexivity. Qed.
Lemma events_of_app a b : events_of (a ++ b) = events_of a ++ events_of b.
Proof. induction a as [|e a IH]; [reflexivity|]. cbn [events_of app]. rewrite IH, app_assoc. reflexivity. Qed.
Lemma sends_of_app a b : sends_of (a ++ b) = sends_of a ++ sends_of b.
Proof. induction a as [|e a IH]; [reflexivity|]. destruct e; cbn; rewrite ?IH; reflexivity. Qed.

Lemma restarted_counters_app a b : restarted_counters (a ++ b) = restarted_counters a ++ restarted_counters b.
Proof. induction a as [|e a IH]; [reflexivity|]. destruct e; cbn; rewrite ?IH; reflexivity. Qed.
Lemma dead_payloads_app a b : dead_payloads (a ++ b) = dead_payloads a ++ dead_payloads b.
Proof. induction a as [|e a IH]; [reflexivity|]. destruct e; cbn; rewrite ?IH; reflexivity. Qed.

Lemma rcs_events t : restarted_counters (events_of t) = rcs t.
Proof.
  induction t as [|e t IH]; [reflexivity|]. cbn [events_of]. rewrite restarted_counters_app, IH.
  destruct e as [ | | | | | | |[]| | | | | | | | | ]; reflexivity.
Qed.
Lemma ddl_events t : dead_payloads (events_of t) = ddl t.
Proof.
  induction t as [|e t IH]; [reflexivity|]. cbn [events_of]. rewrite dead_payloads_app, IH.
  destruct e as [ | | | | | | |[]| | | | | | | | | ]; reflexivity.
Qed.
Lemma dlv_recvs t : user_payloads (recvs_of t) = dlv t.
Proof.
  induction t as [|e t IH]; [reflexivity|]. destruct e as [ |i mw [] sd| | | | | | | | | | | | | | | ]; cbn; rewrite ?IH; reflexivity.
Qed.

(* ------------------------------------------------------------------ *)
(** * 0c. Handlers: what [do_actions] can do *)

(* events a handler (or an external operation) can produce *)
Definition hev (e : event) : Prop :=
  match e with Sent _ | Enq _ | EvDeadLetter _ | Cancel _ => True | _ => False end.

(* everything but the queue and the pill counter is left alone *)
Definition frame (s s' : pst) : Prop :=
  inc s' = inc s /\ restarts s' = restarts s /\ mbuf s' = mbuf s /\ csender s' = csender s /\
  dead s' = dead s /\ registered s' = registered s /\ istatus_stopped s' = istatus_stopped s.

Lemma frame_refl s : frame s s.
Proof. repeat split. Qed.
Lemma frame_trans s1 s2 s3 : frame s1 s2 -> frame s2 s3 -> frame s1 s3.
Proof. unfold frame. intros (?&?&?&?&?&?&?) (?&?&?&?&?&?&?). repeat split; congruence. Qed.

(* a relation that holds of the two engine operations holds of a whole handler *)
Lemma do_actions_rel (R : pst -> list event -> pst -> Prop) :
  (forall s, R s [] s) ->
  (forall s t1 s1 t2 s2, R s t1 s1 -> R s1 t2 s2 -> R s (t1 ++ t2) s2) ->
  (forall s n b, R s (snd (send_self s {| emsg := User n; esnd := b |})) (fst (send_self s {| emsg := User n; esnd := b |}))) ->
  (forall s g, R s (snd (poison_self s g)) (fst (poison_self s g))) ->
  forall acts s s' t o, do_actions s acts = (s', t, o) -> R s t s'.
Proof.
  intros Hr Ht Hs Hp. induction acts as [|a acts IH]; intros s s' t o H.
  - injection H as <- <- <-. apply Hr.
  - cbn [do_actions] in H.
    destruct a.
    + destruct (send_self s _) as [s1 t1] eqn:E1. destruct (do_actions s1 acts) as [[s2 t2] o2] eqn:E2.
      injection H as <- <- <-. eapply Ht; [|eapply IH; exact E2].
      specialize (Hs s n true). rewrite E1 in Hs. exact Hs.
    + destruct (send_self s _) as [s1 t1] eqn:E1. destruct (do_actions s1 acts) as [[s2 t2] o2] eqn:E2.
      injection H as <- <- <-. eapply Ht; [|eapply IH; exact E2].
      specialize (Hs s n false). rewrite E1 in Hs. exact Hs.
    + destruct (poison_self s true) as [s1 t1] eqn:E1. destruct (do_actions s1 acts) as [[s2 t2] o2] eqn:E2.
      injection H as <- <- <-. eapply Ht; [|eapply IH; exact E2].
      specialize (Hp s true). rewrite E1 in Hp. exact Hp.
    + destruct (poison_self s false) as [s1 t1] eqn:E1. destruct (do_actions s1 acts) as [[s2 t2] o2] eqn:E2.
      injection H as <- <- <-. eapply Ht; [|eapply IH; exact E2].
      specialize (Hp s false). rewrite E1 in Hp. exact Hp.
    + injection H as <- <- <-. apply Hr.
    + injection H as <- <- <-. apply Hr.
Qed.

Lemma do_actions_frame acts s s' t o : do_actions s acts = (s', t, o) -> frame s s' /\ Forall hev t.
Proof.
  apply (do_actions_rel (fun s t s' => frame s s' /\ Forall hev t)).
  - intros. split; [apply frame_refl|constructor].
  - intros ? ? ? ? ? [] []. split; [eapply frame_trans; eassumption|apply Forall_app; split; assumption].
  - intros s0 n b. unfold send_self. destruct (registered s0); cbn; (split; [repeat split|repeat constructor]).
  - intros s0 g. unfold poison_self. destruct (registered s0); cbn; (split; [repeat split|repeat constructor]).
Qed.

Lemma recv_inv c s mw m s' t o : recv c s mw m = (s', t, o) ->
  exists ta, t = Recv (inc s) mw m (csender s) :: ta /\ do_actions s (scr c (inc s) m) = (s', ta, o).
Proof.
  unfold recv. destruct (do_actions s (scr c (inc s) m)) as [[s1 t1] o1]. intros [= <- <- <-].
  eexists; split; reflexivity.
Qed.

Lemma discard_hev e : Forall hev (discard e).
Proof. unfold discard. destruct (emsg e); repeat constructor. Qed.
Lemma flat_discard_hev l : Forall hev (flat_map discard l).
Proof. induction l; cbn; [constructor|apply Forall_app; split; [apply discard_hev|assumption]]. Qed.
Lemma discard_rest_hev g l : Forall hev (discard_rest g l).
Proof.
  unfold discard_rest. induction l as [|e l IH]; cbn; [constructor|]. apply Forall_app; split; [|exact IH].
  destruct (emsg e) eqn:E; [destruct g; [constructor|]|]; unfold discard; rewrite E; repeat constructor.
Qed.

(* ------------------------------------------------------------------ *)
(** * A. Premise-free invariants: C13 and the restart counter (C06, C05) *)

(* an event that neither is a delivery outside the chain nor counts a restart *)
Definition quiet (e : event) : Prop :=
  match e with Recv _ mw _ _ => mw = true | EvRestarted _ => False | _ => True end.
Definition mw_ok (e : event) : Prop :=
  match e with Recv _ mw _ _ => mw = true | _ => True end.

Lemma hev_quiet t : Forall hev t -> Forall quiet t.
Proof. apply Forall_impl. intros []; cbn; tauto. Qed.
Lemma quiet_mw t : Forall quiet t -> Forall mw_ok t.
Proof. apply Forall_impl. intros []; cbn; tauto. Qed.
Lemma quiet_rcs t : Forall quiet t -> rcs t = [].
Proof. induction 1 as [|e t He _ IH]; [reflexivity|]. destruct e; cbn in *; try assumption. contradiction. Qed.

Lemma recv_quiet c s m s' t o : recv c s true m = (s', t, o) -> Forall quiet t /\ frame s s'.
Proof.
  intros H. apply recv_inv in H as (ta & -> & H). apply do_actions_frame in H as [Hf Hh].
  split; [constructor; [reflexivity|apply hev_quiet, Hh]|exact Hf].
Qed.

Lemma invoke_msg_quiet c s e s' t o : invoke_msg c s e = (s', t, o) -> Forall quiet t /\ restarts s' = restarts s.
Proof.
  unfold invoke_msg. destruct (emsg e).
  - intros H. apply recv_quiet in H as [H1 (_ & H2 & _)]. split; [exact H1|exact H2].
  - intros [= <- <- <-]. split; [constructor|reflexivity].
Qed.

Lemma cleanup_quiet c s k s' t o : cleanup c s k = (s', t, o) -> Forall quiet t /\ restarts s' = restarts s.
Proof.
  unfold cleanup, deliver_stopped.
  destruct (recv c _ true LStopped) as [[s1 t1] o1] eqn:E. apply recv_quiet in E as [Hq (_ & Hr & _)].
  cbn in Hr. destruct o1.
  - intros [= <- <- <-]. split; [|exact Hr]. cbn [app].
    constructor; [exact I|]. apply Forall_app; split; [exact Hq|].
    constructor; [exact I|]. constructor; [exact I|]. apply Forall_app; split.
    + apply hev_quiet, flat_discard_hev.
    + destruct k; repeat constructor.
  - intros [= <- <- <-]. split; [|exact Hr]. cbn [app].
    constructor; [exact I|]. apply Forall_app; split; [exact Hq|]. destruct k; repeat constructor.
Qed.

Lemma drain_quiet c : forall l s n sk s' t o np sk', drain c s l n sk = (s', t, o, np, sk') ->
  Forall quiet t /\ restarts s' = restarts s.
Proof.
  induction l as [|e l IH]; intros s n sk s' t o np sk' H; cbn [drain] in H.
  - injection H as <- <- <- <- <-. split; [constructor|reflexivity].
  - destruct (emsg e) eqn:Ee.
    + destruct (invoke_msg c s e) as [[s1 t1] o1] eqn:E1. apply invoke_msg_quiet in E1 as [Hq Hr].
      destruct o1.
      * destruct (drain c s1 l (S n) sk) as [[[[s2 t2] o2] np2] sk2] eqn:E2. injection H as <- <- <- <- <-.
        apply IH in E2 as [Hq2 Hr2]. split; [apply Forall_app; split; assumption|congruence].
      * injection H as <- <- <- <- <-. split; assumption.
    + eapply IH; exact H.
Qed.

Lemma invoke_loop_quiet c : forall l s n s' t o np d, invoke_loop c s l n = (s', t, o, np, d) ->
  Forall quiet t /\ restarts s' = restarts s.
Proof.
  induction l as [|e l IH]; intros s n s' t o np d H; cbn [invoke_loop] in H.
  - injection H as <- <- <- <- <-. split; [constructor|reflexivity].
  - destruct (emsg e) eqn:Ee.
    + destruct (invoke_msg c s e) as [[s1 t1] o1] eqn:E1. apply invoke_msg_quiet in E1 as [Hq Hr].
      destruct o1.
      * destruct (invoke_loop c s1 l (S n)) as [[[[s2 t2] o2] np2] d2] eqn:E2. injection H as <- <- <- <- <-.
        apply IH in E2 as [Hq2 Hr2]. split; [apply Forall_app; split; assumption|congruence].
      * injection H as <- <- <- <- <-. split; assumption.
    + assert (Hd : exists s1 t1 o1 np1 sk1,
          (if graceful then drain c s l (S n) [] else (s, [], Normal, S n, [])) = (s1, t1, o1, np1, sk1) /\
          Forall quiet t1 /\ restarts s1 = restarts s).
      { destruct graceful.
        - destruct (drain c s l (S n) []) as [[[[s1 t1] o1] np1] sk1] eqn:E1. exists s1, t1, o1, np1, sk1.
          split; [reflexivity|]. eapply drain_quiet; exact E1.
        - exists s, [], Normal, (S n), []. repeat split. constructor. }
      destruct Hd as (s1 & t1 & o1 & np1 & sk1 & Heq & Hq1 & Hr1). rewrite Heq in H. clear Heq.
      destruct o1.
      * destruct (cleanup c s1 (Some k)) as [[s2 t2] o2] eqn:E2. apply cleanup_quiet in E2 as [Hq2 Hr2].
        destruct o2; injection H as <- <- <- <- <-; (split; [|congruence]).
        -- repeat (apply Forall_app; split); try assumption. apply hev_quiet, discard_rest_hev.
        -- apply Forall_app; split; assumption.
      * injection H as <- <- <- <- <-. split; assumption.
Qed.

(* the counter relation: restarts only grows, by one per EvRestarted, whose
   arguments are consecutive, and never exceeds MaxRestarts *)
Definition PA (c : cfg) (r : nat) (t : list event) (r' : nat) : Prop :=
  Forall mw_ok t /\
  (r <= maxr c -> r <= r' /\ r' <= maxr c /\ rcs t = seq (S r) (r' - r)).

Lemma PA_quiet c r t : Forall quiet t -> PA c r t r.
Proof.
  intros H. split; [apply quiet_mw, H|]. intros Hr. rewrite quiet_rcs by exact H.
  rewrite Nat.sub_diag. repeat split; lia.
Qed.

Lemma PA_trans c r t1 r1 t2 r2 : PA c r t1 r1 -> PA c r1 t2 r2 -> PA c r (t1 ++ t2) r2.
Proof.
  intros [Hm1 H1] [Hm2 H2]. split; [apply Forall_app; split; assumption|].
  intros Hr. destruct (H1 Hr) as (Ha & Hb & Hc). destruct (H2 Hb) as (Hd & He & Hf).
  repeat split; try lia. rewrite rcs_app, Hc, Hf.
  replace (r2 - r) with ((r1 - r) + (r2 - r1)) by lia. rewrite seq_app. do 2 f_equal. lia.
Qed.

Lemma PA_restarted c r : r <> maxr c -> PA c r [EvRestarted (S r)] (S r).
Proof.
  intros Hne. split; [repeat constructor|]. intros Hr. repeat split; try lia.
  replace (S r - r) with 1 by lia. reflexivity.
Qed.

Lemma invoke_start_restart_PA c : forall f,
  (forall s msgs s' t o, invoke f c s msgs = (s', t, o) -> PA c (restarts s) t (restarts s')) /\
  (forall s s' t o, start f c s = (s', t, o) -> PA c (restarts s) t (restarts s')) /\
  (forall s b s' t o, try_restart f c s b = (s', t, o) -> PA c (restarts s) t (restarts s')).
Proof.
  induction f as [|f (IHi & IHs & IHr)].
  - split; [|split]; intros *; intros H;
      [rewrite invoke_0 in H|rewrite start_0 in H|rewrite try_restart_0 in H];
      injection H as <- <- <-; apply PA_quiet; repeat constructor.
  - split; [|split].
    + intros s msgs s' t o H. rewrite invoke_S in H.
      destruct (invoke_loop c s msgs 0) as [[[[s1 t1] o1] np] d] eqn:El.
      apply invoke_loop_quiet in El as [Hq Hr]. destruct o1.
      * injection H as <- <- <-. rewrite Hr. apply PA_quiet, Hq.
      * destruct (try_restart f c _ internal) as [[s2 t2] o2] eqn:Et. injection H as <- <- <-.
        apply IHr in Et. cbn in Et. rewrite Hr in Et. eapply PA_trans; [apply PA_quiet, Hq|exact Et].
    + intros s s' t o H. rewrite start_S in H. cbv zeta in H.
      destruct (recv c (upd_inc s (S (inc s))) true LInit) as [[s1 ti] oi] eqn:Ei.
      apply recv_quiet in Ei as [Hqi (_ & Hri & _)]. cbn in Hri.
      assert (H0 : PA c (restarts s) ([Produce (inc (upd_inc s (S (inc s))))] ++ ti) (restarts s1)).
      { rewrite Hri. apply PA_quiet. constructor; [exact I|exact Hqi]. }
      destruct oi.
      2:{ destruct (try_restart f c s1 internal) as [[s2 t2] o2] eqn:Et. injection H as <- <- <-.
          apply IHr in Et. exact (PA_trans _ _ _ _ _ _ H0 Et). }
      destruct (recv c s1 true LStarted) as [[s2 ts] os] eqn:Es.
      apply recv_quiet in Es as [Hqs (_ & Hrs & _)].
      assert (H1 : PA c (restarts s) ([Produce (inc (upd_inc s (S (inc s))))] ++ ti ++ [EvInitialized] ++ ts) (restarts s2)).
      { rewrite Hrs, Hri. apply PA_quiet. constructor; [exact I|].
        apply Forall_app; split; [exact Hqi|]. constructor; [exact I|exact Hqs]. }
      destruct os.
      2:{ destruct (try_restart f c s2 internal) as [[s3 t3] o3] eqn:Et. injection H as <- <- <-.
          apply IHr in Et. exact (PA_trans _ _ _ _ _ _ H1 Et). }
      set (t1 := [Produce _] ++ ti ++ [EvInitialized] ++ ts) in *.
      assert (H2 : PA c (restarts s) (t1 ++ [EvStarted]) (restarts s2)).
      { eapply PA_trans; [exact H1|]. apply PA_quiet. repeat constructor. }
      assert (Hrep : exists s3 t3 o3,
        match mbuf s2 with
        | [] => (s2, [], Normal)
        | e :: l => let '(s', t', o') := invoke f c s2 (e :: l) in
                    match o' with Normal => (upd_mbuf s' [], t', Normal) | Panicking _ => (s', t', o') end
        end = (s3, t3, o3) /\ PA c (restarts s2) t3 (restarts s3)).
      { destruct (mbuf s2) as [|e0 b0].
        - exists s2, [], Normal. split; [reflexivity|]. apply PA_quiet. constructor.
        - destruct (invoke f c s2 (e0 :: b0)) as [[sx tx] ox] eqn:Einv. apply IHi in Einv.
          destruct ox; eexists _, _, _; (split; [reflexivity|exact Einv]). }
      destruct Hrep as (s3 & t3 & o3 & Heq & H3). rewrite Heq in H. clear Heq.
      destruct o3.
      * injection H as <- <- <-.
        assert (He : PA c (restarts s3) (snd (start_end s3)) (restarts (fst (start_end s3)))).
        { unfold start_end. destruct (dead s3); cbn [fst snd]; apply PA_quiet; repeat constructor. }
        exact (PA_trans _ _ _ _ _ _ H2 (PA_trans _ _ _ _ _ _ H3 He)).
      * destruct (try_restart f c s3 internal) as [[s4 t4] o4] eqn:Et. injection H as <- <- <-.
        apply IHr in Et. exact (PA_trans _ _ _ _ _ _ (PA_trans _ _ _ _ _ _ H2 H3) Et).
    + intros s b s' t o H. rewrite try_restart_S in H. destruct b.
      * destruct (recv c s true LStopped) as [[s1 t1] o1] eqn:E1. apply recv_quiet in E1 as [Hq (_ & Hr & _)].
        destruct o1.
        -- destruct (start f c s1) as [[s2 t2] o2] eqn:E2. injection H as <- <- <-. apply IHs in E2.
           rewrite Hr in E2. eapply PA_trans; [apply PA_quiet, Hq|].
           eapply PA_trans; [apply PA_quiet; repeat constructor|exact E2].
        -- injection H as <- <- <-. rewrite Hr. apply PA_quiet, Hq.
      * destruct (Nat.eqb (restarts s) (maxr c)) eqn:Em.
        -- destruct (cleanup c s None) as [[s1 t1] o1] eqn:E1. apply cleanup_quiet in E1 as [Hq Hr].
           destruct o1; injection H as <- <- <-; cbn; rewrite Hr; apply PA_quiet.
           ++ constructor; [exact I|]. apply Forall_app; split; [exact Hq|apply hev_quiet, flat_discard_hev].
           ++ constructor; [exact I|exact Hq].
        -- apply Nat.eqb_neq in Em.
           destruct (recv c s true LStopped) as [[s1 t1] o1] eqn:E1. apply recv_quiet in E1 as [Hq (_ & Hr & _)].
           destruct o1.
           ++ destruct (start f c _) as [[s3 t3] o3] eqn:E3. injection H as <- <- <-. apply IHs in E3.
              cbn in E3. rewrite Hr in E3. eapply PA_trans; [apply PA_quiet, Hq|].
              change ([EvRestarted (S (restarts s1)); Sleep] ++ t3) with ([EvRestarted (S (restarts s1))] ++ [Sleep] ++ t3).
              rewrite Hr. eapply PA_trans; [apply PA_restarted, Em|].
              eapply PA_trans; [apply PA_quiet; repeat constructor|exact E3].
           ++ injection H as <- <- <-. rewrite Hr. apply PA_quiet, Hq.
Qed.
