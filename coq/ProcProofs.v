(** L2 proofs: the life of one actor (Proc.v) — properties C04, C05, C06, C07,
    C13 for every script, every MaxRestarts, every batch bound, every list of
    external operations and every fuel (fuel exhaustion is the explicit event
    [OutOfFuel]; theorems that need a completed run carry the premise
    [out_of_fuel t = false]).

    Plan of the file
      0. unfolding lemmas, projections of traces
      A. premise-free invariants: every delivery through the chain (C13),
         restart counters 1,2,3,… bounded by MaxRestarts (C06, C05)
      B. [stopped_safe]: nothing escapes (C05); the big-step relations
         [Invoke_s]/[Start_s]/[Restart_s]/[RunLoop_s]/[Run_s] that every
         completed run satisfies
      C. the lifecycle monitor: an automaton over the trace accepted by every
         run; consequences C04 (word, nothing after unregister), C05 (restart
         shape), C06 (clean stop), C07 (no early cancel)
      D. accounting: conservation of envelopes (C05 order / exactly once /
         no silent loss, C07 every pill signalled)
      E. statements on [invoke_loop] (C07 drain) and on [spawn] (C04)
      F. soundness of the oracles of ProcExec.v
      G. non-vacuity examples *)
From Coq Require Import List Arith Bool Lia Permutation.
Import ListNotations.
From HV Require Import Proc ProcExec.

(* ------------------------------------------------------------------ *)
(** * 0. Unfolding lemmas *)

Definition rbuf (d : list env) (np : nat) (msgs : list env) : list env := d ++ skipn np msgs.

Lemma invoke_0 c s msgs : invoke 0 c s msgs = (s, [OutOfFuel], Normal).
Proof. reflexivity. Qed.
Lemma start_0 c s : start 0 c s = (s, [OutOfFuel], Normal).
Proof. reflexivity. Qed.
Lemma try_restart_0 c s b : try_restart 0 c s b = (s, [OutOfFuel], Normal).
Proof. reflexivity. Qed.

Lemma invoke_S f c s msgs : invoke (S f) c s msgs =
  let '(s1, t1, o1, nproc, draining) := invoke_loop c s msgs 0 in
  match o1 with
  | Normal => (s1, t1, Normal)
  | Panicking internal =>
    let '(s2, t2, o2) := try_restart f c (upd_mbuf s1 (rbuf draining nproc msgs)) internal in
    (s2, t1 ++ t2, o2)
  end.
Proof. reflexivity. Qed.

Definition start_end (s3 : pst) : pst * list event :=
  if dead s3 then (s3, []) else (upd_istopped s3 false, [InboxStart (istatus_stopped s3)]).

Lemma start_S f c s0 : start (S f) c s0 =
  let s := upd_inc s0 (S (inc s0)) in
  let '(s1, ti, oi) := recv c s true LInit in
  match oi with
  | Panicking b => let '(s', t', o') := try_restart f c s1 b in (s', ([Produce (inc s)] ++ ti) ++ t', o')
  | Normal =>
    let '(s2, ts, os) := recv c s1 true LStarted in
    let t1 := [Produce (inc s)] ++ ti ++ [EvInitialized] ++ ts in
    match os with
    | Panicking b => let '(s', t', o') := try_restart f c s2 b in (s', t1 ++ t', o')
    | Normal =>
      let t2 := t1 ++ [EvStarted] in
      let '(s3, t3, o3) := match mbuf s2 with
                           | [] => (s2, [], Normal)
                           | b => let '(s', t', o') := invoke f c s2 b in
                                  match o' with Normal => (upd_mbuf s' [], t', Normal) | _ => (s', t', o') end
                           end in
      match o3 with
      | Panicking b => let '(s', t', o') := try_restart f c s3 b in (s', (t2 ++ t3) ++ t', o')
      | Normal => (fst (start_end s3), t2 ++ t3 ++ snd (start_end s3), Normal)
      end
    end
  end.
Proof.
  cbn [start]. destruct (recv c (upd_inc s0 (S (inc s0))) true LInit) as [[s1 ti] oi].
  destruct oi; [|reflexivity].
  destruct (recv c s1 true LStarted) as [[s2 ts] os]. destruct os; [|reflexivity].
  destruct (mbuf s2) as [|e0 b0].
  - unfold start_end. destruct (dead s2); cbn [fst snd app]; rewrite ?app_nil_r; reflexivity.
  - destruct (invoke f c s2 (e0 :: b0)) as [[s' t'] o']. destruct o'; [|reflexivity].
    unfold start_end. destruct (dead (upd_mbuf s' [])); cbn [fst snd app]; rewrite ?app_nil_r; reflexivity.
Qed.

Lemma try_restart_S f c s internal : try_restart (S f) c s internal =
  if internal then
    let '(s1, t1, o1) := recv c s true LStopped in
    match o1 with
    | Normal => let '(s2, t2, o2) := start f c s1 in (s2, t1 ++ [Sleep] ++ t2, o2)
    | _ => (s1, t1, o1)
    end
  else if Nat.eqb (restarts s) (maxr c) then
    let '(s1, t1, o1) := cleanup c s None in
    match o1 with
    | Normal => (upd_mbuf s1 [], EvMaxRestarts :: t1 ++ flat_map discard (mbuf s1), Normal)
    | _ => (s1, EvMaxRestarts :: t1, o1)
    end
  else
    let '(s1, t1, o1) := recv c s true LStopped in
    match o1 with
    | Normal =>
      let s2 := upd_restarts s1 (S (restarts s1)) in
      let '(s3, t3, o3) := start f c s2 in (s3, t1 ++ [EvRestarted (restarts s2); Sleep] ++ t3, o3)
    | _ => (s1, t1, o1)
    end.
Proof. reflexivity. Qed.

Lemma run_loop_S f c s : run_loop (S f) c s =
  if istatus_stopped s then (s, []) else
  match queue s with
  | [] => (s, [])
  | q =>
    let '(s1, t1, o1) := invoke f c (upd_queue s (skipn (batch c) q)) (firstn (batch c) q) in
    match o1 with
    | Normal => let '(s2, t2) := run_loop f c s1 in (s2, t1 ++ t2)
    | Panicking _ => (s1, t1 ++ [Escaped])
    end
  end.
Proof. reflexivity. Qed.

Opaque invoke start try_restart run_loop.

(* ------------------------------------------------------------------ *)
(** * 0b. Projections of traces *)

Definition rcs (t : list event) : list nat :=
  flat_map (fun e => match e with EvRestarted n => [n] | _ => [] end) t.
Definition dlv (t : list event) : list nat :=
  flat_map (fun e => match e with Recv _ _ (LUser n) _ => [n] | _ => [] end) t.
Definition ddl (t : list event) : list nat :=
  flat_map (fun e => match e with EvDeadLetter (User n) => [n] | _ => [] end) t.
Definition cnc (t : list event) : list nat :=
  flat_map (fun e => match e with Cancel k => [k] | _ => [] end) t.
Definition acc (t : list event) : list env :=
  flat_map (fun e => match e with Enq e => [e] | _ => [] end) t.
Definition has_max (t : list event) : bool :=
  existsb (fun e => match e with EvMaxRestarts => true | _ => false end) t.

Lemma rcs_app a b : rcs (a ++ b) = rcs a ++ rcs b. Proof. apply flat_map_app. Qed.
Lemma dlv_app a b : dlv (a ++ b) = dlv a ++ dlv b. Proof. apply flat_map_app. Qed.
Lemma ddl_app a b : ddl (a ++ b) = ddl a ++ ddl b. Proof. apply flat_map_app. Qed.
Lemma cnc_app a b : cnc (a ++ b) = cnc a ++ cnc b. Proof. apply flat_map_app. Qed.
Lemma acc_app a b : acc (a ++ b) = acc a ++ acc b. Proof. apply flat_map_app. Qed.
Lemma has_max_app a b : has_max (a ++ b) = has_max a || has_max b. Proof. apply existsb_app. Qed.
Lemma out_of_fuel_app a b : out_of_fuel (a ++ b) = out_of_fuel a || out_of_fuel b. Proof. apply existsb_app. Qed.
Lemma has_escaped_app a b : has_escaped (a ++ b) = has_escaped a || has_escaped b. Proof. apply existsb_app. Qed.

Lemma recvs_of_app a b : recvs_of (a ++ b) = recvs_of a ++ recvs_of b.
Proof. induction a as [|e a IH]; [reflexivity|]. destruct e; cbn; rewrite ?IH; reflexivity. Qed.
Lemma events_of_app a b : events_of (a ++ b) = events_of a ++ events_of b.
Proof. induction a as [|e a IH]; [reflexivity|]. cbn [events_of app]. rewrite IH, app_assoc. reflexivity. Qed.
Lemma sends_of_app a b : sends_of (a ++ b) = sends_of a ++ sends_of b.
Proof. induction a as [|e a IH]; [reflexivity|]. destruct e; cbn; rewrite ?IH; reflexivity. Qed.

Lemma restarted_counters_app a b : restarted_counters (a ++ b) = restarted_counters a ++ restarted_counters b.
Proof. induction a as [|e a IH]; [reflexivity|]. destruct e; cbn; rewrite ?IH; reflexivity. Qed.
Lemma dead_payloads_app a b : dead_payloads (a ++ b) = dead_payloads a ++ dead_payloads b.
Proof. induction a as [|e a IH]; [reflexivity|]. destruct e; cbn; rewrite ?IH; reflexivity. Qed.

Lemma rcs_events t : restarted_counters (events_of t) = rcs t.
Proof.
  induction t as [|e t IH]; [reflexivity|]. cbn [events_of]. rewrite restarted_counters_app, IH.
  destruct e as [ | | | | | | |[]| | | | | | | | | ]; reflexivity.
Qed.
Lemma ddl_events t : dead_payloads (events_of t) = ddl t.
Proof.
  induction t as [|e t IH]; [reflexivity|]. cbn [events_of]. rewrite dead_payloads_app, IH.
  destruct e as [ | | | | | | |[]| | | | | | | | | ]; reflexivity.
Qed.
Lemma dlv_recvs t : user_payloads (recvs_of t) = dlv t.
Proof.
  induction t as [|e t IH]; [reflexivity|]. destruct e as [ |i mw [] sd| | | | | | | | | | | | | | | ]; cbn; rewrite ?IH; reflexivity.
Qed.

(* ------------------------------------------------------------------ *)
(** * 0c. Handlers: what [do_actions] can do *)

(* events a handler (or an external operation) can produce *)
Definition hev (e : event) : Prop :=
  match e with Sent _ | Enq _ | EvDeadLetter _ | Cancel _ => True | _ => False end.

(* everything but the queue and the pill counter is left alone *)
Definition frame (s s' : pst) : Prop :=
  inc s' = inc s /\ restarts s' = restarts s /\ mbuf s' = mbuf s /\ csender s' = csender s /\
  dead s' = dead s /\ registered s' = registered s /\ istatus_stopped s' = istatus_stopped s.

Lemma frame_refl s : frame s s.
Proof. repeat split. Qed.
Lemma frame_trans s1 s2 s3 : frame s1 s2 -> frame s2 s3 -> frame s1 s3.
Proof. unfold frame. intros (?&?&?&?&?&?&?) (?&?&?&?&?&?&?). repeat split; congruence. Qed.

(* a relation that holds of the two engine operations holds of a whole handler *)
Lemma do_actions_rel (R : pst -> list event -> pst -> Prop) :
  (forall s, R s [] s) ->
  (forall s t1 s1 t2 s2, R s t1 s1 -> R s1 t2 s2 -> R s (t1 ++ t2) s2) ->
  (forall s n b, R s (snd (send_self s {| emsg := User n; esnd := b |})) (fst (send_self s {| emsg := User n; esnd := b |}))) ->
  (forall s g, R s (snd (poison_self s g)) (fst (poison_self s g))) ->
  forall acts s s' t o, do_actions s acts = (s', t, o) -> R s t s'.
Proof.
  intros Hr Ht Hs Hp. induction acts as [|a acts IH]; intros s s' t o H.
  - injection H as <- <- <-. apply Hr.
  - cbn [do_actions] in H.
    destruct a.
    + destruct (send_self s _) as [s1 t1] eqn:E1. destruct (do_actions s1 acts) as [[s2 t2] o2] eqn:E2.
      injection H as <- <- <-. eapply Ht; [|eapply IH; exact E2].
      specialize (Hs s n true). rewrite E1 in Hs. exact Hs.
    + destruct (send_self s _) as [s1 t1] eqn:E1. destruct (do_actions s1 acts) as [[s2 t2] o2] eqn:E2.
      injection H as <- <- <-. eapply Ht; [|eapply IH; exact E2].
      specialize (Hs s n false). rewrite E1 in Hs. exact Hs.
    + destruct (poison_self s true) as [s1 t1] eqn:E1. destruct (do_actions s1 acts) as [[s2 t2] o2] eqn:E2.
      injection H as <- <- <-. eapply Ht; [|eapply IH; exact E2].
      specialize (Hp s true). rewrite E1 in Hp. exact Hp.
    + destruct (poison_self s false) as [s1 t1] eqn:E1. destruct (do_actions s1 acts) as [[s2 t2] o2] eqn:E2.
      injection H as <- <- <-. eapply Ht; [|eapply IH; exact E2].
      specialize (Hp s false). rewrite E1 in Hp. exact Hp.
    + injection H as <- <- <-. apply Hr.
    + injection H as <- <- <-. apply Hr.
Qed.

Lemma do_actions_frame acts s s' t o : do_actions s acts = (s', t, o) -> frame s s' /\ Forall hev t.
Proof.
  apply (do_actions_rel (fun s t s' => frame s s' /\ Forall hev t)).
  - intros. split; [apply frame_refl|constructor].
  - intros ? ? ? ? ? [] []. split; [eapply frame_trans; eassumption|apply Forall_app; split; assumption].
  - intros s0 n b. unfold send_self. destruct (registered s0); cbn; (split; [repeat split|repeat constructor]).
  - intros s0 g. unfold poison_self. destruct (registered s0); cbn; (split; [repeat split|repeat constructor]).
Qed.

Lemma recv_inv c s mw m s' t o : recv c s mw m = (s', t, o) ->
  exists ta, t = Recv (inc s) mw m (csender s) :: ta /\ do_actions s (scr c (inc s) m) = (s', ta, o).
Proof.
  unfold recv. destruct (do_actions s (scr c (inc s) m)) as [[s1 t1] o1]. intros [= <- <- <-].
  eexists; split; reflexivity.
Qed.

Lemma discard_hev e : Forall hev (discard e).
Proof. unfold discard. destruct (emsg e); repeat constructor. Qed.
Lemma flat_discard_hev l : Forall hev (flat_map discard l).
Proof. induction l; cbn; [constructor|apply Forall_app; split; [apply discard_hev|assumption]]. Qed.
Lemma discard_rest_hev g l : Forall hev (discard_rest g l).
Proof.
  unfold discard_rest. induction l as [|e l IH]; cbn; [constructor|]. apply Forall_app; split; [|exact IH].
  destruct (emsg e) eqn:E; [destruct g; [constructor|]|]; unfold discard; rewrite E; repeat constructor.
Qed.

(* ------------------------------------------------------------------ *)
(** * A. Premise-free invariants: C13 and the restart counter (C06, C05) *)

(* an event that neither is a delivery outside the chain nor counts a restart *)
Definition quiet (e : event) : Prop :=
  match e with Recv _ mw _ _ => mw = true | EvRestarted _ => False | Escaped => False | _ => True end.
(* [strict]: Escaped is excluded too (inside Invoke/Start/tryRestart) *)
Definition mw_okb (strict : bool) (e : event) : Prop :=
  match e with Recv _ mw _ _ => mw = true | Escaped => strict = false | _ => True end.
Definition mw_ok := mw_okb false.

Lemma hev_quiet t : Forall hev t -> Forall quiet t.
Proof. apply Forall_impl. intros []; cbn; tauto. Qed.
Lemma quiet_mw b t : Forall quiet t -> Forall (mw_okb b) t.
Proof. apply Forall_impl. intros []; cbn; tauto. Qed.
Lemma quiet_rcs t : Forall quiet t -> rcs t = [].
Proof. induction 1 as [|e t He _ IH]; [reflexivity|]. destruct e; cbn in *; try assumption. contradiction. Qed.

Lemma recv_quiet c s m s' t o : recv c s true m = (s', t, o) -> Forall quiet t /\ frame s s'.
Proof.
  intros H. apply recv_inv in H as (ta & -> & H). apply do_actions_frame in H as [Hf Hh].
  split; [constructor; [reflexivity|apply hev_quiet, Hh]|exact Hf].
Qed.

Lemma invoke_msg_quiet c s e s' t o : invoke_msg c s e = (s', t, o) -> Forall quiet t /\ restarts s' = restarts s.
Proof.
  unfold invoke_msg. destruct (emsg e).
  - intros H. apply recv_quiet in H as [H1 (_ & H2 & _)]. split; [exact H1|exact H2].
  - intros [= <- <- <-]. split; [constructor|reflexivity].
Qed.

Lemma cleanup_quiet c s k s' t o : cleanup c s k = (s', t, o) -> Forall quiet t /\ restarts s' = restarts s.
Proof.
  unfold cleanup, deliver_stopped.
  destruct (recv c _ true LStopped) as [[s1 t1] o1] eqn:E. apply recv_quiet in E as [Hq (_ & Hr & _)].
  cbn in Hr. destruct o1.
  - intros [= <- <- <-]. split; [|exact Hr]. cbn [app].
    constructor; [exact I|]. apply Forall_app; split; [exact Hq|].
    constructor; [exact I|]. constructor; [exact I|]. apply Forall_app; split.
    + apply hev_quiet, flat_discard_hev.
    + destruct k; repeat constructor.
  - intros [= <- <- <-]. split; [|exact Hr]. cbn [app].
    constructor; [exact I|]. apply Forall_app; split; [exact Hq|]. destruct k; repeat constructor.
Qed.

Lemma drain_quiet c : forall l s n sk s' t o np sk', drain c s l n sk = (s', t, o, np, sk') ->
  Forall quiet t /\ restarts s' = restarts s.
Proof.
  induction l as [|e l IH]; intros s n sk s' t o np sk' H; cbn [drain] in H.
  - injection H as <- <- <- <- <-. split; [constructor|reflexivity].
  - destruct (emsg e) eqn:Ee.
    + destruct (invoke_msg c s e) as [[s1 t1] o1] eqn:E1. apply invoke_msg_quiet in E1 as [Hq Hr].
      destruct o1.
      * destruct (drain c s1 l (S n) sk) as [[[[s2 t2] o2] np2] sk2] eqn:E2. injection H as <- <- <- <- <-.
        apply IH in E2 as [Hq2 Hr2]. split; [apply Forall_app; split; assumption|congruence].
      * injection H as <- <- <- <- <-. split; assumption.
    + eapply IH; exact H.
Qed.

Lemma invoke_loop_quiet c : forall l s n s' t o np d, invoke_loop c s l n = (s', t, o, np, d) ->
  Forall quiet t /\ restarts s' = restarts s.
Proof.
  induction l as [|e l IH]; intros s n s' t o np d H; cbn [invoke_loop] in H.
  - injection H as <- <- <- <- <-. split; [constructor|reflexivity].
  - destruct (emsg e) eqn:Ee.
    + destruct (invoke_msg c s e) as [[s1 t1] o1] eqn:E1. apply invoke_msg_quiet in E1 as [Hq Hr].
      destruct o1.
      * destruct (invoke_loop c s1 l (S n)) as [[[[s2 t2] o2] np2] d2] eqn:E2. injection H as <- <- <- <- <-.
        apply IH in E2 as [Hq2 Hr2]. split; [apply Forall_app; split; assumption|congruence].
      * injection H as <- <- <- <- <-. split; assumption.
    + assert (Hd : exists s1 t1 o1 np1 sk1,
          (if graceful then drain c s l (S n) [] else (s, [], Normal, S n, [])) = (s1, t1, o1, np1, sk1) /\
          Forall quiet t1 /\ restarts s1 = restarts s).
      { destruct graceful.
        - destruct (drain c s l (S n) []) as [[[[s1 t1] o1] np1] sk1] eqn:E1. exists s1, t1, o1, np1, sk1.
          split; [reflexivity|]. eapply drain_quiet; exact E1.
        - exists s, [], Normal, (S n), []. repeat split. constructor. }
      destruct Hd as (s1 & t1 & o1 & np1 & sk1 & Heq & Hq1 & Hr1). rewrite Heq in H. clear Heq.
      destruct o1.
      * destruct (cleanup c s1 (Some k)) as [[s2 t2] o2] eqn:E2. apply cleanup_quiet in E2 as [Hq2 Hr2].
        destruct o2; injection H as <- <- <- <- <-; (split; [|congruence]).
        -- repeat (apply Forall_app; split); try assumption. apply hev_quiet, discard_rest_hev.
        -- apply Forall_app; split; assumption.
      * injection H as <- <- <- <- <-. split; assumption.
Qed.

(* the counter relation: restarts only grows, by one per EvRestarted, whose
   arguments are consecutive, and never exceeds MaxRestarts *)
Definition PA (strict : bool) (c : cfg) (r : nat) (t : list event) (r' : nat) : Prop :=
  Forall (mw_okb strict) t /\
  (r <= maxr c -> r <= r' /\ r' <= maxr c /\ rcs t = seq (S r) (r' - r)).

Lemma PA_quiet {b} c r t : Forall quiet t -> PA b c r t r.
Proof.
  intros H. split; [apply quiet_mw, H|]. intros Hr. rewrite quiet_rcs by exact H.
  rewrite Nat.sub_diag. repeat split; lia.
Qed.

Lemma PA_trans {b} c r t1 r1 t2 r2 : PA b c r t1 r1 -> PA b c r1 t2 r2 -> PA b c r (t1 ++ t2) r2.
Proof.
  intros [Hm1 H1] [Hm2 H2]. split; [apply Forall_app; split; assumption|].
  intros Hr. destruct (H1 Hr) as (Ha & Hb & Hc). destruct (H2 Hb) as (Hd & He & Hf).
  repeat split; try lia. rewrite rcs_app, Hc, Hf.
  replace (r2 - r) with ((r1 - r) + (r2 - r1)) by lia. rewrite seq_app. do 2 f_equal. lia.
Qed.

Lemma PA_restarted {b} c r : r <> maxr c -> PA b c r [EvRestarted (S r)] (S r).
Proof.
  intros Hne. split; [repeat constructor|]. intros Hr. repeat split; try lia.
  replace (S r - r) with 1 by lia. reflexivity.
Qed.

Lemma PA_cons {b} c r e t r' : quiet e -> PA b c r t r' -> PA b c r (e :: t) r'.
Proof. intros He H. apply (PA_trans c r [e] r t r'); [apply PA_quiet; repeat constructor; exact He|exact H]. Qed.

Lemma PA_weaken c r t r' : PA true c r t r' -> PA false c r t r'.
Proof. intros [H1 H2]. split; [|exact H2]. revert H1. apply Forall_impl. intros []; cbn; tauto. Qed.

Lemma PA_escaped c r : PA false c r [Escaped] r.
Proof. split; [repeat constructor|]. intros. rewrite Nat.sub_diag. repeat split; lia. Qed.

Lemma invoke_start_restart_PA c : forall f,
  (forall s msgs s' t o, invoke f c s msgs = (s', t, o) -> PA true c (restarts s) t (restarts s')) /\
  (forall s s' t o, start f c s = (s', t, o) -> PA true c (restarts s) t (restarts s')) /\
  (forall s b s' t o, try_restart f c s b = (s', t, o) -> PA true c (restarts s) t (restarts s')).
Proof.
  induction f as [|f (IHi & IHs & IHr)].
  - split; [|split]; intros *; intros H;
      [rewrite invoke_0 in H|rewrite start_0 in H|rewrite try_restart_0 in H];
      injection H as <- <- <-; apply PA_quiet; repeat constructor.
  - split; [|split].
    + intros s msgs s' t o H. rewrite invoke_S in H.
      destruct (invoke_loop c s msgs 0) as [[[[s1 t1] o1] np] d] eqn:El.
      apply invoke_loop_quiet in El as [Hq Hr]. destruct o1.
      * injection H as <- <- <-. rewrite Hr. apply PA_quiet, Hq.
      * destruct (try_restart f c _ internal) as [[s2 t2] o2] eqn:Et. injection H as <- <- <-.
        apply IHr in Et. cbn in Et. rewrite Hr in Et. eapply PA_trans; [apply PA_quiet, Hq|exact Et].
    + intros s s' t o H. rewrite start_S in H. cbv zeta in H.
      destruct (recv c (upd_inc s (S (inc s))) true LInit) as [[s1 ti] oi] eqn:Ei.
      apply recv_quiet in Ei as [Hqi (_ & Hri & _)]. cbn in Hri.
      assert (H0 : PA true c (restarts s) ([Produce (inc (upd_inc s (S (inc s))))] ++ ti) (restarts s1)).
      { rewrite Hri. apply PA_quiet. constructor; [exact I|exact Hqi]. }
      destruct oi.
      2:{ destruct (try_restart f c s1 internal) as [[s2 t2] o2] eqn:Et. injection H as <- <- <-.
          apply IHr in Et. exact (PA_trans _ _ _ _ _ _ H0 Et). }
      destruct (recv c s1 true LStarted) as [[s2 ts] os] eqn:Es.
      apply recv_quiet in Es as [Hqs (_ & Hrs & _)].
      assert (H1 : PA true c (restarts s) ([Produce (inc (upd_inc s (S (inc s))))] ++ ti ++ [EvInitialized] ++ ts) (restarts s2)).
      { rewrite Hrs, Hri. apply PA_quiet. constructor; [exact I|].
        apply Forall_app; split; [exact Hqi|]. constructor; [exact I|exact Hqs]. }
      destruct os.
      2:{ destruct (try_restart f c s2 internal) as [[s3 t3] o3] eqn:Et. injection H as <- <- <-.
          apply IHr in Et. exact (PA_trans _ _ _ _ _ _ H1 Et). }
      set (t1 := [Produce _] ++ ti ++ [EvInitialized] ++ ts) in *.
      assert (H2 : PA true c (restarts s) (t1 ++ [EvStarted]) (restarts s2)).
      { eapply PA_trans; [exact H1|]. apply PA_quiet. repeat constructor. }
      assert (Hrep : exists s3 t3 o3,
        match mbuf s2 with
        | [] => (s2, [], Normal)
        | e :: l => let '(s', t', o') := invoke f c s2 (e :: l) in
                    match o' with Normal => (upd_mbuf s' [], t', Normal) | Panicking _ => (s', t', o') end
        end = (s3, t3, o3) /\ PA true c (restarts s2) t3 (restarts s3)).
      { destruct (mbuf s2) as [|e0 b0].
        - exists s2, [], Normal. split; [reflexivity|]. apply PA_quiet. constructor.
        - destruct (invoke f c s2 (e0 :: b0)) as [[sx tx] ox] eqn:Einv. apply IHi in Einv.
          destruct ox; eexists _, _, _; (split; [reflexivity|exact Einv]). }
      destruct Hrep as (s3 & t3 & o3 & Heq & H3). rewrite Heq in H. clear Heq.
      destruct o3.
      * injection H as <- <- <-.
        assert (He : PA true c (restarts s3) (snd (start_end s3)) (restarts (fst (start_end s3)))).
        { unfold start_end. destruct (dead s3); cbn [fst snd]; apply PA_quiet; repeat constructor. }
        exact (PA_trans _ _ _ _ _ _ H2 (PA_trans _ _ _ _ _ _ H3 He)).
      * destruct (try_restart f c s3 internal) as [[s4 t4] o4] eqn:Et. injection H as <- <- <-.
        apply IHr in Et. exact (PA_trans _ _ _ _ _ _ (PA_trans _ _ _ _ _ _ H2 H3) Et).
    + intros s b s' t o H. rewrite try_restart_S in H. destruct b.
      * destruct (recv c s true LStopped) as [[s1 t1] o1] eqn:E1. apply recv_quiet in E1 as [Hq (_ & Hr & _)].
        destruct o1.
        -- destruct (start f c s1) as [[s2 t2] o2] eqn:E2. injection H as <- <- <-. apply IHs in E2.
           rewrite Hr in E2. eapply PA_trans; [apply PA_quiet, Hq|].
           apply PA_cons; [exact I|exact E2].
        -- injection H as <- <- <-. rewrite Hr. apply PA_quiet, Hq.
      * destruct (Nat.eqb (restarts s) (maxr c)) eqn:Em.
        -- destruct (cleanup c s None) as [[s1 t1] o1] eqn:E1. apply cleanup_quiet in E1 as [Hq Hr].
           destruct o1; injection H as <- <- <-; cbn; rewrite Hr; apply PA_quiet.
           ++ constructor; [exact I|]. apply Forall_app; split; [exact Hq|apply hev_quiet, flat_discard_hev].
           ++ constructor; [exact I|exact Hq].
        -- apply Nat.eqb_neq in Em.
           destruct (recv c s true LStopped) as [[s1 t1] o1] eqn:E1. apply recv_quiet in E1 as [Hq (_ & Hr & _)].
           destruct o1.
           ++ cbv zeta in H. destruct (start f c (upd_restarts s1 (S (restarts s1)))) as [[s3 t3] o3] eqn:E3.
              injection H as <- <- <-. apply IHs in E3.
              cbn in E3. rewrite Hr in E3. eapply PA_trans; [apply PA_quiet, Hq|].
              rewrite Hr. apply (PA_trans c _ [EvRestarted (S (restarts s))] (S (restarts s)) (Sleep :: t3)); [apply PA_restarted, Em|].
              apply PA_cons; [exact I|exact E3].
           ++ injection H as <- <- <-. rewrite Hr. apply PA_quiet, Hq.
Qed.

Lemma run_loop_0 c s : run_loop 0 c s = (s, [OutOfFuel]).
Proof. reflexivity. Qed.

Lemma send_self_frame s e s' t : send_self s e = (s', t) -> frame s s' /\ Forall hev t.
Proof.
  unfold send_self, sent_of. destruct (registered s); intros [= <- <-];
    (split; [repeat split|destruct (emsg e); repeat constructor]).
Qed.
Lemma poison_self_frame s g s' t : poison_self s g = (s', t) -> frame s s' /\ Forall hev t.
Proof.
  unfold poison_self. destruct (registered s); intros [= <- <-]; (split; [repeat split|repeat constructor]).
Qed.

Definition ext_pre (s : pst) (x : extop) : pst * list event :=
  match x with
  | XSend n => send_self s {| emsg := User n; esnd := false |}
  | XPoison => poison_self s true
  | XStop => poison_self s false
  end.

Lemma ext_step_eq f c s x : ext_step f c s x =
  let '(s1, t1) := ext_pre s x in let '(s2, t2) := run_loop f c s1 in (s2, t1 ++ t2).
Proof. reflexivity. Qed.

Lemma ext_pre_frame s x s' t : ext_pre s x = (s', t) -> frame s s' /\ Forall hev t.
Proof. destruct x; cbn [ext_pre]; [apply send_self_frame|apply poison_self_frame|apply poison_self_frame]. Qed.

Lemma invoke_PA c f s msgs s' t o : invoke f c s msgs = (s', t, o) -> PA true c (restarts s) t (restarts s').
Proof. apply (invoke_start_restart_PA c f). Qed.
Lemma start_PA c f s s' t o : start f c s = (s', t, o) -> PA true c (restarts s) t (restarts s').
Proof. apply (invoke_start_restart_PA c f). Qed.

Lemma run_loop_PA c : forall f s s' t, run_loop f c s = (s', t) -> PA false c (restarts s) t (restarts s').
Proof.
  induction f as [|f IH]; intros s s' t H.
  - rewrite run_loop_0 in H. injection H as <- <-. apply PA_quiet. repeat constructor.
  - rewrite run_loop_S in H. destruct (istatus_stopped s).
    { injection H as <- <-. apply PA_quiet. constructor. }
    destruct (queue s) as [|e q] eqn:Eq.
    { injection H as <- <-. apply PA_quiet. constructor. }
    cbv zeta in H. destruct (invoke f c _ _) as [[s1 t1] o1] eqn:Ei. apply invoke_PA, PA_weaken in Ei. cbn [restarts upd_queue] in Ei.
    destruct o1.
    + destruct (run_loop f c s1) as [s2 t2] eqn:El. injection H as <- <-. apply IH in El.
      exact (PA_trans _ _ _ _ _ _ Ei El).
    + injection H as <- <-. refine (PA_trans _ _ _ _ _ _ Ei _). apply PA_escaped.
Qed.

Lemma spawn_PA c f s' t : spawn f c = (s', t) -> PA false c 0 t (restarts s').
Proof.
  unfold spawn. destruct (start f c init_pst) as [[s1 t1] o1] eqn:Es. apply start_PA, PA_weaken in Es. cbn [restarts init_pst] in Es.
  destruct o1.
  - destruct (run_loop f c s1) as [s2 t2] eqn:El. intros [= <- <-]. apply run_loop_PA in El.
    exact (PA_trans _ _ _ _ _ _ Es El).
  - intros [= <- <-]. refine (PA_trans _ _ _ _ _ _ Es _). apply PA_escaped.
Qed.

Lemma ext_step_PA c f s x s' t : ext_step f c s x = (s', t) -> PA false c (restarts s) t (restarts s').
Proof.
  rewrite ext_step_eq. destruct (ext_pre s x) as [s1 t1] eqn:E1. apply ext_pre_frame in E1 as [(_ & Hr & _) Hh].
  destruct (run_loop f c s1) as [s2 t2] eqn:El. intros [= <- <-]. apply run_loop_PA in El. rewrite Hr in El.
  refine (PA_trans _ _ _ _ _ _ _ El). apply PA_quiet, hev_quiet, Hh.
Qed.

Lemma ext_steps_PA c f : forall xs s s' t, ext_steps f c s xs = (s', t) -> PA false c (restarts s) t (restarts s').
Proof.
  induction xs as [|x xs IH]; intros s s' t H; cbn [ext_steps] in H.
  - injection H as <- <-. apply PA_quiet. constructor.
  - destruct (ext_step f c s x) as [s1 t1] eqn:E1. apply ext_step_PA in E1.
    destruct (has_escaped t1).
    + injection H as <- <-. exact E1.
    + destruct (ext_steps f c s1 xs) as [s2 t2] eqn:E2. injection H as <- <-. apply IH in E2.
      exact (PA_trans _ _ _ _ _ _ E1 E2).
Qed.

Lemma run_PA c f xs s' t : run f c xs = (s', t) -> PA false c 0 t (restarts s').
Proof.
  unfold run. destruct (spawn f c) as [s1 t1] eqn:E1. apply spawn_PA in E1.
  destruct (has_escaped t1).
  - intros [= <- <-]. exact E1.
  - destruct (ext_steps f c s1 xs) as [s2 t2] eqn:E2. intros [= <- <-]. apply ext_steps_PA in E2.
    exact (PA_trans _ _ _ _ _ _ E1 E2).
Qed.

(** C13: every delivery of a run went through the middleware chain *)
Theorem C13_every_delivery_through_chain_thm :
  forall f c xs s t, run f c xs = (s, t) ->
  forall i mw m sd, In (Recv i mw m sd) t -> mw = true.
Proof.
  intros f c xs s t H i mw m sd Hin. apply run_PA in H as [Hm _].
  rewrite Forall_forall in Hm. exact (Hm _ Hin).
Qed.

Lemma forallb_or_full_recvs t : Forall mw_ok t -> forallb or_full (recvs_of t) = true.
Proof.
  induction 1 as [|e t He _ IH]; [reflexivity|]. destruct e; cbn in *; try exact IH. rewrite He. exact IH.
Qed.

(** C06: at most MaxRestarts restarts; C05: the counters published are 1, 2, 3, … *)
Theorem C06_restarts_bounded_thm :
  forall f c xs s t, run f c xs = (s, t) ->
  length (restarted_counters (events_of t)) <= maxr c /\
  restarted_counters (events_of t) = seq 1 (length (restarted_counters (events_of t))) /\
  length (restarted_counters (events_of t)) = restarts s.
Proof.
  intros f c xs s t H. apply run_PA in H as [_ H]. destruct (H (Nat.le_0_l _)) as (_ & Hle & Heq).
  rewrite rcs_events, Heq, seq_length, Nat.sub_0_r. repeat split; [exact Hle].
Qed.

(* ------------------------------------------------------------------ *)
(** * B. The Stopped handler does not panic: nothing escapes (C05) *)

Definition nopanic (a : action) : Prop := a <> APanic /\ a <> APanicInternal.

(* A panic raised by the Stopped handler is raised from inside the recover
   path (tryRestart / cleanup run in the deferred function): nothing above it
   recovers, in the model as in process.go, and the panic leaves the worker
   goroutine.  Containment is therefore stated for receivers whose Stopped
   handler does not panic. *)
Definition stopped_safe (c : cfg) : Prop := forall i, Forall nopanic (scr c i LStopped).

Lemma do_actions_nopanic : forall acts, Forall nopanic acts ->
  forall s s' t o, do_actions s acts = (s', t, o) -> o = Normal.
Proof.
  induction 1 as [|a acts [Ha1 Ha2] _ IH]; intros s s' t o H; cbn [do_actions] in H.
  - injection H as <- <- <-. reflexivity.
  - destruct a; try congruence;
      match type of H with (let '(_, _) := ?X in _) = _ => destruct X as [s1 t1] end;
      destruct (do_actions s1 acts) as [[s2 t2] o2] eqn:E2; injection H as <- <- <-; eapply IH; exact E2.
Qed.

Lemma recv_stopped_safe c s mw s' t o : stopped_safe c -> recv c s mw LStopped = (s', t, o) -> o = Normal.
Proof. intros Hs H. apply recv_inv in H as (ta & _ & H). eapply do_actions_nopanic; [apply Hs|exact H]. Qed.

Lemma cleanup_safe c s k s' t o : stopped_safe c -> cleanup c s k = (s', t, o) -> o = Normal.
Proof.
  intros Hs. unfold cleanup, deliver_stopped. destruct (recv c _ true LStopped) as [[s1 t1] o1] eqn:E.
  apply recv_stopped_safe in E; [|exact Hs]. subst o1. intros [= <- <- <-]. reflexivity.
Qed.

(** ** Big-step relations of completed runs

    [Invoke_s c s msgs s' t]: Invoke on [msgs] from state [s] ran to completion
    (all nested restarts included), ending in [s'] with trace [t]; likewise
    [Start_s] and [Restart_s].  Every run of the fuel functions that did not
    run out of fuel is such a derivation when the Stopped handler does not
    panic ([safe_sound]); the invariants below are proved by induction on
    these derivations. *)
Inductive Invoke_s (c : cfg) : pst -> list env -> pst -> list event -> Prop :=
| IvNormal s msgs s' t np d :
    invoke_loop c s msgs 0 = (s', t, Normal, np, d) -> Invoke_s c s msgs s' t
| IvPanic s msgs s1 t1 b np d s' t2 :
    invoke_loop c s msgs 0 = (s1, t1, Panicking b, np, d) ->
    Restart_s c (upd_mbuf s1 (rbuf d np msgs)) b s' t2 ->
    Invoke_s c s msgs s' (t1 ++ t2)
with Start_s (c : cfg) : pst -> pst -> list event -> Prop :=
| StInitPanic s si ti b s' t' :
    recv c (upd_inc s (S (inc s))) true LInit = (si, ti, Panicking b) ->
    Restart_s c si b s' t' ->
    Start_s c s s' (Produce (S (inc s)) :: ti ++ t')
| StStartedPanic s si ti s2 ts b s' t' :
    recv c (upd_inc s (S (inc s))) true LInit = (si, ti, Normal) ->
    recv c si true LStarted = (s2, ts, Panicking b) ->
    Restart_s c s2 b s' t' ->
    Start_s c s s' (Produce (S (inc s)) :: ti ++ EvInitialized :: ts ++ t')
| StEmpty s si ti s2 ts :
    recv c (upd_inc s (S (inc s))) true LInit = (si, ti, Normal) ->
    recv c si true LStarted = (s2, ts, Normal) ->
    mbuf s2 = [] ->
    Start_s c s (fst (start_end s2))
      (Produce (S (inc s)) :: ti ++ EvInitialized :: ts ++ EvStarted :: snd (start_end s2))
| StReplay s si ti s2 ts s3 t3 :
    recv c (upd_inc s (S (inc s))) true LInit = (si, ti, Normal) ->
    recv c si true LStarted = (s2, ts, Normal) ->
    mbuf s2 <> [] ->
    Invoke_s c s2 (mbuf s2) s3 t3 ->
    Start_s c s (fst (start_end (upd_mbuf s3 [])))
      (Produce (S (inc s)) :: ti ++ EvInitialized :: ts ++ EvStarted :: t3 ++ snd (start_end (upd_mbuf s3 [])))
with Restart_s (c : cfg) : pst -> bool -> pst -> list event -> Prop :=
| RsInternal s s1 t1 s' t' :
    recv c s true LStopped = (s1, t1, Normal) ->
    Start_s c s1 s' t' ->
    Restart_s c s true s' (t1 ++ Sleep :: t')
| RsMax s s1 t1 :
    restarts s = maxr c ->
    cleanup c s None = (s1, t1, Normal) ->
    Restart_s c s false (upd_mbuf s1 []) (EvMaxRestarts :: t1 ++ flat_map discard (mbuf s1))
| RsRestart s s1 t1 s' t3 :
    restarts s <> maxr c ->
    recv c s true LStopped = (s1, t1, Normal) ->
    Start_s c (upd_restarts s1 (S (restarts s1))) s' t3 ->
    Restart_s c s false s' (t1 ++ EvRestarted (S (restarts s1)) :: Sleep :: t3).

Scheme Invoke_s_mut := Minimality for Invoke_s Sort Prop
  with Start_s_mut := Minimality for Start_s Sort Prop
  with Restart_s_mut := Minimality for Restart_s Sort Prop.
Combined Scheme safe_mutind from Invoke_s_mut, Start_s_mut, Restart_s_mut.

Lemma Invoke_s_eq c s m s' t t' : Invoke_s c s m s' t -> t = t' -> Invoke_s c s m s' t'.
Proof. intros H <-. exact H. Qed.
Lemma Start_s_eq c s s' t t' : Start_s c s s' t -> t = t' -> Start_s c s s' t'.
Proof. intros H <-. exact H. Qed.
Lemma Restart_s_eq c s b s' t t' : Restart_s c s b s' t -> t = t' -> Restart_s c s b s' t'.
Proof. intros H <-. exact H. Qed.

Lemma oof_app_false a b : out_of_fuel (a ++ b) = false -> out_of_fuel a = false /\ out_of_fuel b = false.
Proof. rewrite out_of_fuel_app. apply orb_false_iff. Qed.

Lemma oof_cons_false e t : out_of_fuel (e :: t) = false -> out_of_fuel t = false.
Proof. unfold out_of_fuel. cbn [existsb]. intros H. apply orb_false_iff in H. tauto. Qed.

Ltac trace_eq := cbn [app]; rewrite <- ?app_assoc; cbn [app]; reflexivity.

Lemma safe_sound c (Hs : stopped_safe c) : forall f,
  (forall s msgs s' t o, invoke f c s msgs = (s', t, o) -> out_of_fuel t = false ->
     o = Normal /\ Invoke_s c s msgs s' t) /\
  (forall s s' t o, start f c s = (s', t, o) -> out_of_fuel t = false ->
     o = Normal /\ Start_s c s s' t) /\
  (forall s b s' t o, try_restart f c s b = (s', t, o) -> out_of_fuel t = false ->
     o = Normal /\ Restart_s c s b s' t).
Proof.
  induction f as [|f (IHi & IHs & IHr)].
  - split; [|split]; intros *; intros H Hf;
      [rewrite invoke_0 in H|rewrite start_0 in H|rewrite try_restart_0 in H];
      injection H as <- <- <-; discriminate Hf.
  - split; [|split].
    + intros s msgs s' t o H Hf. rewrite invoke_S in H.
      destruct (invoke_loop c s msgs 0) as [[[[s1 t1] o1] np] d] eqn:El. destruct o1.
      * injection H as <- <- <-. split; [reflexivity|]. eapply IvNormal; exact El.
      * destruct (try_restart f c _ internal) as [[s2 t2] o2] eqn:Et. injection H as <- <- <-.
        apply oof_app_false in Hf as [Hf1 Hf2]. destruct (IHr _ _ _ _ _ Et Hf2) as [-> Hr].
        split; [reflexivity|]. eapply IvPanic; eassumption.
    + intros s s' t o H Hf. rewrite start_S in H. cbv zeta in H.
      destruct (recv c (upd_inc s (S (inc s))) true LInit) as [[s1 ti] oi] eqn:Ei. destruct oi.
      2:{ destruct (try_restart f c s1 internal) as [[sx tx] ox] eqn:Et. injection H as <- <- <-.
          apply oof_app_false in Hf as [Hf1 Hf2]. destruct (IHr _ _ _ _ _ Et Hf2) as [-> Hr].
          split; [reflexivity|]. eapply Start_s_eq; [eapply StInitPanic; eassumption|trace_eq]. }
      destruct (recv c s1 true LStarted) as [[s2 ts] os] eqn:Es. destruct os.
      2:{ destruct (try_restart f c s2 internal) as [[sx tx] ox] eqn:Et. injection H as <- <- <-.
          apply oof_app_false in Hf as [Hf1 Hf2]. destruct (IHr _ _ _ _ _ Et Hf2) as [-> Hr].
          split; [reflexivity|]. eapply Start_s_eq; [eapply StStartedPanic; eassumption|trace_eq]. }
      destruct (mbuf s2) as [|e0 b0] eqn:Eb.
      * injection H as <- <- <-. split; [reflexivity|].
        eapply Start_s_eq; [eapply StEmpty; eassumption|trace_eq].
      * destruct (invoke f c s2 (e0 :: b0)) as [[sx tx] ox] eqn:Einv.
        destruct ox.
        -- injection H as <- <- <-. split; [reflexivity|].
           assert (Hfx : out_of_fuel tx = false).
           { apply oof_app_false in Hf as [_ Hf]. apply oof_app_false in Hf as [Hf _]. exact Hf. }
           destruct (IHi _ _ _ _ _ Einv Hfx) as [_ Hi]. rewrite <- Eb in Hi.
           eapply Start_s_eq; [eapply StReplay; try eassumption; congruence|trace_eq].
        -- destruct (try_restart f c sx internal) as [[sy ty] oy]. injection H as <- <- <-.
           assert (Hfx : out_of_fuel tx = false).
           { apply oof_app_false in Hf as [Hf _]. apply oof_app_false in Hf as [_ Hf]. exact Hf. }
           destruct (IHi _ _ _ _ _ Einv Hfx) as [Hx _]. discriminate Hx.
    + intros s b s' t o H Hf. rewrite try_restart_S in H. destruct b.
      * destruct (recv c s true LStopped) as [[s1 t1] o1] eqn:E1.
        pose proof (recv_stopped_safe _ _ _ _ _ _ Hs E1) as ->.
        destruct (start f c s1) as [[s2 t2] o2] eqn:E2. injection H as <- <- <-.
        apply oof_app_false in Hf as [Hf1 Hf2]. apply oof_cons_false in Hf2.
        destruct (IHs _ _ _ _ E2 Hf2) as [-> Hst]. split; [reflexivity|].
        eapply Restart_s_eq; [eapply RsInternal; eassumption|trace_eq].
      * destruct (Nat.eqb (restarts s) (maxr c)) eqn:Em.
        -- apply Nat.eqb_eq in Em. destruct (cleanup c s None) as [[s1 t1] o1] eqn:E1.
           pose proof (cleanup_safe _ _ _ _ _ _ Hs E1) as ->. injection H as <- <- <-.
           split; [reflexivity|]. eapply RsMax; eassumption.
        -- apply Nat.eqb_neq in Em. destruct (recv c s true LStopped) as [[s1 t1] o1] eqn:E1.
           pose proof (recv_stopped_safe _ _ _ _ _ _ Hs E1) as ->. cbv zeta in H.
           destruct (start f c (upd_restarts s1 (S (restarts s1)))) as [[s3 t3] o3] eqn:E3.
           injection H as <- <- <-. apply oof_app_false in Hf as [Hf1 Hf2]. do 2 apply oof_cons_false in Hf2.
           destruct (IHs _ _ _ _ E3 Hf2) as [-> Hst]. split; [reflexivity|].
           eapply Restart_s_eq; [eapply RsRestart; eassumption|trace_eq].
Qed.

(** ** Nothing escapes (any fuel) *)
Lemma safe_normal c (Hs : stopped_safe c) : forall f,
  (forall s msgs s' t o, invoke f c s msgs = (s', t, o) -> o = Normal) /\
  (forall s s' t o, start f c s = (s', t, o) -> o = Normal) /\
  (forall s b s' t o, try_restart f c s b = (s', t, o) -> o = Normal).
Proof.
  induction f as [|f (IHi & IHs & IHr)].
  - split; [|split]; intros *; intros H;
      [rewrite invoke_0 in H|rewrite start_0 in H|rewrite try_restart_0 in H];
      injection H as <- <- <-; reflexivity.
  - split; [|split].
    + intros s msgs s' t o H. rewrite invoke_S in H.
      destruct (invoke_loop c s msgs 0) as [[[[s1 t1] o1] np] d] eqn:El. destruct o1.
      * injection H as <- <- <-. reflexivity.
      * destruct (try_restart f c _ internal) as [[s2 t2] o2] eqn:Et. injection H as <- <- <-.
        eapply IHr; exact Et.
    + intros s s' t o H. rewrite start_S in H. cbv zeta in H.
      destruct (recv c (upd_inc s (S (inc s))) true LInit) as [[s1 ti] oi] eqn:Ei. destruct oi.
      2:{ destruct (try_restart f c s1 internal) as [[sx tx] ox] eqn:Et. injection H as <- <- <-.
          eapply IHr; exact Et. }
      destruct (recv c s1 true LStarted) as [[s2 ts] os] eqn:Es. destruct os.
      2:{ destruct (try_restart f c s2 internal) as [[sx tx] ox] eqn:Et. injection H as <- <- <-.
          eapply IHr; exact Et. }
      destruct (mbuf s2) as [|e0 b0] eqn:Eb.
      * injection H as <- <- <-. reflexivity.
      * destruct (invoke f c s2 (e0 :: b0)) as [[sx tx] ox] eqn:Einv.
        pose proof (IHi _ _ _ _ _ Einv) as ->. injection H as <- <- <-. reflexivity.
    + intros s b s' t o H. rewrite try_restart_S in H. destruct b.
      * destruct (recv c s true LStopped) as [[s1 t1] o1] eqn:E1.
        pose proof (recv_stopped_safe _ _ _ _ _ _ Hs E1) as ->.
        destruct (start f c s1) as [[s2 t2] o2] eqn:E2. injection H as <- <- <-. eapply IHs; exact E2.
      * destruct (Nat.eqb (restarts s) (maxr c)) eqn:Em.
        -- destruct (cleanup c s None) as [[s1 t1] o1] eqn:E1.
           pose proof (cleanup_safe _ _ _ _ _ _ Hs E1) as ->. injection H as <- <- <-. reflexivity.
        -- destruct (recv c s true LStopped) as [[s1 t1] o1] eqn:E1.
           pose proof (recv_stopped_safe _ _ _ _ _ _ Hs E1) as ->. cbv zeta in H.
           destruct (start f c (upd_restarts s1 (S (restarts s1)))) as [[s3 t3] o3] eqn:E3.
           injection H as <- <- <-. eapply IHs; exact E3.
Qed.

Lemma strict_noesc t : Forall (mw_okb true) t -> has_escaped t = false.
Proof.
  induction 1 as [|e t He _ IH]; [reflexivity|]. unfold has_escaped. cbn [existsb].
  fold (has_escaped t). rewrite IH. destruct e; cbn in He; try reflexivity. discriminate.
Qed.

Lemma hev_noesc t : Forall hev t -> has_escaped t = false.
Proof.
  induction 1 as [|e t He _ IH]; [reflexivity|]. unfold has_escaped. cbn [existsb].
  fold (has_escaped t). rewrite IH. destruct e; cbn in He; try reflexivity; contradiction.
Qed.

Lemma invoke_noesc c f s msgs s' t o : invoke f c s msgs = (s', t, o) -> has_escaped t = false.
Proof. intros H. apply invoke_PA in H as [H _]. apply strict_noesc, H. Qed.
Lemma start_noesc c f s s' t o : start f c s = (s', t, o) -> has_escaped t = false.
Proof. intros H. apply start_PA in H as [H _]. apply strict_noesc, H. Qed.

Lemma run_loop_noesc c (Hs : stopped_safe c) : forall f s s' t, run_loop f c s = (s', t) -> has_escaped t = false.
Proof.
  induction f as [|f IH]; intros s s' t H.
  - rewrite run_loop_0 in H. injection H as <- <-. reflexivity.
  - rewrite run_loop_S in H. destruct (istatus_stopped s); [injection H as <- <-; reflexivity|].
    destruct (queue s) as [|e q] eqn:Eq; [injection H as <- <-; reflexivity|].
    cbv zeta in H. destruct (invoke f c _ _) as [[s1 t1] o1] eqn:Ei.
    pose proof (proj1 (safe_normal c Hs f) _ _ _ _ _ Ei) as ->. apply invoke_noesc in Ei.
    destruct (run_loop f c s1) as [s2 t2] eqn:El. injection H as <- <-. apply IH in El.
    rewrite has_escaped_app, Ei, El. reflexivity.
Qed.

Lemma spawn_noesc c (Hs : stopped_safe c) f s' t : spawn f c = (s', t) -> has_escaped t = false.
Proof.
  unfold spawn. destruct (start f c init_pst) as [[s1 t1] o1] eqn:Es.
  pose proof (proj1 (proj2 (safe_normal c Hs f)) _ _ _ _ Es) as ->. apply start_noesc in Es.
  destruct (run_loop f c s1) as [s2 t2] eqn:El. intros [= <- <-]. apply run_loop_noesc in El; [|exact Hs].
  rewrite has_escaped_app, Es, El. reflexivity.
Qed.

Lemma ext_step_noesc c (Hs : stopped_safe c) f s x s' t : ext_step f c s x = (s', t) -> has_escaped t = false.
Proof.
  rewrite ext_step_eq. destruct (ext_pre s x) as [s1 t1] eqn:E1. apply ext_pre_frame in E1 as [_ Hh].
  destruct (run_loop f c s1) as [s2 t2] eqn:El. intros [= <- <-]. apply run_loop_noesc in El; [|exact Hs].
  rewrite has_escaped_app, El, (hev_noesc _ Hh). reflexivity.
Qed.

Lemma ext_steps_noesc c (Hs : stopped_safe c) f : forall xs s s' t, ext_steps f c s xs = (s', t) -> has_escaped t = false.
Proof.
  induction xs as [|x xs IH]; intros s s' t H; cbn [ext_steps] in H.
  - injection H as <- <-. reflexivity.
  - destruct (ext_step f c s x) as [s1 t1] eqn:E1. apply ext_step_noesc in E1; [|exact Hs]. rewrite E1 in H.
    destruct (ext_steps f c s1 xs) as [s2 t2] eqn:E2. injection H as <- <-. apply IH in E2.
    rewrite has_escaped_app, E1, E2. reflexivity.
Qed.

(** C05: a panic of Receive (Initialized, Started or a user message, any
    incarnation, any position in a batch, during a replay or a drain) never
    leaves the actor *)
Theorem C05_contained_thm :
  forall f c xs s t, stopped_safe c -> run f c xs = (s, t) -> has_escaped t = false.
Proof.
  intros f c xs s t Hs. unfold run. destruct (spawn f c) as [s1 t1] eqn:E1.
  apply spawn_noesc in E1; [|exact Hs]. rewrite E1.
  destruct (ext_steps f c s1 xs) as [s2 t2] eqn:E2. intros [= <- <-]. apply ext_steps_noesc in E2; [|exact Hs].
  rewrite has_escaped_app, E1, E2. reflexivity.
Qed.

(** ** Completed scenarios as derivations *)
Inductive RunLoop_s (c : cfg) : pst -> pst -> list event -> Prop :=
| RlStopped s : istatus_stopped s = true -> RunLoop_s c s s []
| RlEmpty s : istatus_stopped s = false -> queue s = [] -> RunLoop_s c s s []
| RlStep s s1 t1 s2 t2 :
    istatus_stopped s = false -> queue s <> [] ->
    Invoke_s c (upd_queue s (skipn (batch c) (queue s))) (firstn (batch c) (queue s)) s1 t1 ->
    RunLoop_s c s1 s2 t2 ->
    RunLoop_s c s s2 (t1 ++ t2).

Inductive Exts_s (c : cfg) : pst -> list extop -> pst -> list event -> Prop :=
| ExNil s : Exts_s c s [] s []
| ExCons s x s1 t1 s2 t2 xs s3 t3 :
    ext_pre s x = (s1, t1) -> RunLoop_s c s1 s2 t2 -> Exts_s c s2 xs s3 t3 ->
    Exts_s c s (x :: xs) s3 (t1 ++ t2 ++ t3).

Inductive Run_s (c : cfg) (xs : list extop) : pst -> list event -> Prop :=
| RunS s0 t0 s1 t1 s2 t2 :
    Start_s c init_pst s0 t0 -> RunLoop_s c s0 s1 t1 -> Exts_s c s1 xs s2 t2 ->
    Run_s c xs s2 (t0 ++ t1 ++ t2).

Lemma run_loop_sound c (Hs : stopped_safe c) : forall f s s' t,
  run_loop f c s = (s', t) -> out_of_fuel t = false -> RunLoop_s c s s' t.
Proof.
  induction f as [|f IH]; intros s s' t H Hf.
  - rewrite run_loop_0 in H. injection H as <- <-. discriminate Hf.
  - rewrite run_loop_S in H. destruct (istatus_stopped s) eqn:Ei; [injection H as <- <-; apply RlStopped, Ei|].
    destruct (queue s) as [|e q] eqn:Eq; [injection H as <- <-; apply RlEmpty; assumption|].
    cbv zeta in H. destruct (invoke f c _ _) as [[s1 t1] o1] eqn:Einv.
    pose proof (proj1 (safe_normal c Hs f) _ _ _ _ _ Einv) as ->.
    destruct (run_loop f c s1) as [s2 t2] eqn:El. injection H as <- <-.
    apply oof_app_false in Hf as [Hf1 Hf2].
    destruct (proj1 (safe_sound c Hs f) _ _ _ _ _ Einv Hf1) as [_ Hi].
    rewrite <- Eq in Hi. eapply RlStep; [exact Ei|congruence|exact Hi|]. apply IH; assumption.
Qed.

Lemma ext_steps_sound c (Hs : stopped_safe c) f : forall xs s s' t,
  ext_steps f c s xs = (s', t) -> out_of_fuel t = false -> Exts_s c s xs s' t.
Proof.
  induction xs as [|x xs IH]; intros s s' t H Hf; cbn [ext_steps] in H.
  - injection H as <- <-. constructor.
  - destruct (ext_step f c s x) as [s1 t1] eqn:E1.
    rewrite (ext_step_noesc c Hs _ _ _ _ _ E1) in H.
    destruct (ext_steps f c s1 xs) as [s2 t2] eqn:E2. injection H as <- <-.
    rewrite ext_step_eq in E1. destruct (ext_pre s x) as [sa ta] eqn:Ea.
    destruct (run_loop f c sa) as [sb tb] eqn:Eb. injection E1 as <- <-.
    apply oof_app_false in Hf as [Hf1 Hf2]. apply oof_app_false in Hf1 as [_ Hf1].
    rewrite <- app_assoc. eapply ExCons; [exact Ea|eapply run_loop_sound; eassumption|apply IH; assumption].
Qed.

Lemma run_sound c (Hs : stopped_safe c) f xs s t :
  run f c xs = (s, t) -> out_of_fuel t = false -> Run_s c xs s t.
Proof.
  unfold run. destruct (spawn f c) as [s1 t1] eqn:E1.
  rewrite (spawn_noesc c Hs _ _ _ E1). destruct (ext_steps f c s1 xs) as [s2 t2] eqn:E2.
  intros [= <- <-] Hf. unfold spawn in E1. destruct (start f c init_pst) as [[sa ta] oa] eqn:Ea.
  pose proof (proj1 (proj2 (safe_normal c Hs f)) _ _ _ _ Ea) as ->.
  destruct (run_loop f c sa) as [sb tb] eqn:Eb. injection E1 as <- <-.
  apply oof_app_false in Hf as [Hf1 Hf2]. apply oof_app_false in Hf1 as [Hf0 Hf1].
  rewrite <- app_assoc. eapply RunS.
  - apply (proj1 (proj2 (safe_sound c Hs f)) _ _ _ _ Ea Hf0).
  - eapply run_loop_sound; eassumption.
  - eapply ext_steps_sound; eassumption.
Qed.

(* ------------------------------------------------------------------ *)
(** * C. The lifecycle monitor *)

(* control points between the observable steps of process.go *)
Inductive ctl :=
| PFresh          (* nothing yet: Produce 1 comes next *)
| PProduced       (* Producer called: Initialized comes next *)
| PInitH          (* in / after the Initialized handler *)
| PInitialized    (* ActorInitializedEvent published: Started comes next *)
| PStartedH       (* in / after the Started handler *)
| PRun            (* ActorStartedEvent published: user messages *)
| PStoppedR       (* Stopped delivered on the restart path *)
| PRestarted      (* ActorRestartedEvent published *)
| PSlept          (* RestartDelay slept: Produce comes next *)
| PMax            (* ActorMaxRestartsExceededEvent published *)
| PInboxStopped   (* cleanup: inbox stopped, Stopped comes next *)
| PStoppedC       (* cleanup: in / after the Stopped handler *)
| PRemoved        (* unregistered *)
| PDead.          (* ActorStoppedEvent published: only dead letters and cancels *)

(* monitor state: current incarnation and phase exactly as [c04_word] counts
   them, and the control point *)
Record mst := MS { m_cur : nat; m_wph : nat; m_ctl : ctl }.

Definition mstep (m : mst) (e : event) : option mst :=
  let 'MS cur wph k := m in
  match k, e with
  | PFresh, Produce i => if (i =? 1) && (cur =? 0) then Some (MS cur wph PProduced) else None
  | PSlept, Produce i => if (i =? S cur) && (wph =? 3) then Some (MS cur wph PProduced) else None
  | PProduced, Recv i true LInit _ =>
      if (i =? S cur) && ((cur =? 0) || (wph =? 3)) then Some (MS i 1 PInitH) else None
  | PInitH, EvInitialized => Some (MS cur wph PInitialized)
  | PInitialized, Recv i true LStarted _ => if (i =? cur) && (wph =? 1) then Some (MS cur 2 PStartedH) else None
  | PStartedH, EvStarted => Some (MS cur wph PRun)
  | PRun, Recv i true (LUser _) _ => if (i =? cur) && (wph =? 2) then Some m else None
  | PRun, InboxStart _ => Some m
  | PRun, InboxStop => Some (MS cur wph PInboxStopped)
  | PInitH, Recv i true LStopped _ | PStartedH, Recv i true LStopped _ | PRun, Recv i true LStopped _ =>
      if (i =? cur) && ((wph =? 1) || (wph =? 2)) then Some (MS cur 3 PStoppedR) else None
  | PInitH, EvMaxRestarts | PStartedH, EvMaxRestarts | PRun, EvMaxRestarts => Some (MS cur wph PMax)
  | PStoppedR, EvRestarted _ => Some (MS cur wph PRestarted)
  | PStoppedR, Sleep => Some (MS cur wph PSlept)
  | PRestarted, Sleep => Some (MS cur wph PSlept)
  | PMax, InboxStop => Some (MS cur wph PInboxStopped)
  | PInboxStopped, Recv i true LStopped _ =>
      if (i =? cur) && ((wph =? 1) || (wph =? 2)) then Some (MS cur 3 PStoppedC) else None
  | PStoppedC, RegRemove => Some (MS cur wph PRemoved)
  | PRemoved, EvStopped => Some (MS cur wph PDead)
  | PDead, EvDeadLetter _ | PDead, Cancel _ | PDead, Sent _ => Some m
  | PInitH, Sent _ | PStartedH, Sent _ | PRun, Sent _ | PStoppedR, Sent _ | PStoppedC, Sent _ => Some m
  | PInitH, Enq _ | PStartedH, Enq _ | PRun, Enq _ | PStoppedR, Enq _ | PStoppedC, Enq _ => Some m
  | _, _ => None
  end.

Fixpoint mrun (t : list event) (m : mst) : option mst :=
  match t with
  | [] => Some m
  | e :: t' => match mstep m e with Some m' => mrun t' m' | None => None end
  end.

Lemma mrun_app t1 t2 m :
  mrun (t1 ++ t2) m = match mrun t1 m with Some m' => mrun t2 m' | None => None end.
Proof.
  revert m. induction t1 as [|e t1 IH]; intros m; [reflexivity|]. cbn [app mrun].
  destruct (mstep m e); [apply IH|reflexivity].
Qed.

Lemma mrun_app_some t1 t2 m m1 m2 : mrun t1 m = Some m1 -> mrun t2 m1 = Some m2 -> mrun (t1 ++ t2) m = Some m2.
Proof. intros H1 H2. rewrite mrun_app, H1. exact H2. Qed.

Definition senqP (e : event) : Prop := match e with Sent _ | Enq _ => True | _ => False end.
Definition deadP (e : event) : Prop := match e with Sent _ | EvDeadLetter _ | Cancel _ => True | _ => False end.
Definition hstate (k : ctl) : Prop := k = PInitH \/ k = PStartedH \/ k = PRun \/ k = PStoppedR \/ k = PStoppedC.

Lemma mrun_senq t cur w k : Forall senqP t -> hstate k -> mrun t (MS cur w k) = Some (MS cur w k).
Proof.
  intros H Hk. induction H as [|e t He _ IH]; [reflexivity|]. cbn [mrun].
  replace (mstep (MS cur w k) e) with (Some (MS cur w k)); [exact IH|].
  destruct e; try contradiction; destruct Hk as [->|[->|[->|[->| ->]]]]; reflexivity.
Qed.

Lemma mrun_dead t cur w : Forall deadP t -> mrun t (MS cur w PDead) = Some (MS cur w PDead).
Proof.
  intros H. induction H as [|e t He _ IH]; [reflexivity|]. cbn [mrun].
  replace (mstep (MS cur w PDead) e) with (Some (MS cur w PDead)); [exact IH|].
  destruct e; try contradiction; reflexivity.
Qed.

(** ** State predicates *)
Definition alive (s : pst) : Prop := dead s = false /\ registered s = true.
Definition gone (s : pst) : Prop :=
  dead s = true /\ registered s = false /\ istatus_stopped s = true /\ queue s = [].

Definition mfin (s : pst) : mst := if dead s then MS (inc s) 3 PDead else MS (inc s) 2 PRun.

Lemma mfin_alive s : alive s -> mfin s = MS (inc s) 2 PRun.
Proof. intros [H _]. unfold mfin. rewrite H. reflexivity. Qed.
Lemma mfin_gone s : gone s -> mfin s = MS (inc s) 3 PDead.
Proof. intros [H _]. unfold mfin. rewrite H. reflexivity. Qed.

(* a handler run while the actor is registered only sends and enqueues *)
Lemma do_actions_reg acts s s' t o : do_actions s acts = (s', t, o) -> registered s = true -> Forall senqP t.
Proof.
  intros H Hr.
  enough (registered s = true -> Forall senqP t /\ registered s' = true) by tauto.
  revert H. apply (do_actions_rel (fun s t s' => registered s = true -> Forall senqP t /\ registered s' = true)).
  - intros. split; [constructor|assumption].
  - intros s0 t1 s1 t2 s2 H1 H2 H0. destruct (H1 H0) as [Ha Hb]. destruct (H2 Hb) as [Hc Hd].
    split; [apply Forall_app; split; assumption|exact Hd].
  - intros s0 n b H0. unfold send_self. rewrite H0. cbn. split; [repeat constructor|exact H0].
  - intros s0 g H0. unfold poison_self. rewrite H0. cbn. split; [repeat constructor|exact H0].
Qed.

Lemma recv_reg c s m s' t o : recv c s true m = (s', t, o) -> registered s = true ->
  exists ta, t = Recv (inc s) true m (csender s) :: ta /\ Forall senqP ta /\ frame s s'.
Proof.
  intros H Hr. apply recv_inv in H as (ta & -> & H). exists ta. split; [reflexivity|].
  split; [eapply do_actions_reg; eassumption|apply do_actions_frame in H; tauto].
Qed.

Lemma alive_frame s s' : frame s s' -> alive s -> alive s'.
Proof. intros (_&_&_&_&Hd&Hr&_) [H1 H2]. split; congruence. Qed.

Lemma discard_deadP e : Forall deadP (discard e).
Proof. unfold discard. destruct (emsg e); repeat constructor. Qed.
Lemma flat_discard_deadP l : Forall deadP (flat_map discard l).
Proof. induction l; cbn; [constructor|apply Forall_app; split; [apply discard_deadP|assumption]]. Qed.
Lemma discard_rest_deadP g l : Forall deadP (discard_rest g l).
Proof.
  unfold discard_rest. induction l as [|e l IH]; cbn; [constructor|]. apply Forall_app; split; [|exact IH].
  destruct (emsg e) eqn:E; [destruct g; [constructor|]|]; unfold discard; rewrite E; repeat constructor.
Qed.

Lemma cleanup_normal_inv c s k s' t : cleanup c s k = (s', t, Normal) ->
  exists s1 t1, recv c (upd_istopped (upd_dead s true) true) true LStopped = (s1, t1, Normal) /\
    s' = upd_queue (upd_registered s1 false) [] /\
    t = InboxStop :: t1 ++ RegRemove :: EvStopped :: flat_map discard (queue s1) ++
        match k with Some k => [Cancel k] | None => [] end.
Proof.
  unfold cleanup, deliver_stopped. destruct (recv c _ true LStopped) as [[s1 t1] o1] eqn:E.
  destruct o1; [|discriminate]. intros [= <- <-]. exists s1, t1. repeat split.
Qed.

Lemma cleanup_mon c s k s' t : cleanup c s k = (s', t, Normal) -> registered s = true ->
  forall w k0, w = 1 \/ w = 2 -> k0 = PRun \/ k0 = PMax ->
  mrun t (MS (inc s) w k0) = Some (MS (inc s) 3 PDead) /\ gone s' /\ inc s' = inc s /\
  mbuf s' = mbuf s /\ restarts s' = restarts s.
Proof.
  intros H Hr w k0 Hw Hk. apply cleanup_normal_inv in H as (s1 & t1 & E & -> & ->).
  apply recv_reg in E as (ta & -> & Hta & Hf); [|exact Hr].
  destruct Hf as (Hi & Hrs & Hm & _ & Hd & Hrg & Hst). cbn in Hi, Hrs, Hm, Hd, Hrg, Hst.
  split; [|repeat split; cbn; assumption].
  cbn [mrun inc upd_istopped upd_dead].
  assert (E1 : mstep (MS (inc s) w k0) InboxStop = Some (MS (inc s) w PInboxStopped)) by (destruct Hk as [-> | ->]; reflexivity).
  rewrite E1. cbn [mstep mrun app]. rewrite Nat.eqb_refl.
  assert (E2 : (w =? 1) || (w =? 2) = true) by (destruct Hw as [-> | ->]; reflexivity).
  rewrite E2. cbn [andb]. rewrite mrun_app, (mrun_senq _ _ _ _ Hta) by (unfold hstate; tauto).
  cbn [mrun mstep]. apply mrun_dead. apply Forall_app; split; [apply flat_discard_deadP|destruct k; repeat constructor].
Qed.

Lemma invoke_msg_mon c s e s' t o : invoke_msg c s e = (s', t, o) -> alive s ->
  mrun t (MS (inc s) 2 PRun) = Some (MS (inc s) 2 PRun) /\ alive s' /\ inc s' = inc s /\
  istatus_stopped s' = istatus_stopped s.
Proof.
  unfold invoke_msg. intros H Ha. destruct (emsg e).
  - apply recv_reg in H as (ta & -> & Hta & Hf); [|apply Ha].
    split; [|split; [eapply alive_frame; [exact Hf|exact Ha]|destruct Hf as (?&?&?&?&?&?&?); split; assumption]].
    cbn [mrun mstep inc upd_csender]. rewrite Nat.eqb_refl. cbn. apply mrun_senq; [exact Hta|unfold hstate; tauto].
  - injection H as <- <- <-. repeat split; apply Ha.
Qed.

Lemma drain_mon c : forall l s n sk s' t o np sk', drain c s l n sk = (s', t, o, np, sk') -> alive s ->
  mrun t (MS (inc s) 2 PRun) = Some (MS (inc s) 2 PRun) /\ alive s' /\ inc s' = inc s /\
  istatus_stopped s' = istatus_stopped s.
Proof.
  induction l as [|e l IH]; intros s n sk s' t o np sk' H Ha; cbn [drain] in H.
  - injection H as <- <- <- <- <-. repeat split; apply Ha.
  - destruct (emsg e) eqn:Ee; [|eapply IH; eassumption].
    destruct (invoke_msg c s e) as [[s1 t1] o1] eqn:E1.
    apply invoke_msg_mon in E1 as (Hm1 & Ha1 & Hi1 & Hs1); [|exact Ha]. destruct o1.
    + destruct (drain c s1 l (S n) sk) as [[[[s2 t2] o2] np2] sk2] eqn:E2. injection H as <- <- <- <- <-.
      apply IH in E2 as (Hm2 & Ha2 & Hi2 & Hs2); [|exact Ha1]. rewrite Hi1 in Hm2.
      split; [eapply mrun_app_some; eassumption|]. repeat split; try apply Ha2; congruence.
    + injection H as <- <- <- <- <-. repeat split; try apply Ha1; assumption.
Qed.

Section Monitor.
Variable c : cfg.
Hypothesis Hs : stopped_safe c.

Lemma invoke_loop_mon : forall l s n s' t o np d, invoke_loop c s l n = (s', t, o, np, d) -> alive s ->
  mrun t (MS (inc s) 2 PRun) = Some (mfin s') /\ inc s' = inc s /\
  ((alive s' /\ istatus_stopped s' = istatus_stopped s) \/ (gone s' /\ o = Normal)).
Proof.
  induction l as [|e l IH]; intros s n s' t o np d H Ha; cbn [invoke_loop] in H.
  - injection H as <- <- <- <- <-. rewrite mfin_alive by exact Ha. repeat split. left. split; [exact Ha|reflexivity].
  - destruct (emsg e) eqn:Ee.
    + destruct (invoke_msg c s e) as [[s1 t1] o1] eqn:E1.
      apply invoke_msg_mon in E1 as (Hm1 & Ha1 & Hi1 & Hs1); [|exact Ha]. destruct o1.
      * destruct (invoke_loop c s1 l (S n)) as [[[[s2 t2] o2] np2] d2] eqn:E2. injection H as <- <- <- <- <-.
        apply IH in E2 as (Hm2 & Hi2 & Hd2); [|exact Ha1]. rewrite Hi1 in Hm2.
        split; [eapply mrun_app_some; eassumption|]. split; [congruence|].
        destruct Hd2 as [[? ?]|?]; [left; split; [assumption|congruence]|right; assumption].
      * injection H as <- <- <- <- <-. rewrite mfin_alive by exact Ha1. rewrite Hi1.
        split; [exact Hm1|]. split; [reflexivity|]. left. split; assumption.
    + assert (Hd : exists s1 t1 o1 np1 sk1,
          (if graceful then drain c s l (S n) [] else (s, [], Normal, S n, [])) = (s1, t1, o1, np1, sk1) /\
          mrun t1 (MS (inc s) 2 PRun) = Some (MS (inc s) 2 PRun) /\ alive s1 /\ inc s1 = inc s /\
          istatus_stopped s1 = istatus_stopped s).
      { destruct graceful.
        - destruct (drain c s l (S n) []) as [[[[s1 t1] o1] np1] sk1] eqn:E1. exists s1, t1, o1, np1, sk1.
          split; [reflexivity|]. eapply drain_mon; eassumption.
        - exists s, [], Normal, (S n), []. repeat split; apply Ha. }
      destruct Hd as (s1 & t1 & o1 & np1 & sk1 & Heq & Hm1 & Ha1 & Hi1 & Hs1). rewrite Heq in H. clear Heq.
      destruct o1.
      * destruct (cleanup c s1 (Some k)) as [[s2 t2] o2] eqn:E2.
        pose proof (cleanup_safe _ _ _ _ _ _ Hs E2) as ->.
        apply cleanup_mon with (w := 2) (k0 := PRun) in E2 as (Hm2 & Hg2 & Hi2 & _); [|apply Ha1|tauto|tauto].
        injection H as <- <- <- <- <-. rewrite (mfin_gone _ Hg2), Hi2, Hi1.
        split; [|split; [reflexivity|right; split; [exact Hg2|reflexivity]]].
        rewrite Hi1 in Hm2. eapply mrun_app_some; [exact Hm1|]. eapply mrun_app_some; [exact Hm2|].
        apply mrun_dead, discard_rest_deadP.
      * injection H as <- <- <- <- <-. rewrite (mfin_alive _ Ha1), Hi1.
        split; [exact Hm1|]. split; [reflexivity|]. left. split; assumption.
Qed.

Definition start_pre (s : pst) (m : mst) : Prop :=
  m = MS (inc s) 3 PSlept \/ (inc s = 0 /\ m = MS 0 0 PFresh).
Definition tr_pre (s : pst) (m : mst) : Prop :=
  m = MS (inc s) 1 PInitH \/ m = MS (inc s) 2 PStartedH \/ m = MS (inc s) 2 PRun.
Definition opened (s' : pst) : Prop := (alive s' /\ istatus_stopped s' = false) \/ gone s'.

Lemma start_pre_steps s m sd rest : start_pre s m ->
  mrun (Produce (S (inc s)) :: Recv (S (inc s)) true LInit sd :: rest) m = mrun rest (MS (S (inc s)) 1 PInitH).
Proof.
  intros [-> | [H0 ->]].
  - cbn [mrun mstep]. rewrite Nat.eqb_refl. cbn [andb Nat.eqb mrun mstep]. rewrite Nat.eqb_refl, orb_true_r. reflexivity.
  - rewrite H0. reflexivity.
Qed.

Lemma tr_pre_stopped s m sd : tr_pre s m ->
  mstep m (Recv (inc s) true LStopped sd) = Some (MS (inc s) 3 PStoppedR).
Proof. intros [-> | [-> | ->]]; cbn [mstep]; rewrite Nat.eqb_refl; reflexivity. Qed.

Lemma tr_pre_max s m : tr_pre s m ->
  exists w, (w = 1 \/ w = 2) /\ mstep m EvMaxRestarts = Some (MS (inc s) w PMax).
Proof. intros [-> | [-> | ->]]; eexists; (split; [|reflexivity]); tauto. Qed.

Lemma start_end_opened s3 : alive s3 \/ gone s3 ->
  mrun (snd (start_end s3)) (mfin s3) = Some (mfin (fst (start_end s3))) /\ opened (fst (start_end s3)).
Proof.
  unfold start_end, mfin. intros [Ha|Hg].
  - destruct Ha as [Hd Hr]. rewrite Hd. cbn [fst snd dead upd_istopped]. rewrite Hd. split; [reflexivity|].
    left. repeat split; assumption.
  - pose proof Hg as (Hd & _). rewrite Hd. cbn [fst snd]. rewrite Hd. split; [reflexivity|right; exact Hg].
Qed.

Theorem safe_mon :
  (forall s msgs s' t, Invoke_s c s msgs s' t -> alive s ->
     mrun t (MS (inc s) 2 PRun) = Some (mfin s') /\
     ((alive s' /\ (istatus_stopped s = false -> istatus_stopped s' = false)) \/ gone s')) /\
  (forall s s' t, Start_s c s s' t -> alive s -> forall m, start_pre s m ->
     mrun t m = Some (mfin s') /\ opened s') /\
  (forall s b s' t, Restart_s c s b s' t -> alive s -> forall m, tr_pre s m ->
     mrun t m = Some (mfin s') /\ opened s').
Proof.
  apply safe_mutind.
  - (* IvNormal *) intros s msgs s' t np d El Ha.
    apply invoke_loop_mon in El as (Hm & Hi & Hd); [|exact Ha]. split; [exact Hm|].
    destruct Hd as [[? E]|[? _]]; [left; split; [assumption|rewrite E; tauto]|right; assumption].
  - (* IvPanic *) intros s msgs s1 t1 b np d s' t2 El _ IH Ha.
    apply invoke_loop_mon in El as (Hm & Hi & Hd); [|exact Ha].
    destruct Hd as [[Ha1 Hst]|[_ ?]]; [|discriminate].
    rewrite (mfin_alive _ Ha1), Hi in Hm.
    destruct (IH Ha1 (MS (inc s) 2 PRun)) as [Hm2 Ho].
    { right; right. cbn. rewrite Hi. reflexivity. }
    split; [eapply mrun_app_some; eassumption|].
    destruct Ho as [[? ?]|?]; [left; split; [assumption|tauto]|right; assumption].
  - (* StInitPanic *) intros s si ti b s' t' Ei _ IH Ha m Hp.
    apply recv_reg in Ei as (ta & -> & Hta & Hf); [|apply Ha]. cbn [inc upd_inc csender] in *.
    cbn [app]. rewrite start_pre_steps by exact Hp. rewrite mrun_app, mrun_senq by (try exact Hta; unfold hstate; tauto).
    apply IH; [eapply alive_frame; [exact Hf|exact Ha]|]. left. destruct Hf as (-> & _). reflexivity.
  - (* StStartedPanic *) intros s si ti s2 ts b s' t' Ei Es _ IH Ha m Hp.
    apply recv_reg in Ei as (ta & -> & Hta & Hf); [|apply Ha]. cbn [inc upd_inc csender] in *.
    assert (Hai : alive si) by (eapply alive_frame; [exact Hf|exact Ha]).
    assert (Hii : inc si = S (inc s)) by (destruct Hf as (-> & _); reflexivity).
    apply recv_reg in Es as (tb & -> & Htb & Hf2); [|apply Hai].
    cbn [app]. rewrite start_pre_steps by exact Hp. rewrite mrun_app, mrun_senq by (try exact Hta; unfold hstate; tauto).
    cbn [mrun mstep]. rewrite Hii, Nat.eqb_refl. cbn [andb Nat.eqb]. rewrite mrun_app, mrun_senq by (try exact Htb; unfold hstate; tauto).
    apply IH; [eapply alive_frame; [exact Hf2|exact Hai]|]. right; left. destruct Hf2 as (-> & _). rewrite Hii. reflexivity.
  - (* StEmpty *) intros s si ti s2 ts Ei Es Hb Ha m Hp.
    apply recv_reg in Ei as (ta & -> & Hta & Hf); [|apply Ha]. cbn [inc upd_inc csender] in *.
    assert (Hai : alive si) by (eapply alive_frame; [exact Hf|exact Ha]).
    assert (Hii : inc si = S (inc s)) by (destruct Hf as (-> & _); reflexivity).
    apply recv_reg in Es as (tb & -> & Htb & Hf2); [|apply Hai].
    assert (Ha2 : alive s2) by (eapply alive_frame; [exact Hf2|exact Hai]).
    assert (Hi2 : inc s2 = S (inc s)) by (destruct Hf2 as (-> & _); exact Hii).
    cbn [app]. rewrite start_pre_steps by exact Hp. rewrite mrun_app, mrun_senq by (try exact Hta; unfold hstate; tauto).
    cbn [mrun mstep]. rewrite Hii, Nat.eqb_refl. cbn [andb Nat.eqb]. rewrite mrun_app, mrun_senq by (try exact Htb; unfold hstate; tauto).
    cbn [mrun mstep]. rewrite <- Hi2, <- (mfin_alive _ Ha2). apply start_end_opened. left; exact Ha2.
  - (* StReplay *) intros s si ti s2 ts s3 t3 Ei Es Hb _ IH Ha m Hp.
    apply recv_reg in Ei as (ta & -> & Hta & Hf); [|apply Ha]. cbn [inc upd_inc csender] in *.
    assert (Hai : alive si) by (eapply alive_frame; [exact Hf|exact Ha]).
    assert (Hii : inc si = S (inc s)) by (destruct Hf as (-> & _); reflexivity).
    apply recv_reg in Es as (tb & -> & Htb & Hf2); [|apply Hai].
    assert (Ha2 : alive s2) by (eapply alive_frame; [exact Hf2|exact Hai]).
    assert (Hi2 : inc s2 = S (inc s)) by (destruct Hf2 as (-> & _); exact Hii).
    cbn [app]. rewrite start_pre_steps by exact Hp. rewrite mrun_app, mrun_senq by (try exact Hta; unfold hstate; tauto).
    cbn [mrun mstep]. rewrite Hii, Nat.eqb_refl. cbn [andb Nat.eqb]. rewrite mrun_app, mrun_senq by (try exact Htb; unfold hstate; tauto).
    cbn [mrun mstep]. destruct (IH Ha2) as [Hm3 Hd3]. rewrite Hi2 in Hm3. rewrite mrun_app, Hm3.
    change (mfin s3) with (mfin (upd_mbuf s3 [])). apply start_end_opened.
    destruct Hd3 as [[? _]|?]; [left|right]; assumption.
  - (* RsInternal *) intros s s1 t1 s' t' E1 _ IH Ha m Hp.
    apply recv_reg in E1 as (ta & -> & Hta & Hf); [|apply Ha].
    cbn [app mrun]. rewrite (tr_pre_stopped _ _ _ Hp). rewrite mrun_app, mrun_senq by (try exact Hta; unfold hstate; tauto).
    cbn [mrun mstep]. apply IH; [eapply alive_frame; [exact Hf|exact Ha]|]. left. destruct Hf as (-> & _). reflexivity.
  - (* RsMax *) intros s s1 t1 Hmax E1 Ha m Hp.
    destruct (tr_pre_max _ _ Hp) as (w & Hw & Em). cbn [mrun]. rewrite Em.
    apply cleanup_mon with (w := w) (k0 := PMax) in E1 as (Hm1 & Hg1 & Hi1 & _); [|apply Ha|exact Hw|tauto].
    assert (Hg : gone (upd_mbuf s1 [])) by exact Hg1.
    rewrite (mfin_gone _ Hg). cbn [inc upd_mbuf]. rewrite Hi1. split; [|right; exact Hg].
    eapply mrun_app_some; [exact Hm1|]. apply mrun_dead, flat_discard_deadP.
  - (* RsRestart *) intros s s1 t1 s' t3 Hne E1 _ IH Ha m Hp.
    apply recv_reg in E1 as (ta & -> & Hta & Hf); [|apply Ha].
    cbn [app mrun]. rewrite (tr_pre_stopped _ _ _ Hp). rewrite mrun_app, mrun_senq by (try exact Hta; unfold hstate; tauto).
    cbn [mrun mstep]. apply IH; [exact (alive_frame _ _ Hf Ha)|].
    left. cbn. destruct Hf as (-> & _). reflexivity.
Qed.

End Monitor.

(** ** Every completed scenario is accepted by the monitor *)
Section MonitorRun.
Variable c : cfg.
Hypothesis Hs : stopped_safe c.

Lemma opened_mfin_alive s : opened s -> istatus_stopped s = false -> alive s.
Proof. intros [[H _]|(_ & _ & H & _)] E; [exact H|congruence]. Qed.

Lemma RunLoop_mon s s' t : RunLoop_s c s s' t -> opened s -> mrun t (mfin s) = Some (mfin s') /\ opened s'.
Proof.
  induction 1 as [s E|s E Eq|s s1 t1 s2 t2 E Eq Hi _ IH]; intros Ho.
  - split; [reflexivity|exact Ho].
  - split; [reflexivity|exact Ho].
  - pose proof (opened_mfin_alive _ Ho E) as Ha.
    destruct (proj1 (safe_mon c Hs) _ _ _ _ Hi) as [Hm Hd]; [exact Ha|].
    cbn [inc upd_queue istatus_stopped] in Hm, Hd.
    assert (Ho1 : opened s1) by (destruct Hd as [[? H1]|?]; [left; split; [assumption|exact (H1 E)]|right; assumption]).
    destruct (IH Ho1) as [Hm2 Ho2]. split; [|exact Ho2].
    rewrite (mfin_alive _ Ha). eapply mrun_app_some; eassumption.
Qed.

Lemma ext_pre_mon s x s1 t1 : ext_pre s x = (s1, t1) -> opened s -> mrun t1 (mfin s) = Some (mfin s1) /\ opened s1.
Proof.
  intros H Ho.
  assert (Hcase : (registered s = true /\ Forall senqP t1 /\ frame s s1 /\ (alive s -> queue s1 <> [] \/ True)) \/
                  (registered s = false /\ Forall deadP t1 /\ frame s s1 /\ queue s1 = queue s)).
  { destruct (registered s) eqn:Er; [left|right].
    - destruct x; cbn [ext_pre] in H; unfold send_self, poison_self in H; rewrite Er in H; injection H as <- <-;
        cbn; repeat split; repeat constructor; tauto.
    - destruct x; cbn [ext_pre] in H; unfold send_self, poison_self in H; rewrite Er in H; injection H as <- <-;
        cbn; repeat split; repeat constructor. }
  destruct Ho as [[Ha Hst]|Hg].
  - destruct Hcase as [(Hr & Ht & Hf & _)|(Hr & _)]; [|destruct Ha; congruence].
    pose proof (alive_frame _ _ Hf Ha) as Ha1. rewrite (mfin_alive _ Ha), (mfin_alive _ Ha1).
    destruct Hf as (Hi & _ & _ & _ & _ & _ & Hst1). rewrite Hi.
    split; [apply mrun_senq; [exact Ht|unfold hstate; tauto]|left; split; [exact Ha1|congruence]].
  - destruct Hcase as [(Hr & _)|(Hr & Ht & Hf & Hq)]; [destruct Hg as (_ & ? & _); congruence|].
    assert (Hg1 : gone s1).
    { destruct Hg as (H1 & H2 & H3 & H4). destruct Hf as (_ & _ & _ & _ & Hd & Hrg & Hst). repeat split; congruence. }
    rewrite (mfin_gone _ Hg), (mfin_gone _ Hg1). destruct Hf as (Hi & _). rewrite Hi.
    split; [apply mrun_dead, Ht|right; exact Hg1].
Qed.

Lemma Exts_mon s xs s' t : Exts_s c s xs s' t -> opened s -> mrun t (mfin s) = Some (mfin s') /\ opened s'.
Proof.
  induction 1 as [s|s x s1 t1 s2 t2 xs s3 t3 Ep Hl _ IH]; intros Ho.
  - split; [reflexivity|exact Ho].
  - destruct (ext_pre_mon _ _ _ _ Ep Ho) as [Hm1 Ho1]. destruct (RunLoop_mon _ _ _ Hl Ho1) as [Hm2 Ho2].
    destruct (IH Ho2) as [Hm3 Ho3]. split; [|exact Ho3].
    eapply mrun_app_some; [exact Hm1|]. eapply mrun_app_some; eassumption.
Qed.

Lemma init_alive : alive init_pst.
Proof. split; reflexivity. Qed.

Lemma Start_init_mon s0 t0 : Start_s c init_pst s0 t0 -> mrun t0 (MS 0 0 PFresh) = Some (mfin s0) /\ opened s0.
Proof.
  intros H. apply (proj1 (proj2 (safe_mon c Hs)) _ _ _ H init_alive). right. split; reflexivity.
Qed.

Theorem Run_mon xs s t : Run_s c xs s t -> mrun t (MS 0 0 PFresh) = Some (mfin s) /\ opened s.
Proof.
  intros [s0 t0 s1 t1 s2 t2 H0 H1 H2].
  destruct (Start_init_mon _ _ H0) as [Hm0 Ho0]. destruct (RunLoop_mon _ _ _ H1 Ho0) as [Hm1 Ho1].
  destruct (Exts_mon _ _ _ _ H2 Ho1) as [Hm2 Ho2]. split; [|exact Ho2].
  eapply mrun_app_some; [exact Hm0|]. eapply mrun_app_some; eassumption.
Qed.

End MonitorRun.

(** ** What the monitor's language implies *)

(* case analysis of one monitor step *)
Ltac ms_inv H :=
  cbn [mstep] in H;
  repeat match type of H with
  | (if ?b then _ else _) = _ => let E := fresh "Ec" in destruct b eqn:E; [|discriminate H]
  end;
  try discriminate H.

Ltac de e := destruct e as [?i|?i [] [] ?sd| | | |?n| |?p|?k| |?b| | |?e|?n| | ].

Lemma mstep_nonrecv m e m' : mstep m e = Some m' ->
  match e with Recv _ _ _ _ => True | _ => m_cur m' = m_cur m /\ m_wph m' = m_wph m end.
Proof.
  destruct m as [cur w k]. intros H.
  destruct e; try exact I; destruct k; ms_inv H; injection H as <-; split; reflexivity.
Qed.

Lemma mstep_recv_word m i mw msg sd m' : mstep m (Recv i mw msg sd) = Some m' ->
  forall l, c04_word l (m_cur m') (m_wph m') = true ->
  c04_word ({| or_inc := i; or_msg := msg; or_snd := sd; or_full := mw |} :: l) (m_cur m) (m_wph m) = true.
Proof.
  destruct m as [cur w k]. intros H l Hl.
  destruct mw, msg; destruct k; ms_inv H; injection H as <-; cbn [m_cur m_wph] in Hl;
    cbn [c04_word or_inc or_msg m_cur m_wph];
    try (rewrite Ec, Hl; reflexivity).
  (* user message: the phase stays 2 *)
  apply andb_true_iff in Ec as [E1 E2]. apply Nat.eqb_eq in E2. subst w. rewrite E1, Hl. reflexivity.
Qed.

Theorem mrun_word : forall t m m', mrun t m = Some m' -> c04_word (recvs_of t) (m_cur m) (m_wph m) = true.
Proof.
  induction t as [|e t IH]; intros m m' H; [reflexivity|]. cbn [mrun] in H.
  destruct (mstep m e) as [m1|] eqn:E; [|discriminate]. specialize (IH _ _ H).
  destruct e as [ |i mw msg sd| | | | | | | | | | | | | | | ].
  2:{ cbn [recvs_of]. eapply mstep_recv_word; eassumption. }
  all: pose proof (mstep_nonrecv _ _ _ E) as [Hc Hw]; rewrite Hc, Hw in IH; exact IH.
Qed.

(* once the actor is being cleaned up only the cleanup sequence follows *)
Definition final_ctl (k : ctl) : Prop :=
  k = PMax \/ k = PInboxStopped \/ k = PStoppedC \/ k = PRemoved \/ k = PDead.
Definition final_ev (e : event) : Prop :=
  match e with
  | Recv _ _ LStopped _ | InboxStop | RegRemove | EvStopped | Sent _ | Enq _ | EvDeadLetter _ | Cancel _ => True
  | _ => False
  end.

Lemma mstep_final m e m' : mstep m e = Some m' -> final_ctl (m_ctl m) -> final_ctl (m_ctl m') /\ final_ev e.
Proof.
  destruct m as [cur w k]. unfold final_ctl. cbn [m_ctl]. intros H Hk.
  destruct Hk as [->|[->|[->|[->| ->]]]]; de e; ms_inv H; injection H as <-; cbn; tauto.
Qed.

Lemma mrun_final : forall t m m', mrun t m = Some m' -> final_ctl (m_ctl m) -> final_ctl (m_ctl m') /\ Forall final_ev t.
Proof.
  induction t as [|e t IH]; intros m m' H Hk; cbn [mrun] in H.
  - injection H as <-. split; [exact Hk|constructor].
  - destruct (mstep m e) as [m1|] eqn:E; [|discriminate]. destruct (mstep_final _ _ _ E Hk) as [Hk1 He].
    destruct (IH _ _ H Hk1) as [Hk' Ht]. split; [exact Hk'|constructor; assumption].
Qed.

(* after unregistering: only the Stopped event, dead letters, cancels and sends *)
Definition late_ev (e : event) : Prop := e = EvStopped \/ deadP e.

Lemma mrun_late : forall t m m', mrun t m = Some m' -> m_ctl m = PRemoved \/ m_ctl m = PDead ->
  (m_ctl m' = PRemoved \/ m_ctl m' = PDead) /\ Forall late_ev t.
Proof.
  induction t as [|e t IH]; intros m m' H Hk; cbn [mrun] in H.
  - injection H as <-. split; [exact Hk|constructor].
  - destruct (mstep m e) as [m1|] eqn:E; [|discriminate]. destruct m as [cur w k]. cbn [m_ctl] in Hk.
    assert (Hk1 : (m_ctl m1 = PRemoved \/ m_ctl m1 = PDead) /\ late_ev e).
    { unfold late_ev. destruct Hk as [-> | ->]; de e; ms_inv E; injection E as <-; cbn; tauto. }
    destruct Hk1 as [Hk1 He]. destruct (IH _ _ H Hk1) as [Hk' Ht]. split; [exact Hk'|constructor; assumption].
Qed.

Lemma mrun_from_dead : forall t cur w m', mrun t (MS cur w PDead) = Some m' -> Forall deadP t /\ m' = MS cur w PDead.
Proof.
  induction t as [|e t IH]; intros cur w m' H; cbn [mrun] in H.
  - injection H as <-. split; [constructor|reflexivity].
  - destruct (mstep (MS cur w PDead) e) as [m1|] eqn:E; [|discriminate].
    assert (m1 = MS cur w PDead /\ deadP e) as [-> He] by (de e; ms_inv E; injection E as <-; cbn; tauto).
    destruct (IH _ _ _ H) as [Ht ->]. split; [constructor; assumption|reflexivity].
Qed.

Lemma mstep_regremove m m' : mstep m RegRemove = Some m' -> m_ctl m = PStoppedC /\ m_ctl m' = PRemoved.
Proof. destruct m as [cur w k]. intros H. destruct k; ms_inv H. injection H as <-. split; reflexivity. Qed.

Lemma mstep_inboxstop m m' : mstep m InboxStop = Some m' -> m_ctl m' = PInboxStopped.
Proof. destruct m as [cur w k]. intros H. destruct k; ms_inv H; injection H as <-; reflexivity. Qed.

Lemma mstep_cancel m k m' : mstep m (Cancel k) = Some m' -> m_ctl m = PDead /\ m' = m.
Proof. destruct m as [cur w k0]. intros H. destruct k0; ms_inv H. injection H as <-. split; reflexivity. Qed.

Lemma mstep_max m m' : mstep m EvMaxRestarts = Some m' -> m_ctl m' = PMax.
Proof. destruct m as [cur w k]. intros H. destruct k; ms_inv H; injection H as <-; reflexivity. Qed.

Lemma mstep_restarted m n m' : mstep m (EvRestarted n) = Some m' ->
  m_ctl m = PStoppedR /\ m' = MS (m_cur m) (m_wph m) PRestarted.
Proof. destruct m as [cur w k]. intros H. destruct k; ms_inv H. injection H as <-. split; reflexivity. Qed.

Lemma mrun_split t1 e t2 m m' : mrun (t1 ++ e :: t2) m = Some m' ->
  exists ma mb, mrun t1 m = Some ma /\ mstep ma e = Some mb /\ mrun t2 mb = Some m'.
Proof.
  rewrite mrun_app. destruct (mrun t1 m) as [ma|]; [|discriminate]. cbn [mrun].
  destruct (mstep ma e) as [mb|] eqn:E; [|discriminate]. intros H. exists ma, mb. repeat split; assumption.
Qed.

(** C04: nothing is delivered after the actor was unregistered; nothing is
    produced or delivered to a user handler once cleanup has begun *)
Lemma mon_nothing_after_unregister t m m' t1 t2 : mrun t m = Some m' -> t = t1 ++ RegRemove :: t2 ->
  Forall late_ev t2.
Proof.
  intros H ->. apply mrun_split in H as (ma & mb & _ & E & H2). apply mstep_regremove in E as [_ E].
  eapply mrun_late; [exact H2|left; exact E].
Qed.

Lemma mon_nothing_after_inboxstop t m m' t1 t2 : mrun t m = Some m' -> t = t1 ++ InboxStop :: t2 ->
  Forall final_ev t2.
Proof.
  intros H ->. apply mrun_split in H as (ma & mb & _ & E & H2). apply mstep_inboxstop in E.
  eapply mrun_final; [exact H2|]. unfold final_ctl. rewrite E. tauto.
Qed.

(** C07: no cancel before the target has handled Stopped and was unregistered *)
Lemma deadP_no_stop t : Forall deadP t ->
  existsb (fun e => match e with Recv _ _ LStopped _ => true | RegRemove => true | _ => false end) t = false.
Proof. induction 1 as [|e t He _ IH]; [reflexivity|]. cbn [existsb]. rewrite IH. destruct e; try contradiction; reflexivity. Qed.

Theorem mon_no_early_cancel : forall t m m', mrun t m = Some m' -> early_cancels t = [].
Proof.
  induction t as [|e t IH]; intros m m' H; [reflexivity|]. cbn [mrun] in H.
  destruct (mstep m e) as [m1|] eqn:E; [|discriminate].
  destruct e; cbn [early_cancels]; try (eapply IH; exact H).
  apply mstep_cancel in E as [Ek ->]. destruct m as [cur w k0]. cbn in Ek. subst k0.
  destruct (mrun_from_dead _ _ _ _ H) as [Hd _]. rewrite (deadP_no_stop _ Hd). cbn [app]. eapply IH; exact H.
Qed.

(* a cancel is preceded by the unregistration *)
Lemma mrun_reach_dead : forall t m m', mrun t m = Some m' -> m_ctl m' = PDead \/ m_ctl m' = PRemoved ->
  m_ctl m = PDead \/ m_ctl m = PRemoved \/ In RegRemove t.
Proof.
  induction t as [|e t IH]; intros m m' H Hk; cbn [mrun] in H.
  - injection H as <-. tauto.
  - destruct (mstep m e) as [m1|] eqn:E; [|discriminate].
    destruct (IH _ _ H Hk) as [H1|[H1|H1]]; [| |right; right; right; exact H1];
      destruct m as [cur w k]; destruct m1 as [cur1 w1 k1]; cbn [m_ctl] in *; subst k1;
      destruct k; de e; ms_inv E; try (injection E as <- <-; discriminate); cbn; tauto.
Qed.

Theorem mon_cancel_after_unregister t m m' t1 k t2 : mrun t m = Some m' -> m_ctl m = PFresh ->
  t = t1 ++ Cancel k :: t2 -> In RegRemove t1 /\ Forall deadP t2.
Proof.
  intros H Hm ->. apply mrun_split in H as (ma & mb & H1 & E & H2). apply mstep_cancel in E as [Ek ->].
  split.
  - destruct (mrun_reach_dead _ _ _ H1 (or_introl Ek)) as [?|[?|?]]; [congruence|congruence|assumption].
  - destruct ma as [cur w k0]. cbn in Ek. subst k0. apply (mrun_from_dead _ _ _ _ H2).
Qed.

(** C05: the shape of a restart *)
Lemma mstep_senq m e m' : senqP e -> mstep m e = Some m' -> m' = m.
Proof. destruct m as [cur w k]. intros He H. destruct e; try contradiction; destruct k; ms_inv H; injection H as <-; reflexivity. Qed.

Lemma mrun_reach_stoppedR : forall t m m', mrun t m = Some m' -> m_ctl m' = PStoppedR ->
  (m' = m /\ Forall senqP t) \/
  (exists t1 sd h, t = t1 ++ Recv (m_cur m') true LStopped sd :: h /\ Forall senqP h).
Proof.
  induction t as [|e t IH]; intros m m' H Hk; cbn [mrun] in H.
  - injection H as <-. left. split; [reflexivity|constructor].
  - destruct (mstep m e) as [m1|] eqn:E; [|discriminate].
    destruct (IH _ _ H Hk) as [[Heq Ht]|(t1 & sd & h & -> & Hh)].
    + subst m1. destruct m as [cur w k]. destruct m' as [cur1 w1 k1]. cbn [m_ctl m_cur] in *. subst k1.
      destruct k; de e; ms_inv E. all: injection E as <- <-.
      all: try (left; split; [reflexivity|constructor; [exact I|exact Ht]]).
      all: right; apply andb_true_iff in Ec as [Ec _]; apply Nat.eqb_eq in Ec; subst.
      all: exists [], sd, t; split; [reflexivity|exact Ht].
    + right. exists (e :: t1), sd, h. split; [reflexivity|exact Hh].
Qed.

Lemma mrun_after_restarted t cur w m' : mrun t (MS cur w PRestarted) = Some m' ->
  m_ctl m' = PRun \/ m_ctl m' = PDead ->
  exists sd t', t = Sleep :: Produce (S cur) :: Recv (S cur) true LInit sd :: t'.
Proof.
  intros H Hk.
  destruct t as [|e1 t]; cbn [mrun] in H; [injection H as <-; cbn in Hk; destruct Hk; discriminate|].
  destruct (mstep _ e1) as [m1|] eqn:E1; [|discriminate]. de e1; ms_inv E1. injection E1 as <-.
  destruct t as [|e2 t]; cbn [mrun] in H; [injection H as <-; cbn in Hk; destruct Hk; discriminate|].
  destruct (mstep _ e2) as [m2|] eqn:E2; [|discriminate]. de e2; ms_inv E2. injection E2 as <-.
  apply andb_true_iff in Ec as [Ec _]. apply Nat.eqb_eq in Ec. subst i.
  destruct t as [|e3 t]; cbn [mrun] in H; [injection H as <-; cbn in Hk; destruct Hk; discriminate|].
  destruct (mstep _ e3) as [m3|] eqn:E3; [|discriminate]. de e3; ms_inv E3. injection E3 as <-.
  apply andb_true_iff in Ec as [Ec _]. apply Nat.eqb_eq in Ec. subst i.
  exists sd, t. reflexivity.
Qed.

Theorem mon_restart_shape t m m' t1 n t2 : mrun t m = Some m' -> m_ctl m = PFresh ->
  m_ctl m' = PRun \/ m_ctl m' = PDead ->
  t = t1 ++ EvRestarted n :: t2 ->
  exists t0 i sd h sd' t3,
    t1 = t0 ++ Recv i true LStopped sd :: h /\ Forall senqP h /\
    t2 = Sleep :: Produce (S i) :: Recv (S i) true LInit sd' :: t3.
Proof.
  intros H Hm Hk ->. apply mrun_split in H as (ma & mb & H1 & E & H2).
  apply mstep_restarted in E as [Ek ->].
  destruct (mrun_reach_stoppedR _ _ _ H1 Ek) as [[-> _]|(t0 & sd & h & -> & Hh)]; [congruence|].
  destruct (mrun_after_restarted _ _ _ _ H2 Hk) as (sd' & t3 & ->).
  exists t0, (m_cur ma), sd, h, sd', t3. repeat split. exact Hh.
Qed.

(** C06: what follows ActorMaxRestartsExceededEvent *)
Lemma mrun_from_stoppedC : forall t cur w m', mrun t (MS cur w PStoppedC) = Some m' -> m_ctl m' = PDead ->
  exists h t', t = h ++ RegRemove :: EvStopped :: t' /\ Forall senqP h /\ Forall deadP t'.
Proof.
  induction t as [|e t IH]; intros cur w m' H Hk; cbn [mrun] in H.
  - injection H as <-. discriminate Hk.
  - destruct (mstep _ e) as [m1|] eqn:E; [|discriminate]. de e; ms_inv E; injection E as <-.
    + (* RegRemove *)
      destruct t as [|e2 t]; cbn [mrun] in H; [injection H as <-; discriminate Hk|].
      destruct (mstep _ e2) as [m2|] eqn:E2; [|discriminate]. de e2; ms_inv E2. injection E2 as <-.
      exists [], t. split; [reflexivity|]. split; [constructor|]. apply (mrun_from_dead _ _ _ _ H).
    + destruct (IH _ _ _ H Hk) as (h & t' & -> & Hh & Ht'). exists (Enq e :: h), t'.
      split; [reflexivity|]. split; [constructor; [exact I|exact Hh]|exact Ht'].
    + destruct (IH _ _ _ H Hk) as (h & t' & -> & Hh & Ht'). exists (Sent n :: h), t'.
      split; [reflexivity|]. split; [constructor; [exact I|exact Hh]|exact Ht'].
Qed.

Theorem mon_after_max t m m' t1 t2 : mrun t m = Some m' ->
  m_ctl m' = PRun \/ m_ctl m' = PDead ->
  t = t1 ++ EvMaxRestarts :: t2 ->
  m_ctl m' = PDead /\
  exists i sd h t3, t2 = InboxStop :: Recv i true LStopped sd :: h ++ RegRemove :: EvStopped :: t3 /\
                    Forall senqP h /\ Forall deadP t3.
Proof.
  intros H Hk ->. apply mrun_split in H as (ma & mb & _ & E & H2). apply mstep_max in E.
  assert (Hf : final_ctl (m_ctl mb)) by (unfold final_ctl; rewrite E; tauto).
  destruct (mrun_final _ _ _ H2 Hf) as [Hf' _].
  assert (Hd : m_ctl m' = PDead).
  { destruct Hk as [Hk|Hk]; [|exact Hk]. unfold final_ctl in Hf'. rewrite Hk in Hf'.
    destruct Hf' as [?|[?|[?|[?|?]]]]; discriminate. }
  split; [exact Hd|]. destruct mb as [cur w k]. cbn in E. subst k.
  destruct t2 as [|e1 t2]; cbn [mrun] in H2; [injection H2 as <-; discriminate Hd|].
  destruct (mstep _ e1) as [m1|] eqn:E1; [|discriminate]. de e1; ms_inv E1. injection E1 as <-.
  destruct t2 as [|e2 t2]; cbn [mrun] in H2; [injection H2 as <-; discriminate Hd|].
  destruct (mstep _ e2) as [m2|] eqn:E2; [|discriminate]. de e2; ms_inv E2. injection E2 as <-.
  destruct (mrun_from_stoppedC _ _ _ _ H2 Hd) as (h & t3 & -> & Hh & Ht3).
  exists i, sd, h, t3. repeat split; assumption.
Qed.

(** C04: the incarnation that is running has handled Started *)
Lemma mrun_reach_run : forall t m m', mrun t m = Some m' -> m_ctl m' = PRun ->
  ((m_ctl m = PRun \/ m_ctl m = PStartedH) /\ m_cur m = m_cur m') \/
  (exists t1 sd t2, t = t1 ++ Recv (m_cur m') true LStarted sd :: t2).
Proof.
  induction t as [|e t IH]; intros m m' H Hk; cbn [mrun] in H.
  - injection H as <-. left. split; [left; exact Hk|reflexivity].
  - destruct (mstep m e) as [m1|] eqn:E; [|discriminate].
    destruct (IH _ _ H Hk) as [(Hk1 & Hc)|(t1 & sd & t2 & ->)].
    + destruct m as [cur w k]. destruct m1 as [cur1 w1 k1]. cbn [m_ctl m_cur] in *. subst cur1.
      destruct Hk1 as [-> | ->]; destruct k; de e; ms_inv E. all: injection E as <- <-.
      all: try (left; split; [tauto|reflexivity]).
      all: right; apply andb_true_iff in Ec as [Ec _]; apply Nat.eqb_eq in Ec; subst.
      all: exists [], sd, t; reflexivity.
    + right. exists (e :: t1), sd, t2. reflexivity.
Qed.

(** ** The run-level theorems that follow from the monitor *)
Lemma run_accept c f xs s t : stopped_safe c -> run f c xs = (s, t) -> out_of_fuel t = false ->
  mrun t (MS 0 0 PFresh) = Some (mfin s) /\ opened s.
Proof. intros Hs H Hf. apply (Run_mon c Hs xs). eapply run_sound; eassumption. Qed.

Lemma mfin_ctl s : m_ctl (mfin s) = PRun \/ m_ctl (mfin s) = PDead.
Proof. unfold mfin. destruct (dead s); cbn; tauto. Qed.

Lemma opened_dead_gone s : opened s -> m_ctl (mfin s) = PDead -> gone s.
Proof.
  intros [[[Hd _] _]|Hg] H; [|exact Hg]. unfold mfin in H. rewrite Hd in H. discriminate H.
Qed.

(** C04: per incarnation Initialized, Started, user messages, at most one
    Stopped, nothing afterwards; incarnations do not interleave *)
Theorem C04_lifecycle_word_thm :
  forall f c xs s t, stopped_safe c -> run f c xs = (s, t) -> out_of_fuel t = false ->
  c04_word (recvs_of t) 0 0 = true.
Proof.
  intros f c xs s t Hs H Hf. destruct (run_accept _ _ _ _ _ Hs H Hf) as [Hm _].
  exact (mrun_word _ _ _ Hm).
Qed.

Theorem C04_nothing_after_unregister_thm :
  forall f c xs s t, stopped_safe c -> run f c xs = (s, t) -> out_of_fuel t = false ->
  (forall t1 t2, t = t1 ++ RegRemove :: t2 -> Forall late_ev t2) /\
  (forall t1 t2, t = t1 ++ InboxStop :: t2 -> Forall final_ev t2).
Proof.
  intros f c xs s t Hs H Hf. destruct (run_accept _ _ _ _ _ Hs H Hf) as [Hm _]. split; intros t1 t2 E.
  - eapply mon_nothing_after_unregister; eassumption.
  - eapply mon_nothing_after_inboxstop; eassumption.
Qed.

(** C05: Stopped to the failed incarnation, ActorRestartedEvent, the delay,
    a fresh receiver, Initialized *)
Theorem C05_restart_shape_thm :
  forall f c xs s t, stopped_safe c -> run f c xs = (s, t) -> out_of_fuel t = false ->
  forall t1 n t2, t = t1 ++ EvRestarted n :: t2 ->
  exists t0 i sd h sd' t3,
    t1 = t0 ++ Recv i true LStopped sd :: h /\ Forall senqP h /\
    t2 = Sleep :: Produce (S i) :: Recv (S i) true LInit sd' :: t3.
Proof.
  intros f c xs s t Hs H Hf t1 n t2 E. destruct (run_accept _ _ _ _ _ Hs H Hf) as [Hm _].
  eapply mon_restart_shape; [exact Hm|reflexivity|apply mfin_ctl|exact E].
Qed.

(** C06: the panic that exceeds the budget stops the actor cleanly *)
Theorem C06_exceeding_stops_cleanly_thm :
  forall f c xs s t, stopped_safe c -> run f c xs = (s, t) -> out_of_fuel t = false ->
  forall t1 t2, t = t1 ++ EvMaxRestarts :: t2 ->
  registered s = false /\ dead s = true /\ istatus_stopped s = true /\ queue s = [] /\
  has_escaped t = false /\
  exists i sd h t3, t2 = InboxStop :: Recv i true LStopped sd :: h ++ RegRemove :: EvStopped :: t3 /\
                    Forall senqP h /\ Forall deadP t3.
Proof.
  intros f c xs s t Hs H Hf t1 t2 E. destruct (run_accept _ _ _ _ _ Hs H Hf) as [Hm Ho].
  destruct (mon_after_max _ _ _ _ _ Hm (mfin_ctl s) E) as [Hd Hsh].
  destruct (opened_dead_gone _ Ho Hd) as (H1 & H2 & H3 & H4).
  repeat split; try assumption. eapply C05_contained_thm; eassumption.
Qed.

(* once unregistered, a send is a dead letter and a Stop/Poison is signalled at once *)
Lemma C06_later_ops_thm (f : nat) (c : cfg) (s : pst) :
  registered s = false -> istatus_stopped s = true ->
  (forall n, ext_step (S f) c s (XSend n) = (s, [Sent n; EvDeadLetter (User n)])) /\
  ext_step (S f) c s XPoison =
    (upd_npill s (S (npill s)), [EvDeadLetter (Pill true (npill s)); Cancel (npill s)]) /\
  ext_step (S f) c s XStop =
    (upd_npill s (S (npill s)), [EvDeadLetter (Pill false (npill s)); Cancel (npill s)]).
Proof.
  intros Hr Hst. split; [|split].
  - intros n. rewrite ext_step_eq. cbn [ext_pre]. unfold send_self. rewrite Hr. cbn [sent_of emsg app].
    rewrite run_loop_S, Hst. reflexivity.
  - rewrite ext_step_eq. cbn [ext_pre]. unfold poison_self. rewrite Hr.
    rewrite run_loop_S. cbn [istatus_stopped upd_npill]. rewrite Hst. reflexivity.
  - rewrite ext_step_eq. cbn [ext_pre]. unfold poison_self. rewrite Hr.
    rewrite run_loop_S. cbn [istatus_stopped upd_npill]. rewrite Hst. reflexivity.
Qed.

(** C07: a Stop/Poison context is cancelled only after the target has handled
    Stopped and has been unregistered *)
Theorem C07_cancel_only_after_stopped_and_unregistered_thm :
  forall f c xs s t, stopped_safe c -> run f c xs = (s, t) -> out_of_fuel t = false ->
  early_cancels t = [] /\
  (forall t1 k t2, t = t1 ++ Cancel k :: t2 -> In RegRemove t1 /\ Forall deadP t2).
Proof.
  intros f c xs s t Hs H Hf. destruct (run_accept _ _ _ _ _ Hs H Hf) as [Hm _]. split.
  - eapply mon_no_early_cancel; exact Hm.
  - intros t1 k t2 E. eapply mon_cancel_after_unregister; [exact Hm|reflexivity|exact E].
Qed.

(* ------------------------------------------------------------------ *)
(** * D. Accounting: conservation of envelopes *)

(** A key identifies what is being counted: the user payload [n] ([inl n]) or
    the poison pill with cancel function [k] ([inr k]).  For a fixed key,
    [nb t] counts its births in a trace (a [Sent], or the creation of a pill:
    enqueued or dead-lettered at once), [no t] counts its disposals (a
    delivery to Receive, a dead letter for a user message, a [Cancel]), and
    [nk l] its occurrences in a list of envelopes.  The conservation law
    [held before + births = disposals + held after] is proved for every
    function of the model; at quiescence nothing is held. *)
Definition key := (nat + nat)%type.

Section Count.
Variable x : key.

Definition kx (p : payload) : nat :=
  match x, p with
  | inl n, User m => if n =? m then 1 else 0
  | inr k, Pill _ j => if k =? j then 1 else 0
  | _, _ => 0
  end.
Definition ku (e : env) : nat := match emsg e with User n => kx (User n) | _ => 0 end.
Definition kp (e : env) : nat := match emsg e with Pill g k => kx (Pill g k) | _ => 0 end.
Definition nk (l : list env) : nat := list_sum (map (fun e => kx (emsg e)) l).
Definition nku (l : list env) : nat := list_sum (map ku l).
Definition nkp (l : list env) : nat := list_sum (map kp l).

Definition ev_born (e : event) : nat :=
  match e with
  | Sent n => kx (User n)
  | Enq e => kp e
  | EvDeadLetter (Pill g k) => kx (Pill g k)
  | _ => 0
  end.
Definition ev_out (e : event) : nat :=
  match e with
  | Recv _ _ (LUser n) _ => kx (User n)
  | EvDeadLetter (User n) => kx (User n)
  | Cancel k => kx (Pill true k)
  | _ => 0
  end.
Definition nb (t : list event) : nat := list_sum (map ev_born t).
Definition no (t : list event) : nat := list_sum (map ev_out t).

Lemma nk_app a b : nk (a ++ b) = nk a + nk b. Proof. unfold nk. rewrite map_app, list_sum_app. reflexivity. Qed.
Lemma nku_app a b : nku (a ++ b) = nku a + nku b. Proof. unfold nku. rewrite map_app, list_sum_app. reflexivity. Qed.
Lemma nkp_app a b : nkp (a ++ b) = nkp a + nkp b. Proof. unfold nkp. rewrite map_app, list_sum_app. reflexivity. Qed.
Lemma nb_app a b : nb (a ++ b) = nb a + nb b. Proof. unfold nb. rewrite map_app, list_sum_app. reflexivity. Qed.
Lemma no_app a b : no (a ++ b) = no a + no b. Proof. unfold no. rewrite map_app, list_sum_app. reflexivity. Qed.
Lemma nb_cons e t : nb (e :: t) = ev_born e + nb t. Proof. reflexivity. Qed.
Lemma no_cons e t : no (e :: t) = ev_out e + no t. Proof. reflexivity. Qed.
Lemma nk_cons e l : nk (e :: l) = kx (emsg e) + nk l. Proof. reflexivity. Qed.
Lemma nku_cons e l : nku (e :: l) = ku e + nku l. Proof. reflexivity. Qed.
Lemma nkp_cons e l : nkp (e :: l) = kp e + nkp l. Proof. reflexivity. Qed.

Lemma kx_split e : kx (emsg e) = ku e + kp e.
Proof. unfold ku, kp. destruct (emsg e); lia. Qed.
Lemma nk_split l : nk l = nku l + nkp l.
Proof. induction l as [|e l IH]; [reflexivity|]. rewrite nk_cons, nku_cons, nkp_cons, kx_split. lia. Qed.
Lemma kx_pill g g' k : kx (Pill g k) = kx (Pill g' k).
Proof. reflexivity. Qed.

Lemma nb_nil : nb [] = 0. Proof. reflexivity. Qed.
Lemma no_nil : no [] = 0. Proof. reflexivity. Qed.
Lemma nk_nil : nk [] = 0. Proof. reflexivity. Qed.

Ltac cn :=
  repeat first [rewrite nb_app | rewrite no_app | rewrite nk_app | rewrite nb_cons | rewrite no_cons
               | rewrite nk_cons | rewrite nb_nil | rewrite no_nil | rewrite nk_nil];
  cbn [ev_born ev_out emsg].

Lemma kp_pill g k b : kp {| emsg := Pill g k; esnd := b |} = kx (Pill true k).
Proof. reflexivity. Qed.
Lemma kp_user n b : kp {| emsg := User n; esnd := b |} = 0.
Proof. reflexivity. Qed.

Lemma do_actions_cnt acts s s' t o : do_actions s acts = (s', t, o) ->
  nk (queue s) + nb t = no t + nk (queue s').
Proof.
  apply (do_actions_rel (fun s t s' => nk (queue s) + nb t = no t + nk (queue s'))).
  - intros. cn. lia.
  - intros s0 t1 s1 t2 s2 H1 H2. cn. lia.
  - intros s0 n b. unfold send_self. destruct (registered s0); cbn [fst snd sent_of emsg app queue upd_queue];
      cn; rewrite ?kp_user; lia.
  - intros s0 g. unfold poison_self. destruct (registered s0); cbn [fst snd queue upd_queue upd_npill];
      cn; rewrite ?kp_pill; change (kx (Pill g (npill s0))) with (kx (Pill true (npill s0))); lia.
Qed.

Definition lu (m : lmsg) : nat := match m with LUser n => kx (User n) | _ => 0 end.

Lemma recv_cnt c s mw m s' t o : recv c s mw m = (s', t, o) ->
  nk (queue s) + nb t + lu m = no t + nk (queue s').
Proof.
  intros H. apply recv_inv in H as (ta & -> & H). apply do_actions_cnt in H.
  rewrite nb_cons, no_cons. cbn [ev_born]. replace (ev_out (Recv (inc s) mw m (csender s))) with (lu m) by (destruct m; reflexivity).
  lia.
Qed.

Lemma invoke_msg_cnt c s e s' t o : invoke_msg c s e = (s', t, o) ->
  nk (queue s) + nb t + ku e = no t + nk (queue s').
Proof.
  unfold invoke_msg, ku. destruct (emsg e).
  - intros H. apply recv_cnt in H. exact H.
  - intros [= <- <- <-]. cn. lia.
Qed.

Lemma discard_cnt e : nb (discard e) = 0 /\ no (discard e) = kx (emsg e).
Proof.
  unfold discard. destruct (emsg e) as [n|g k]; cn;
    try change (kx (Pill g k)) with (kx (Pill true k)); split; lia.
Qed.
Lemma flat_discard_cnt l : nb (flat_map discard l) = 0 /\ no (flat_map discard l) = nk l.
Proof.
  induction l as [|e l [IH1 IH2]]; [split; reflexivity|]. cbn [flat_map]. rewrite nb_app, no_app, nk_cons.
  destruct (discard_cnt e) as [-> ->]. lia.
Qed.
Lemma discard_rest_cnt g l : nb (discard_rest g l) = 0 /\ no (discard_rest g l) = if g then nkp l else nk l.
Proof.
  unfold discard_rest. induction l as [|e l [IH1 IH2]]; [destruct g; split; reflexivity|].
  cbn [flat_map]. rewrite nb_app, no_app, nk_cons, nkp_cons, IH1, IH2.
  pose proof (discard_cnt e) as [H1 H2]. pose proof (kx_split e) as Hx.
  destruct (emsg e) as [n|g0 k] eqn:Ee; cbv beta iota.
  - assert (Hp : kp e = 0) by (unfold kp; rewrite Ee; reflexivity).
    destruct g; [rewrite nb_nil, no_nil|rewrite H1, H2]; split; lia.
  - assert (Hu : ku e = 0) by (unfold ku; rewrite Ee; reflexivity).
    rewrite H1, H2. destruct g; split; lia.
Qed.

Definition ko (k : option nat) : nat := match k with Some k => kx (Pill true k) | None => 0 end.

Lemma cleanup_cnt c s k s' t : cleanup c s k = (s', t, Normal) ->
  nk (queue s) + nb t + ko k = no t /\ queue s' = [] /\ mbuf s' = mbuf s.
Proof.
  intros H. apply cleanup_normal_inv in H as (s1 & t1 & E & -> & ->).
  pose proof (recv_quiet _ _ _ _ _ _ E) as [_ (_&_&Hm&_)]. apply recv_cnt in E. cbn [queue upd_istopped upd_dead lu] in E.
  split; [|split; [reflexivity|exact Hm]].
  rewrite nb_cons, no_cons, nb_app, no_app, !nb_cons, !no_cons, nb_app, no_app.
  destruct (flat_discard_cnt (queue s1)) as [-> ->]. cbn [ev_born ev_out].
  destruct k; cbn [ko]; cn; lia.
Qed.

Lemma drain_cnt c : forall l s n sk s' t o np sk', drain c s l n sk = (s', t, o, np, sk') ->
  n <= np /\ np <= n + length l /\ (o = Normal -> np = n + length l) /\
  nk sk' = nk sk + nkp (firstn (np - n) l) /\
  nk (queue s) + nb t + nku (firstn (np - n) l) = no t + nk (queue s').
Proof.
  induction l as [|e l IH]; intros s n sk s' t o np sk' H; cbn [drain] in H.
  - injection H as <- <- <- <- <-. rewrite Nat.sub_diag. cbn [firstn length]. cn.
    change (nkp []) with 0. change (nku []) with 0. repeat split; lia.
  - destruct (emsg e) eqn:Ee.
    + destruct (invoke_msg c s e) as [[s1 t1] o1] eqn:E1. apply invoke_msg_cnt in E1. destruct o1.
      * destruct (drain c s1 l (S n) sk) as [[[[s2 t2] o2] np2] sk2] eqn:E2. injection H as <- <- <- <- <-.
        apply IH in E2 as (H1 & H2 & H3 & H4 & H5).
        replace (np2 - n) with (S (np2 - S n)) by lia. cbn [firstn length]. rewrite nku_cons, nkp_cons, nb_app, no_app.
        assert (kp e = 0) as -> by (unfold kp; rewrite Ee; reflexivity).
        repeat split; try lia. intros Ho. specialize (H3 Ho). lia.
      * injection H as <- <- <- <- <-. replace (S n - n) with 1 by lia. cbn [firstn length]. rewrite nku_cons, nkp_cons.
        assert (kp e = 0) as -> by (unfold kp; rewrite Ee; reflexivity).
        change (nkp []) with 0. change (nku []) with 0.
        repeat split; try lia. discriminate.
    + apply IH in H as (H1 & H2 & H3 & H4 & H5).
      replace (np - n) with (S (np - S n)) by lia. cbn [firstn length]. rewrite nku_cons, nkp_cons.
      rewrite nk_app, nk_cons, nk_nil in H4.
      assert (ku e = 0) as -> by (unfold ku; rewrite Ee; reflexivity).
      assert (kx (emsg e) = kp e) as Hk by (rewrite kx_split; unfold ku; rewrite Ee; lia).
      repeat split; try lia. intros Ho. specialize (H3 Ho). lia.
Qed.

Lemma nk_firstn_skipn j l : nk l = nk (firstn j l) + nk (skipn j l).
Proof. rewrite <- nk_app, firstn_skipn. reflexivity. Qed.

Lemma invoke_loop_cnt c (Hs : stopped_safe c) : forall l s n s' t o np d, invoke_loop c s l n = (s', t, o, np, d) ->
  n <= np /\
  nk (queue s) + nb t + nk l =
    no t + nk (queue s') + match o with Normal => 0 | _ => nk d + nk (skipn (np - n) l) end.
Proof.
  induction l as [|e l IH]; intros s n s' t o np d H; cbn [invoke_loop] in H.
  - injection H as <- <- <- <- <-. split; [lia|cn; lia].
  - destruct (emsg e) eqn:Ee.
    + assert (Hke : kx (emsg e) = ku e) by (rewrite kx_split; unfold kp; rewrite Ee; lia).
      destruct (invoke_msg c s e) as [[s1 t1] o1] eqn:E1. apply invoke_msg_cnt in E1. destruct o1.
      * destruct (invoke_loop c s1 l (S n)) as [[[[s2 t2] o2] np2] d2] eqn:E2. injection H as <- <- <- <- <-.
        apply IH in E2 as [H1 H2]. split; [lia|]. rewrite nb_app, no_app, nk_cons.
        replace (np2 - n) with (S (np2 - S n)) by lia. cbn [skipn]. lia.
      * injection H as <- <- <- <- <-. split; [lia|]. replace (S n - n) with 1 by lia. cbn [skipn].
        rewrite nk_cons, nk_nil. lia.
    + assert (Hke : kx (emsg e) = ko (Some k)) by (rewrite Ee; reflexivity).
      destruct graceful.
      * destruct (drain c s l (S n) []) as [[[[s1 t1] o1] np1] sk1] eqn:E1.
        apply drain_cnt in E1 as (D1 & D2 & D3 & D4 & D5). rewrite nk_nil in D4. destruct o1.
        -- destruct (cleanup c s1 (Some k)) as [[s2 t2] o2] eqn:E2.
           pose proof (cleanup_safe _ _ _ _ _ _ Hs E2) as ->. apply cleanup_cnt in E2 as (C1 & C2 & _).
           injection H as <- <- <- <- <-. split; [lia|]. rewrite !nb_app, !no_app, nk_cons, C2, nk_nil.
           destruct (discard_rest_cnt true l) as [-> ->]. specialize (D3 eq_refl).
           replace (np1 - S n) with (length l) in D5 by lia. rewrite firstn_all in D5.
           rewrite (nk_split l). lia.
        -- injection H as <- <- <- <- <-. split; [lia|]. rewrite nk_cons.
           replace (np1 - n) with (S (np1 - S n)) by lia. cbn [skipn]. rewrite nk_cons.
           rewrite (nk_firstn_skipn (np1 - S n) l), (nk_split (firstn (np1 - S n) l)). lia.
      * destruct (cleanup c s (Some k)) as [[s2 t2] o2] eqn:E2.
        pose proof (cleanup_safe _ _ _ _ _ _ Hs E2) as ->. apply cleanup_cnt in E2 as (C1 & C2 & _).
        injection H as <- <- <- <- <-. split; [lia|]. cbn [app]. rewrite !nb_app, !no_app, nk_cons, C2, nk_nil.
        destruct (discard_rest_cnt false l) as [-> ->]. lia.
Qed.

Theorem safe_cnt c (Hs : stopped_safe c) :
  (forall s msgs s' t, Invoke_s c s msgs s' t -> nk (queue s) + nb t + nk msgs = no t + nk (queue s')) /\
  (forall s s' t, Start_s c s s' t -> nk (queue s) + nb t + nk (mbuf s) = no t + nk (queue s')) /\
  (forall s b s' t, Restart_s c s b s' t -> nk (queue s) + nb t + nk (mbuf s) = no t + nk (queue s')).
Proof.
  apply safe_mutind.
  - intros s msgs s' t np d El. apply (invoke_loop_cnt c Hs) in El as [_ H]. lia.
  - intros s msgs s1 t1 b np d s' t2 El _ IH. apply (invoke_loop_cnt c Hs) in El as [_ H].
    cbn [queue mbuf upd_mbuf] in IH. unfold rbuf in IH. rewrite nk_app in IH. rewrite Nat.sub_0_r in H.
    rewrite nb_app, no_app. lia.
  - intros s si ti b s' t' Ei _ IH.
    pose proof (recv_quiet _ _ _ _ _ _ Ei) as [_ (_&_&Hm&_)]. apply recv_cnt in Ei.
    cbn [queue mbuf upd_inc lu] in Ei, Hm. cn. rewrite <- Hm. lia.
  - intros s si ti s2 ts b s' t' Ei Es _ IH.
    pose proof (recv_quiet _ _ _ _ _ _ Ei) as [_ (_&_&Hm&_)]. apply recv_cnt in Ei.
    pose proof (recv_quiet _ _ _ _ _ _ Es) as [_ (_&_&Hm2&_)]. apply recv_cnt in Es.
    cbn [queue mbuf upd_inc lu] in Ei, Hm, Es. cn. rewrite <- Hm, <- Hm2. lia.
  - intros s si ti s2 ts Ei Es Hb.
    pose proof (recv_quiet _ _ _ _ _ _ Ei) as [_ (_&_&Hm&_)]. apply recv_cnt in Ei.
    pose proof (recv_quiet _ _ _ _ _ _ Es) as [_ (_&_&Hm2&_)]. apply recv_cnt in Es.
    cbn [queue mbuf upd_inc lu] in Ei, Hm, Es. rewrite <- Hm, <- Hm2, Hb.
    unfold start_end. destruct (dead s2); cbn [fst snd queue upd_istopped]; cn; lia.
  - intros s si ti s2 ts s3 t3 Ei Es Hb _ IH.
    pose proof (recv_quiet _ _ _ _ _ _ Ei) as [_ (_&_&Hm&_)]. apply recv_cnt in Ei.
    pose proof (recv_quiet _ _ _ _ _ _ Es) as [_ (_&_&Hm2&_)]. apply recv_cnt in Es.
    cbn [queue mbuf upd_inc lu] in Ei, Hm, Es. rewrite <- Hm, <- Hm2.
    unfold start_end. destruct (dead (upd_mbuf s3 [])); cbn [fst snd queue upd_istopped upd_mbuf]; cn; lia.
  - intros s s1 t1 s' t' E1 _ IH.
    pose proof (recv_quiet _ _ _ _ _ _ E1) as [_ (_&_&Hm&_)]. apply recv_cnt in E1. cbn [lu] in E1.
    cn. rewrite <- Hm. lia.
  - intros s s1 t1 Hmax E1. apply cleanup_cnt in E1 as (C1 & C2 & C3).
    rewrite nb_cons, nb_app, no_cons, no_app. destruct (flat_discard_cnt (mbuf s1)) as [-> ->].
    cbn [ev_born ev_out queue upd_mbuf ko] in *. rewrite C2, C3, nk_nil. lia.
  - intros s s1 t1 s' t3 Hne E1 _ IH.
    pose proof (recv_quiet _ _ _ _ _ _ E1) as [_ (_&_&Hm&_)]. apply recv_cnt in E1. cbn [lu] in E1.
    cbn [queue mbuf upd_restarts] in IH. cn. rewrite <- Hm. lia.
Qed.

Lemma RunLoop_cnt c (Hs : stopped_safe c) s s' t : RunLoop_s c s s' t ->
  nk (queue s) + nb t = no t + nk (queue s').
Proof.
  induction 1 as [s E|s E Eq|s s1 t1 s2 t2 E Eq Hi _ IH]; try (cn; lia).
  apply (proj1 (safe_cnt c Hs)) in Hi. cbn [queue upd_queue] in Hi.
  rewrite (nk_firstn_skipn (batch c) (queue s)), nb_app, no_app. lia.
Qed.

Lemma ext_pre_cnt s xo s1 t1 : ext_pre s xo = (s1, t1) -> nk (queue s) + nb t1 = no t1 + nk (queue s1).
Proof.
  destruct xo; cbn [ext_pre]; unfold send_self, poison_self; destruct (registered s); intros [= <- <-];
    cbn [sent_of emsg app queue upd_queue upd_npill]; cn; rewrite ?kp_user, ?kp_pill;
    try change (kx (Pill false (npill s))) with (kx (Pill true (npill s))); lia.
Qed.

Lemma Exts_cnt c (Hs : stopped_safe c) s xs s' t : Exts_s c s xs s' t ->
  nk (queue s) + nb t = no t + nk (queue s').
Proof.
  induction 1 as [s|s xo s1 t1 s2 t2 xs s3 t3 Ep Hl _ IH]; [cn; lia|].
  apply ext_pre_cnt in Ep. apply (RunLoop_cnt c Hs) in Hl. rewrite !nb_app, !no_app. lia.
Qed.

Theorem Run_cnt c (Hs : stopped_safe c) xs s t : Run_s c xs s t -> nb t = no t + nk (queue s).
Proof.
  intros [s0 t0 s1 t1 s2 t2 H0 H1 H2].
  apply (proj1 (proj2 (safe_cnt c Hs))) in H0. apply (RunLoop_cnt c Hs) in H1. apply (Exts_cnt c Hs) in H2.
  cbn [queue mbuf init_pst] in H0. rewrite nk_nil in H0. rewrite !nb_app, !no_app. lia.
Qed.

End Count.

(** ** Pill identifiers: the pills created are 0, 1, 2, … in creation order *)
Definition pb (t : list event) : list nat :=
  flat_map (fun e => match e with
                     | Enq e => match emsg e with Pill _ k => [k] | _ => [] end
                     | EvDeadLetter (Pill _ k) => [k]
                     | _ => [] end) t.
Definition nobirth (e : event) : Prop :=
  match e with Enq e => match emsg e with Pill _ _ => False | _ => True end
             | EvDeadLetter (Pill _ _) => False | _ => True end.

Lemma pb_app a b : pb (a ++ b) = pb a ++ pb b. Proof. apply flat_map_app. Qed.
Lemma pb_nobirth t : Forall nobirth t -> pb t = [].
Proof.
  induction 1 as [|e t He _ IH]; [reflexivity|]. cbn [pb flat_map]. fold (pb t). rewrite IH.
  destruct e as [ | | | | | | |[]| | | | | |e| | | ]; cbn in *; try reflexivity; try contradiction.
  destruct (emsg e); [reflexivity|contradiction].
Qed.

Definition NP (s : pst) (t : list event) (s' : pst) : Prop :=
  npill s <= npill s' /\ pb t = seq (npill s) (npill s' - npill s).

Lemma NP_trans s t1 s1 t2 s2 : NP s t1 s1 -> NP s1 t2 s2 -> NP s (t1 ++ t2) s2.
Proof.
  intros [H1 E1] [H2 E2]. split; [lia|]. rewrite pb_app, E1, E2.
  replace (npill s2 - npill s) with ((npill s1 - npill s) + (npill s2 - npill s1)) by lia.
  rewrite seq_app. do 2 f_equal. lia.
Qed.
Lemma NP_quiet s t s' : Forall nobirth t -> npill s' = npill s -> NP s t s'.
Proof. intros Ht E. split; [lia|]. rewrite (pb_nobirth _ Ht), E, Nat.sub_diag. reflexivity. Qed.
Lemma NP_cons s e t s' : nobirth e -> NP s t s' -> NP s (e :: t) s'.
Proof. intros He H. apply (NP_trans s [e] s t s'); [apply NP_quiet; [repeat constructor; exact He|reflexivity]|exact H]. Qed.
Lemma NP_app_quiet s t1 s1 t2 : NP s t1 s1 -> Forall nobirth t2 -> NP s (t1 ++ t2) s1.
Proof. intros H Ht. eapply NP_trans; [exact H|apply NP_quiet; [exact Ht|reflexivity]]. Qed.

Lemma do_actions_NP acts s s' t o : do_actions s acts = (s', t, o) -> NP s t s'.
Proof.
  apply (do_actions_rel NP).
  - intros. apply NP_quiet; [constructor|reflexivity].
  - apply NP_trans.
  - intros s0 n b. unfold send_self. destruct (registered s0); cbn; apply NP_quiet; repeat constructor.
  - intros s0 g. unfold poison_self, NP. destruct (registered s0); cbn [fst snd npill upd_npill upd_queue pb flat_map emsg app];
      (split; [lia|]); replace (S (npill s0) - npill s0) with 1 by lia; reflexivity.
Qed.

Lemma recv_NP c s mw m s' t o : recv c s mw m = (s', t, o) -> NP s t s'.
Proof. intros H. apply recv_inv in H as (ta & -> & H). apply NP_cons; [exact I|eapply do_actions_NP; exact H]. Qed.

Lemma invoke_msg_NP c s e s' t o : invoke_msg c s e = (s', t, o) -> NP s t s'.
Proof.
  unfold invoke_msg. destruct (emsg e).
  - intros H. apply recv_NP in H. exact H.
  - intros [= <- <- <-]. apply NP_quiet; [constructor|reflexivity].
Qed.

Lemma discard_nobirth e : Forall nobirth (discard e).
Proof. unfold discard. destruct (emsg e); repeat constructor. Qed.
Lemma flat_discard_nobirth l : Forall nobirth (flat_map discard l).
Proof. induction l; cbn; [constructor|apply Forall_app; split; [apply discard_nobirth|assumption]]. Qed.
Lemma discard_rest_nobirth g l : Forall nobirth (discard_rest g l).
Proof.
  unfold discard_rest. induction l as [|e l IH]; cbn; [constructor|]. apply Forall_app; split; [|exact IH].
  destruct (emsg e) eqn:E; [destruct g; [constructor|]|]; unfold discard; rewrite E; repeat constructor.
Qed.

Lemma cleanup_NP c s k s' t : cleanup c s k = (s', t, Normal) -> NP s t s'.
Proof.
  intros H. apply cleanup_normal_inv in H as (s1 & t1 & E & -> & ->). apply recv_NP in E.
  apply NP_cons; [exact I|]. change (NP (upd_istopped (upd_dead s true) true) (t1 ++ [RegRemove; EvStopped] ++ flat_map discard (queue s1) ++ match k with Some k0 => [Cancel k0] | None => [] end) s1).
  apply NP_app_quiet; [exact E|]. constructor; [exact I|]. constructor; [exact I|].
  apply Forall_app; split; [apply flat_discard_nobirth|destruct k; repeat constructor].
Qed.

Lemma drain_NP c : forall l s n sk s' t o np sk', drain c s l n sk = (s', t, o, np, sk') -> NP s t s'.
Proof.
  induction l as [|e l IH]; intros s n sk s' t o np sk' H; cbn [drain] in H.
  - injection H as <- <- <- <- <-. apply NP_quiet; [constructor|reflexivity].
  - destruct (emsg e) eqn:Ee; [|eapply IH; exact H].
    destruct (invoke_msg c s e) as [[s1 t1] o1] eqn:E1. apply invoke_msg_NP in E1. destruct o1.
    + destruct (drain c s1 l (S n) sk) as [[[[s2 t2] o2] np2] sk2] eqn:E2. injection H as <- <- <- <- <-.
      eapply NP_trans; [exact E1|eapply IH; exact E2].
    + injection H as <- <- <- <- <-. exact E1.
Qed.

Lemma invoke_loop_NP c (Hs : stopped_safe c) : forall l s n s' t o np d,
  invoke_loop c s l n = (s', t, o, np, d) -> NP s t s'.
Proof.
  induction l as [|e l IH]; intros s n s' t o np d H; cbn [invoke_loop] in H.
  - injection H as <- <- <- <- <-. apply NP_quiet; [constructor|reflexivity].
  - destruct (emsg e) eqn:Ee.
    + destruct (invoke_msg c s e) as [[s1 t1] o1] eqn:E1. apply invoke_msg_NP in E1. destruct o1.
      * destruct (invoke_loop c s1 l (S n)) as [[[[s2 t2] o2] np2] d2] eqn:E2. injection H as <- <- <- <- <-.
        eapply NP_trans; [exact E1|eapply IH; exact E2].
      * injection H as <- <- <- <- <-. exact E1.
    + assert (Hd : exists s1 t1 o1 np1 sk1,
          (if graceful then drain c s l (S n) [] else (s, [], Normal, S n, [])) = (s1, t1, o1, np1, sk1) /\ NP s t1 s1).
      { destruct graceful.
        - destruct (drain c s l (S n) []) as [[[[s1 t1] o1] np1] sk1] eqn:E1. exists s1, t1, o1, np1, sk1.
          split; [reflexivity|]. eapply drain_NP; exact E1.
        - exists s, [], Normal, (S n), []. split; [reflexivity|]. apply NP_quiet; [constructor|reflexivity]. }
      destruct Hd as (s1 & t1 & o1 & np1 & sk1 & Heq & H1). rewrite Heq in H. clear Heq. destruct o1.
      * destruct (cleanup c s1 (Some k)) as [[s2 t2] o2] eqn:E2.
        pose proof (cleanup_safe _ _ _ _ _ _ Hs E2) as ->. apply cleanup_NP in E2.
        injection H as <- <- <- <- <-. eapply NP_trans; [exact H1|]. apply NP_app_quiet; [exact E2|apply discard_rest_nobirth].
      * injection H as <- <- <- <- <-. exact H1.
Qed.

Lemma start_end_NP s3 : NP s3 (snd (start_end s3)) (fst (start_end s3)).
Proof. unfold start_end. destruct (dead s3); cbn [fst snd]; apply NP_quiet; repeat constructor. Qed.

Theorem safe_NP c (Hs : stopped_safe c) :
  (forall s msgs s' t, Invoke_s c s msgs s' t -> NP s t s') /\
  (forall s s' t, Start_s c s s' t -> NP s t s') /\
  (forall s b s' t, Restart_s c s b s' t -> NP s t s').
Proof.
  apply safe_mutind.
  - intros s msgs s' t np d El. eapply invoke_loop_NP; eassumption.
  - intros s msgs s1 t1 b np d s' t2 El _ IH. eapply NP_trans; [eapply invoke_loop_NP; eassumption|exact IH].
  - intros s si ti b s' t' Ei _ IH. apply recv_NP in Ei. apply NP_cons; [exact I|]. eapply NP_trans; [exact Ei|exact IH].
  - intros s si ti s2 ts b s' t' Ei Es _ IH. apply recv_NP in Ei. apply recv_NP in Es.
    apply NP_cons; [exact I|]. eapply NP_trans; [exact Ei|]. apply NP_cons; [exact I|]. eapply NP_trans; [exact Es|exact IH].
  - intros s si ti s2 ts Ei Es Hb. apply recv_NP in Ei. apply recv_NP in Es.
    apply NP_cons; [exact I|]. eapply NP_trans; [exact Ei|]. apply NP_cons; [exact I|]. eapply NP_trans; [exact Es|].
    apply NP_cons; [exact I|]. apply start_end_NP.
  - intros s si ti s2 ts s3 t3 Ei Es Hb _ IH. apply recv_NP in Ei. apply recv_NP in Es.
    apply NP_cons; [exact I|]. eapply NP_trans; [exact Ei|]. apply NP_cons; [exact I|]. eapply NP_trans; [exact Es|].
    apply NP_cons; [exact I|]. eapply NP_trans; [exact IH|]. apply (start_end_NP (upd_mbuf s3 [])).
  - intros s s1 t1 s' t' E1 _ IH. apply recv_NP in E1. eapply NP_trans; [exact E1|]. apply NP_cons; [exact I|exact IH].
  - intros s s1 t1 Hmax E1. apply cleanup_NP in E1. apply NP_cons; [exact I|].
    apply (NP_app_quiet s t1 s1); [exact E1|apply flat_discard_nobirth].
  - intros s s1 t1 s' t3 Hne E1 _ IH. apply recv_NP in E1. eapply NP_trans; [exact E1|].
    apply NP_cons; [exact I|]. apply NP_cons; [exact I|exact IH].
Qed.

Lemma RunLoop_NP c (Hs : stopped_safe c) s s' t : RunLoop_s c s s' t -> NP s t s'.
Proof.
  induction 1 as [s E|s E Eq|s s1 t1 s2 t2 E Eq Hi _ IH]; try (apply NP_quiet; [constructor|reflexivity]).
  apply (proj1 (safe_NP c Hs)) in Hi. eapply NP_trans; [exact Hi|exact IH].
Qed.

Lemma ext_pre_NP s x s1 t1 : ext_pre s x = (s1, t1) -> NP s t1 s1.
Proof.
  destruct x; cbn [ext_pre]; unfold send_self, poison_self, NP; destruct (registered s); intros [= <- <-];
    cbn [npill upd_npill upd_queue pb flat_map emsg app sent_of]; (split; [lia|]);
    rewrite ?Nat.sub_diag; try replace (S (npill s) - npill s) with 1 by lia; reflexivity.
Qed.

Lemma Exts_NP c (Hs : stopped_safe c) s xs s' t : Exts_s c s xs s' t -> NP s t s'.
Proof.
  induction 1 as [s|s x s1 t1 s2 t2 xs s3 t3 Ep Hl _ IH]; [apply NP_quiet; [constructor|reflexivity]|].
  eapply NP_trans; [eapply ext_pre_NP; exact Ep|]. eapply NP_trans; [eapply RunLoop_NP; eassumption|exact IH].
Qed.

Theorem Run_NP c (Hs : stopped_safe c) xs s t : Run_s c xs s t -> pb t = seq 0 (npill s).
Proof.
  intros [s0 t0 s1 t1 s2 t2 H0 H1 H2].
  apply (proj1 (proj2 (safe_NP c Hs))) in H0. apply (RunLoop_NP c Hs) in H1. apply (Exts_NP c Hs) in H2.
  destruct (NP_trans _ _ _ _ _ H0 (NP_trans _ _ _ _ _ H1 H2)) as [_ H]. cbn [npill init_pst] in H.
  rewrite Nat.sub_0_r in H. exact H.
Qed.

(** ** Quiescence: at the end of a scenario the queue is empty *)
Lemma RunLoop_queue c (Hs : stopped_safe c) s s' t : RunLoop_s c s s' t -> opened s -> queue s' = [].
Proof.
  induction 1 as [s E|s E Eq|s s1 t1 s2 t2 E Eq Hi _ IH]; intros Ho.
  - destruct Ho as [[_ ?]|(_ & _ & _ & ?)]; [congruence|assumption].
  - exact Eq.
  - pose proof (opened_mfin_alive _ Ho E) as Ha.
    destruct (proj1 (safe_mon c Hs) _ _ _ _ Hi) as [_ Hd]; [exact Ha|].
    cbn [istatus_stopped upd_queue] in Hd. apply IH.
    destruct Hd as [[? H1]|?]; [left; split; [assumption|exact (H1 E)]|right; assumption].
Qed.

Lemma Exts_queue c (Hs : stopped_safe c) s xs s' t : Exts_s c s xs s' t -> opened s -> queue s = [] -> queue s' = [].
Proof.
  induction 1 as [s|s x s1 t1 s2 t2 xs s3 t3 Ep Hl _ IH]; intros Ho Hq; [exact Hq|].
  destruct (ext_pre_mon _ _ _ _ Ep Ho) as [_ Ho1]. apply IH.
  - apply (RunLoop_mon c Hs _ _ _ Hl Ho1).
  - eapply RunLoop_queue; eassumption.
Qed.

Lemma Run_queue c (Hs : stopped_safe c) xs s t : Run_s c xs s t -> queue s = [].
Proof.
  intros [s0 t0 s1 t1 s2 t2 H0 H1 H2]. destruct (Start_init_mon c Hs _ _ H0) as [_ Ho0].
  eapply Exts_queue; [exact Hs|exact H2|apply (RunLoop_mon c Hs _ _ _ H1 Ho0)|eapply RunLoop_queue; eassumption].
Qed.

(** ** The conservation law read on lists *)
Definition cn1 (n m : nat) : nat := if n =? m then 1 else 0.

Lemma count_cons l m n : count_occ Nat.eq_dec (m :: l) n = cn1 n m + count_occ Nat.eq_dec l n.
Proof.
  unfold cn1. destruct (Nat.eq_dec m n) as [->|Hne].
  - rewrite count_occ_cons_eq, Nat.eqb_refl by reflexivity. reflexivity.
  - rewrite count_occ_cons_neq by exact Hne. assert (n =? m = false) as -> by (apply Nat.eqb_neq; congruence). reflexivity.
Qed.

Lemma nb_user n t : nb (inl n) t = count_occ Nat.eq_dec (sends_of t) n.
Proof.
  induction t as [|e t IH]; [reflexivity|]. rewrite nb_cons, IH.
  destruct e as [ | | | | | | |[]| | | | | |e| | | ]; cbn [sends_of ev_born]; try reflexivity.
  - unfold kp. destruct (emsg e); reflexivity.
  - rewrite count_cons. reflexivity.
Qed.

Lemma no_user n t : no (inl n) t = count_occ Nat.eq_dec (dlv t) n + count_occ Nat.eq_dec (ddl t) n.
Proof.
  induction t as [|e t IH]; [reflexivity|]. rewrite no_cons, IH.
  destruct e as [ |i mw [] sd| | | | | |[]| | | | | | | | | ]; cbn [ev_out dlv ddl flat_map app]; fold (dlv t); fold (ddl t);
    rewrite ?count_cons; cbn [kx]; unfold cn1; lia.
Qed.

Lemma nb_pill k t : nb (inr k) t = count_occ Nat.eq_dec (pb t) k.
Proof.
  induction t as [|e t IH]; [reflexivity|]. rewrite nb_cons, IH.
  destruct e as [ | | | | | | |[]| | | | | |e| | | ]; cbn [ev_born pb flat_map app]; fold (pb t); try reflexivity.
  - rewrite count_cons. reflexivity.
  - unfold kp. destruct (emsg e); cbn [app]; rewrite ?count_cons; reflexivity.
Qed.

Lemma no_pill k t : no (inr k) t = count_occ Nat.eq_dec (cnc t) k.
Proof.
  induction t as [|e t IH]; [reflexivity|]. rewrite no_cons, IH.
  destruct e as [ |i mw [] sd| | | | | |[]| | | | | | | | | ]; cbn [ev_out cnc flat_map app]; fold (cnc t);
    rewrite ?count_cons; reflexivity.
Qed.

Lemma count_seq0 n k : count_occ Nat.eq_dec (seq 0 n) k = if k <? n then 1 else 0.
Proof.
  destruct (k <? n) eqn:E.
  - apply Nat.ltb_lt in E. apply NoDup_count_occ'; [apply seq_NoDup|]. apply in_seq. lia.
  - apply Nat.ltb_ge in E. apply count_occ_not_In. rewrite in_seq. lia.
Qed.

Lemma Permutation_length_eq {A} (l1 l2 : list A) : Permutation l1 l2 -> length l1 = length l2.
Proof. apply Permutation_length. Qed.

(** C05 (with C09): no message is lost silently and none is counted twice:
    the messages sent to the actor are, as a multiset, the messages delivered
    to Receive together with the messages reported as dead letters *)
Theorem C05_no_silent_loss_thm :
  forall f c xs s t, stopped_safe c -> run f c xs = (s, t) -> out_of_fuel t = false ->
  Permutation (sends_of t) (user_payloads (recvs_of t) ++ dead_payloads (events_of t)) /\
  length (sends_of t) = length (user_payloads (recvs_of t)) + length (dead_payloads (events_of t)) /\
  queue s = [].
Proof.
  intros f c xs s t Hs H Hf. pose proof (run_sound c Hs _ _ _ _ H Hf) as Hr.
  pose proof (Run_queue c Hs _ _ _ Hr) as Hq. rewrite dlv_recvs, ddl_events.
  assert (Hp : Permutation (sends_of t) (dlv t ++ ddl t)).
  { apply (Permutation_count_occ Nat.eq_dec). intros n. rewrite count_occ_app, <- nb_user, <- no_user.
    rewrite (Run_cnt (inl n) c Hs _ _ _ Hr), Hq. cbn. lia. }
  split; [exact Hp|]. split; [|exact Hq]. rewrite <- app_length. apply Permutation_length, Hp.
Qed.

(** C07: every Stop/Poison context is cancelled exactly once *)
Theorem C07_every_pill_cancelled_exactly_once_thm :
  forall f c xs s t, stopped_safe c -> run f c xs = (s, t) -> out_of_fuel t = false ->
  forall k, count_occ Nat.eq_dec (cnc t) k = if k <? npill s then 1 else 0.
Proof.
  intros f c xs s t Hs H Hf k. pose proof (run_sound c Hs _ _ _ _ H Hf) as Hr.
  rewrite <- no_pill. pose proof (Run_cnt (inr k) c Hs _ _ _ Hr) as Hc.
  rewrite (Run_queue c Hs _ _ _ Hr) in Hc. cbn [nk map list_sum fold_right] in Hc.
  rewrite nb_pill, (Run_NP c Hs _ _ _ Hr), count_seq0 in Hc. lia.
Qed.

Lemma cancelled_cnc t k : cancelled t k = true <-> In k (cnc t).
Proof.
  unfold cancelled, cnc. rewrite existsb_exists, in_flat_map. split.
  - intros (e & He & Hk). exists e. split; [exact He|]. destruct e; try discriminate. apply Nat.eqb_eq in Hk. subst. left; reflexivity.
  - intros (e & He & Hk). exists e. split; [exact He|]. destruct e; try contradiction. destruct Hk as [->|[]]. apply Nat.eqb_refl.
Qed.

Corollary C07_every_pill_cancelled_cor :
  forall f c xs s t, stopped_safe c -> run f c xs = (s, t) -> out_of_fuel t = false ->
  forall k, k < npill s -> cancelled t k = true.
Proof.
  intros f c xs s t Hs H Hf k Hk. apply cancelled_cnc.
  apply (count_occ_In Nat.eq_dec). rewrite (C07_every_pill_cancelled_exactly_once_thm _ _ _ _ _ Hs H Hf).
  apply Nat.ltb_lt in Hk. rewrite Hk. lia.
Qed.

(* ------------------------------------------------------------------ *)
(** ** Properties of the trace alone that are closed under concatenation

    A predicate that holds of the empty trace, of the trace of one engine
    operation ([send_self], [poison_self]) and of every other single event,
    and is closed under [++], holds of the trace of every completed scenario. *)
Section TraceOnly.
Variable c : cfg.
Variable Q : extop -> Prop.
Variable P : list event -> Prop.
Hypothesis P_nil : P [].
Hypothesis P_app : forall a b, P a -> P b -> P (a ++ b).
Hypothesis P_do : forall s i m s' t o, do_actions s (scr c i m) = (s', t, o) -> P t.
Hypothesis P_ext : forall s x s1 t1, Q x -> ext_pre s x = (s1, t1) -> P t1.
Hypothesis P_single : forall e, match e with Sent _ | Enq _ => False | _ => True end -> P [e].

Lemma P_cons e t : match e with Sent _ | Enq _ => False | _ => True end -> P t -> P (e :: t).
Proof. intros He Ht. apply (P_app [e] t); [apply P_single, He|exact Ht]. Qed.

Lemma recv_P s mw m s' t o : recv c s mw m = (s', t, o) -> P t.
Proof. intros H. apply recv_inv in H as (ta & -> & H). apply P_cons; [exact I|eapply P_do; exact H]. Qed.

Lemma invoke_msg_P s e s' t o : invoke_msg c s e = (s', t, o) -> P t.
Proof.
  unfold invoke_msg. destruct (emsg e); [apply recv_P|]. intros [= <- <- <-]. exact P_nil.
Qed.

Lemma discard_P e : P (discard e).
Proof. unfold discard. destruct (emsg e); apply P_single; exact I. Qed.
Lemma flat_discard_P l : P (flat_map discard l).
Proof. induction l; cbn; [exact P_nil|apply P_app; [apply discard_P|assumption]]. Qed.
Lemma discard_rest_P g l : P (discard_rest g l).
Proof.
  unfold discard_rest. induction l as [|e l IH]; cbn; [exact P_nil|]. apply P_app; [|exact IH].
  destruct (emsg e) eqn:E; [destruct g; [exact P_nil|]|]; apply discard_P.
Qed.

Lemma cleanup_P s k s' t : cleanup c s k = (s', t, Normal) -> P t.
Proof.
  intros H. apply cleanup_normal_inv in H as (s1 & t1 & E & -> & ->). apply recv_P in E.
  apply P_cons; [exact I|]. apply P_app; [exact E|]. apply P_cons; [exact I|]. apply P_cons; [exact I|].
  apply P_app; [apply flat_discard_P|]. destruct k; [apply P_single; exact I|exact P_nil].
Qed.

Lemma drain_P : forall l s n sk s' t o np sk', drain c s l n sk = (s', t, o, np, sk') -> P t.
Proof.
  induction l as [|e l IH]; intros s n sk s' t o np sk' H; cbn [drain] in H.
  - injection H as <- <- <- <- <-. exact P_nil.
  - destruct (emsg e) eqn:Ee; [|eapply IH; exact H].
    destruct (invoke_msg c s e) as [[s1 t1] o1] eqn:E1. apply invoke_msg_P in E1. destruct o1.
    + destruct (drain c s1 l (S n) sk) as [[[[s2 t2] o2] np2] sk2] eqn:E2. injection H as <- <- <- <- <-.
      apply P_app; [exact E1|eapply IH; exact E2].
    + injection H as <- <- <- <- <-. exact E1.
Qed.

Lemma invoke_loop_P (Hs : stopped_safe c) : forall l s n s' t o np d,
  invoke_loop c s l n = (s', t, o, np, d) -> P t.
Proof.
  induction l as [|e l IH]; intros s n s' t o np d H; cbn [invoke_loop] in H.
  - injection H as <- <- <- <- <-. exact P_nil.
  - destruct (emsg e) eqn:Ee.
    + destruct (invoke_msg c s e) as [[s1 t1] o1] eqn:E1. apply invoke_msg_P in E1. destruct o1.
      * destruct (invoke_loop c s1 l (S n)) as [[[[s2 t2] o2] np2] d2] eqn:E2. injection H as <- <- <- <- <-.
        apply P_app; [exact E1|eapply IH; exact E2].
      * injection H as <- <- <- <- <-. exact E1.
    + assert (Hd : exists s1 t1 o1 np1 sk1,
          (if graceful then drain c s l (S n) [] else (s, [], Normal, S n, [])) = (s1, t1, o1, np1, sk1) /\ P t1).
      { destruct graceful.
        - destruct (drain c s l (S n) []) as [[[[s1 t1] o1] np1] sk1] eqn:E1. exists s1, t1, o1, np1, sk1.
          split; [reflexivity|]. eapply drain_P; exact E1.
        - exists s, [], Normal, (S n), []. split; [reflexivity|exact P_nil]. }
      destruct Hd as (s1 & t1 & o1 & np1 & sk1 & Heq & H1). rewrite Heq in H. clear Heq. destruct o1.
      * destruct (cleanup c s1 (Some k)) as [[s2 t2] o2] eqn:E2.
        pose proof (cleanup_safe _ _ _ _ _ _ Hs E2) as ->. apply cleanup_P in E2.
        injection H as <- <- <- <- <-. apply P_app; [exact H1|]. apply P_app; [exact E2|apply discard_rest_P].
      * injection H as <- <- <- <- <-. exact H1.
Qed.

Lemma start_end_P s3 : P (snd (start_end s3)).
Proof. unfold start_end. destruct (dead s3); cbn [snd]; [exact P_nil|apply P_single; exact I]. Qed.

Theorem safe_P (Hs : stopped_safe c) :
  (forall s msgs s' t, Invoke_s c s msgs s' t -> P t) /\
  (forall s s' t, Start_s c s s' t -> P t) /\
  (forall s b s' t, Restart_s c s b s' t -> P t).
Proof.
  apply safe_mutind.
  - intros s msgs s' t np d El. eapply invoke_loop_P; eassumption.
  - intros s msgs s1 t1 b np d s' t2 El _ IH. apply P_app; [eapply invoke_loop_P; eassumption|exact IH].
  - intros s si ti b s' t' Ei _ IH. apply recv_P in Ei. apply P_cons; [exact I|]. apply P_app; assumption.
  - intros s si ti s2 ts b s' t' Ei Es _ IH. apply recv_P in Ei. apply recv_P in Es.
    apply P_cons; [exact I|]. apply P_app; [exact Ei|]. apply P_cons; [exact I|]. apply P_app; assumption.
  - intros s si ti s2 ts Ei Es Hb. apply recv_P in Ei. apply recv_P in Es.
    apply P_cons; [exact I|]. apply P_app; [exact Ei|]. apply P_cons; [exact I|]. apply P_app; [exact Es|].
    apply P_cons; [exact I|]. apply start_end_P.
  - intros s si ti s2 ts s3 t3 Ei Es Hb _ IH. apply recv_P in Ei. apply recv_P in Es.
    apply P_cons; [exact I|]. apply P_app; [exact Ei|]. apply P_cons; [exact I|]. apply P_app; [exact Es|].
    apply P_cons; [exact I|]. apply P_app; [exact IH|]. apply start_end_P.
  - intros s s1 t1 s' t' E1 _ IH. apply recv_P in E1. apply P_app; [exact E1|]. apply P_cons; [exact I|exact IH].
  - intros s s1 t1 Hmax E1. apply cleanup_P in E1. apply P_cons; [exact I|]. apply P_app; [exact E1|apply flat_discard_P].
  - intros s s1 t1 s' t3 Hne E1 _ IH. apply recv_P in E1. apply P_app; [exact E1|].
    apply P_cons; [exact I|]. apply P_cons; [exact I|exact IH].
Qed.

Lemma RunLoop_P (Hs : stopped_safe c) s s' t : RunLoop_s c s s' t -> P t.
Proof.
  induction 1 as [s E|s E Eq|s s1 t1 s2 t2 E Eq Hi _ IH]; try exact P_nil.
  apply P_app; [eapply (proj1 (safe_P Hs)); exact Hi|exact IH].
Qed.

Lemma Exts_P (Hs : stopped_safe c) s xs s' t : Forall Q xs -> Exts_s c s xs s' t -> P t.
Proof.
  intros HQ H. induction H as [s|s x s1 t1 s2 t2 xs s3 t3 Ep Hl _ IH]; [exact P_nil|].
  inversion HQ as [|? ? Hx HQ']; subst.
  apply P_app; [eapply P_ext; eassumption|]. apply P_app; [eapply RunLoop_P; eassumption|exact (IH HQ')].
Qed.

Theorem Run_P (Hs : stopped_safe c) xs s t : Forall Q xs -> Run_s c xs s t -> P t.
Proof.
  intros HQ [s0 t0 s1 t1 s2 t2 H0 H1 H2].
  apply P_app; [eapply (proj1 (proj2 (safe_P Hs))); exact H0|].
  apply P_app; [eapply RunLoop_P; eassumption|eapply Exts_P; eassumption].
Qed.

End TraceOnly.

(* ------------------------------------------------------------------ *)
(** ** Order: user messages are delivered in the order they were accepted *)
Definition uenv (l : list env) : list nat :=
  flat_map (fun e => match emsg e with User n => [n] | _ => [] end) l.
Definition uacc (t : list event) : list nat := uenv (acc t).

Lemma uenv_app a b : uenv (a ++ b) = uenv a ++ uenv b. Proof. apply flat_map_app. Qed.
Lemma uacc_app a b : uacc (a ++ b) = uacc a ++ uacc b. Proof. unfold uacc. rewrite acc_app. apply uenv_app. Qed.
Lemma dlv_cons0 e t : dlv [e] = [] -> dlv (e :: t) = dlv t.
Proof. intros H. change (e :: t) with ([e] ++ t). rewrite dlv_app, H. reflexivity. Qed.
Lemma acc_cons0 e t : acc [e] = [] -> acc (e :: t) = acc t.
Proof. intros H. change (e :: t) with ([e] ++ t). rewrite acc_app, H. reflexivity. Qed.
Lemma hev_dlv t : Forall hev t -> dlv t = [].
Proof. induction 1 as [|e t He _ IH]; [reflexivity|]. rewrite dlv_cons0; [exact IH|]. destruct e; try contradiction; reflexivity. Qed.
Lemma deadP_acc t : Forall deadP t -> acc t = [].
Proof. induction 1 as [|e t He _ IH]; [reflexivity|]. rewrite acc_cons0; [exact IH|]. destruct e; try contradiction; reflexivity. Qed.
Lemma deadP_hev t : Forall deadP t -> Forall hev t.
Proof. apply Forall_impl. intros []; cbn; tauto. Qed.

Lemma do_actions_ord acts s s' t o : do_actions s acts = (s', t, o) -> queue s' = queue s ++ acc t.
Proof.
  apply (do_actions_rel (fun s t s' => queue s' = queue s ++ acc t)).
  - intros. cbn. rewrite app_nil_r. reflexivity.
  - intros s0 t1 s1 t2 s2 H1 H2. rewrite H2, H1, acc_app, app_assoc. reflexivity.
  - intros s0 n b. unfold send_self. destruct (registered s0); cbn; rewrite ?app_nil_r; reflexivity.
  - intros s0 g. unfold poison_self. destruct (registered s0); cbn; rewrite ?app_nil_r; reflexivity.
Qed.

Definition lun (m : lmsg) : list nat := match m with LUser n => [n] | _ => [] end.

Lemma recv_ord c s mw m s' t o : recv c s mw m = (s', t, o) ->
  queue s' = queue s ++ acc t /\ dlv t = lun m /\ frame s s'.
Proof.
  intros H. apply recv_inv in H as (ta & -> & H). pose proof (do_actions_frame _ _ _ _ _ H) as [Hf Hh].
  apply do_actions_ord in H. rewrite acc_cons0 by reflexivity. split; [exact H|]. split; [|exact Hf].
  change (Recv (inc s) mw m (csender s) :: ta) with ([Recv (inc s) mw m (csender s)] ++ ta).
  rewrite dlv_app, (hev_dlv _ Hh), app_nil_r. destruct m; reflexivity.
Qed.

Lemma invoke_msg_ord c s e s' t o : invoke_msg c s e = (s', t, o) ->
  queue s' = queue s ++ acc t /\ dlv t = uenv [e] /\ dead s' = dead s.
Proof.
  unfold invoke_msg, uenv. cbn [flat_map]. destruct (emsg e).
  - intros H. apply recv_ord in H as (H1 & H2 & (_&_&_&_&Hd&_)). cbn in *. rewrite ?app_nil_r. repeat split; assumption.
  - intros [= <- <- <-]. cbn. rewrite ?app_nil_r. repeat split.
Qed.

Lemma cleanup_ord c s k s' t : cleanup c s k = (s', t, Normal) -> dlv t = [] /\ dead s' = true.
Proof.
  intros H. apply cleanup_normal_inv in H as (s1 & t1 & E & -> & ->).
  apply recv_ord in E as (_ & E & (_&_&_&_&Hd&_)). cbn in Hd. split; [|exact Hd].
  rewrite dlv_cons0 by reflexivity. rewrite dlv_app, E. cbn [lun app]. rewrite !dlv_cons0 by reflexivity.
  rewrite dlv_app, (hev_dlv _ (flat_discard_hev _)). destruct k; reflexivity.
Qed.

Lemma uenv_cons e l : uenv (e :: l) = uenv [e] ++ uenv l.
Proof. change (e :: l) with ([e] ++ l). apply uenv_app. Qed.

Lemma uenv_pill e l : (match emsg e with Pill _ _ => True | _ => False end) -> uenv (e :: l) = uenv l.
Proof. unfold uenv. cbn [flat_map]. destruct (emsg e); [contradiction|reflexivity]. Qed.

Lemma drain_ord c : forall l s n sk s' t o np sk', drain c s l n sk = (s', t, o, np, sk') ->
  queue s' = queue s ++ acc t /\ dlv t = uenv (firstn (np - n) l) /\ uenv sk' = uenv sk /\ dead s' = dead s.
Proof.
  induction l as [|e l IH]; intros s n sk s' t o np sk' H.
  - cbn [drain] in H. injection H as <- <- <- <- <-. cbn. rewrite app_nil_r, Nat.sub_diag. repeat split.
  - pose proof (drain_cnt (inl 0) c _ _ _ _ _ _ _ _ _ H) as (B1 & B2 & _). cbn [drain] in H.
    destruct (emsg e) eqn:Ee.
    + destruct (invoke_msg c s e) as [[s1 t1] o1] eqn:E1. apply invoke_msg_ord in E1 as (Q1 & D1 & X1). destruct o1.
      * destruct (drain c s1 l (S n) sk) as [[[[s2 t2] o2] np2] sk2] eqn:E2. injection H as <- <- <- <- <-.
        pose proof (drain_cnt (inl 0) c _ _ _ _ _ _ _ _ _ E2) as (B3 & _).
        apply IH in E2 as (Q2 & D2 & U2 & X2).
        replace (np2 - n) with (S (np2 - S n)) by lia. cbn [firstn].
        rewrite acc_app, dlv_app, Q2, Q1, D1, D2, app_assoc, (uenv_cons e (firstn (np2 - S n) l)). repeat split; try assumption; congruence.
      * injection H as <- <- <- <- <-. replace (S n - n) with 1 by lia. cbn [firstn]. repeat split; assumption.
    + pose proof (drain_cnt (inl 0) c _ _ _ _ _ _ _ _ _ H) as (B3 & _).
      apply IH in H as (Q2 & D2 & U2 & X2). replace (np - n) with (S (np - S n)) by lia. cbn [firstn].
      rewrite uenv_pill by (rewrite Ee; exact I). rewrite uenv_app in U2.
      rewrite (uenv_pill e []) in U2 by (rewrite Ee; exact I). cbn in U2. rewrite app_nil_r in U2.
      repeat split; assumption.
Qed.

Lemma uenv_firstn_skipn j l : uenv l = uenv (firstn j l) ++ uenv (skipn j l).
Proof. rewrite <- uenv_app, firstn_skipn. reflexivity. Qed.

Lemma invoke_loop_ord c (Hs : stopped_safe c) : forall l s n s' t o np d,
  invoke_loop c s l n = (s', t, o, np, d) -> dead s = false ->
  exists rest, uenv l = dlv t ++ rest /\ (o <> Normal -> dead s' = false) /\
    (dead s' = false -> queue s' = queue s ++ acc t /\
       rest = match o with Normal => [] | _ => uenv d ++ uenv (skipn (np - n) l) end).
Proof.
  induction l as [|e l IH]; intros s n s' t o np d H Hd.
  - cbn [invoke_loop] in H. injection H as <- <- <- <- <-. exists []. cbn. rewrite app_nil_r. repeat split. congruence.
  - pose proof (invoke_loop_cnt (inl 0) c Hs _ _ _ _ _ _ _ _ H) as [B1 _]. cbn [invoke_loop] in H.
    destruct (emsg e) eqn:Ee.
    + assert (Hue : uenv (e :: l) = n0 :: uenv l) by (unfold uenv; cbn [flat_map]; rewrite Ee; reflexivity).
      destruct (invoke_msg c s e) as [[s1 t1] o1] eqn:E1. apply invoke_msg_ord in E1 as (Q1 & D1 & X1).
      assert (D1' : dlv t1 = [n0]) by (rewrite D1; unfold uenv; cbn [flat_map]; rewrite Ee; reflexivity).
      destruct o1.
      * destruct (invoke_loop c s1 l (S n)) as [[[[s2 t2] o2] np2] d2] eqn:E2. injection H as <- <- <- <- <-.
        pose proof (invoke_loop_cnt (inl 0) c Hs _ _ _ _ _ _ _ _ E2) as [B2 _].
        apply IH in E2 as (rest & R1 & R2 & R3); [|congruence]. exists rest.
        rewrite Hue, dlv_app, D1', R1. split; [reflexivity|]. split; [exact R2|]. intros Hd'.
        destruct (R3 Hd') as [Q2 R4]. rewrite acc_app, Q2, Q1, app_assoc. split; [reflexivity|].
        replace (np2 - n) with (S (np2 - S n)) by lia. exact R4.
      * injection H as <- <- <- <- <-. exists (uenv l). rewrite Hue, D1'. split; [reflexivity|].
        split; [intros _; congruence|]. intros _. split; [exact Q1|]. replace (S n - n) with 1 by lia. reflexivity.
    + assert (Hue : uenv (e :: l) = uenv l) by (apply uenv_pill; rewrite Ee; exact I).
      destruct graceful.
      * destruct (drain c s l (S n) []) as [[[[s1 t1] o1] np1] sk1] eqn:E1.
        pose proof (drain_cnt (inl 0) c _ _ _ _ _ _ _ _ _ E1) as (D1 & D2 & D3 & _).
        apply drain_ord in E1 as (Q1 & L1 & U1 & X1). destruct o1.
        -- destruct (cleanup c s1 (Some k)) as [[s2 t2] o2] eqn:E2.
           pose proof (cleanup_safe _ _ _ _ _ _ Hs E2) as ->. apply cleanup_ord in E2 as [C1 C2].
           injection H as <- <- <- <- <-. exists []. specialize (D3 eq_refl).
           replace (np1 - S n) with (length l) in L1 by lia. rewrite firstn_all in L1.
           rewrite Hue, !dlv_app, C1, (hev_dlv _ (discard_rest_hev _ _)), L1, !app_nil_r.
           split; [reflexivity|]. split; [congruence|]. intros; congruence.
        -- injection H as <- <- <- <- <-. exists (uenv (skipn (np1 - S n) l)).
           rewrite Hue, L1. split; [apply uenv_firstn_skipn|]. split; [intros _; congruence|].
           intros _. split; [exact Q1|]. replace (np1 - n) with (S (np1 - S n)) by lia. cbn [skipn].
           rewrite uenv_pill by (rewrite Ee; exact I). rewrite U1. reflexivity.
      * destruct (cleanup c s (Some k)) as [[s2 t2] o2] eqn:E2.
        pose proof (cleanup_safe _ _ _ _ _ _ Hs E2) as ->. apply cleanup_ord in E2 as [C1 C2].
        injection H as <- <- <- <- <-. exists (uenv l). cbn [app].
        rewrite Hue, !dlv_app, C1, (hev_dlv _ (discard_rest_hev _ _)).
        split; [reflexivity|]. split; [congruence|]. intros; congruence.
Qed.

Theorem safe_ord c (Hs : stopped_safe c) :
  (forall s msgs s' t, Invoke_s c s msgs s' t -> dead s = false ->
     exists rest, uenv msgs = dlv t ++ rest /\ (dead s' = false -> rest = [] /\ queue s' = queue s ++ acc t)) /\
  (forall s s' t, Start_s c s s' t -> dead s = false ->
     exists rest, uenv (mbuf s) = dlv t ++ rest /\ (dead s' = false -> rest = [] /\ queue s' = queue s ++ acc t)) /\
  (forall s b s' t, Restart_s c s b s' t -> dead s = false ->
     exists rest, uenv (mbuf s) = dlv t ++ rest /\ (dead s' = false -> rest = [] /\ queue s' = queue s ++ acc t)).
Proof.
  apply safe_mutind.
  - intros s msgs s' t np d El Hd. apply (invoke_loop_ord c Hs) in El as (rest & R1 & _ & R3); [|exact Hd].
    exists rest. split; [exact R1|]. intros Hd'. destruct (R3 Hd') as [Q R]. split; assumption.
  - intros s msgs s1 t1 b np d s' t2 El _ IH Hd.
    apply (invoke_loop_ord c Hs) in El as (rest & R1 & R2 & R3); [|exact Hd].
    assert (Hd1 : dead s1 = false) by (apply R2; discriminate). destruct (R3 Hd1) as [Q1 R4].
    destruct (IH Hd1) as (rest2 & S1 & S2). cbn [mbuf upd_mbuf queue] in S1, S2. unfold rbuf in S1.
    rewrite uenv_app, Nat.sub_0_r in *. exists rest2. rewrite dlv_app, R1, R4, S1, app_assoc. split; [reflexivity|].
    intros Hd'. destruct (S2 Hd') as [-> Q2]. split; [reflexivity|]. rewrite Q2, Q1, acc_app, app_assoc. reflexivity.
  - intros s si ti b s' t' Ei _ IH Hd.
    apply recv_ord in Ei as (Q1 & D1 & (_&_&Hm&_&Hdd&_)). cbn in Q1, D1, Hm, Hdd.
    destruct IH as (rest & S1 & S2); [congruence|]. exists rest.
    rewrite dlv_cons0, acc_cons0 by reflexivity. rewrite dlv_app, D1, acc_app, <- Hm. split; [exact S1|].
    intros Hd'. destruct (S2 Hd') as [-> Q2]. split; [reflexivity|]. rewrite Q2, Q1, app_assoc. reflexivity.
  - intros s si ti s2 ts b s' t' Ei Es _ IH Hd.
    apply recv_ord in Ei as (Q1 & D1 & (_&_&Hm&_&Hdd&_)). cbn in Q1, D1, Hm, Hdd.
    apply recv_ord in Es as (Q2 & D2 & (_&_&Hm2&_&Hdd2&_)). cbn in D2.
    destruct IH as (rest & S1 & S2); [congruence|]. exists rest.
    rewrite dlv_cons0, acc_cons0 by reflexivity. rewrite dlv_app, D1, acc_app.
    rewrite dlv_cons0, acc_cons0 by reflexivity. rewrite dlv_app, D2, acc_app, <- Hm, <- Hm2. split; [exact S1|].
    intros Hd'. destruct (S2 Hd') as [-> Q3]. split; [reflexivity|]. rewrite Q3, Q2, Q1, !app_assoc. reflexivity.
  - intros s si ti s2 ts Ei Es Hb Hd.
    apply recv_ord in Ei as (Q1 & D1 & (_&_&Hm&_&Hdd&_)). cbn in Q1, D1, Hm, Hdd.
    apply recv_ord in Es as (Q2 & D2 & (_&_&Hm2&_&Hdd2&_)). cbn in D2.
    exists []. rewrite <- Hm, <- Hm2, Hb.
    rewrite dlv_cons0, acc_cons0 by reflexivity. rewrite dlv_app, D1, acc_app.
    rewrite dlv_cons0, acc_cons0 by reflexivity. rewrite dlv_app, D2, acc_app.
    rewrite dlv_cons0, acc_cons0 by reflexivity.
    unfold start_end. destruct (dead s2); cbn [fst snd queue upd_istopped dlv acc flat_map app];
      (split; [reflexivity|]); intros _; (split; [reflexivity|]); rewrite Q2, Q1, ?app_nil_r, app_assoc; reflexivity.
  - intros s si ti s2 ts s3 t3 Ei Es Hb _ IH Hd.
    apply recv_ord in Ei as (Q1 & D1 & (_&_&Hm&_&Hdd&_)). cbn in Q1, D1, Hm, Hdd.
    apply recv_ord in Es as (Q2 & D2 & (_&_&Hm2&_&Hdd2&_)). cbn in D2.
    destruct IH as (rest & S1 & S2); [congruence|]. exists rest. rewrite <- Hm, <- Hm2.
    rewrite dlv_cons0, acc_cons0 by reflexivity. rewrite dlv_app, D1, acc_app.
    rewrite dlv_cons0, acc_cons0 by reflexivity. rewrite dlv_app, D2, acc_app.
    rewrite dlv_cons0, acc_cons0 by reflexivity. rewrite dlv_app, acc_app.
    unfold start_end. change (dead (upd_mbuf s3 [])) with (dead s3).
    destruct (dead s3) eqn:Hd3; cbn [fst snd queue upd_istopped upd_mbuf dlv acc flat_map app dead];
      rewrite ?app_nil_r; (split; [exact S1|]); intros Hd'; [congruence|].
    destruct (S2 eq_refl) as [-> Q3]. split; [reflexivity|]. rewrite Q3, Q2, Q1, !app_assoc. reflexivity.
  - intros s s1 t1 s' t' E1 _ IH Hd.
    apply recv_ord in E1 as (Q1 & D1 & (_&_&Hm&_&Hdd&_)). cbn in D1.
    destruct IH as (rest & S1 & S2); [congruence|]. exists rest. rewrite <- Hm.
    rewrite dlv_app, D1, acc_app. rewrite dlv_cons0, acc_cons0 by reflexivity. split; [exact S1|].
    intros Hd'. destruct (S2 Hd') as [-> Q2]. split; [reflexivity|]. rewrite Q2, Q1, app_assoc. reflexivity.
  - intros s s1 t1 Hmax E1 Hd. apply cleanup_ord in E1 as [C1 C2]. exists (uenv (mbuf s)).
    rewrite dlv_cons0 by reflexivity. rewrite dlv_app, C1, (hev_dlv _ (flat_discard_hev _)).
    split; [reflexivity|]. cbn [dead upd_mbuf]. intros; congruence.
  - intros s s1 t1 s' t3 Hne E1 _ IH Hd.
    apply recv_ord in E1 as (Q1 & D1 & (_&_&Hm&_&Hdd&_)). cbn in D1.
    destruct IH as (rest & S1 & S2); [cbn; congruence|]. cbn [mbuf queue upd_restarts] in S1, S2.
    exists rest. rewrite <- Hm. rewrite dlv_app, D1, acc_app. rewrite !dlv_cons0, !acc_cons0 by reflexivity.
    split; [exact S1|]. intros Hd'. destruct (S2 Hd') as [-> Q2]. split; [reflexivity|]. rewrite Q2, Q1, app_assoc. reflexivity.
Qed.

(** *** Scenario level *)
Definition OL (s : pst) (t : list event) (s' : pst) : Prop :=
  exists rest, uenv (queue s) ++ uacc t = dlv t ++ rest /\ (dead s' = false -> rest = uenv (queue s')).

Lemma OL_refl s : OL s [] s.
Proof. exists (uenv (queue s)). cbn. rewrite app_nil_r. split; [reflexivity|intros _; reflexivity]. Qed.

Lemma OL_trans s t1 s1 t2 s2 : OL s t1 s1 -> OL s1 t2 s2 ->
  (dead s1 = true -> dlv t2 = [] /\ dead s2 = true) -> OL s (t1 ++ t2) s2.
Proof.
  intros (r1 & E1 & C1) (r2 & E2 & C2) Hd. unfold OL. rewrite uacc_app, dlv_app. destruct (dead s1) eqn:D1.
  - destruct (Hd eq_refl) as [D2 D3]. exists (r1 ++ uacc t2). rewrite D2, app_nil_r, app_assoc, E1, app_assoc.
    split; [reflexivity|]. congruence.
  - rewrite (C1 eq_refl) in E1. exists r2. rewrite app_assoc, E1, <- !app_assoc, E2. split; [reflexivity|exact C2].
Qed.

Lemma opened_dead s : opened s -> dead s = true -> gone s.
Proof. intros [[[H _] _]|H] E; [congruence|exact H]. Qed.

Lemma RunLoop_gone c s s' t : RunLoop_s c s s' t -> istatus_stopped s = true -> s' = s /\ t = [].
Proof. intros H E. destruct H; [split; reflexivity|congruence|congruence]. Qed.

Section OrderRun.
Variable c : cfg.
Hypothesis Hs : stopped_safe c.

Lemma RunLoop_OL s s' t : RunLoop_s c s s' t -> opened s -> OL s t s'.
Proof.
  induction 1 as [s E|s E Eq|s s1 t1 s2 t2 E Eq Hi Hl IH]; intros Ho; try apply OL_refl.
  pose proof (opened_mfin_alive _ Ho E) as Ha.
  destruct (proj1 (safe_mon c Hs) _ _ _ _ Hi) as [_ Hd]; [exact Ha|]. cbn [istatus_stopped upd_queue] in Hd.
  assert (Ho1 : opened s1) by (destruct Hd as [[? H1]|?]; [left; split; [assumption|exact (H1 E)]|right; assumption]).
  destruct (proj1 (safe_ord c Hs) _ _ _ _ Hi) as (r1 & E1 & C1); [apply Ha|]. cbn [queue upd_queue] in C1.
  apply OL_trans with (s1 := s1).
  - exists (r1 ++ uenv (skipn (batch c) (queue s)) ++ uacc t1).
    rewrite (uenv_firstn_skipn (batch c) (queue s)) at 1. rewrite E1, <- !app_assoc. split; [reflexivity|].
    intros D. destruct (C1 D) as [-> ->]. unfold uacc. rewrite uenv_app. reflexivity.
  - apply IH, Ho1.
  - intros D. destruct (opened_dead _ Ho1 D) as (_ & _ & Hst & _).
    destruct (RunLoop_gone _ _ _ _ Hl Hst) as [-> ->]. split; [reflexivity|exact D].
Qed.

Lemma ext_pre_ord s x s1 t1 : ext_pre s x = (s1, t1) ->
  queue s1 = queue s ++ acc t1 /\ dlv t1 = [] /\ dead s1 = dead s.
Proof.
  destruct x; cbn [ext_pre]; unfold send_self, poison_self; destruct (registered s); intros [= <- <-];
    cbn; rewrite ?app_nil_r; repeat split.
Qed.

Lemma ext_pre_OL s x s1 t1 : ext_pre s x = (s1, t1) -> OL s t1 s1.
Proof.
  intros H. apply ext_pre_ord in H as (Q & D & _). exists (uenv (queue s1)).
  rewrite D, Q. unfold uacc. rewrite uenv_app. split; [reflexivity|intros _; reflexivity].
Qed.

Lemma Exts_gone s xs s' t : Exts_s c s xs s' t -> gone s -> dlv t = [] /\ dead s' = true.
Proof.
  induction 1 as [s|s x s1 t1 s2 t2 xs s3 t3 Ep Hl _ IH]; intros Hg; [split; [reflexivity|apply Hg]|].
  destruct (ext_pre_mon _ _ _ _ Ep (or_intror Hg)) as [_ Ho1].
  apply ext_pre_ord in Ep as (_ & D1 & X1). assert (D : dead s1 = true) by (rewrite X1; apply Hg).
  pose proof (opened_dead _ Ho1 D) as Hg1. destruct Hg1 as (_ & _ & Hst & _).
  destruct (RunLoop_gone _ _ _ _ Hl Hst) as [-> ->].
  destruct (IH (opened_dead _ Ho1 D)) as [D3 X3]. rewrite !dlv_app, D1, D3. split; [reflexivity|exact X3].
Qed.

Lemma Exts_OL s xs s' t : Exts_s c s xs s' t -> opened s -> OL s t s'.
Proof.
  induction 1 as [s|s x s1 t1 s2 t2 xs s3 t3 Ep Hl He IH]; intros Ho; [apply OL_refl|].
  destruct (ext_pre_mon _ _ _ _ Ep Ho) as [_ Ho1]. destruct (RunLoop_mon c Hs _ _ _ Hl Ho1) as [_ Ho2].
  apply OL_trans with (s1 := s1); [eapply ext_pre_OL; exact Ep| |].
  - apply OL_trans with (s1 := s2); [apply (RunLoop_OL _ _ _ Hl), Ho1|apply IH, Ho2|].
    intros D. apply (Exts_gone _ _ _ _ He (opened_dead _ Ho2 D)).
  - intros D. destruct (opened_dead _ Ho1 D) as (_ & _ & Hst & _).
    destruct (RunLoop_gone _ _ _ _ Hl Hst) as [-> ->]. cbn [app].
    apply (Exts_gone _ _ _ _ He (opened_dead _ Ho1 D)).
Qed.

Theorem Run_ord xs s t : Run_s c xs s t ->
  exists rest, uacc t = dlv t ++ rest /\ (dead s = false -> rest = []).
Proof.
  intros Hr. pose proof (Run_queue c Hs _ _ _ Hr) as Hq. destruct Hr as [s0 t0 s1 t1 s2 t2 H0 H1 H2].
  destruct (Start_init_mon c Hs _ _ H0) as [_ Ho0]. destruct (RunLoop_mon c Hs _ _ _ H1 Ho0) as [_ Ho1].
  assert (L0 : OL init_pst t0 s0).
  { destruct (proj1 (proj2 (safe_ord c Hs)) _ _ _ H0 eq_refl) as (r & E & C). cbn [mbuf queue init_pst] in E, C.
    symmetry in E. apply app_eq_nil in E as [E ->]. exists (uacc t0). cbn [queue init_pst uenv flat_map app]. rewrite E.
    split; [reflexivity|]. intros D. destruct (C D) as [_ ->]. reflexivity. }
  assert (L : OL init_pst (t0 ++ t1 ++ t2) s2).
  { apply OL_trans with (s1 := s0); [exact L0| |].
    - apply OL_trans with (s1 := s1); [apply (RunLoop_OL _ _ _ H1), Ho0|apply (Exts_OL _ _ _ _ H2), Ho1|].
      intros D. apply (Exts_gone _ _ _ _ H2 (opened_dead _ Ho1 D)).
    - intros D. destruct (opened_dead _ Ho0 D) as (_ & _ & Hst & _).
      destruct (RunLoop_gone _ _ _ _ H1 Hst) as [-> ->]. cbn [app].
      apply (Exts_gone _ _ _ _ H2 (opened_dead _ Ho0 D)). }
  destruct L as (rest & E & C). cbn [queue init_pst uenv flat_map app] in E. exists rest. split; [exact E|].
  intros D. rewrite (C D), Hq. reflexivity.
Qed.

End OrderRun.

(** *** Subsequences *)
Inductive Subseq {A} : list A -> list A -> Prop :=
| SubNil : Subseq [] []
| SubSkip a l1 l2 : Subseq l1 l2 -> Subseq l1 (a :: l2)
| SubTake a l1 l2 : Subseq l1 l2 -> Subseq (a :: l1) (a :: l2).

Lemma Subseq_nil_l {A} (l : list A) : Subseq [] l.
Proof. induction l; [constructor|apply SubSkip; assumption]. Qed.
Lemma Subseq_refl {A} (l : list A) : Subseq l l.
Proof. induction l; [constructor|apply SubTake; assumption]. Qed.
Lemma Subseq_app {A} (a1 b1 a2 b2 : list A) : Subseq a1 b1 -> Subseq a2 b2 -> Subseq (a1 ++ a2) (b1 ++ b2).
Proof. induction 1; intros H2; cbn; [exact H2|apply SubSkip; auto|apply SubTake; auto]. Qed.
Lemma Subseq_drop_tail {A} : forall (b d r : list A), Subseq (d ++ r) b -> Subseq d b.
Proof.
  induction b as [|x b IH]; intros d r H.
  - inversion H as [E| |]. destruct d; [constructor|discriminate].
  - inversion H as [|a l1 l2 H1|a l1 l2 H1 E]; subst.
    + apply SubSkip. eapply IH; exact H1.
    + destruct d as [|y d]; [apply Subseq_nil_l|]. cbn in E. injection E as -> ->. apply SubTake. eapply IH; exact H1.
Qed.
Lemma Subseq_drop_head {A} : forall (b a : list A) x, Subseq (x :: a) b -> Subseq a b.
Proof.
  induction b as [|y b IH]; intros a x H; inversion H as [|z l1 l2 H1|z l1 l2 H1]; subst.
  - apply SubSkip. eapply IH; exact H1.
  - apply SubSkip. exact H1.
Qed.
Lemma Subseq_In {A} (a b : list A) : Subseq a b -> forall x, In x a -> In x b.
Proof. induction 1; intros x Hx; [exact Hx|right; auto|destruct Hx as [->|Hx]; [left; reflexivity|right; auto]]. Qed.
Lemma Subseq_NoDup {A} (a b : list A) : Subseq a b -> NoDup b -> NoDup a.
Proof.
  induction 1 as [|x l1 l2 H IH|x l1 l2 H IH]; intros Hn; [constructor| |]; inversion Hn as [|? ? Hx Hn']; subst.
  - apply IH, Hn'.
  - constructor; [|apply IH, Hn']. intros Hin. apply Hx. eapply Subseq_In; eassumption.
Qed.

Lemma subseqb_complete : forall b a, Subseq a b -> subseqb a b = true.
Proof.
  induction b as [|y b IH]; intros a H.
  - inversion H. reflexivity.
  - destruct a as [|x a]; [reflexivity|]. cbn [subseqb]. destruct (x =? y) eqn:E.
    + apply IH. inversion H as [|z l1 l2 H1|z l1 l2 H1]; subst; [eapply Subseq_drop_head; exact H1|exact H1].
    + apply IH. inversion H as [|z l1 l2 H1|z l1 l2 H1]; subst; [exact H1|]. rewrite Nat.eqb_refl in E. discriminate.
Qed.

Lemma nodupb_complete l : NoDup l -> nodupb l = true.
Proof.
  induction 1 as [|x l Hx _ IH]; [reflexivity|]. cbn [nodupb]. rewrite IH, andb_true_r.
  apply negb_true_iff. apply not_true_is_false. intros H. apply existsb_exists in H as (y & Hy & E).
  apply Nat.eqb_eq in E. subst. contradiction.
Qed.

(* what was accepted into the inbox was sent, in that order *)
Lemma acc_sub_sends c (Hs : stopped_safe c) xs s t : Run_s c xs s t -> Subseq (uacc t) (sends_of t).
Proof.
  assert (Hsend : forall s0 n b, Subseq (uacc (snd (send_self s0 {| emsg := User n; esnd := b |})))
                                        (sends_of (snd (send_self s0 {| emsg := User n; esnd := b |}))))
    by (intros s0 n b; unfold send_self; destruct (registered s0); cbn; first [apply Subseq_refl|apply Subseq_nil_l]).
  assert (Hpois : forall s0 g, Subseq (uacc (snd (poison_self s0 g))) (sends_of (snd (poison_self s0 g))))
    by (intros s0 g; unfold poison_self; destruct (registered s0); cbn; apply Subseq_nil_l).
  assert (Happ : forall a b, Subseq (uacc a) (sends_of a) -> Subseq (uacc b) (sends_of b) -> Subseq (uacc (a ++ b)) (sends_of (a ++ b)))
    by (intros a b Ha Hb; rewrite uacc_app, sends_of_app; apply Subseq_app; assumption).
  intros Hr. apply (Run_P c (fun _ => True) (fun t => Subseq (uacc t) (sends_of t))) with (xs := xs) (s := s); try assumption.
  - constructor.
  - intros s0 i m s' t0 o. apply (do_actions_rel (fun _ t _ => Subseq (uacc t) (sends_of t))); auto. intros; constructor.
  - intros s0 x s1 t1 _ H. destruct x; cbn [ext_pre] in H.
    + specialize (Hsend s0 n false). rewrite H in Hsend. exact Hsend.
    + specialize (Hpois s0 true). rewrite H in Hpois. exact Hpois.
    + specialize (Hpois s0 false). rewrite H in Hpois. exact Hpois.
  - intros e He. destruct e as [ | | | | | | |[]| | | | | | | | | ]; cbn; try contradiction; apply Subseq_nil_l.
  - apply Forall_forall. intros; exact I.
Qed.

(** C05: the user messages delivered are exactly a prefix of the user
    messages accepted into the inbox, in acceptance order — each once (by
    position, not by value), the failing message not again, everything queued
    behind it before anything sent later; what was accepted is a subsequence
    of what was sent; if the actor is still alive everything accepted has
    been delivered *)
Theorem C05_delivered_in_send_order_exactly_once_thm :
  forall f c xs s t, stopped_safe c -> run f c xs = (s, t) -> out_of_fuel t = false ->
  (exists rest, uacc t = dlv t ++ rest /\ (dead s = false -> rest = [])) /\
  Subseq (uacc t) (sends_of t) /\
  Subseq (user_payloads (recvs_of t)) (sends_of t) /\
  (NoDup (sends_of t) -> NoDup (user_payloads (recvs_of t))).
Proof.
  intros f c xs s t Hs H Hf. pose proof (run_sound c Hs _ _ _ _ H Hf) as Hr.
  pose proof (Run_ord c Hs _ _ _ Hr) as (rest & E & C). pose proof (acc_sub_sends c Hs _ _ _ Hr) as Hsub.
  assert (Hd : Subseq (dlv t) (sends_of t)) by (rewrite E in Hsub; eapply Subseq_drop_tail; exact Hsub).
  rewrite dlv_recvs. split; [exists rest; split; assumption|]. split; [exact Hsub|]. split; [exact Hd|].
  apply Subseq_NoDup, Hd.
Qed.

(* ------------------------------------------------------------------ *)
(** * E. Statements on [invoke_loop] and on Spawn *)

(** C07: poison pills are private to the engine *)
Theorem C07_pills_invisible_thm :
  forall c s g k b, invoke_msg c s {| emsg := Pill g k; esnd := b |} = (s, [], Normal).
Proof. reflexivity. Qed.

Definition is_user (e : env) : Prop := match emsg e with User _ => True | _ => False end.

Lemma invoke_msg_no_stop c s e s' t o : invoke_msg c s e = (s', t, o) -> Forall (fun ev => ev <> InboxStop) t.
Proof.
  unfold invoke_msg. destruct (emsg e).
  - intros H. apply recv_inv in H as (ta & -> & H). apply do_actions_frame in H as [_ Hh].
    constructor; [discriminate|]. revert Hh. apply Forall_impl. intros []; cbn; try contradiction; discriminate.
  - intros [= <- <- <-]. constructor.
Qed.

Lemma drain_no_stop c : forall l s n sk s' t o np sk', drain c s l n sk = (s', t, o, np, sk') ->
  Forall (fun ev => ev <> InboxStop) t.
Proof.
  induction l as [|e l IH]; intros s n sk s' t o np sk' H; cbn [drain] in H.
  - injection H as <- <- <- <- <-. constructor.
  - destruct (emsg e) eqn:Ee; [|eapply IH; exact H].
    destruct (invoke_msg c s e) as [[s1 t1] o1] eqn:E1. apply invoke_msg_no_stop in E1. destruct o1.
    + destruct (drain c s1 l (S n) sk) as [[[[s2 t2] o2] np2] sk2] eqn:E2. injection H as <- <- <- <- <-.
      apply Forall_app; split; [exact E1|eapply IH; exact E2].
    + injection H as <- <- <- <- <-. exact E1.
Qed.

(** C07: a graceful pill drains first: every user envelope of its batch — those
    before it and those behind it — has been delivered when the inbox is
    stopped by its cleanup, and its context is cancelled after that *)
Theorem C07_graceful_pill_drains_first_thm c : forall pre k b post s n s' t np d,
  Forall is_user pre ->
  invoke_loop c s (pre ++ {| emsg := Pill true k; esnd := b |} :: post) n = (s', t, Normal, np, d) ->
  exists t1 t2, t = t1 ++ InboxStop :: t2 /\ dlv t1 = uenv pre ++ uenv post /\
                Forall (fun ev => ev <> InboxStop) t1 /\ In (Cancel k) t2.
Proof.
  induction pre as [|e pre IH]; intros k b post s n s' t np d Hu H.
  - cbn [app invoke_loop emsg] in H.
    destruct (drain c s post (S n) []) as [[[[s1 t1] o1] np1] sk1] eqn:E1.
    pose proof (drain_cnt (inl 0) c _ _ _ _ _ _ _ _ _ E1) as (D1 & D2 & D3 & _).
    pose proof (drain_no_stop c _ _ _ _ _ _ _ _ _ E1) as Hn.
    apply drain_ord in E1 as (_ & L1 & _). destruct o1; [|discriminate].
    destruct (cleanup c s1 (Some k)) as [[s2 t2] o2] eqn:E2. destruct o2; [|discriminate].
    injection H as <- <- <- <-. apply cleanup_normal_inv in E2 as (sx & tx & _ & _ & ->).
    exists t1. eexists. split; [cbn [app]; reflexivity|]. specialize (D3 eq_refl).
    replace (np1 - S n) with (length post) in L1 by lia. rewrite firstn_all in L1.
    split; [exact L1|]. split; [exact Hn|]. apply in_or_app. left. apply in_or_app. right. right. right.
    apply in_or_app. right. left. reflexivity.
  - inversion Hu as [|? ? He Hu']; subst. cbn [app invoke_loop] in H. unfold is_user in He.
    destruct (emsg e) eqn:Ee; [|contradiction].
    destruct (invoke_msg c s e) as [[s1 ta] o1] eqn:E1. pose proof (invoke_msg_no_stop _ _ _ _ _ _ E1) as Hn.
    apply invoke_msg_ord in E1 as (_ & D1 & _). destruct o1; [|discriminate].
    destruct (invoke_loop c s1 _ (S n)) as [[[[s2 t2] o2] np2] d2] eqn:E2. injection H as <- <- -> <- <-.
    apply IH in E2 as (t1 & t3 & -> & L & Hn2 & Hc); [|exact Hu'].
    exists (ta ++ t1), t3. rewrite <- app_assoc. split; [reflexivity|].
    rewrite dlv_app, D1, L, (uenv_cons e pre), <- app_assoc. split; [reflexivity|].
    split; [apply Forall_app; split; assumption|exact Hc].
Qed.

(** C04: Spawn.  Nothing is delivered to a user handler inside Start of a
    fresh actor: whatever was sent to the PID during Initialized / Started is
    retained in the inbox, in order; and when Start returns with the actor
    alive, its current incarnation has handled Started *)
Theorem C04_spawn_returns_after_started_thm :
  forall f c s1 t1 o1, stopped_safe c -> start f c init_pst = (s1, t1, o1) -> out_of_fuel t1 = false ->
  o1 = Normal /\ dlv t1 = [] /\
  (dead s1 = false ->
     queue s1 = acc t1 /\ exists t0 sd t2, t1 = t0 ++ Recv (inc s1) true LStarted sd :: t2).
Proof.
  intros f c s1 t1 o1 Hs H Hf. destruct (proj1 (proj2 (safe_sound c Hs f)) _ _ _ _ H Hf) as [-> Hst].
  split; [reflexivity|].
  destruct (proj1 (proj2 (safe_ord c Hs)) _ _ _ Hst eq_refl) as (rest & E & C). cbn [mbuf queue init_pst] in E, C.
  symmetry in E. apply app_eq_nil in E as [E _]. split; [exact E|]. intros D. destruct (C D) as [_ Q].
  split; [exact Q|]. destruct (Start_init_mon c Hs _ _ Hst) as [Hm _].
  assert (Hf' : mfin s1 = MS (inc s1) 2 PRun) by (unfold mfin; rewrite D; reflexivity). rewrite Hf' in Hm.
  destruct (mrun_reach_run _ _ _ Hm eq_refl) as [([Hk|Hk] & _)|Hx]; [discriminate Hk|discriminate Hk|exact Hx].
Qed.

(* when neither Initialized nor Started panics, the first incarnation handles Started inside Spawn *)
Lemma start_nopanic_started c f s :
  Forall nopanic (scr c (S (inc s)) LInit) -> Forall nopanic (scr c (S (inc s)) LStarted) ->
  exists sd, In (Recv (S (inc s)) true LStarted sd) (snd (fst (start (S f) c s))).
Proof.
  intros Hi Hst. rewrite start_S. cbv zeta.
  destruct (recv c (upd_inc s (S (inc s))) true LInit) as [[s1 ti] oi] eqn:Ei.
  pose proof Ei as Ei'. apply recv_inv in Ei' as (ta & -> & Hda). cbn [inc upd_inc] in Hda.
  pose proof (do_actions_nopanic _ Hi _ _ _ _ Hda) as ->. apply do_actions_frame in Hda as [(Hinc & _) _].
  cbn [inc upd_inc] in Hinc.
  destruct (recv c s1 true LStarted) as [[s2 ts] os] eqn:Es.
  pose proof Es as Es'. apply recv_inv in Es' as (tb & -> & Hdb). rewrite Hinc in Hdb.
  pose proof (do_actions_nopanic _ Hst _ _ _ _ Hdb) as ->. exists (csender s1). rewrite Hinc.
  set (R := Recv (S (inc s)) true LStarted (csender s1)).
  assert (Hin : forall tl, In R (([Produce (inc (upd_inc s (S (inc s))))] ++ (Recv (inc (upd_inc s (S (inc s)))) true LInit (csender (upd_inc s (S (inc s)))) :: ta) ++ [EvInitialized] ++ R :: tb) ++ tl)).
  { intros tl. apply in_or_app. left. apply in_or_app. right. apply in_or_app. right. right. left. reflexivity. }
  destruct (match mbuf s2 with [] => _ | _ => _ end) as [[s3 t3] o3]. destruct o3.
  - cbn [fst snd]. apply in_or_app. left. apply Hin.
  - destruct (try_restart f c s3 internal) as [[s4 t4] o4]. cbn [fst snd].
    apply in_or_app. left. apply in_or_app. left. apply Hin.
Qed.

(* ------------------------------------------------------------------ *)
(** * E'. C05: a delivery whose handler panics is followed by Stopped to the
      same incarnation *)

(* [pend = Some i]: the last delivery, to incarnation i, panicked; the next
   delivery must be Stopped to i *)
Definition pstep (c : cfg) (pend : option nat) (e : event) : option (option nat) :=
  match e with
  | Recv i _ m _ =>
    match pend with
    | Some j => if (i =? j) && lmsg_eqb m LStopped then Some None else None
    | None => Some (if panics (scr c i m) && negb (lmsg_eqb m LStopped) then Some i else None)
    end
  | _ => Some pend
  end.

Fixpoint prun (c : cfg) (t : list event) (pend : option nat) : option (option nat) :=
  match t with
  | [] => Some pend
  | e :: t' => match pstep c pend e with Some p => prun c t' p | None => None end
  end.

Lemma prun_app c t1 t2 p : prun c (t1 ++ t2) p = match prun c t1 p with Some p' => prun c t2 p' | None => None end.
Proof. revert p. induction t1 as [|e t1 IH]; intros p; [reflexivity|]. cbn [app prun]. destruct (pstep c p e); [apply IH|reflexivity]. Qed.

Lemma prun_app_some c t1 t2 p p1 p2 : prun c t1 p = Some p1 -> prun c t2 p1 = Some p2 -> prun c (t1 ++ t2) p = Some p2.
Proof. intros H1 H2. rewrite prun_app, H1. exact H2. Qed.

Definition norecv (e : event) : Prop := match e with Recv _ _ _ _ => False | _ => True end.
Lemma prun_norecv c t p : Forall norecv t -> prun c t p = Some p.
Proof. induction 1 as [|e t He _ IH]; [reflexivity|]. cbn [prun]. destruct e; try contradiction; exact IH. Qed.
Lemma hev_norecv t : Forall hev t -> Forall norecv t.
Proof. apply Forall_impl. intros []; cbn; tauto. Qed.
Lemma prun_cons_norecv c e t p : norecv e -> prun c (e :: t) p = prun c t p.
Proof. intros He. destruct e; try contradiction; reflexivity. Qed.

Definition isP (o : outcome) : bool := match o with Normal => false | _ => true end.

Lemma do_actions_panics : forall acts s s' t o, do_actions s acts = (s', t, o) -> panics acts = isP o.
Proof.
  induction acts as [|a acts IH]; intros s s' t o H; cbn [do_actions] in H.
  - injection H as <- <- <-. reflexivity.
  - destruct a; try (injection H as <- <- <-; reflexivity);
      match type of H with (let '(_, _) := ?X in _) = _ => destruct X as [s1 t1] end;
      destruct (do_actions s1 acts) as [[s2 t2] o2] eqn:E2; injection H as <- <- <-; cbn [panics existsb orb];
      eapply IH; exact E2.
Qed.

Lemma recv_pmon c s m s' t o : recv c s true m = (s', t, o) ->
  prun c t None = Some (if isP o && negb (lmsg_eqb m LStopped) then Some (inc s) else None) /\
  (m = LStopped -> prun c t (Some (inc s)) = Some None) /\ inc s' = inc s.
Proof.
  intros H. apply recv_inv in H as (ta & -> & H). pose proof (do_actions_panics _ _ _ _ _ H) as Hp.
  apply do_actions_frame in H as [(Hi & _) Hh]. cbn [prun pstep]. rewrite Hp.
  split; [apply prun_norecv, hev_norecv, Hh|]. split; [|exact Hi].
  intros ->. rewrite Nat.eqb_refl. cbn. apply prun_norecv, hev_norecv, Hh.
Qed.

Lemma invoke_msg_pmon c s e s' t o : invoke_msg c s e = (s', t, o) ->
  prun c t None = Some (if isP o then Some (inc s) else None) /\ inc s' = inc s.
Proof.
  unfold invoke_msg. destruct (emsg e).
  - intros H. apply recv_pmon in H as (H1 & _ & H2). cbn [inc upd_csender lmsg_eqb negb] in *.
    rewrite andb_true_r in H1. split; assumption.
  - intros [= <- <- <-]. split; reflexivity.
Qed.

Lemma drain_pmon c : forall l s n sk s' t o np sk', drain c s l n sk = (s', t, o, np, sk') ->
  prun c t None = Some (if isP o then Some (inc s) else None) /\ inc s' = inc s.
Proof.
  induction l as [|e l IH]; intros s n sk s' t o np sk' H; cbn [drain] in H.
  - injection H as <- <- <- <- <-. split; reflexivity.
  - destruct (emsg e) eqn:Ee; [|eapply IH; exact H].
    destruct (invoke_msg c s e) as [[s1 t1] o1] eqn:E1. apply invoke_msg_pmon in E1 as [P1 I1]. destruct o1.
    + destruct (drain c s1 l (S n) sk) as [[[[s2 t2] o2] np2] sk2] eqn:E2. injection H as <- <- <- <- <-.
      apply IH in E2 as [P2 I2]. rewrite I1 in P2. split; [eapply prun_app_some; eassumption|congruence].
    + injection H as <- <- <- <- <-. split; assumption.
Qed.

Lemma cleanup_pmon c s k s' t : cleanup c s k = (s', t, Normal) ->
  prun c t None = Some None /\ prun c t (Some (inc s)) = Some None /\ inc s' = inc s.
Proof.
  intros H. apply cleanup_normal_inv in H as (s1 & t1 & E & -> & ->).
  apply recv_pmon in E as (P1 & P2 & I1). cbn [inc upd_istopped upd_dead isP andb lmsg_eqb negb] in *.
  assert (Hn : Forall norecv (RegRemove :: EvStopped :: flat_map discard (queue s1) ++ match k with Some k0 => [Cancel k0] | None => [] end)).
  { constructor; [exact I|]. constructor; [exact I|]. apply Forall_app; split; [apply hev_norecv, flat_discard_hev|destruct k; repeat constructor]. }
  rewrite !prun_cons_norecv by exact I. rewrite !prun_app, P1, (P2 eq_refl), !(prun_norecv _ _ _ Hn).
  repeat split. exact I1.
Qed.

Lemma invoke_loop_pmon c (Hs : stopped_safe c) : forall l s n s' t o np d,
  invoke_loop c s l n = (s', t, o, np, d) ->
  prun c t None = Some (if isP o then Some (inc s) else None) /\ inc s' = inc s.
Proof.
  induction l as [|e l IH]; intros s n s' t o np d H; cbn [invoke_loop] in H.
  - injection H as <- <- <- <- <-. split; reflexivity.
  - destruct (emsg e) eqn:Ee.
    + destruct (invoke_msg c s e) as [[s1 t1] o1] eqn:E1. apply invoke_msg_pmon in E1 as [P1 I1]. destruct o1.
      * destruct (invoke_loop c s1 l (S n)) as [[[[s2 t2] o2] np2] d2] eqn:E2. injection H as <- <- <- <- <-.
        apply IH in E2 as [P2 I2]. rewrite I1 in P2. split; [eapply prun_app_some; eassumption|congruence].
      * injection H as <- <- <- <- <-. split; assumption.
    + assert (Hd : exists s1 t1 o1 np1 sk1,
          (if graceful then drain c s l (S n) [] else (s, [], Normal, S n, [])) = (s1, t1, o1, np1, sk1) /\
          prun c t1 None = Some (if isP o1 then Some (inc s) else None) /\ inc s1 = inc s).
      { destruct graceful.
        - destruct (drain c s l (S n) []) as [[[[s1 t1] o1] np1] sk1] eqn:E1. exists s1, t1, o1, np1, sk1.
          split; [reflexivity|]. eapply drain_pmon; exact E1.
        - exists s, [], Normal, (S n), []. repeat split. }
      destruct Hd as (s1 & t1 & o1 & np1 & sk1 & Heq & P1 & I1). rewrite Heq in H. clear Heq. destruct o1.
      * destruct (cleanup c s1 (Some k)) as [[s2 t2] o2] eqn:E2.
        pose proof (cleanup_safe _ _ _ _ _ _ Hs E2) as ->. apply cleanup_pmon in E2 as (P2 & _ & I2).
        injection H as <- <- <- <- <-. split; [|congruence]. cbn [isP] in *.
        eapply prun_app_some; [exact P1|]. eapply prun_app_some; [exact P2|].
        apply prun_norecv, hev_norecv, discard_rest_hev.
      * injection H as <- <- <- <- <-. split; assumption.
Qed.

Theorem safe_pmon c (Hs : stopped_safe c) :
  (forall s msgs s' t, Invoke_s c s msgs s' t -> prun c t None = Some None) /\
  (forall s s' t, Start_s c s s' t -> prun c t None = Some None) /\
  (forall s b s' t, Restart_s c s b s' t -> prun c t (Some (inc s)) = Some None).
Proof.
  apply safe_mutind.
  - intros s msgs s' t np d El. apply (invoke_loop_pmon c Hs) in El as [P _]. exact P.
  - intros s msgs s1 t1 b np d s' t2 El _ IH. apply (invoke_loop_pmon c Hs) in El as [P I1].
    cbn [isP inc upd_mbuf] in *. rewrite I1 in IH. eapply prun_app_some; eassumption.
  - intros s si ti b s' t' Ei _ IH. apply recv_pmon in Ei as (P1 & _ & I1).
    cbn [isP andb lmsg_eqb negb inc upd_inc] in *. rewrite I1 in IH.
    rewrite prun_cons_norecv by exact I. eapply prun_app_some; eassumption.
  - intros s si ti s2 ts b s' t' Ei Es _ IH. apply recv_pmon in Ei as (P1 & _ & I1). apply recv_pmon in Es as (P2 & _ & I2).
    cbn [isP andb lmsg_eqb negb inc upd_inc] in *. rewrite I2 in IH.
    rewrite prun_cons_norecv by exact I. eapply prun_app_some; [exact P1|].
    rewrite prun_cons_norecv by exact I. eapply prun_app_some; eassumption.
  - intros s si ti s2 ts Ei Es Hb. apply recv_pmon in Ei as (P1 & _ & I1). apply recv_pmon in Es as (P2 & _ & I2).
    cbn [isP andb lmsg_eqb negb inc upd_inc] in *.
    rewrite prun_cons_norecv by exact I. eapply prun_app_some; [exact P1|].
    rewrite prun_cons_norecv by exact I. eapply prun_app_some; [exact P2|].
    rewrite prun_cons_norecv by exact I. apply prun_norecv. unfold start_end. destruct (dead s2); repeat constructor.
  - intros s si ti s2 ts s3 t3 Ei Es Hb _ IH. apply recv_pmon in Ei as (P1 & _ & I1). apply recv_pmon in Es as (P2 & _ & I2).
    cbn [isP andb lmsg_eqb negb inc upd_inc] in *.
    rewrite prun_cons_norecv by exact I. eapply prun_app_some; [exact P1|].
    rewrite prun_cons_norecv by exact I. eapply prun_app_some; [exact P2|].
    rewrite prun_cons_norecv by exact I. eapply prun_app_some; [exact IH|].
    apply prun_norecv. unfold start_end. destruct (dead (upd_mbuf s3 [])); repeat constructor.
  - intros s s1 t1 s' t' E1 _ IH. apply recv_pmon in E1 as (_ & P1 & I1).
    eapply prun_app_some; [exact (P1 eq_refl)|]. rewrite prun_cons_norecv by exact I. exact IH.
  - intros s s1 t1 Hmax E1. apply cleanup_pmon in E1 as (_ & P1 & _).
    rewrite prun_cons_norecv by exact I. eapply prun_app_some; [exact P1|].
    apply prun_norecv, hev_norecv, flat_discard_hev.
  - intros s s1 t1 s' t3 Hne E1 _ IH. apply recv_pmon in E1 as (_ & P1 & I1).
    eapply prun_app_some; [exact (P1 eq_refl)|]. rewrite !prun_cons_norecv by exact I. exact IH.
Qed.

Lemma RunLoop_pmon c (Hs : stopped_safe c) s s' t : RunLoop_s c s s' t -> prun c t None = Some None.
Proof.
  induction 1 as [s E|s E Eq|s s1 t1 s2 t2 E Eq Hi _ IH]; try reflexivity.
  eapply prun_app_some; [apply (proj1 (safe_pmon c Hs) _ _ _ _ Hi)|exact IH].
Qed.

Lemma Exts_pmon c (Hs : stopped_safe c) s xs s' t : Exts_s c s xs s' t -> prun c t None = Some None.
Proof.
  induction 1 as [s|s x s1 t1 s2 t2 xs s3 t3 Ep Hl _ IH]; [reflexivity|].
  apply ext_pre_frame in Ep as [_ Hh]. eapply prun_app_some; [apply prun_norecv, hev_norecv, Hh|].
  eapply prun_app_some; [eapply RunLoop_pmon; eassumption|exact IH].
Qed.

Theorem Run_pmon c (Hs : stopped_safe c) xs s t : Run_s c xs s t -> prun c t None = Some None.
Proof.
  intros [s0 t0 s1 t1 s2 t2 H0 H1 H2].
  eapply prun_app_some; [apply (proj1 (proj2 (safe_pmon c Hs)) _ _ _ H0)|].
  eapply prun_app_some; [eapply RunLoop_pmon; eassumption|eapply Exts_pmon; eassumption].
Qed.

Lemma lmsg_eqb_eq a b : lmsg_eqb a b = true -> a = b.
Proof. destruct a, b; cbn; try discriminate; try reflexivity. intros H. apply Nat.eqb_eq in H. subst. reflexivity. Qed.
Lemma lmsg_eqb_refl a : lmsg_eqb a a = true.
Proof. destruct a; cbn; try reflexivity. apply Nat.eqb_refl. Qed.

Lemma prun_pts c tbl : (forall i m, scr c i m = lookup tbl i m) ->
  forall t pend, prun c t pend = Some None ->
  match pend with
  | None => True
  | Some j => match recvs_of t with r :: _ => or_inc r = j /\ or_msg r = LStopped | [] => False end
  end /\ panic_then_stopped tbl (recvs_of t) = true.
Proof.
  intros Hscr. induction t as [|e t IH]; intros pend H.
  - cbn in H. injection H as ->. split; [exact I|reflexivity].
  - cbn [prun] in H. destruct e as [ |i mw m sd| | | | | | | | | | | | | | | ];
      try (cbn [pstep] in H; cbn [recvs_of]; apply IH; exact H).
    cbn [pstep] in H. cbn [recvs_of]. destruct pend as [j|].
    + destruct ((i =? j) && lmsg_eqb m LStopped) eqn:Ec; [|discriminate].
      apply andb_true_iff in Ec as [E1 E2]. apply Nat.eqb_eq in E1. apply lmsg_eqb_eq in E2. subst.
      destruct (IH _ H) as [_ Hp]. split; [split; reflexivity|].
      cbn [panic_then_stopped or_inc or_msg lmsg_eqb negb]. rewrite andb_false_r. exact Hp.
    + destruct (IH _ H) as [Hn Hp]. split; [exact I|].
      cbn [panic_then_stopped or_inc or_msg]. rewrite <- Hscr, Hp, andb_true_r.
      destruct (panics (scr c i m) && negb (lmsg_eqb m LStopped)); [|reflexivity].
      destruct (recvs_of t) as [|r l]; [contradiction|]. destruct Hn as [-> ->]. rewrite Nat.eqb_refl. reflexivity.
Qed.

(** C05: after a delivery whose handler panics (Initialized, Started or a
    user message) the next delivery is Stopped, to the same incarnation *)
Theorem C05_panic_then_stopped_thm :
  forall f c xs s t, stopped_safe c -> run f c xs = (s, t) -> out_of_fuel t = false ->
  prun c t None = Some None.
Proof. intros f c xs s t Hs H Hf. apply (Run_pmon c Hs xs s). eapply run_sound; eassumption. Qed.

(* ------------------------------------------------------------------ *)
(** * E''. C13: the Context shows the sender the message was sent with *)

(* [E] is any property of envelopes; if it holds of every envelope accepted
   into the inbox during the run then every user delivery shows a
   (payload, sender) pair that has it *)
Section Sender.
Variable E : env -> Prop.

Definition TOK (e : event) : Prop :=
  match e with Recv _ _ (LUser n) sd => E {| emsg := User n; esnd := sd |} | _ => True end.

Lemma hev_TOK t : Forall hev t -> Forall TOK t.
Proof. apply Forall_impl. intros []; cbn; tauto. Qed.

Lemma Forall_E_incl (l1 l2 : list env) : incl l1 l2 -> Forall E l2 -> Forall E l1.
Proof. intros Hi H. apply Forall_forall. intros x Hx. rewrite Forall_forall in H. apply H, Hi, Hx. Qed.

Lemma recv_tok c s m s' t o : recv c s true m = (s', t, o) ->
  match m with LUser n => E {| emsg := User n; esnd := csender s |} | _ => True end -> Forall TOK t.
Proof.
  intros H Hm. apply recv_inv in H as (ta & -> & H). apply do_actions_frame in H as [_ Hh].
  constructor; [destruct m; try exact I; exact Hm|apply hev_TOK, Hh].
Qed.

Lemma invoke_msg_tok c s e s' t o : invoke_msg c s e = (s', t, o) -> E e -> Forall TOK t.
Proof.
  unfold invoke_msg. destruct e as [p b]. cbn [emsg esnd]. destruct p.
  - intros H He. eapply recv_tok; [exact H|exact He].
  - intros [= <- <- <-] _. constructor.
Qed.

Lemma cleanup_tok c s k s' t : cleanup c s k = (s', t, Normal) -> Forall TOK t.
Proof.
  intros H. apply cleanup_normal_inv in H as (s1 & t1 & E1 & -> & ->).
  constructor; [exact I|]. apply Forall_app; split; [eapply recv_tok; [exact E1|exact I]|].
  constructor; [exact I|]. constructor; [exact I|].
  apply Forall_app; split; [apply hev_TOK, flat_discard_hev|destruct k; repeat constructor].
Qed.

Lemma drain_tok c : forall l s n sk s' t o np sk', drain c s l n sk = (s', t, o, np, sk') ->
  incl sk' (sk ++ l) /\ (Forall E l -> Forall TOK t).
Proof.
  induction l as [|e l IH]; intros s n sk s' t o np sk' H; cbn [drain] in H.
  - injection H as <- <- <- <- <-. split; [rewrite app_nil_r; apply incl_refl|constructor].
  - destruct (emsg e) eqn:Ee.
    + destruct (invoke_msg c s e) as [[s1 t1] o1] eqn:E1. destruct o1.
      * destruct (drain c s1 l (S n) sk) as [[[[s2 t2] o2] np2] sk2] eqn:E2. injection H as <- <- <- <- <-.
        apply IH in E2 as [I2 T2]. split.
        -- intros x Hx. apply I2 in Hx. apply in_app_or in Hx as [Hx|Hx]; apply in_or_app; [left|right; right]; exact Hx.
        -- intros Hl. inversion Hl as [|? ? He Hl']; subst. apply Forall_app; split; [eapply invoke_msg_tok; eassumption|apply T2, Hl'].
      * injection H as <- <- <- <- <-. split; [apply incl_appl, incl_refl|].
        intros Hl. inversion Hl as [|? ? He Hl']; subst. eapply invoke_msg_tok; eassumption.
    + apply IH in H as [I2 T2]. split.
      * intros x Hx. apply I2 in Hx. rewrite <- app_assoc in Hx. exact Hx.
      * intros Hl. inversion Hl; subst. apply T2. assumption.
Qed.

Lemma invoke_loop_tok c (Hs : stopped_safe c) : forall l s n s' t o np d,
  invoke_loop c s l n = (s', t, o, np, d) -> incl d l /\ (Forall E l -> Forall TOK t).
Proof.
  induction l as [|e l IH]; intros s n s' t o np d H; cbn [invoke_loop] in H.
  - injection H as <- <- <- <- <-. split; [apply incl_refl|constructor].
  - destruct (emsg e) eqn:Ee.
    + destruct (invoke_msg c s e) as [[s1 t1] o1] eqn:E1. destruct o1.
      * destruct (invoke_loop c s1 l (S n)) as [[[[s2 t2] o2] np2] d2] eqn:E2. injection H as <- <- <- <- <-.
        apply IH in E2 as [I2 T2]. split; [apply incl_tl, I2|].
        intros Hl. inversion Hl as [|? ? He Hl']; subst. apply Forall_app; split; [eapply invoke_msg_tok; eassumption|apply T2, Hl'].
      * injection H as <- <- <- <- <-. split; [apply incl_nil_l|].
        intros Hl. inversion Hl as [|? ? He Hl']; subst. eapply invoke_msg_tok; eassumption.
    + destruct graceful.
      * destruct (drain c s l (S n) []) as [[[[s1 t1] o1] np1] sk1] eqn:E1. apply drain_tok in E1 as [I1 T1].
        cbn [app] in I1. destruct o1.
        -- destruct (cleanup c s1 (Some k)) as [[s2 t2] o2] eqn:E2.
           pose proof (cleanup_safe _ _ _ _ _ _ Hs E2) as ->. apply cleanup_tok in E2.
           injection H as <- <- <- <- <-. split; [apply incl_nil_l|].
           intros Hl. inversion Hl; subst. apply Forall_app; split; [apply T1; assumption|].
           apply Forall_app; split; [exact E2|apply hev_TOK, discard_rest_hev].
        -- injection H as <- <- <- <- <-. split.
           ++ intros x [<-|Hx]; [left; reflexivity|right; apply I1, Hx].
           ++ intros Hl. inversion Hl; subst. apply T1. assumption.
      * destruct (cleanup c s (Some k)) as [[s2 t2] o2] eqn:E2.
        pose proof (cleanup_safe _ _ _ _ _ _ Hs E2) as ->. apply cleanup_tok in E2.
        injection H as <- <- <- <- <-. split; [apply incl_nil_l|]. intros _. cbn [app].
        apply Forall_app; split; [exact E2|apply hev_TOK, discard_rest_hev].
Qed.

Lemma start_end_tok s3 : Forall TOK (snd (start_end s3)).
Proof. unfold start_end. destruct (dead s3); repeat constructor. Qed.

Theorem safe_tok c (Hs : stopped_safe c) :
  (forall s msgs s' t, Invoke_s c s msgs s' t -> Forall E msgs -> Forall TOK t) /\
  (forall s s' t, Start_s c s s' t -> Forall E (mbuf s) -> Forall TOK t) /\
  (forall s b s' t, Restart_s c s b s' t -> Forall E (mbuf s) -> Forall TOK t).
Proof.
  apply safe_mutind.
  - intros s msgs s' t np d El Hm. apply (invoke_loop_tok c Hs) in El as [_ T]. apply T, Hm.
  - intros s msgs s1 t1 b np d s' t2 El _ IH Hm. apply (invoke_loop_tok c Hs) in El as [I1 T].
    apply Forall_app; split; [apply T, Hm|]. apply IH. cbn [mbuf upd_mbuf]. unfold rbuf.
    apply Forall_app; split; [eapply Forall_E_incl; eassumption|].
    eapply Forall_E_incl; [|exact Hm]. intros x Hx. rewrite <- (firstn_skipn np msgs). apply in_or_app. right. exact Hx.
  - intros s si ti b s' t' Ei _ IH Hm. pose proof (recv_quiet _ _ _ _ _ _ Ei) as [_ (_&_&Hb&_)]. cbn in Hb.
    constructor; [exact I|]. apply Forall_app; split; [eapply recv_tok; [exact Ei|exact I]|]. apply IH. rewrite Hb. exact Hm.
  - intros s si ti s2 ts b s' t' Ei Es _ IH Hm.
    pose proof (recv_quiet _ _ _ _ _ _ Ei) as [_ (_&_&Hb&_)]. pose proof (recv_quiet _ _ _ _ _ _ Es) as [_ (_&_&Hb2&_)]. cbn in Hb.
    constructor; [exact I|]. apply Forall_app; split; [eapply recv_tok; [exact Ei|exact I]|].
    constructor; [exact I|]. apply Forall_app; split; [eapply recv_tok; [exact Es|exact I]|]. apply IH. rewrite Hb2, Hb. exact Hm.
  - intros s si ti s2 ts Ei Es Hb0 Hm.
    constructor; [exact I|]. apply Forall_app; split; [eapply recv_tok; [exact Ei|exact I]|].
    constructor; [exact I|]. apply Forall_app; split; [eapply recv_tok; [exact Es|exact I]|].
    constructor; [exact I|]. apply start_end_tok.
  - intros s si ti s2 ts s3 t3 Ei Es Hb0 _ IH Hm.
    pose proof (recv_quiet _ _ _ _ _ _ Ei) as [_ (_&_&Hb&_)]. pose proof (recv_quiet _ _ _ _ _ _ Es) as [_ (_&_&Hb2&_)]. cbn in Hb.
    constructor; [exact I|]. apply Forall_app; split; [eapply recv_tok; [exact Ei|exact I]|].
    constructor; [exact I|]. apply Forall_app; split; [eapply recv_tok; [exact Es|exact I]|].
    constructor; [exact I|]. apply Forall_app; split; [apply IH; rewrite Hb2, Hb; exact Hm|apply start_end_tok].
  - intros s s1 t1 s' t' E1 _ IH Hm. pose proof (recv_quiet _ _ _ _ _ _ E1) as [_ (_&_&Hb&_)].
    apply Forall_app; split; [eapply recv_tok; [exact E1|exact I]|]. constructor; [exact I|]. apply IH. rewrite Hb. exact Hm.
  - intros s s1 t1 Hmax E1 Hm. apply cleanup_tok in E1. constructor; [exact I|].
    apply Forall_app; split; [exact E1|apply hev_TOK, flat_discard_hev].
  - intros s s1 t1 s' t3 Hne E1 _ IH Hm. pose proof (recv_quiet _ _ _ _ _ _ E1) as [_ (_&_&Hb&_)].
    apply Forall_app; split; [eapply recv_tok; [exact E1|exact I]|]. constructor; [exact I|]. constructor; [exact I|].
    apply IH. cbn [mbuf upd_restarts]. rewrite Hb. exact Hm.
Qed.

End Sender.

(* what is in the inbox was accepted: the queue only grows by [Enq]s *)
Definition QI (s : pst) (t : list event) (s' : pst) : Prop := incl (queue s') (queue s ++ acc t).

Lemma QI_refl s : QI s [] s.
Proof. unfold QI. cbn. rewrite app_nil_r. apply incl_refl. Qed.
Lemma QI_trans s t1 s1 t2 s2 : QI s t1 s1 -> QI s1 t2 s2 -> QI s (t1 ++ t2) s2.
Proof.
  unfold QI. intros H1 H2 x Hx. apply H2 in Hx. rewrite acc_app, app_assoc. apply in_app_or in Hx as [Hx|Hx]; apply in_or_app; [left; apply H1, Hx|right; exact Hx].
Qed.
Lemma QI_eq s t s' : queue s' = queue s ++ acc t -> QI s t s'.
Proof. unfold QI. intros ->. apply incl_refl. Qed.
Lemma QI_nil s t s' : queue s' = [] -> QI s t s'.
Proof. unfold QI. intros ->. apply incl_nil_l. Qed.
Lemma QI_cons0 s e t s' : acc [e] = [] -> QI s t s' -> QI s (e :: t) s'.
Proof. unfold QI. intros He H. rewrite acc_cons0 by exact He. exact H. Qed.
Lemma QI_app0 s t s' t2 : acc t2 = [] -> QI s t s' -> QI s (t ++ t2) s'.
Proof. unfold QI. intros He H. rewrite acc_app, He, app_nil_r. exact H. Qed.
Lemma hev_disc_acc l : acc (flat_map discard l) = [].
Proof. induction l as [|e l IH]; [reflexivity|]. cbn [flat_map]. rewrite acc_app, IH. unfold discard. destruct (emsg e); reflexivity. Qed.

Lemma invoke_loop_QI c (Hs : stopped_safe c) : forall l s n s' t o np d,
  invoke_loop c s l n = (s', t, o, np, d) -> QI s t s'.
Proof.
  induction l as [|e l IH]; intros s n s' t o np d H; cbn [invoke_loop] in H.
  - injection H as <- <- <- <- <-. apply QI_refl.
  - destruct (emsg e) eqn:Ee.
    + destruct (invoke_msg c s e) as [[s1 t1] o1] eqn:E1. apply invoke_msg_ord in E1 as (Q1 & _). destruct o1.
      * destruct (invoke_loop c s1 l (S n)) as [[[[s2 t2] o2] np2] d2] eqn:E2. injection H as <- <- <- <- <-.
        eapply QI_trans; [apply QI_eq, Q1|eapply IH; exact E2].
      * injection H as <- <- <- <- <-. apply QI_eq, Q1.
    + destruct graceful.
      * destruct (drain c s l (S n) []) as [[[[s1 t1] o1] np1] sk1] eqn:E1. apply drain_ord in E1 as (Q1 & _). destruct o1.
        -- destruct (cleanup c s1 (Some k)) as [[s2 t2] o2] eqn:E2.
           pose proof (cleanup_safe _ _ _ _ _ _ Hs E2) as ->. apply cleanup_cnt with (x := inl 0) in E2 as (_ & C2 & _).
           injection H as <- <- <- <- <-. apply QI_nil, C2.
        -- injection H as <- <- <- <- <-. apply QI_eq, Q1.
      * destruct (cleanup c s (Some k)) as [[s2 t2] o2] eqn:E2.
        pose proof (cleanup_safe _ _ _ _ _ _ Hs E2) as ->. apply cleanup_cnt with (x := inl 0) in E2 as (_ & C2 & _).
        injection H as <- <- <- <- <-. apply QI_nil, C2.
Qed.

Lemma recv_QI c s mw m s' t o : recv c s mw m = (s', t, o) -> QI s t s'.
Proof. intros H. apply recv_ord in H as (Q & _). apply QI_eq, Q. Qed.

Lemma start_end_QI s3 : QI s3 (snd (start_end s3)) (fst (start_end s3)).
Proof. unfold start_end. destruct (dead s3); cbn [fst snd]; apply QI_eq; cbn; rewrite app_nil_r; reflexivity. Qed.

Theorem safe_QI c (Hs : stopped_safe c) :
  (forall s msgs s' t, Invoke_s c s msgs s' t -> QI s t s') /\
  (forall s s' t, Start_s c s s' t -> QI s t s') /\
  (forall s b s' t, Restart_s c s b s' t -> QI s t s').
Proof.
  apply safe_mutind.
  - intros s msgs s' t np d El. eapply invoke_loop_QI; eassumption.
  - intros s msgs s1 t1 b np d s' t2 El _ IH. eapply QI_trans; [eapply invoke_loop_QI; eassumption|exact IH].
  - intros s si ti b s' t' Ei _ IH. apply recv_QI in Ei. apply QI_cons0; [reflexivity|]. eapply QI_trans; eassumption.
  - intros s si ti s2 ts b s' t' Ei Es _ IH. apply recv_QI in Ei. apply recv_QI in Es.
    apply QI_cons0; [reflexivity|]. eapply QI_trans; [exact Ei|]. apply QI_cons0; [reflexivity|]. eapply QI_trans; eassumption.
  - intros s si ti s2 ts Ei Es Hb. apply recv_QI in Ei. apply recv_QI in Es.
    apply QI_cons0; [reflexivity|]. eapply QI_trans; [exact Ei|]. apply QI_cons0; [reflexivity|]. eapply QI_trans; [exact Es|].
    apply QI_cons0; [reflexivity|]. apply start_end_QI.
  - intros s si ti s2 ts s3 t3 Ei Es Hb _ IH. apply recv_QI in Ei. apply recv_QI in Es.
    apply QI_cons0; [reflexivity|]. eapply QI_trans; [exact Ei|]. apply QI_cons0; [reflexivity|]. eapply QI_trans; [exact Es|].
    apply QI_cons0; [reflexivity|]. eapply QI_trans; [exact IH|]. apply (start_end_QI (upd_mbuf s3 [])).
  - intros s s1 t1 s' t' E1 _ IH. apply recv_QI in E1. eapply QI_trans; [exact E1|]. apply QI_cons0; [reflexivity|exact IH].
  - intros s s1 t1 Hmax E1. apply cleanup_cnt with (x := inl 0) in E1 as (_ & C2 & _). apply QI_nil. exact C2.
  - intros s s1 t1 s' t3 Hne E1 _ IH. apply recv_QI in E1. eapply QI_trans; [exact E1|].
    apply QI_cons0; [reflexivity|]. apply QI_cons0; [reflexivity|exact IH].
Qed.

Section SenderRun.
Variable E : env -> Prop.
Variable c : cfg.
Hypothesis Hs : stopped_safe c.

Lemma Forall_E_QI s t s' : QI s t s' -> Forall E (queue s) -> Forall E (acc t) -> Forall E (queue s').
Proof. intros H H1 H2. eapply Forall_E_incl; [exact H|]. apply Forall_app; split; assumption. Qed.

Lemma Forall_acc_app a b : Forall E (acc (a ++ b)) -> Forall E (acc a) /\ Forall E (acc b).
Proof. rewrite acc_app. apply Forall_app. Qed.

Lemma RunLoop_tok s s' t : RunLoop_s c s s' t -> Forall E (queue s) -> Forall E (acc t) ->
  Forall (TOK E) t /\ Forall E (queue s').
Proof.
  induction 1 as [s Ei|s Ei Eq|s s1 t1 s2 t2 Ei Eq Hi _ IH]; intros Hq Ha; try (split; [constructor|exact Hq]).
  apply Forall_acc_app in Ha as [Ha1 Ha2].
  assert (Hq1 : Forall E (queue s1)).
  { eapply Forall_E_QI; [apply (proj1 (safe_QI c Hs) _ _ _ _ Hi)| |exact Ha1]. cbn [queue upd_queue].
    eapply Forall_E_incl; [|exact Hq]. intros x Hx. rewrite <- (firstn_skipn (batch c) (queue s)). apply in_or_app. right. exact Hx. }
  destruct (IH Hq1 Ha2) as [T2 Q2]. split; [|exact Q2]. apply Forall_app; split; [|exact T2].
  apply (proj1 (safe_tok E c Hs) _ _ _ _ Hi). eapply Forall_E_incl; [|exact Hq].
  intros x Hx. rewrite <- (firstn_skipn (batch c) (queue s)). apply in_or_app. left. exact Hx.
Qed.

Lemma Exts_tok s xs s' t : Exts_s c s xs s' t -> Forall E (queue s) -> Forall E (acc t) ->
  Forall (TOK E) t /\ Forall E (queue s').
Proof.
  induction 1 as [s|s x s1 t1 s2 t2 xs s3 t3 Ep Hl _ IH]; intros Hq Ha; [split; [constructor|exact Hq]|].
  apply Forall_acc_app in Ha as [Ha1 Ha2]. apply Forall_acc_app in Ha2 as [Ha2 Ha3].
  pose proof (ext_pre_frame _ _ _ _ Ep) as [_ Hh]. apply ext_pre_ord in Ep as (Q1 & _).
  assert (Hq1 : Forall E (queue s1)) by (rewrite Q1; apply Forall_app; split; assumption).
  destruct (RunLoop_tok _ _ _ Hl Hq1 Ha2) as [T2 Hq2]. destruct (IH Hq2 Ha3) as [T3 Hq3]. split; [|exact Hq3].
  apply Forall_app; split; [apply hev_TOK, Hh|]. apply Forall_app; split; assumption.
Qed.

Theorem Run_tok xs s t : Run_s c xs s t -> Forall E (acc t) -> Forall (TOK E) t.
Proof.
  intros [s0 t0 s1 t1 s2 t2 H0 H1 H2] Ha. apply Forall_acc_app in Ha as [Ha0 Ha]. apply Forall_acc_app in Ha as [Ha1 Ha2].
  assert (Hq0 : Forall E (queue s0)).
  { eapply Forall_E_QI; [apply (proj1 (proj2 (safe_QI c Hs)) _ _ _ H0)|constructor|exact Ha0]. }
  destruct (RunLoop_tok _ _ _ H1 Hq0 Ha1) as [T1 Hq1]. destruct (Exts_tok _ _ _ _ H2 Hq1 Ha2) as [T2 _].
  apply Forall_app; split; [apply (proj1 (proj2 (safe_tok E c Hs)) _ _ _ H0); constructor|].
  apply Forall_app; split; assumption.
Qed.

End SenderRun.

(* where an accepted envelope can come from *)
Definition env_source (c : cfg) (xs : list extop) (e : env) : Prop :=
  match emsg e with
  | User n => if esnd e then exists i m, In (ASend n) (scr c i m)
              else (exists i m, In (ASendNil n) (scr c i m)) \/ In (XSend n) xs
  | Pill _ _ => True
  end.

Lemma do_actions_source c xs i m : forall acts, incl acts (scr c i m) ->
  forall s s' t o, do_actions s acts = (s', t, o) -> Forall (env_source c xs) (acc t).
Proof.
  induction acts as [|a acts IH]; intros Hi s s' t o H; cbn [do_actions] in H.
  - injection H as <- <- <-. constructor.
  - assert (Ha : In a (scr c i m)) by (apply Hi; left; reflexivity).
    assert (Hi' : incl acts (scr c i m)) by (intros x Hx; apply Hi; right; exact Hx).
    destruct a; try (injection H as <- <- <-; constructor);
      match type of H with (let '(_, _) := ?X in _) = _ => destruct X as [s1 t1] eqn:E1 end;
      destruct (do_actions s1 acts) as [[s2 t2] o2] eqn:E2; injection H as <- <- <-;
      rewrite acc_app; (apply Forall_app; split; [|eapply IH; eassumption]);
      unfold send_self, poison_self in E1; destruct (registered s); injection E1 as <- <-; cbn; repeat constructor.
    + exists i, m. exact Ha.
    + exists i, m. exact Ha.
Qed.

Lemma acc_source c (Hs : stopped_safe c) xs s t : Run_s c xs s t -> Forall (env_source c xs) (acc t).
Proof.
  intros Hr. apply (Run_P c (fun x => In x xs) (fun t => Forall (env_source c xs) (acc t))) with (xs := xs) (s := s); try assumption.
  - constructor.
  - intros a b Ha Hb. rewrite acc_app. apply Forall_app; split; assumption.
  - intros s0 i m s' t0 o H. eapply do_actions_source; [apply incl_refl|exact H].
  - intros s0 x s1 t1 Hx H. destruct x; cbn [ext_pre] in H; unfold send_self, poison_self in H;
      destruct (registered s0); injection H as <- <-; cbn [acc flat_map app sent_of emsg];
      first [solve [constructor]|constructor; [first [exact I|right; exact Hx]|constructor]].
  - intros e He. destruct e; cbn; try contradiction; constructor.
  - apply Forall_forall. intros x Hx. exact Hx.
Qed.

(** C13: inside the chain the Context shows the sender of that delivery: the
    (payload, sender) pair of every user delivery is that of an envelope
    accepted into the inbox during the run, and so the sender is set exactly
    when the message was sent by [ctx.Send] (ASend) and unset when it was sent
    without a sender (ASendNil, external send) *)
Theorem C13_context_shows_sender_thm :
  forall f c xs s t, stopped_safe c -> run f c xs = (s, t) -> out_of_fuel t = false ->
  forall i mw n sd, In (Recv i mw (LUser n) sd) t ->
  In (Enq {| emsg := User n; esnd := sd |}) t /\
  (if sd then exists i' m, In (ASend n) (scr c i' m)
   else (exists i' m, In (ASendNil n) (scr c i' m)) \/ In (XSend n) xs).
Proof.
  intros f c xs s t Hs H Hf i mw n sd Hin. pose proof (run_sound c Hs _ _ _ _ H Hf) as Hr. split.
  - assert (Ha : Forall (fun e => In (Enq e) t) (acc t)).
    { apply Forall_forall. intros e He. unfold acc in He. apply in_flat_map in He as (ev & Hev & Hx).
      destruct ev; try contradiction. destruct Hx as [<-|[]]. exact Hev. }
    pose proof (Run_tok _ c Hs _ _ _ Hr Ha) as T. rewrite Forall_forall in T. exact (T _ Hin).
  - pose proof (Run_tok _ c Hs _ _ _ Hr (acc_source c Hs _ _ _ Hr)) as T. rewrite Forall_forall in T.
    exact (T _ Hin).
Qed.

(* ------------------------------------------------------------------ *)
(** * E'''. C02 glue: process.go obeys the protocol the inbox theorem assumes *)

(* the inbox as the process sees it: 0 = never opened, 1 = open (a worker may
   run), 2 = stopped by cleanup *)
Definition rank (s : pst) : nat := if dead s then 2 else if istatus_stopped s then 0 else 1.

Definition istep (r : nat) (e : event) : option nat :=
  match e with
  | InboxStart true => if r =? 0 then Some 1 else None
  | InboxStart false => if r =? 1 then Some 1 else None
  | InboxStop => Some 2
  | _ => Some r
  end.
Fixpoint irun (t : list event) (r : nat) : option nat :=
  match t with [] => Some r | e :: t' => match istep r e with Some r' => irun t' r' | None => None end end.

Lemma irun_app t1 t2 r : irun (t1 ++ t2) r = match irun t1 r with Some r' => irun t2 r' | None => None end.
Proof. revert r. induction t1 as [|e t1 IH]; intros r; [reflexivity|]. cbn [app irun]. destruct (istep r e); [apply IH|reflexivity]. Qed.

Definition calm (e : event) : Prop := match e with InboxStart _ | InboxStop => False | _ => True end.
Definition noIS (e : event) : Prop := match e with InboxStart _ => False | _ => True end.
Lemma irun_calm t r : Forall calm t -> irun t r = Some r.
Proof. induction 1 as [|e t He _ IH]; [reflexivity|]. cbn [irun]. destruct e; try contradiction; exact IH. Qed.
Lemma hev_calm t : Forall hev t -> Forall calm t.
Proof. apply Forall_impl. intros []; cbn; tauto. Qed.
Lemma calm_noIS t : Forall calm t -> Forall noIS t.
Proof. apply Forall_impl. intros []; cbn; tauto. Qed.

Definition IR (s : pst) (t : list event) (s' : pst) : Prop := irun t (rank s) = Some (rank s').
Lemma IR_trans s t1 s1 t2 s2 : IR s t1 s1 -> IR s1 t2 s2 -> IR s (t1 ++ t2) s2.
Proof. unfold IR. intros H1 H2. rewrite irun_app, H1. exact H2. Qed.
Lemma IR_calm s t s' : Forall calm t -> dead s' = dead s -> istatus_stopped s' = istatus_stopped s -> IR s t s'.
Proof. unfold IR, rank. intros H -> ->. apply irun_calm, H. Qed.
Lemma IR_cons s e t s' : calm e -> IR s t s' -> IR s (e :: t) s'.
Proof. unfold IR. intros He H. cbn [irun]. destruct e; try contradiction; exact H. Qed.

Lemma recv_calm c s mw m s' t o : recv c s mw m = (s', t, o) ->
  Forall calm t /\ dead s' = dead s /\ istatus_stopped s' = istatus_stopped s /\ mbuf s' = mbuf s.
Proof.
  intros H. apply recv_inv in H as (ta & -> & H). apply do_actions_frame in H as [(_&_&Hm&_&Hd&_&Hst) Hh].
  split; [constructor; [exact I|apply hev_calm, Hh]|]. repeat split; assumption.
Qed.
Lemma recv_IR c s mw m s' t o : recv c s mw m = (s', t, o) -> IR s t s'.
Proof. intros H. apply recv_calm in H as (H1 & H2 & H3 & _). apply IR_calm; assumption. Qed.

Lemma invoke_msg_IR c s e s' t o : invoke_msg c s e = (s', t, o) -> IR s t s'.
Proof.
  unfold invoke_msg. destruct (emsg e).
  - intros H. apply recv_IR in H. exact H.
  - intros [= <- <- <-]. apply IR_calm; [constructor|reflexivity|reflexivity].
Qed.

Lemma cleanup_calm_tail c s k s' t : cleanup c s k = (s', t, Normal) ->
  exists t', t = InboxStop :: t' /\ Forall calm t' /\ dead s' = true.
Proof.
  intros H. apply cleanup_normal_inv in H as (s1 & t1 & E1 & -> & ->). apply recv_calm in E1 as (C1 & Hd & _).
  eexists. split; [reflexivity|]. split; [|exact Hd].
  apply Forall_app; split; [exact C1|]. constructor; [exact I|]. constructor; [exact I|].
  apply Forall_app; split; [apply hev_calm, flat_discard_hev|destruct k; repeat constructor].
Qed.
Lemma cleanup_IR c s k s' t : cleanup c s k = (s', t, Normal) -> IR s t s'.
Proof.
  intros H. apply cleanup_calm_tail in H as (t' & -> & C & Hd). unfold IR. cbn [irun istep].
  rewrite (irun_calm _ _ C). unfold rank. rewrite Hd. reflexivity.
Qed.

Lemma drain_IR c : forall l s n sk s' t o np sk', drain c s l n sk = (s', t, o, np, sk') -> IR s t s'.
Proof.
  induction l as [|e l IH]; intros s n sk s' t o np sk' H; cbn [drain] in H.
  - injection H as <- <- <- <- <-. reflexivity.
  - destruct (emsg e) eqn:Ee; [|eapply IH; exact H].
    destruct (invoke_msg c s e) as [[s1 t1] o1] eqn:E1. apply invoke_msg_IR in E1. destruct o1.
    + destruct (drain c s1 l (S n) sk) as [[[[s2 t2] o2] np2] sk2] eqn:E2. injection H as <- <- <- <- <-.
      eapply IR_trans; [exact E1|eapply IH; exact E2].
    + injection H as <- <- <- <- <-. exact E1.
Qed.

Lemma invoke_loop_IR c (Hs : stopped_safe c) : forall l s n s' t o np d,
  invoke_loop c s l n = (s', t, o, np, d) -> IR s t s'.
Proof.
  induction l as [|e l IH]; intros s n s' t o np d H; cbn [invoke_loop] in H.
  - injection H as <- <- <- <- <-. reflexivity.
  - destruct (emsg e) eqn:Ee.
    + destruct (invoke_msg c s e) as [[s1 t1] o1] eqn:E1. apply invoke_msg_IR in E1. destruct o1.
      * destruct (invoke_loop c s1 l (S n)) as [[[[s2 t2] o2] np2] d2] eqn:E2. injection H as <- <- <- <- <-.
        eapply IR_trans; [exact E1|eapply IH; exact E2].
      * injection H as <- <- <- <- <-. exact E1.
    + assert (Hd : exists s1 t1 o1 np1 sk1,
          (if graceful then drain c s l (S n) [] else (s, [], Normal, S n, [])) = (s1, t1, o1, np1, sk1) /\ IR s t1 s1).
      { destruct graceful.
        - destruct (drain c s l (S n) []) as [[[[s1 t1] o1] np1] sk1] eqn:E1. exists s1, t1, o1, np1, sk1.
          split; [reflexivity|]. eapply drain_IR; exact E1.
        - exists s, [], Normal, (S n), []. split; reflexivity. }
      destruct Hd as (s1 & t1 & o1 & np1 & sk1 & Heq & H1). rewrite Heq in H. clear Heq. destruct o1.
      * destruct (cleanup c s1 (Some k)) as [[s2 t2] o2] eqn:E2.
        pose proof (cleanup_safe _ _ _ _ _ _ Hs E2) as ->. apply cleanup_IR in E2.
        injection H as <- <- <- <- <-. eapply IR_trans; [exact H1|]. eapply IR_trans; [exact E2|].
        apply IR_calm; [apply hev_calm, discard_rest_hev|reflexivity|reflexivity].
      * injection H as <- <- <- <- <-. exact H1.
Qed.

Lemma start_end_IR s3 : IR s3 (snd (start_end s3)) (fst (start_end s3)).
Proof.
  unfold start_end, IR, rank. destruct (dead s3) eqn:Hd; cbn [fst snd irun]; [rewrite Hd; reflexivity|].
  cbn [dead istatus_stopped upd_istopped]. rewrite Hd. destruct (istatus_stopped s3); reflexivity.
Qed.

Theorem safe_IR c (Hs : stopped_safe c) :
  (forall s msgs s' t, Invoke_s c s msgs s' t -> IR s t s') /\
  (forall s s' t, Start_s c s s' t -> IR s t s') /\
  (forall s b s' t, Restart_s c s b s' t -> IR s t s').
Proof.
  apply safe_mutind.
  - intros s msgs s' t np d El. eapply invoke_loop_IR; eassumption.
  - intros s msgs s1 t1 b np d s' t2 El _ IH. eapply IR_trans; [eapply invoke_loop_IR; eassumption|exact IH].
  - intros s si ti b s' t' Ei _ IH. apply recv_IR in Ei. apply IR_cons; [exact I|]. eapply IR_trans; [exact Ei|exact IH].
  - intros s si ti s2 ts b s' t' Ei Es _ IH. apply recv_IR in Ei. apply recv_IR in Es.
    apply IR_cons; [exact I|]. eapply IR_trans; [exact Ei|]. apply IR_cons; [exact I|]. eapply IR_trans; [exact Es|exact IH].
  - intros s si ti s2 ts Ei Es Hb. apply recv_IR in Ei. apply recv_IR in Es.
    apply IR_cons; [exact I|]. eapply IR_trans; [exact Ei|]. apply IR_cons; [exact I|]. eapply IR_trans; [exact Es|].
    apply IR_cons; [exact I|]. apply start_end_IR.
  - intros s si ti s2 ts s3 t3 Ei Es Hb _ IH. apply recv_IR in Ei. apply recv_IR in Es.
    apply IR_cons; [exact I|]. eapply IR_trans; [exact Ei|]. apply IR_cons; [exact I|]. eapply IR_trans; [exact Es|].
    apply IR_cons; [exact I|]. eapply IR_trans; [exact IH|]. apply (start_end_IR (upd_mbuf s3 [])).
  - intros s s1 t1 s' t' E1 _ IH. apply recv_IR in E1. eapply IR_trans; [exact E1|]. apply IR_cons; [exact I|exact IH].
  - intros s s1 t1 Hmax E1. apply cleanup_IR in E1. apply IR_cons; [exact I|].
    eapply IR_trans; [exact E1|]. apply IR_calm; [apply hev_calm, flat_discard_hev|reflexivity|reflexivity].
  - intros s s1 t1 s' t3 Hne E1 _ IH. apply recv_IR in E1. eapply IR_trans; [exact E1|].
    apply IR_cons; [exact I|]. apply IR_cons; [exact I|exact IH].
Qed.

Lemma RunLoop_IR c (Hs : stopped_safe c) s s' t : RunLoop_s c s s' t -> IR s t s'.
Proof.
  induction 1 as [s E|s E Eq|s s1 t1 s2 t2 E Eq Hi _ IH]; try reflexivity.
  eapply IR_trans; [apply (proj1 (safe_IR c Hs) _ _ _ _ Hi)|exact IH].
Qed.
Lemma Exts_IR c (Hs : stopped_safe c) s xs s' t : Exts_s c s xs s' t -> IR s t s'.
Proof.
  induction 1 as [s|s x s1 t1 s2 t2 xs s3 t3 Ep Hl _ IH]; [reflexivity|].
  apply ext_pre_frame in Ep as [(_&_&_&_&Hd&_&Hst) Hh].
  eapply IR_trans; [apply IR_calm; [apply hev_calm, Hh|exact Hd|exact Hst]|].
  eapply IR_trans; [eapply RunLoop_IR; eassumption|exact IH].
Qed.
Theorem Run_IR c (Hs : stopped_safe c) xs s t : Run_s c xs s t -> irun t 0 = Some (rank s).
Proof.
  intros [s0 t0 s1 t1 s2 t2 H0 H1 H2]. change 0 with (rank init_pst).
  eapply IR_trans; [apply (proj1 (proj2 (safe_IR c Hs)) _ _ _ H0)|].
  eapply IR_trans; [eapply RunLoop_IR; eassumption|eapply Exts_IR; eassumption].
Qed.

(* what the little automaton's language says *)
Definition is_open (e : event) : bool := match e with InboxStart true => true | _ => false end.

Lemma irun_from2 : forall t r', irun t 2 = Some r' -> Forall noIS t /\ r' = 2.
Proof.
  induction t as [|e t IH]; intros r' H; cbn [irun] in H; [injection H as <-; split; [constructor|reflexivity]|].
  destruct e as [ | | | | | | | | | |[]| | | | | | ]; cbn [istep] in H; try discriminate;
    destruct (IH _ H) as [Hn ->]; (split; [constructor; [exact I|exact Hn]|reflexivity]).
Qed.

Lemma irun_opens : forall t r r', irun t r = Some r' -> count_ev is_open t <= (if r =? 0 then 1 else 0).
Proof.
  induction t as [|e t IH]; intros r r' H; cbn [irun] in H; [cbn; destruct (r =? 0); lia|].
  destruct e as [ | | | | | | | | | |[]| | | | | | ]; cbn [istep count_ev is_open] in *;
    try (specialize (IH _ _ H); lia).
  - specialize (IH _ _ H). cbn in IH. destruct (r =? 0); lia.
  - destruct (r =? 0); [|discriminate]. specialize (IH _ _ H). cbn in IH. lia.
  - destruct (r =? 1) eqn:E; [|discriminate]. apply Nat.eqb_eq in E. subst. specialize (IH _ _ H). cbn in *. lia.
Qed.

Lemma irun_reach1 : forall t r, irun t r = Some 1 -> (r = 1 \/ In (InboxStart true) t) /\ ~ In InboxStop t.
Proof.
  induction t as [|e t IH]; intros r H; cbn [irun] in H; [injection H as ->; split; [left; reflexivity|intros []]|].
  destruct e as [ | | | | | | | | | |[]| | | | | | ]; cbn [istep] in H;
    try (destruct (IH _ H) as [Hc Hn]; split;
         [destruct Hc as [->|Hin]; [left; reflexivity|right; right; exact Hin]
         |intros [Hx|Hx]; [discriminate Hx|exact (Hn Hx)]]).
  - exfalso. destruct (irun_from2 _ _ H) as [_ Hx]. discriminate Hx.
  - destruct (r =? 0); [|discriminate]. destruct (IH _ H) as [_ Hn]. split; [right; left; reflexivity|].
    intros [Hx|Hx]; [discriminate Hx|exact (Hn Hx)].
  - destruct (r =? 1) eqn:E; [|discriminate]. apply Nat.eqb_eq in E. subst. destruct (IH _ H) as [_ Hn].
    split; [left; reflexivity|]. intros [Hx|Hx]; [discriminate Hx|exact (Hn Hx)].
Qed.

Lemma irun_split t1 e t2 r r' : irun (t1 ++ e :: t2) r = Some r' ->
  exists ra rb, irun t1 r = Some ra /\ istep ra e = Some rb /\ irun t2 rb = Some r'.
Proof.
  rewrite irun_app. destruct (irun t1 r) as [ra|]; [|discriminate]. cbn [irun].
  destruct (istep ra e) as [rb|] eqn:E; [|discriminate]. intros H. exists ra, rb. repeat split; assumption.
Qed.

(** C02: the inbox of an actor is opened at most once, never after it was
    stopped; a later Inbox.Start (after a restart) finds it open — its CAS
    stopped→starting fails and nothing happens.  This is the premise
    ([valid_start]) under which the inbox layer proves that at most one
    thread is inside Invoke. *)
Theorem C02_inbox_opened_at_most_once_and_never_after_stop_thm :
  forall f c xs s t, stopped_safe c -> run f c xs = (s, t) -> out_of_fuel t = false ->
  count_ev is_open t <= 1 /\
  (forall t1 t2, t = t1 ++ InboxStop :: t2 -> Forall noIS t2) /\
  (forall t1 t2, t = t1 ++ InboxStart false :: t2 -> In (InboxStart true) t1 /\ ~ In InboxStop t1).
Proof.
  intros f c xs s t Hs H Hf. pose proof (Run_IR c Hs _ _ _ (run_sound c Hs _ _ _ _ H Hf)) as Hi.
  split; [apply (irun_opens _ _ _ Hi)|]. split.
  - intros t1 t2 ->. apply irun_split in Hi as (ra & rb & _ & E & H2). cbn in E. injection E as <-.
    apply (irun_from2 _ _ H2).
  - intros t1 t2 ->. apply irun_split in Hi as (ra & rb & H1 & E & _). cbn in E.
    destruct (ra =? 1) eqn:Er; [|discriminate]. apply Nat.eqb_eq in Er. subst.
    destruct (irun_reach1 _ _ H1) as [[Hx|Hx] Hn]; [discriminate Hx|]. split; assumption.
Qed.

(* the [dead] flag is what prevents a reopening: when the replay of the
   restart buffer has stopped the actor, Start returns before inbox.Start;
   without the test it would emit [InboxStart true] after the [InboxStop] *)
Lemma dead_flag_prevents_reopening s3 : dead s3 = true -> istatus_stopped s3 = true ->
  start_end s3 = (s3, []) /\
  (upd_istopped s3 false, [InboxStart (istatus_stopped s3)]) = (upd_istopped s3 false, [InboxStart true]).
Proof. intros Hd Hst. unfold start_end. rewrite Hd, Hst. split; reflexivity. Qed.

(** C02: the lifecycle deliveries of Spawn happen before the inbox is opened *)
Lemma recv_noIS c s mw m s' t o : recv c s mw m = (s', t, o) -> Forall noIS t.
Proof. intros H. apply recv_calm in H as [H _]. apply calm_noIS, H. Qed.

Definition first_start_shape (s' : pst) (t : list event) : Prop :=
  (dead s' = true /\ Forall noIS t) \/
  (dead s' = false /\ exists pre, t = pre ++ [InboxStart true] /\ Forall noIS pre).

Lemma shape_prepend s' pre t : Forall noIS pre -> first_start_shape s' t -> first_start_shape s' (pre ++ t).
Proof.
  intros Hp [[Hd Ht]|(Hd & p & -> & Hpp)]; [left; split; [exact Hd|apply Forall_app; split; assumption]|].
  right. split; [exact Hd|]. exists (pre ++ p). split; [apply app_assoc|apply Forall_app; split; assumption].
Qed.

Theorem first_start c :
  (forall s msgs s' t, Invoke_s c s msgs s' t -> True) /\
  (forall s s' t, Start_s c s s' t -> mbuf s = [] -> dead s = false -> istatus_stopped s = true -> first_start_shape s' t) /\
  (forall s b s' t, Restart_s c s b s' t -> mbuf s = [] -> dead s = false -> istatus_stopped s = true -> first_start_shape s' t).
Proof.
  apply safe_mutind; try (intros; exact I).
  - intros s si ti b s' t' Ei _ IH Hm Hd Hst. pose proof (recv_noIS _ _ _ _ _ _ _ Ei) as Hn.
    apply recv_calm in Ei as (_ & D & S0 & M). cbn in D, S0, M.
    change (Produce (S (inc s)) :: ti ++ t') with ((Produce (S (inc s)) :: ti) ++ t').
    apply shape_prepend; [constructor; [exact I|exact Hn]|]. apply IH; congruence.
  - intros s si ti s2 ts b s' t' Ei Es _ IH Hm Hd Hst.
    pose proof (recv_noIS _ _ _ _ _ _ _ Ei) as Hn. pose proof (recv_noIS _ _ _ _ _ _ _ Es) as Hn2.
    apply recv_calm in Ei as (_ & D & S0 & M). apply recv_calm in Es as (_ & D2 & S2 & M2). cbn in D, S0, M.
    replace (Produce (S (inc s)) :: ti ++ EvInitialized :: ts ++ t') with ((Produce (S (inc s)) :: ti ++ EvInitialized :: ts) ++ t')
      by (cbn; rewrite <- app_assoc; reflexivity).
    apply shape_prepend; [constructor; [exact I|]; apply Forall_app; split; [exact Hn|constructor; [exact I|exact Hn2]]|].
    apply IH; congruence.
  - intros s si ti s2 ts Ei Es Hb Hm Hd Hst.
    pose proof (recv_noIS _ _ _ _ _ _ _ Ei) as Hn. pose proof (recv_noIS _ _ _ _ _ _ _ Es) as Hn2.
    apply recv_calm in Ei as (_ & D & S0 & M). apply recv_calm in Es as (_ & D2 & S2 & M2). cbn in D, S0, M.
    assert (Hd2 : dead s2 = false) by congruence. assert (Hs2 : istatus_stopped s2 = true) by congruence.
    unfold start_end. rewrite Hd2, Hs2. cbn [fst snd]. right. split; [exact Hd2|].
    exists (Produce (S (inc s)) :: ti ++ EvInitialized :: ts ++ [EvStarted]). split.
    + cbn. rewrite <- !app_assoc. cbn. rewrite <- app_assoc. reflexivity.
    + constructor; [exact I|]. apply Forall_app; split; [exact Hn|]. constructor; [exact I|].
      apply Forall_app; split; [exact Hn2|repeat constructor].
  - intros s si ti s2 ts s3 t3 Ei Es Hb _ _ Hm Hd Hst.
    apply recv_calm in Ei as (_ & _ & _ & M). apply recv_calm in Es as (_ & _ & _ & M2). cbn in M. exfalso. apply Hb. congruence.
  - intros s s1 t1 s' t' E1 _ IH Hm Hd Hst. pose proof (recv_noIS _ _ _ _ _ _ _ E1) as Hn.
    apply recv_calm in E1 as (_ & D & S0 & M).
    replace (t1 ++ Sleep :: t') with ((t1 ++ [Sleep]) ++ t') by (rewrite <- app_assoc; reflexivity).
    apply shape_prepend; [apply Forall_app; split; [exact Hn|repeat constructor]|]. apply IH; congruence.
  - intros s s1 t1 Hmax E1 Hm Hd Hst. apply cleanup_calm_tail in E1 as (t' & -> & C & Hd'). left. split; [exact Hd'|].
    constructor; [exact I|]. constructor; [exact I|]. apply Forall_app; split; [apply calm_noIS, C|apply calm_noIS, hev_calm, flat_discard_hev].
  - intros s s1 t1 s' t3 Hne E1 _ IH Hm Hd Hst. pose proof (recv_noIS _ _ _ _ _ _ _ E1) as Hn.
    apply recv_calm in E1 as (_ & D & S0 & M).
    replace (t1 ++ EvRestarted (S (restarts s1)) :: Sleep :: t3) with ((t1 ++ [EvRestarted (S (restarts s1)); Sleep]) ++ t3)
      by (rewrite <- app_assoc; reflexivity).
    apply shape_prepend; [apply Forall_app; split; [exact Hn|repeat constructor]|]. apply IH; cbn; congruence.
Qed.

Lemma ext_pre_no_recv s x s1 t1 : ext_pre s x = (s1, t1) -> Forall norecv t1.
Proof. intros H. apply ext_pre_frame in H as [_ Hh]. apply hev_norecv, Hh. Qed.

(* A run is: the first Start on the spawner's goroutine — all its deliveries
   (Initialized, Started, and the Stopped/Initialized/Started of restarts
   caused by panics in them; no user message, nothing replayed) come before
   the one [InboxStart true], its last event, so no worker exists yet —
   followed by [RunLoop_s] / [Exts_s]: a sequence of batches each handled by
   one [Invoke_s] of the worker ([RlStep]), separated only by the handler-free
   events of the external operations. *)
Theorem C02_lifecycle_deliveries_before_the_inbox_opens_thm :
  forall f c xs s t, stopped_safe c -> run f c xs = (s, t) -> out_of_fuel t = false ->
  exists s0 t0 s1 t1 t2,
    start f c init_pst = (s0, t0, Normal) /\ t = t0 ++ t1 ++ t2 /\
    first_start_shape s0 t0 /\ dlv t0 = [] /\
    RunLoop_s c s0 s1 t1 /\ Exts_s c s1 xs s t2.
Proof.
  intros f c xs s t Hs H Hf. unfold run in H. destruct (spawn f c) as [s1 t1] eqn:E1.
  rewrite (spawn_noesc c Hs _ _ _ E1) in H. destruct (ext_steps f c s1 xs) as [s2 t2] eqn:E2.
  injection H as <- <-. unfold spawn in E1. destruct (start f c init_pst) as [[sa ta] oa] eqn:Ea.
  pose proof (proj1 (proj2 (safe_normal c Hs f)) _ _ _ _ Ea) as ->.
  destruct (run_loop f c sa) as [sb tb] eqn:Eb. injection E1 as <- <-.
  apply oof_app_false in Hf as [Hf1 Hf2]. apply oof_app_false in Hf1 as [Hf0 Hf1].
  destruct (proj1 (proj2 (safe_sound c Hs f)) _ _ _ _ Ea Hf0) as [_ Hst].
  destruct (C04_spawn_returns_after_started_thm _ _ _ _ _ Hs Ea Hf0) as (_ & Hdl & _).
  exists sa, ta, sb, tb, t2. split; [reflexivity|]. split; [apply app_assoc_reverse|].
  split; [apply (proj1 (proj2 (first_start c)) _ _ _ Hst); reflexivity|]. split; [exact Hdl|].
  split; [eapply run_loop_sound; eassumption|eapply ext_steps_sound; eassumption].
Qed.

(** C02: a restart runs inside the Invoke (or Start) that crashed: the whole
    of tryRestart — Stopped to the failed incarnation, the event, the delay,
    Start of the next incarnation with Initialized, Started and the replay —
    is computed by, and its trace is a suffix of the trace of, that very call;
    the worker's loop continues only when Invoke has returned *)
Theorem C02_restart_runs_inside_invoke_thm :
  (forall f c s msgs s' t o, invoke (S f) c s msgs = (s', t, o) ->
     (exists np d, invoke_loop c s msgs 0 = (s', t, Normal, np, d) /\ o = Normal) \/
     (exists s1 t1 b np d t2, invoke_loop c s msgs 0 = (s1, t1, Panicking b, np, d) /\
        try_restart f c (upd_mbuf s1 (rbuf d np msgs)) b = (s', t2, o) /\ t = t1 ++ t2)) /\
  (forall f c s s' t, run_loop (S f) c s = (s', t) -> istatus_stopped s = false -> queue s <> [] ->
     exists s1 t1 o1, invoke f c (upd_queue s (skipn (batch c) (queue s))) (firstn (batch c) (queue s)) = (s1, t1, o1) /\
       match o1 with
       | Normal => exists t2, run_loop f c s1 = (s', t2) /\ t = t1 ++ t2
       | Panicking _ => s' = s1 /\ t = t1 ++ [Escaped]
       end).
Proof.
  split.
  - intros f c s msgs s' t o H. rewrite invoke_S in H.
    destruct (invoke_loop c s msgs 0) as [[[[s1 t1] o1] np] d] eqn:El. destruct o1.
    + injection H as <- <- <-. left. exists np, d. split; reflexivity.
    + destruct (try_restart f c _ internal) as [[s2 t2] o2] eqn:Et. injection H as <- <- <-.
      right. exists s1, t1, internal, np, d, t2. repeat split. exact Et.
  - intros f c s s' t H Hst Hq. rewrite run_loop_S, Hst in H. destruct (queue s) as [|e q] eqn:Eq; [congruence|].
    cbv zeta in H. destruct (invoke f c _ _) as [[s1 t1] o1] eqn:Ei. exists s1, t1, o1. split; [reflexivity|].
    destruct o1.
    + destruct (run_loop f c s1) as [s2 t2] eqn:El. injection H as <- <-. exists t2. split; reflexivity.
    + injection H as <- <-. split; reflexivity.
Qed.

(* ------------------------------------------------------------------ *)
(** * E''''. C12 (last sentence): the lifecycle events are published for every occurrence *)

Lemma events_senq t : Forall senqP t -> events_of t = [] /\ recvs_of t = [].
Proof.
  induction 1 as [|e t He _ [IH1 IH2]]; [split; reflexivity|]. destruct e; try contradiction; cbn; rewrite ?IH1, ?IH2; split; reflexivity.
Qed.
Definition dead_mev (e : mevent) : Prop := match e with MDeadUser _ | MDeadPill => True | _ => False end.
Lemma events_deadP t : Forall deadP t -> Forall dead_mev (events_of t) /\ recvs_of t = [].
Proof.
  induction 1 as [|e t He _ [IH1 IH2]]; [split; [constructor|reflexivity]|].
  destruct e as [ | | | | | | |[]| | | | | | | | | ]; try contradiction; cbn; (split; [|exact IH2]);
    try exact IH1; constructor; try exact IH1; exact I.
Qed.

(* the events other than dead letters, in publication order *)
Definition lifeev (t : list event) : list mevent := filter (fun e => negb (is_deadm e)) (events_of t).

(* [expected_events] of ProcExec.v for an arbitrary configuration *)
Fixpoint expected_c (c : cfg) (k : nat) (pend : option bool) (l : list orecv) : list mevent :=
  match l with
  | [] => []
  | r :: l' =>
    match or_msg r with
    | LStopped =>
      match pend with
      | Some false => if Nat.eqb k (maxr c) then MMaxRestarts :: MStopped :: expected_c c k None l'
                      else MRestarted (S k) :: expected_c c (S k) None l'
      | Some true => expected_c c k None l'
      | None => MStopped :: expected_c c k None l'
      end
    | m =>
      let pk := panic_kind (scr c (or_inc r) m) in
      match m, pk with
      | LInit, None => [MInitialized]
      | LStarted, None => [MStarted]
      | _, _ => []
      end ++ expected_c c k pk l'
    end
  end.

Lemma expected_cfg_of cs : forall l k p,
  expected_events (c_table cs) (c_maxr cs) k p l = expected_c (cfg_of cs) k p l.
Proof.
  induction l as [|r l IH]; intros k p; [reflexivity|]. cbn [expected_events expected_c].
  destruct (or_msg r); cbn [scr cfg_of maxr]; rewrite ?IH; try reflexivity.
Qed.

Lemma lifeev_app a b : lifeev (a ++ b) = lifeev a ++ lifeev b.
Proof. unfold lifeev. rewrite events_of_app, filter_app. reflexivity. Qed.
Lemma lifeev_silent e t : events_of [e] = [] -> lifeev (e :: t) = lifeev t.
Proof. intros H. change (e :: t) with ([e] ++ t). rewrite lifeev_app. unfold lifeev at 1. rewrite H. reflexivity. Qed.
Lemma lifeev_ev e m t : events_of [e] = [m] -> is_deadm m = false -> lifeev (e :: t) = m :: lifeev t.
Proof. intros H Hm. change (e :: t) with ([e] ++ t). rewrite lifeev_app. unfold lifeev at 1. rewrite H. cbn. rewrite Hm. reflexivity. Qed.
Lemma recvs_silent e t : recvs_of [e] = [] -> recvs_of (e :: t) = recvs_of t.
Proof. intros H. change (e :: t) with ([e] ++ t). rewrite recvs_of_app, H. reflexivity. Qed.

Lemma hev_lifeev t : Forall hev t -> lifeev t = [] /\ recvs_of t = [].
Proof.
  induction 1 as [|e t He _ [IH1 IH2]]; [split; reflexivity|].
  destruct e as [ | | | | | | |[]| | | | | | | | | ]; try contradiction;
    (split; [rewrite <- IH1|rewrite <- IH2]); reflexivity.
Qed.

Definition okind (o : outcome) : option bool := match o with Normal => None | Panicking b => Some b end.

Lemma do_actions_panic_kind : forall acts s s' t o, do_actions s acts = (s', t, o) -> panic_kind acts = okind o.
Proof.
  induction acts as [|a acts IH]; intros s s' t o H; cbn [do_actions] in H.
  - injection H as <- <- <-. reflexivity.
  - destruct a; try (injection H as <- <- <-; reflexivity);
      match type of H with (let '(_, _) := ?X in _) = _ => destruct X as [s1 t1] end;
      destruct (do_actions s1 acts) as [[s2 t2] o2] eqn:E2; injection H as <- <- <-; cbn [panic_kind];
      eapply IH; exact E2.
Qed.

Lemma recv_c12 c s m s' t o : recv c s true m = (s', t, o) ->
  recvs_of t = [{| or_inc := inc s; or_msg := m; or_snd := csender s; or_full := true |}] /\
  lifeev t = [] /\ panic_kind (scr c (inc s) m) = okind o /\ restarts s' = restarts s /\ inc s' = inc s.
Proof.
  intros H. apply recv_inv in H as (ta & -> & H). pose proof (do_actions_panic_kind _ _ _ _ _ H) as Hk.
  apply do_actions_frame in H as [(Hi & Hr & _) Hh]. destruct (hev_lifeev _ Hh) as [L R].
  cbn [recvs_of]. rewrite R. rewrite lifeev_silent by reflexivity. repeat split; assumption.
Qed.

Section C12.
Variable c : cfg.
Hypothesis Hs : stopped_safe c.

Notation EX := (expected_c c).

Lemma invoke_msg_c12 s e s' t o : invoke_msg c s e = (s', t, o) ->
  lifeev t = [] /\ restarts s' = restarts s /\ inc s' = inc s /\
  forall k rest, EX k None (recvs_of t ++ rest) = EX k (okind o) rest.
Proof.
  unfold invoke_msg. destruct (emsg e).
  - intros H. apply recv_c12 in H as (R & L & K & Hr & Hi). cbn [inc upd_csender restarts] in *.
    repeat split; try assumption. intros k rest. rewrite R. cbn [app expected_c or_msg or_inc]. rewrite K. reflexivity.
  - intros [= <- <- <-]. repeat split.
Qed.

Lemma drain_c12 : forall l s n sk s' t o np sk', drain c s l n sk = (s', t, o, np, sk') ->
  lifeev t = [] /\ restarts s' = restarts s /\ inc s' = inc s /\
  forall k rest, EX k None (recvs_of t ++ rest) = EX k (okind o) rest.
Proof.
  induction l as [|e l IH]; intros s n sk s' t o np sk' H; cbn [drain] in H.
  - injection H as <- <- <- <- <-. repeat split.
  - destruct (emsg e) eqn:Ee; [|eapply IH; exact H].
    destruct (invoke_msg c s e) as [[s1 t1] o1] eqn:E1. apply invoke_msg_c12 in E1 as (L1 & R1 & I1 & X1). destruct o1.
    + destruct (drain c s1 l (S n) sk) as [[[[s2 t2] o2] np2] sk2] eqn:E2. injection H as <- <- <- <- <-.
      apply IH in E2 as (L2 & R2 & I2 & X2). rewrite lifeev_app, L1, L2. repeat split; try congruence.
      intros k rest. rewrite recvs_of_app, <- app_assoc, X1. apply X2.
    + injection H as <- <- <- <- <-. repeat split; assumption.
Qed.

Lemma cleanup_c12 s k0 s' t : cleanup c s k0 = (s', t, Normal) ->
  recvs_of t = [{| or_inc := inc s; or_msg := LStopped; or_snd := csender s; or_full := true |}] /\
  lifeev t = [MStopped] /\ restarts s' = restarts s.
Proof.
  intros H. apply cleanup_normal_inv in H as (s1 & t1 & E & -> & ->).
  apply recv_c12 in E as (R & L & _ & Hr & _). cbn [inc csender restarts upd_istopped upd_dead upd_queue upd_registered] in *.
  assert (Hd : Forall hev (flat_map discard (queue s1) ++ match k0 with Some k1 => [Cancel k1] | None => [] end)).
  { apply Forall_app; split; [apply flat_discard_hev|destruct k0; repeat constructor]. }
  destruct (hev_lifeev _ Hd) as [Ld Rd]. split; [|split; [|exact Hr]].
  - rewrite recvs_silent by reflexivity. rewrite recvs_of_app, R. rewrite !recvs_silent by reflexivity. rewrite Rd. reflexivity.
  - rewrite lifeev_silent by reflexivity. rewrite lifeev_app, L. cbn [app].
    rewrite lifeev_silent by reflexivity. rewrite (lifeev_ev EvStopped MStopped) by reflexivity. rewrite Ld. reflexivity.
Qed.

Lemma invoke_loop_c12 : forall l s n s' t o np d, invoke_loop c s l n = (s', t, o, np, d) ->
  restarts s' = restarts s /\ inc s' = inc s /\
  forall k rest, EX k None (recvs_of t ++ rest) = lifeev t ++ EX k (okind o) rest.
Proof.
  induction l as [|e l IH]; intros s n s' t o np d H; cbn [invoke_loop] in H.
  - injection H as <- <- <- <- <-. repeat split.
  - destruct (emsg e) eqn:Ee.
    + destruct (invoke_msg c s e) as [[s1 t1] o1] eqn:E1. apply invoke_msg_c12 in E1 as (L1 & R1 & I1 & X1). destruct o1.
      * destruct (invoke_loop c s1 l (S n)) as [[[[s2 t2] o2] np2] d2] eqn:E2. injection H as <- <- <- <- <-.
        apply IH in E2 as (R2 & I2 & X2). split; [congruence|]. split; [congruence|].
        intros k rest. rewrite recvs_of_app, <- app_assoc, X1, lifeev_app, L1. apply X2.
      * injection H as <- <- <- <- <-. split; [exact R1|]. split; [exact I1|]. intros k rest. rewrite L1. apply X1.
    + assert (Hd : exists s1 t1 o1 np1 sk1,
          (if graceful then drain c s l (S n) [] else (s, [], Normal, S n, [])) = (s1, t1, o1, np1, sk1) /\
          lifeev t1 = [] /\ restarts s1 = restarts s /\ inc s1 = inc s /\
          forall k rest, EX k None (recvs_of t1 ++ rest) = EX k (okind o1) rest).
      { destruct graceful.
        - destruct (drain c s l (S n) []) as [[[[s1 t1] o1] np1] sk1] eqn:E1. exists s1, t1, o1, np1, sk1.
          split; [reflexivity|]. eapply drain_c12; exact E1.
        - exists s, [], Normal, (S n), []. repeat split. }
      destruct Hd as (s1 & t1 & o1 & np1 & sk1 & Heq & L1 & R1 & I1 & X1). rewrite Heq in H. clear Heq. destruct o1.
      * destruct (cleanup c s1 (Some k)) as [[s2 t2] o2] eqn:E2.
        pose proof (cleanup_safe _ _ _ _ _ _ Hs E2) as ->.
        pose proof (cleanup_quiet _ _ _ _ _ _ E2) as [_ Hr2].
        assert (Hi2 : inc s2 = inc s1).
        { apply cleanup_normal_inv in E2 as (sx & tx & Ex & -> & _). apply recv_c12 in Ex as (_&_&_&_&Hx). exact Hx. }
        apply cleanup_c12 in E2 as (Rc & Lc & _).
        injection H as <- <- <- <- <-. split; [congruence|]. split; [congruence|].
        intros k0 rest. destruct (hev_lifeev _ (discard_rest_hev graceful l)) as [Ld Rd].
        rewrite !recvs_of_app, Rd, app_nil_r, <- app_assoc, X1, Rc, !lifeev_app, L1, Lc, Ld.
        cbn [app expected_c or_msg okind]. reflexivity.
      * injection H as <- <- <- <- <-. split; [exact R1|]. split; [exact I1|]. intros k0 rest. rewrite L1. apply X1.
Qed.

Lemma start_end_c12 s3 : lifeev (snd (start_end s3)) = [] /\ recvs_of (snd (start_end s3)) = [] /\
  restarts (fst (start_end s3)) = restarts s3.
Proof. unfold start_end. destruct (dead s3); repeat split. Qed.

Theorem safe_c12 :
  (forall s msgs s' t, Invoke_s c s msgs s' t ->
     forall rest, EX (restarts s) None (recvs_of t ++ rest) = lifeev t ++ EX (restarts s') None rest) /\
  (forall s s' t, Start_s c s s' t ->
     forall rest, EX (restarts s) None (recvs_of t ++ rest) = lifeev t ++ EX (restarts s') None rest) /\
  (forall s b s' t, Restart_s c s b s' t ->
     forall rest, EX (restarts s) (Some b) (recvs_of t ++ rest) = lifeev t ++ EX (restarts s') None rest).
Proof.
  apply safe_mutind.
  - intros s msgs s' t np d El rest. apply invoke_loop_c12 in El as (R & _ & X). rewrite R. apply X.
  - intros s msgs s1 t1 b np d s' t2 El _ IH rest. apply invoke_loop_c12 in El as (R & _ & X).
    cbn [restarts upd_mbuf] in IH. rewrite recvs_of_app, <- app_assoc, X, lifeev_app, <- app_assoc. f_equal.
    rewrite <- R. apply IH.
  - intros s si ti b s' t' Ei _ IH rest. apply recv_c12 in Ei as (R & L & K & Hr & Hi).
    cbn [inc upd_inc restarts csender] in *.
    rewrite recvs_silent, lifeev_silent by reflexivity. rewrite recvs_of_app, R, lifeev_app, L. cbn [app expected_c or_msg or_inc].
    rewrite K. cbn [okind app]. rewrite <- Hr. apply IH.
  - intros s si ti s2 ts b s' t' Ei Es _ IH rest.
    apply recv_c12 in Ei as (R & L & K & Hr & Hi). apply recv_c12 in Es as (R2 & L2 & K2 & Hr2 & Hi2).
    cbn [inc upd_inc restarts csender] in *.
    rewrite recvs_silent, lifeev_silent by reflexivity. rewrite recvs_of_app, R, lifeev_app, L. cbn [app expected_c or_msg or_inc].
    rewrite K. cbn [okind app]. rewrite recvs_silent by reflexivity. rewrite (lifeev_ev EvInitialized MInitialized) by reflexivity.
    rewrite recvs_of_app, R2, lifeev_app, L2. cbn [app expected_c or_msg or_inc]. rewrite K2. cbn [okind app].
    rewrite <- Hr, <- Hr2. cbn [app]. rewrite IH. reflexivity.
  - intros s si ti s2 ts Ei Es Hb rest.
    apply recv_c12 in Ei as (R & L & K & Hr & Hi). apply recv_c12 in Es as (R2 & L2 & K2 & Hr2 & Hi2).
    cbn [inc upd_inc restarts csender] in *. destruct (start_end_c12 s2) as (Le & Re & Hre).
    rewrite recvs_silent, lifeev_silent by reflexivity. rewrite recvs_of_app, R, lifeev_app, L. cbn [app expected_c or_msg or_inc].
    rewrite K. cbn [okind app]. rewrite recvs_silent by reflexivity. rewrite (lifeev_ev EvInitialized MInitialized) by reflexivity.
    rewrite recvs_of_app, R2, lifeev_app, L2. cbn [app expected_c or_msg or_inc]. rewrite K2. cbn [okind app].
    rewrite recvs_silent by reflexivity. rewrite (lifeev_ev EvStarted MStarted) by reflexivity.
    rewrite Re, Le, Hre. cbn [app]. congruence.
  - intros s si ti s2 ts s3 t3 Ei Es Hb _ IH rest.
    apply recv_c12 in Ei as (R & L & K & Hr & Hi). apply recv_c12 in Es as (R2 & L2 & K2 & Hr2 & Hi2).
    cbn [inc upd_inc restarts csender] in *. destruct (start_end_c12 (upd_mbuf s3 [])) as (Le & Re & Hre).
    rewrite recvs_silent, lifeev_silent by reflexivity. rewrite recvs_of_app, R, lifeev_app, L. cbn [app expected_c or_msg or_inc].
    rewrite K. cbn [okind app]. rewrite recvs_silent by reflexivity. rewrite (lifeev_ev EvInitialized MInitialized) by reflexivity.
    rewrite recvs_of_app, R2, lifeev_app, L2. cbn [app expected_c or_msg or_inc]. rewrite K2. cbn [okind app].
    rewrite recvs_silent by reflexivity. rewrite (lifeev_ev EvStarted MStarted) by reflexivity.
    rewrite recvs_of_app, Re, app_nil_r, lifeev_app, Le, app_nil_r, Hre. cbn [restarts upd_mbuf].
    rewrite <- Hr, <- Hr2. cbn [app]. rewrite IH. reflexivity.
  - intros s s1 t1 s' t' E1 _ IH rest. apply recv_c12 in E1 as (R & L & _ & Hr & _).
    rewrite recvs_of_app, R, lifeev_app, L. cbn [app expected_c or_msg]. rewrite recvs_silent, lifeev_silent by reflexivity.
    rewrite <- Hr. apply IH.
  - intros s s1 t1 Hmax E1 rest. apply cleanup_c12 in E1 as (R & L & Hr).
    destruct (hev_lifeev _ (flat_discard_hev (mbuf s1))) as [Ld Rd].
    rewrite recvs_silent by reflexivity. rewrite (lifeev_ev EvMaxRestarts MMaxRestarts) by reflexivity.
    rewrite recvs_of_app, R, Rd, lifeev_app, L, Ld. cbn [app expected_c or_msg restarts upd_mbuf].
    rewrite Hmax, Nat.eqb_refl, Hr, Hmax. reflexivity.
  - intros s s1 t1 s' t3 Hne E1 _ IH rest. apply recv_c12 in E1 as (R & L & _ & Hr & _).
    rewrite recvs_of_app, R, lifeev_app, L. cbn [app expected_c or_msg]. apply Nat.eqb_neq in Hne. rewrite Hne.
    rewrite recvs_silent by reflexivity. rewrite (lifeev_ev (EvRestarted _) (MRestarted (S (restarts s1)))) by reflexivity.
    rewrite recvs_silent, lifeev_silent by reflexivity. rewrite Hr.
    specialize (IH rest). cbn [restarts upd_restarts] in IH. rewrite Hr in IH. cbn [app]. rewrite IH. reflexivity.
Qed.

Lemma RunLoop_c12 s s' t : RunLoop_s c s s' t ->
  forall rest, EX (restarts s) None (recvs_of t ++ rest) = lifeev t ++ EX (restarts s') None rest.
Proof.
  induction 1 as [s E|s E Eq|s s1 t1 s2 t2 E Eq Hi _ IH]; intros rest; try reflexivity.
  rewrite recvs_of_app, <- app_assoc, (proj1 safe_c12 _ _ _ _ Hi), lifeev_app, <- app_assoc. f_equal. apply IH.
Qed.

Lemma Exts_c12 s xs s' t : Exts_s c s xs s' t ->
  forall rest, EX (restarts s) None (recvs_of t ++ rest) = lifeev t ++ EX (restarts s') None rest.
Proof.
  induction 1 as [s|s x s1 t1 s2 t2 xs s3 t3 Ep Hl _ IH]; intros rest; [reflexivity|].
  apply ext_pre_frame in Ep as [(_ & Hr & _) Hh]. destruct (hev_lifeev _ Hh) as [L R].
  rewrite !recvs_of_app, R, !lifeev_app, L. cbn [app]. rewrite <- !app_assoc, <- Hr, (RunLoop_c12 _ _ _ Hl). f_equal. apply IH.
Qed.

Theorem Run_c12 xs s t : Run_s c xs s t -> lifeev t = EX 0 None (recvs_of t).
Proof.
  intros [s0 t0 s1 t1 s2 t2 H0 H1 H2].
  pose proof (proj1 (proj2 safe_c12) _ _ _ H0 (recvs_of t1 ++ recvs_of t2 ++ [])) as E0.
  pose proof (RunLoop_c12 _ _ _ H1 (recvs_of t2 ++ [])) as E1. pose proof (Exts_c12 _ _ _ _ H2 []) as E2.
  cbn [restarts init_pst] in E0. rewrite !recvs_of_app, !lifeev_app. rewrite <- (app_nil_r (recvs_of t2)).
  rewrite E0, E1, E2. cbn [expected_c]. rewrite app_nil_r. reflexivity.
Qed.

End C12.

(* dead letters come only after ActorStoppedEvent, nothing else after it;
   ActorStoppedEvent was published iff the monitor ends in PDead *)
Lemma mstep_toward_dead m e m1 : mstep m e = Some m1 -> m_ctl m <> PDead ->
  (e = EvStopped /\ m_ctl m1 = PDead) \/
  (m_ctl m1 <> PDead /\ e <> EvStopped /\ forall p, e <> EvDeadLetter p).
Proof.
  destruct m as [cur w k]. cbn [m_ctl]. intros H Hk.
  destruct k; try congruence; de e; ms_inv H; injection H as <-; cbn [m_ctl];
    first [left; split; reflexivity | right; split; [discriminate|split; [discriminate|intros; discriminate]]].
Qed.

Definition is_mstopped (e : mevent) : bool := mevent_eqb e MStopped.

Lemma mrun_dead_after_stopped : forall t m m', mrun t m = Some m' -> m_ctl m <> PDead ->
  dead_after_stopped (events_of t) = true /\
  existsb is_mstopped (events_of t) = (match m_ctl m' with PDead => true | _ => false end).
Proof.
  induction t as [|e t IH]; intros m m' H Hk; cbn [mrun] in H.
  - injection H as <-. split; [reflexivity|]. cbn. destruct (m_ctl m); try reflexivity. congruence.
  - destruct (mstep m e) as [m1|] eqn:E; [|discriminate].
    destruct (mstep_toward_dead _ _ _ E Hk) as [[-> Hd]|(Hn & He & Hp)].
    + destruct m1 as [cur w k]. cbn in Hd. subst k. destruct (mrun_from_dead _ _ _ _ H) as [Ht ->].
      destruct (events_deadP _ Ht) as [Hdm _]. cbn [events_of app dead_after_stopped existsb is_mstopped mevent_eqb orb m_ctl].
      split; [|reflexivity]. clear -Hdm. induction Hdm as [|x l Hx _ IHl]; [reflexivity|]. cbn [forallb]. rewrite IHl.
      destruct x; try contradiction; reflexivity.
    + destruct (IH _ _ H Hn) as [D X].
      destruct e as [ | | | | | | |p| | | | | | | | | ]; cbn [events_of app dead_after_stopped existsb is_mstopped mevent_eqb is_deadm negb andb orb];
        try (split; assumption); try congruence.
Qed.

Lemma cntb_count n l : cntb n l = count_occ Nat.eq_dec l n.
Proof.
  unfold cntb. induction l as [|x l IH]; [reflexivity|]. cbn [filter]. rewrite count_cons. unfold cn1.
  destruct (n =? x); cbn [length]; rewrite IH; reflexivity.
Qed.

(** C12: every lifecycle occurrence is published, exactly once, in order *)
Theorem C12_lifecycle_events_published_thm :
  forall f c xs s t, stopped_safe c -> run f c xs = (s, t) -> out_of_fuel t = false ->
  lifeev t = expected_c c 0 None (recvs_of t) /\
  dead_after_stopped (events_of t) = true /\
  registered s = negb (existsb is_mstopped (events_of t)) /\
  (forall n, cntb n (user_payloads (recvs_of t)) + cntb n (dead_payloads (events_of t)) = cntb n (sends_of t)).
Proof.
  intros f c xs s t Hs H Hf. pose proof (run_sound c Hs _ _ _ _ H Hf) as Hr.
  split; [apply (Run_c12 c Hs _ _ _ Hr)|].
  destruct (run_accept _ _ _ _ _ Hs H Hf) as [Hm Ho].
  destruct (mrun_dead_after_stopped _ _ _ Hm) as [D X]; [discriminate|]. split; [exact D|]. split.
  - rewrite X. unfold mfin. destruct (dead s) eqn:Hd; cbn [m_ctl negb].
    + apply (opened_dead _ Ho Hd).
    + destruct Ho as [[[_ Hreg] _]|Hg]; [exact Hreg|destruct Hg; congruence].
  - intros n. destruct (C05_no_silent_loss_thm _ _ _ _ _ Hs H Hf) as (Hp & _).
    rewrite !cntb_count, <- count_occ_app. symmetry. apply (Permutation_count_occ Nat.eq_dec), Hp.
Qed.

(* ------------------------------------------------------------------ *)
(** * F. Soundness of the oracles of ProcExec.v

    [selfcase c] is the case [c] whose observation is the model's own
    projection of its run.  Each oracle accepts it under the premises of the
    theorems it encodes: the differential check therefore compares the
    implementation against a predicate every model run satisfies. *)
Definition model_obs (c : case) : obs :=
  {| o_recvs := recvs_of (snd (model c));
     o_events := events_of (snd (model c));
     o_pills := map (fun k => {| op_done := cancelled (snd (model c)) k; op_early := false; op_reg_at_done := false |})
                    (seq 0 (npill (fst (model c))));
     o_sends := sends_of (snd (model c));
     o_escaped := has_escaped (snd (model c));
     o_hang := false;
     o_spawn_started := started_in_spawn (cfg_of c);
     o_registered := registered (fst (model c)) |}.

Definition selfcase (c : case) : case :=
  {| c_prop := c_prop c; c_maxr := c_maxr c; c_chain := c_chain c; c_table := c_table c;
     c_ops := c_ops c; c_obs := model_obs c |}.

Lemma model_selfcase c : model (selfcase c) = model c.
Proof. reflexivity. Qed.

Lemma model_run c : run FUEL (cfg_of c) (c_ops c) = (fst (model c), snd (model c)).
Proof. unfold model. destruct (run FUEL (cfg_of c) (c_ops c)); reflexivity. Qed.

(* the Stopped rules of a table do not panic: a decidable form of [stopped_safe] *)
Definition stopped_safe_tbl (tbl : list rule) : bool :=
  forallb (fun r => negb (lmsg_eqb (r_on r) LStopped) || negb (panics (r_do r))) tbl.

Lemma panics_false_nopanic acts : panics acts = false -> Forall nopanic acts.
Proof.
  unfold panics. induction acts as [|a acts IH]; intros H; [constructor|]. cbn [existsb] in H.
  apply orb_false_iff in H as [H1 H2]. constructor; [|apply IH, H2]. split; intros ->; discriminate.
Qed.

Lemma lookup_nopanic tbl i m :
  (forall r, In r tbl -> r_on r = m -> panics (r_do r) = false) -> Forall nopanic (lookup tbl i m).
Proof.
  induction tbl as [|r tbl IH]; intros H; cbn [lookup]; [constructor|].
  destruct ((Nat.eqb (r_inc r) 0 || Nat.eqb (r_inc r) i) && lmsg_eqb (r_on r) m) eqn:E.
  - apply andb_true_iff in E as [_ E]. apply lmsg_eqb_eq in E. apply panics_false_nopanic, H; [left; reflexivity|exact E].
  - apply IH. intros r' Hr'. apply H. right; exact Hr'.
Qed.

Lemma stopped_safe_of_tbl c : stopped_safe_tbl (c_table c) = true -> stopped_safe (cfg_of c).
Proof.
  intros H i. cbn [scr cfg_of]. apply lookup_nopanic. intros r Hr Hon.
  unfold stopped_safe_tbl in H. rewrite forallb_forall in H. specialize (H r Hr).
  rewrite Hon in H. cbn in H. apply negb_true_iff in H. exact H.
Qed.

Lemma all2_refl {A} (f : A -> A -> bool) l : (forall a, f a a = true) -> all2 f l l = true.
Proof. intros H. induction l as [|a l IH]; [reflexivity|]. cbn. rewrite H, IH. reflexivity. Qed.

(** C13 *)
Lemma recvs_of_in t r : In r (recvs_of t) -> In (Recv (or_inc r) (or_full r) (or_msg r) (or_snd r)) t.
Proof.
  induction t as [|e t IH]; intros H; [contradiction|].
  destruct e; cbn [recvs_of] in H; try (right; apply IH, H).
  destruct H as [<-|H]; [left; reflexivity|right; apply IH, H].
Qed.

Lemma lookup_in tbl i m a : In a (lookup tbl i m) -> exists r, In r tbl /\ In a (r_do r).
Proof.
  induction tbl as [|r tbl IH]; cbn [lookup]; intros H; [contradiction|].
  destruct ((Nat.eqb (r_inc r) 0 || Nat.eqb (r_inc r) i) && lmsg_eqb (r_on r) m).
  - exists r. split; [left; reflexivity|exact H].
  - destruct (IH H) as (r' & Hr & Ha). exists r'. split; [right; exact Hr|exact Ha].
Qed.

Lemma sent_with_sender_src tbl n : (exists i m, In (ASend n) (lookup tbl i m)) -> sent_with_sender tbl n = true.
Proof.
  intros (i & m & H). apply lookup_in in H as (r & Hr & Ha). unfold sent_with_sender.
  apply existsb_exists. exists r. split; [exact Hr|]. apply existsb_exists. exists (ASend n). split; [exact Ha|apply Nat.eqb_refl].
Qed.

Lemma sent_without_sender_src tbl ops n :
  (exists i m, In (ASendNil n) (lookup tbl i m)) \/ In (XSend n) ops -> sent_without_sender tbl ops n = true.
Proof.
  unfold sent_without_sender. intros [(i & m & H)|H]; apply orb_true_iff; [left|right].
  - apply lookup_in in H as (r & Hr & Ha). apply existsb_exists. exists r. split; [exact Hr|].
    apply existsb_exists. exists (ASendNil n). split; [exact Ha|apply Nat.eqb_refl].
  - apply existsb_exists. exists (XSend n). split; [exact H|apply Nat.eqb_refl].
Qed.

Theorem oracle_c13_sound c :
  stopped_safe (cfg_of c) -> out_of_fuel (snd (model c)) = false -> oracle_c13 (selfcase c) = true.
Proof.
  intros Hs Hf. unfold oracle_c13. cbn [c_obs selfcase model_obs o_hang o_recvs negb andb].
  pose proof (model_run c) as Hr. pose proof (run_PA _ _ _ _ _ Hr) as [H _].
  rewrite (forallb_or_full_recvs _ H). cbn [andb].
  apply forallb_forall. intros r Hin. apply recvs_of_in in Hin. unfold sender_ok.
  destruct (or_msg r) as [ | | |n] eqn:Em; try reflexivity.
  destruct (C13_context_shows_sender_thm _ _ _ _ _ Hs Hr Hf _ _ _ _ Hin) as [_ Hsrc].
  change (c_table (selfcase c)) with (c_table c). change (c_ops (selfcase c)) with (c_ops c). cbv zeta.
  destruct (or_snd r).
  - rewrite (sent_with_sender_src (c_table c) n Hsrc). destruct (sent_without_sender (c_table c) (c_ops c) n); reflexivity.
  - rewrite (sent_without_sender_src (c_table c) (c_ops c) n Hsrc). destruct (sent_with_sender (c_table c) n); reflexivity.
Qed.

(** C04 *)
Theorem oracle_c04_sound c :
  stopped_safe (cfg_of c) -> out_of_fuel (snd (model c)) = false -> oracle_c04 (selfcase c) = true.
Proof.
  intros Hs Hf. unfold oracle_c04. cbn [c_obs c_table selfcase model_obs o_hang o_recvs o_spawn_started negb andb].
  rewrite (C04_lifecycle_word_thm _ _ _ _ _ Hs (model_run c) Hf). cbn [andb].
  destruct (existsb _ (c_table c)) eqn:Ex; [apply orb_true_r|]. rewrite orb_false_r.
  assert (Hnp : forall m, m = LInit \/ m = LStarted -> forall i, Forall nopanic (scr (cfg_of c) i m)).
  { intros m Hm i. cbn [scr cfg_of]. apply lookup_nopanic. intros r Hr Hon.
    destruct (panics (r_do r)) eqn:Ep; [|reflexivity]. exfalso.
    assert (Hx : existsb (fun r => match r_on r with LInit | LStarted => existsb (fun a => match a with APanic | APanicInternal => true | _ => false end) (r_do r) | _ => false end) (c_table c) = true).
    { apply existsb_exists. exists r. split; [exact Hr|]. rewrite Hon. destruct Hm as [-> | ->]; exact Ep. }
    rewrite Hx in Ex. discriminate Ex. }
  assert (Hst : started_in_spawn (cfg_of c) = true).
  { unfold started_in_spawn. change FUEL with (S 399).
    destruct (start_nopanic_started (cfg_of c) 399 init_pst (Hnp LInit (or_introl eq_refl) _) (Hnp LStarted (or_intror eq_refl) _)) as [sd Hin].
    destruct (start (S 399) (cfg_of c) init_pst) as [[s1 t1] o1]. cbn [fst snd] in Hin.
    apply existsb_exists. eexists. split; [exact Hin|reflexivity]. }
  rewrite Hst. reflexivity.
Qed.

(** C05 *)
Theorem oracle_c05_sound c :
  stopped_safe (cfg_of c) -> out_of_fuel (snd (model c)) = false -> NoDup (sends_of (snd (model c))) ->
  oracle_c05 (selfcase c) = true.
Proof.
  intros Hs Hf Hnd. unfold oracle_c05.
  cbn [c_obs c_table selfcase model_obs o_hang o_recvs o_events o_sends o_escaped negb].
  pose proof (model_run c) as Hr. set (t := snd (model c)) in *. set (s := fst (model c)) in *.
  rewrite (C05_contained_thm _ _ _ _ _ Hs Hr). cbn [negb andb].
  destruct (C05_delivered_in_send_order_exactly_once_thm _ _ _ _ _ Hs Hr Hf) as (_ & _ & Hsub & Hn).
  rewrite (subseqb_complete _ _ Hsub). cbn [andb].
  destruct (C05_no_silent_loss_thm _ _ _ _ _ Hs Hr Hf) as (Hperm & Hlen & _).
  rewrite <- Hlen, Nat.eqb_refl. cbn [andb].
  assert (Hmem : forallb (fun n => existsb (Nat.eqb n) (user_payloads (recvs_of t)) || existsb (Nat.eqb n) (dead_payloads (events_of t))) (sends_of t) = true).
  { apply forallb_forall. intros n Hin. apply (Permutation_in _ Hperm) in Hin. apply in_app_or in Hin as [Hin|Hin].
    - apply orb_true_iff. left. apply existsb_exists. exists n. split; [exact Hin|apply Nat.eqb_refl].
    - apply orb_true_iff. right. apply existsb_exists. exists n. split; [exact Hin|apply Nat.eqb_refl]. }
  rewrite Hmem. cbn [andb].
  destruct (C06_restarts_bounded_thm _ _ _ _ _ Hr) as (_ & Heq & _).
  rewrite <- Heq, (all2_refl Nat.eqb _ Nat.eqb_refl). cbn [andb].
  pose proof (C05_panic_then_stopped_thm _ _ _ _ _ Hs Hr Hf) as Hp.
  destruct (prun_pts (cfg_of c) (c_table c) (fun _ _ => eq_refl) _ _ Hp) as [_ Hpts]. rewrite Hpts. cbn [andb].
  apply nodupb_complete, Hn, Hnd.
Qed.

(** C06 *)
Lemma after_max_split : forall t rest, after_max (events_of t) = Some rest ->
  exists t1 t2, t = t1 ++ EvMaxRestarts :: t2 /\ rest = events_of t2.
Proof.
  induction t as [|e t IH]; intros rest H; [discriminate|].
  destruct e as [ | | | | | | |[]| | | | | | | | | ]; cbn in H;
    try (destruct (IH _ H) as (t1 & t2 & -> & ->); eexists (_ :: t1), t2; split; reflexivity).
  injection H as <-. exists [], t. split; reflexivity.
Qed.

Theorem oracle_c06_sound c :
  stopped_safe (cfg_of c) -> out_of_fuel (snd (model c)) = false -> oracle_c06 (selfcase c) = true.
Proof.
  intros Hs Hf. unfold oracle_c06.
  cbn [c_obs c_maxr selfcase model_obs o_hang o_recvs o_events o_escaped o_registered negb andb].
  pose proof (model_run c) as Hr. set (t := snd (model c)) in *. set (s := fst (model c)) in *.
  destruct (C06_restarts_bounded_thm _ _ _ _ _ Hr) as (Hle & _ & _). cbn [maxr cfg_of] in Hle.
  apply Nat.leb_le in Hle. rewrite Hle. cbn [andb].
  destruct (after_max (events_of t)) as [rest|] eqn:Ea; [|reflexivity].
  apply after_max_split in Ea as (t1 & t2 & Et & ->).
  destruct (C06_exceeding_stops_cleanly_thm _ _ _ _ _ Hs Hr Hf _ _ Et) as (Hreg & _ & _ & _ & Hesc & i & sd & h & t3 & -> & Hh & Ht3).
  rewrite Hesc, Hreg. cbn [negb andb].
  destruct (events_senq _ Hh) as [Eh Rh]. destruct (events_deadP _ Ht3) as [Ed Rd].
  assert (Eev : events_of (InboxStop :: Recv i true LStopped sd :: h ++ RegRemove :: EvStopped :: t3) = MStopped :: events_of t3).
  { cbn [events_of app]. rewrite events_of_app, Eh. reflexivity. }
  rewrite Eev. cbn [existsb mevent_eqb orb andb].
  assert (Hno : existsb (fun e => match e with MRestarted _ | MInitialized | MStarted => true | _ => false end) (events_of t3) = false).
  { clear -Ed. induction Ed as [|e l He _ IH]; [reflexivity|]. cbn [existsb]. rewrite IH. destruct e; try contradiction; reflexivity. }
  rewrite Hno. cbn [negb andb].
  rewrite Et, recvs_of_app. cbn [recvs_of]. rewrite recvs_of_app, Rh. cbn [recvs_of app]. rewrite Rd.
  rewrite rev_unit. reflexivity.
Qed.

(** C07 *)
Lemma user_payloads_in l r n : In r l -> or_msg r = LUser n -> In n (user_payloads l).
Proof.
  induction l as [|a l IH]; intros Hin Hm; [contradiction|]. cbn [user_payloads]. destruct Hin as [->|Hin].
  - rewrite Hm. left; reflexivity.
  - destruct (or_msg a); try (apply IH; assumption). right. apply IH; assumption.
Qed.

Theorem oracle_c07_sound c :
  stopped_safe (cfg_of c) -> out_of_fuel (snd (model c)) = false -> ~ In alien (sends_of (snd (model c))) ->
  oracle_c07 (selfcase c) = true.
Proof.
  intros Hs Hf Hal. unfold oracle_c07. cbn [c_obs selfcase model_obs o_hang o_recvs o_pills negb andb].
  pose proof (model_run c) as Hr. set (t := snd (model c)) in *. set (s := fst (model c)) in *.
  apply andb_true_iff. split.
  - apply forallb_forall. intros r Hin. apply negb_true_iff. destruct (lmsg_eqb (or_msg r) (LUser alien)) eqn:E; [|reflexivity].
    exfalso. apply lmsg_eqb_eq in E. apply Hal.
    destruct (C05_delivered_in_send_order_exactly_once_thm _ _ _ _ _ Hs Hr Hf) as (_ & _ & Hsub & _).
    eapply Subseq_In; [exact Hsub|]. eapply user_payloads_in; eassumption.
  - apply forallb_forall. intros p Hin. apply in_map_iff in Hin as (k & <- & Hk). apply in_seq in Hk.
    cbn [op_done op_early op_reg_at_done negb andb]. rewrite andb_true_r, andb_true_r.
    eapply C07_every_pill_cancelled_cor; [exact Hs|exact Hr|exact Hf|lia].
Qed.

Lemma orecv_eqb_refl r : orecv_eqb r r = true.
Proof. unfold orecv_eqb. rewrite Nat.eqb_refl, lmsg_eqb_refl, !eqb_reflx. reflexivity. Qed.
Lemma mevent_eqb_refl e : mevent_eqb e e = true.
Proof. destruct e; cbn; try reflexivity; apply Nat.eqb_refl. Qed.

(** C12 *)
Theorem oracle_c12_sound c :
  stopped_safe (cfg_of c) -> out_of_fuel (snd (model c)) = false -> oracle_c12 (selfcase c) = true.
Proof.
  intros Hs Hf. unfold oracle_c12.
  cbn [c_obs c_table c_maxr selfcase model_obs o_hang o_recvs o_events o_sends o_escaped o_registered negb].
  pose proof (model_run c) as Hr. set (t := snd (model c)) in *. set (s := fst (model c)) in *.
  rewrite (C05_contained_thm _ _ _ _ _ Hs Hr). cbn [negb andb].
  destruct (C12_lifecycle_events_published_thm _ _ _ _ _ Hs Hr Hf) as (He & Hd & Hreg & Hcnt).
  rewrite expected_cfg_of. fold (lifeev t). rewrite <- He, (all2_refl _ _ mevent_eqb_refl), Hd. cbn [andb].
  change (existsb (fun e => mevent_eqb e MStopped) (events_of t)) with (existsb is_mstopped (events_of t)).
  rewrite <- Hreg, eqb_reflx. cbn [andb].
  apply forallb_forall. intros n _. rewrite Hcnt. apply Nat.eqb_refl.
Qed.

(** all five *)
Theorem C04567_13_oracle_sound_thm c :
  stopped_safe (cfg_of c) -> out_of_fuel (snd (model c)) = false ->
  NoDup (sends_of (snd (model c))) -> ~ In alien (sends_of (snd (model c))) ->
  oracle (selfcase c) = true.
Proof.
  intros Hs Hf Hnd Hal.
  pose proof (oracle_c04_sound c Hs Hf) as H4. pose proof (oracle_c05_sound c Hs Hf Hnd) as H5.
  pose proof (oracle_c06_sound c Hs Hf) as H6. pose proof (oracle_c07_sound c Hs Hf Hal) as H7.
  pose proof (oracle_c13_sound c Hs Hf) as H13. pose proof (oracle_c12_sound c Hs Hf) as H12.
  unfold oracle. change (c_prop (selfcase c)) with (c_prop c).
  destruct (c_prop c) as [|[|[|[|[|[|[|[|[|[|[|[|[|[|n]]]]]]]]]]]]]]; try assumption;
    try (rewrite H6, H12; reflexivity);
    rewrite H4, H5, H6, H7, H13, H12; reflexivity.
Qed.

(* the observation [model_obs] is what [corr] compares with *)

Theorem corr_selfcase c : out_of_fuel (snd (model c)) = false -> corr (selfcase c) = true.
Proof.
  intros Hf. unfold corr. rewrite model_selfcase. destruct (model c) as [s t] eqn:Em. cbn [snd] in Hf.
  unfold selfcase, model_obs. rewrite Em.
  cbn [c_obs fst snd o_recvs o_events o_sends o_pills o_escaped o_hang o_spawn_started o_registered].
  rewrite Hf, !(all2_refl _ _ orecv_eqb_refl), (all2_refl _ _ mevent_eqb_refl), (all2_refl _ _ Nat.eqb_refl).
  rewrite map_length, seq_length, Nat.eqb_refl, map_map. cbn [op_done].
  rewrite (all2_refl _ _ eqb_reflx), !eqb_reflx. reflexivity.
Qed.

(* ------------------------------------------------------------------ *)
(** * G. Non-vacuity: concrete scenarios that satisfy the premises and reach
      the interesting branches (all by computation, FUEL = 400) *)
Definition ex_rule i m a := {| r_inc := i; r_on := m; r_do := a |}.
Definition ex_case tbl maxr ops : case :=
  {| c_prop := 0; c_maxr := maxr; c_chain := 0; c_table := tbl; c_ops := ops;
     c_obs := {| o_recvs := []; o_events := []; o_pills := []; o_sends := []; o_escaped := false;
                 o_hang := false; o_spawn_started := false; o_registered := false |} |}.

(* the premises of the theorems, and what the scenario shows *)
Definition ex_ok (c : case) : bool :=
  stopped_safe_tbl (c_table c) && negb (out_of_fuel (snd (model c))) &&
  nodupb (sends_of (snd (model c))) && negb (existsb (Nat.eqb alien) (sends_of (snd (model c)))) &&
  oracle (selfcase c) && corr (selfcase c).

(* a restart with a backlog replayed: 1 panics, 2 and 3 go to incarnation 2, then 4 *)
Definition ex_restart := ex_case [ex_rule 1 LStarted [ASend 1; ASend 2; ASend 3]; ex_rule 1 (LUser 1) [APanic]] 3 [XSend 4].
Example ex_restart_ok :
  ex_ok ex_restart = true /\ rcs (snd (model ex_restart)) = [1] /\
  map (fun r => (or_inc r, or_msg r)) (recvs_of (snd (model ex_restart))) =
    [(1, LInit); (1, LStarted); (1, LUser 1); (1, LStopped); (2, LInit); (2, LStarted); (2, LUser 2); (2, LUser 3); (2, LUser 4)].
Proof. vm_compute. repeat split. Qed.

(* the budget is exceeded with a message and a pill in the restart buffer: both are disposed of *)
Definition ex_max := ex_case [ex_rule 1 LStarted [ASend 1; ASend 2; APoison]; ex_rule 0 (LUser 1) [APanic]] 0 [XSend 4; XStop].
Example ex_max_ok :
  ex_ok ex_max = true /\ has_max (snd (model ex_max)) = true /\ registered (fst (model ex_max)) = false /\
  ddl (snd (model ex_max)) = [2; 4] /\ cnc (snd (model ex_max)) = [0; 1].
Proof. vm_compute. repeat split. Qed.

(* a graceful pill with a second (hard) pill behind it in the same batch *)
Definition ex_two_pills := ex_case [ex_rule 1 LStarted [ASend 1; APoison; ASend 2; AStop; ASend 3]] 3 [].
Example ex_two_pills_ok :
  ex_ok ex_two_pills = true /\ dlv (snd (model ex_two_pills)) = [1; 2; 3] /\ cnc (snd (model ex_two_pills)) = [0; 1].
Proof. vm_compute. repeat split. Qed.

(* a crash while a graceful pill drains, with another pill passed over by the drain *)
Definition ex_drain_crash :=
  ex_case [ex_rule 1 LStarted [APoison; ASend 1; APoison; ASend 2; ASend 3]; ex_rule 1 (LUser 2) [APanic]] 3 [].
Example ex_drain_crash_ok :
  ex_ok ex_drain_crash = true /\ rcs (snd (model ex_drain_crash)) = [1] /\
  dlv (snd (model ex_drain_crash)) = [1; 2; 3] /\ cnc (snd (model ex_drain_crash)) = [0; 1].
Proof. vm_compute. repeat split. Qed.

(* a hard pill met while the restart buffer is replayed (restart by InternalError, not counted) *)
Definition ex_pill_in_replay :=
  ex_case [ex_rule 1 LStarted [ASend 1; ASend 2; AStop; ASend 3]; ex_rule 1 (LUser 1) [APanicInternal]] 3 [XSend 9].
Example ex_pill_in_replay_ok :
  ex_ok ex_pill_in_replay = true /\ rcs (snd (model ex_pill_in_replay)) = [] /\
  dlv (snd (model ex_pill_in_replay)) = [1; 2] /\ ddl (snd (model ex_pill_in_replay)) = [3; 9] /\
  inc (fst (model ex_pill_in_replay)) = 2.
Proof. vm_compute. repeat split. Qed.

(* Stop, then Poison of the stopped actor, then a send *)
Definition ex_pill_for_stopped := ex_case [] 1 [XSend 1; XStop; XPoison; XSend 2].
Example ex_pill_for_stopped_ok :
  ex_ok ex_pill_for_stopped = true /\ cnc (snd (model ex_pill_for_stopped)) = [0; 1] /\
  ddl (snd (model ex_pill_for_stopped)) = [2].
Proof. vm_compute. repeat split. Qed.

(* panics in Initialized and in Started *)
Definition ex_lifecycle_panics :=
  ex_case [ex_rule 1 LInit [APanic]; ex_rule 2 LStarted [ASend 7; APanic]] 2 [XSend 8].
Example ex_lifecycle_panics_ok :
  ex_ok ex_lifecycle_panics = true /\ rcs (snd (model ex_lifecycle_panics)) = [1; 2] /\
  dlv (snd (model ex_lifecycle_panics)) = [7; 8] /\ inc (fst (model ex_lifecycle_panics)) = 3.
Proof. vm_compute. repeat split. Qed.

(* the premises hold of each of them as propositions *)
Lemma ex_ok_premises c : ex_ok c = true ->
  stopped_safe (cfg_of c) /\ out_of_fuel (snd (model c)) = false /\
  NoDup (sends_of (snd (model c))) /\ ~ In alien (sends_of (snd (model c))).
Proof.
  unfold ex_ok. intros H.
  apply andb_true_iff in H as [H _]. apply andb_true_iff in H as [H _].
  apply andb_true_iff in H as [H Hal]. apply andb_true_iff in H as [H Hnd]. apply andb_true_iff in H as [Hsf Hfu].
  split; [apply stopped_safe_of_tbl; exact Hsf|]. split; [apply negb_true_iff; exact Hfu|]. split.
  - revert Hnd. generalize (sends_of (snd (model c))).
    induction l as [|x l IH]; intros Hn; [constructor|]. cbn [nodupb] in Hn. apply andb_true_iff in Hn as [Hx Hl].
    constructor; [|apply IH, Hl]. intros Hin. apply negb_true_iff in Hx.
    assert (existsb (Nat.eqb x) l = true) by (apply existsb_exists; exists x; split; [exact Hin|apply Nat.eqb_refl]). congruence.
  - intros Hin. apply negb_true_iff in Hal.
    assert (existsb (Nat.eqb alien) (sends_of (snd (model c))) = true)
      by (apply existsb_exists; exists alien; split; [exact Hin|apply Nat.eqb_refl]). congruence.
Qed.

(** Why [stopped_safe] is needed: a Stopped handler that panics inside
    cleanup is recovered by Invoke's deferred function, which delivers Stopped
    a second time (tryRestart) — that second panic is raised from the recover
    path and leaves the goroutine.  C04 (one Stopped) and C05 (containment)
    both fail for such a receiver, in the model and in process.go alike. *)
Definition ex_stopped_panics := ex_case [ex_rule 1 LStarted [APoison]; ex_rule 0 LStopped [APanic]] 3 [].
Example stopped_handler_panic_refutes :
  stopped_safe_tbl (c_table ex_stopped_panics) = false /\
  out_of_fuel (snd (model ex_stopped_panics)) = false /\
  has_escaped (snd (model ex_stopped_panics)) = true /\
  c04_word (recvs_of (snd (model ex_stopped_panics))) 0 0 = false /\
  cancelled (snd (model ex_stopped_panics)) 0 = true /\ registered (fst (model ex_stopped_panics)) = true.
Proof. vm_compute. repeat split. Qed.
