(** Proofs about the self-managed provider model (Provider.v): the C20 clauses
    for every reachable state, the invariants over histories, refinement of
    the two specifications, the refutation witness for the pinned tree. *)
From stdpp Require Import gmap list sorting.
From HV Require Import Agent AgentProofs Provider.

(** * addMembers *)
Lemma add_members_nil s : add_members s [] = s.
Proof. done. Qed.
Lemma add_members_cons s m l :
  add_members s (m :: l) =
  add_members (if decide (is_Some (s !! mid m)) then s else <[mid m := m]> s) l.
Proof. done. Qed.
Lemma add_members_snoc s l m :
  add_members s (l ++ [m]) =
  if decide (is_Some (add_members s l !! mid m)) then add_members s l
  else <[mid m := m]> (add_members s l).
Proof. unfold add_members. by rewrite foldl_app. Qed.

Lemma add_members_lookup_old s l i x : s !! i = Some x → add_members s l !! i = Some x.
Proof.
  intros Hs. induction l as [|m l IH] using rev_ind; [done|].
  rewrite add_members_snoc. case_decide as Hd; [done|].
  rewrite lookup_insert_ne; [done|]. intros <-. apply Hd. eauto.
Qed.

Lemma add_members_dom s l : dom (add_members s l) = list_to_set (mid <$> l) ∪ dom s.
Proof.
  induction l as [|m l IH] using rev_ind; [rewrite add_members_nil; set_solver|].
  rewrite add_members_snoc, fmap_app, list_to_set_app_L. simpl.
  case_decide as Hd.
  - apply elem_of_dom in Hd. set_solver.
  - rewrite dom_insert_L. set_solver.
Qed.

Lemma add_members_lookup_new s l i x :
  add_members s l !! i = Some x → s !! i = Some x ∨ (s !! i = None ∧ x ∈ l ∧ mid x = i).
Proof.
  induction l as [|m l IH] using rev_ind; [rewrite add_members_nil; eauto|].
  rewrite add_members_snoc. case_decide as Hd.
  - intros [?|(?&?&?)]%IH; [by left|right]. set_solver.
  - rewrite lookup_insert_Some. intros [[<- <-]|[_ H]].
    + right. split_and!; [|set_solver|done].
      destruct (s !! mid m) eqn:E; [|done]. exfalso. apply Hd. erewrite add_members_lookup_old; eauto.
    + apply IH in H as [?|(?&?&?)]; [by left|right]. set_solver.
Qed.

Lemma add_members_first s m l : s !! mid m = None → add_members s (m :: l) !! mid m = Some m.
Proof.
  intros Hn. rewrite add_members_cons, decide_False by (rewrite Hn; by intros [??]).
  apply add_members_lookup_old. by rewrite lookup_insert.
Qed.

Lemma add_members_keyed s l : keyed s → keyed (add_members s l).
Proof.
  intros Hk i x [H|(_&_&H)]%add_members_lookup_new; eauto.
Qed.

(** * GetByHost *)
Lemma get_by_host_Some s a m : get_by_host s a = Some m → ∃ i, s !! i = Some m ∧ mhost m = a.
Proof.
  intros H%last_Some_elem_of. apply elem_of_list_filter in H as [Hh Hin].
  apply elem_of_slice in Hin as [i Hi]. eauto.
Qed.

Lemma get_by_host_None s a : get_by_host s a = None ↔ ∀ i m, s !! i = Some m → mhost m ≠ a.
Proof.
  unfold get_by_host. rewrite last_None. split.
  - intros Hnil i m Hm Hh. eapply (filter_nil_not_elem_of _ _ m Hnil Hh). apply elem_of_slice; eauto.
  - intros H. destruct (filter _ _) as [|m l] eqn:E; [done|]. exfalso.
    assert (m ∈ filter (λ m, mhost m = a) (slice s)) as Hin by (rewrite E; left).
    apply elem_of_list_filter in Hin as [Hh [i Hi]%elem_of_slice]. by eapply H.
Qed.

Lemma get_by_host_unique s a i m :
  hosts_distinct s → s !! i = Some m → mhost m = a → get_by_host s a = Some m.
Proof.
  intros Hd Hi Hh. destruct (get_by_host s a) as [m'|] eqn:E.
  - apply get_by_host_Some in E as (j & Hj & Hh').
    assert (j = i) as -> by (eapply Hd; eauto; congruence). congruence.
  - exfalso. eapply get_by_host_None; eauto.
Qed.

Lemma remove_member_keyed s i m : keyed s → s !! i = Some m → remove_member s m = delete i s.
Proof.
  intros Hk Hi. unfold remove_member. rewrite (Hk _ _ Hi).
  by rewrite decide_True by eauto.
Qed.

(** * one step *)
Lemma pstep_no_panic s msg : Panic ∉ (pstep s msg).2.
Proof.
  destruct msg as [m from|l|a]; cbn [pstep fst snd mentioned]; [| |destruct (get_by_host s a)]; cbn [pstep fst snd mentioned];
    rewrite ?elem_of_cons, elem_of_nil; naive_solver.
Qed.

Lemma pstep_keyed s msg : keyed s → keyed (pstep s msg).1.
Proof.
  intros Hk. destruct msg as [m from|l|a]; cbn [pstep fst snd mentioned]; [by apply add_members_keyed..|].
  destruct (get_by_host s a) as [m|] eqn:E; cbn [pstep fst snd mentioned]; [|done].
  apply get_by_host_Some in E as (i & Hi & _). rewrite (remove_member_keyed _ i) by done.
  intros j x [_ H]%lookup_delete_Some. eauto.
Qed.

Lemma pstep_values s msg i m :
  (pstep s msg).1 !! i = Some m → s !! i = Some m ∨ m ∈ mentioned msg.
Proof.
  destruct msg as [m' from|l|a]; cbn [pstep fst snd mentioned].
  - intros [?|(_&?&_)]%add_members_lookup_new; eauto.
  - intros [?|(_&?&_)]%add_members_lookup_new; eauto.
  - destruct (get_by_host s a) as [x|]; cbn [pstep fst snd mentioned]; [|eauto].
    unfold remove_member. case_decide; [|eauto]. intros [_ ?]%lookup_delete_Some. eauto.
Qed.

(* clause 1: a handshake adds the peer, the peer gets the complete list, the
   agent is told the new list *)
Lemma handshake_step s m from :
  let s' := (pstep s (Handshake m from)).1 in
  dom s' = {[mid m]} ∪ dom s ∧
  (s !! mid m = None → s' !! mid m = Some m) ∧
  (∀ i x, s !! i = Some x → s' !! i = Some x) ∧
  (pstep s (Handshake m from)).2 = [ToAgent (slice s'); Reply from (slice s')] ∧
  (∀ x, x ∈ slice s' ↔ ∃ i, s' !! i = Some x).
Proof.
  cbn [pstep fst snd mentioned]. split_and!.
  - rewrite add_members_dom. set_solver.
  - apply add_members_first.
  - intros. by apply add_members_lookup_old.
  - done.
  - apply elem_of_slice.
Qed.

(* clause 2: every member of a received list is added *)
Lemma members_step s l :
  let s' := (pstep s (MembersMsg l)).1 in
  dom s' = list_to_set (mid <$> l) ∪ dom s ∧
  (∀ m, m ∈ l → mid m ∈ dom s') ∧
  (∀ i x, s !! i = Some x → s' !! i = Some x) ∧
  (∀ i x, s' !! i = Some x → s !! i = Some x ∨ x ∈ l) ∧
  (pstep s (MembersMsg l)).2 = [ToAgent (slice s')].
Proof.
  cbn [pstep fst snd mentioned]. split_and!.
  - apply add_members_dom.
  - intros m Hm. rewrite add_members_dom, elem_of_union, elem_of_list_to_set. left.
    by apply elem_of_list_fmap_1.
  - intros. by apply add_members_lookup_old.
  - intros i x [?|(_&?&_)]%add_members_lookup_new; eauto.
  - done.
Qed.

(* clause 3: the member at the reported address — and only it — is removed,
   and the agent is told *)
Lemma leave_member_step s a i m :
  keyed s → hosts_distinct s → s !! i = Some m → mhost m = a →
  pstep s (LeaveAddr a) = (delete i s, [ToAgent (slice (delete i s))]).
Proof.
  intros Hk Hd Hi Hh. cbn [pstep fst snd mentioned]. rewrite (get_by_host_unique s a i m) by done.
  by rewrite (remove_member_keyed s i).
Qed.

(* without distinct addresses: exactly one of the members at that address
   goes (Go: the last one in map iteration order) *)
Lemma leave_shared_address_step s a :
  keyed s → (∃ i m, s !! i = Some m ∧ mhost m = a) →
  ∃ i m, s !! i = Some m ∧ mhost m = a ∧
         pstep s (LeaveAddr a) = (delete i s, [ToAgent (slice (delete i s))]).
Proof.
  intros Hk (i & m & Hi & Hh). cbn [pstep fst snd mentioned].
  destruct (get_by_host s a) as [m'|] eqn:E.
  - apply get_by_host_Some in E as (j & Hj & Hh'). exists j, m'.
    by rewrite (remove_member_keyed s j).
  - exfalso. eapply get_by_host_None; eauto.
Qed.

(* clause 4: a report for an address nobody in the list has: nothing changes,
   nothing is sent, no panic *)
Lemma leave_unknown_step s a :
  (∀ i m, s !! i = Some m → mhost m ≠ a) → pstep s (LeaveAddr a) = (s, []).
Proof. intros H. cbn [pstep fst snd mentioned]. apply get_by_host_None in H. by rewrite H. Qed.

(** * histories *)
Lemma pafter_snoc self hist msg :
  pafter self (hist ++ [msg]) = (pstep (pafter self hist) msg).1.
Proof. unfold pafter. by rewrite foldl_app. Qed.

Lemma keyed_pinit self : keyed (pinit self).
Proof. unfold pinit. intros i m [<- <-]%lookup_singleton_Some. done. Qed.

Lemma elem_of_directory_snoc self hist msg m :
  m ∈ directory self (hist ++ [msg]) ↔ m ∈ directory self hist ∨ m ∈ mentioned msg.
Proof.
  unfold directory. rewrite fmap_app, concat_app. cbn [fmap list_fmap concat].
  rewrite !elem_of_cons, !elem_of_app, elem_of_nil. naive_solver.
Qed.

Definition vals_in (dir : list member) (s : pstate) : Prop := ∀ i m, s !! i = Some m → m ∈ dir.

Lemma pafter_inv self hist : keyed (pafter self hist) ∧ vals_in (directory self hist) (pafter self hist).
Proof.
  induction hist as [|msg hist [IHk IHv]] using rev_ind.
  - split; [apply keyed_pinit|]. unfold pafter, pinit. simpl. intros i m [<- <-]%lookup_singleton_Some. by left.
  - rewrite pafter_snoc. split; [by apply pstep_keyed|].
    intros i m [H|H]%pstep_values; apply elem_of_directory_snoc; [left; eauto|by right].
Qed.

Lemma hosts_distinct_of dir s : host_inj dir → keyed s → vals_in dir s → hosts_distinct s.
Proof.
  intros Hinj Hk Hv i j x y Hi Hj Hh. rewrite <- (Hk _ _ Hi), <- (Hk _ _ Hj).
  apply Hinj; eauto.
Qed.

Lemma pafter_hosts_distinct self hist :
  host_inj (directory self hist) → hosts_distinct (pafter self hist).
Proof.
  intros. destruct (pafter_inv self hist). by eapply hosts_distinct_of.
Qed.

(* the node itself stays in its own list (unless its own address is reported) *)
Lemma self_stays_member self hist :
  host_inj (directory self hist) → (∀ a, LeaveAddr a ∈ hist → a ≠ mhost self) →
  pafter self hist !! mid self = Some self.
Proof.
  induction hist as [|msg hist IH] using rev_ind; intros Hinj Hl; [apply lookup_singleton|].
  assert (host_inj (directory self hist)) as Hinj'.
  { intros x y Hx Hy. apply Hinj; apply elem_of_directory_snoc; by left. }
  specialize (IH Hinj' (λ a Ha, Hl a ltac:(set_solver))).
  rewrite pafter_snoc. destruct msg as [m from|l|a]; cbn [pstep fst snd mentioned]; try by apply add_members_lookup_old.
  destruct (get_by_host _ a) as [x|] eqn:E; cbn [pstep fst snd mentioned]; [|done].
  apply get_by_host_Some in E as (i & Hi & Hh).
  destruct (pafter_inv self hist) as [Hk Hv].
  rewrite (remove_member_keyed _ i) by done. rewrite lookup_delete_ne; [done|].
  intros ->. rewrite IH in Hi. simplify_eq. apply (Hl (mhost x)); [set_solver|done].
Qed.

(* and its own address does remove it *)
Example own_address_removes_self :
  let self := mk 0 [] in pafter self [LeaveAddr 0] !! 0 = None.
Proof. by vm_compute. Qed.

(** * refinement of the id-set specification *)
Lemma spec_ids_refined_gen dir hist s :
  host_consistent dir → keyed s → vals_in dir s →
  (∀ msg m, msg ∈ hist → m ∈ mentioned msg → m ∈ dir) →
  dom (foldl (λ s msg, (pstep s msg).1) s hist) = foldl (spec_step dir) (dom s) hist.
Proof.
  intros Hc. revert s. induction hist as [|msg hist IH]; intros s Hk Hv Hm; [done|].
  cbn [foldl]. rewrite IH.
  - f_equal. destruct msg as [m from|l|a]; cbn [pstep fst snd spec_step].
    + rewrite add_members_dom. set_solver.
    + apply add_members_dom.
    + destruct (get_by_host s a) as [x|] eqn:E; cbn [pstep fst snd mentioned].
      * apply get_by_host_Some in E as (i & Hi & Hh).
        rewrite (remove_member_keyed _ i), dom_delete_L by done.
        apply set_eq. intros j. rewrite !elem_of_difference, elem_of_singleton, elem_of_list_to_set.
        rewrite elem_of_list_fmap. setoid_rewrite elem_of_list_filter.
        split; intros [Hj Hne]; (split; [done|]).
        -- intros (y & -> & Hy & Hyd). apply Hne.
           rewrite <- (Hk _ _ Hi). apply (Hc y x); eauto. congruence.
        -- intros ->. apply Hne. exists x. rewrite (Hk _ _ Hi). eauto.
      * rewrite get_by_host_None in E.
        apply set_eq. intros j. rewrite elem_of_difference, elem_of_list_to_set.
        rewrite elem_of_list_fmap. setoid_rewrite elem_of_list_filter.
        split; [|naive_solver]. intros Hj. split; [done|].
        intros (y & -> & Hy & Hyd). apply elem_of_dom in Hj as [x Hx].
        apply (E _ _ Hx). rewrite <- Hy. apply (Hc x y); eauto.
  - by apply pstep_keyed.
  - intros i m [H|H]%pstep_values; [eauto|]. eapply Hm; [left|done].
  - intros msg' m H. apply Hm. by right.
Qed.

Theorem member_list_is_spec self hist :
  host_consistent (directory self hist) → dom (pafter self hist) = spec_ids self hist.
Proof.
  intros Hc. unfold pafter, spec_ids.
  rewrite (spec_ids_refined_gen (directory self hist)); [unfold pinit; by rewrite dom_singleton_L|done|apply keyed_pinit| |].
  - unfold pinit. intros i m [<- <-]%lookup_singleton_Some. by left.
  - intros msg m Hmsg Hm. right. apply elem_of_list_In, in_concat. exists (mentioned msg).
    split; apply elem_of_list_In; [|done]. apply elem_of_list_fmap. eauto.
Qed.

(** * refinement of the id ↦ address reference; the oracle holds of every model run *)
Lemma nsort_perm l1 l2 : l1 ≡ₚ l2 → nsort l1 = nsort l2.
Proof.
  intros Hp. unfold nsort. apply (Sorted_unique Nat.le).
  - apply (Sorted_merge_sort Nat.le).
  - apply (Sorted_merge_sort Nat.le).
  - by rewrite !merge_sort_Permutation.
Qed.

Lemma ids_of_slice s : keyed s → ids_of (slice s) = sids s.
Proof.
  intros Hk. unfold ids_of, sids. apply nsort_perm. rewrite slice_ids by done.
  apply NoDup_Permutation; [apply NoDup_fst_map_to_list|apply NoDup_elements|].
  intros i. rewrite elem_of_elements, elem_of_dom, elem_of_list_fmap. unfold is_Some. split.
  - intros ([j x] & -> & H%elem_of_map_to_list). eauto.
  - intros (x & H). exists (i, x). by rewrite elem_of_map_to_list.
Qed.

Lemma hids_fmap (s : pstate) : hids (mhost <$> s) = sids s.
Proof. unfold hids, sids. by rewrite dom_fmap_L. Qed.

Lemma hadd_fmap s l : hadd (mhost <$> s) l = mhost <$> add_members s l.
Proof.
  revert s. induction l as [|m l IH]; intros s; [done|].
  rewrite add_members_cons. unfold hadd in *. cbn [foldl].
  rewrite lookup_fmap. destruct (decide (is_Some (s !! mid m))) as [Hd|Hd].
  - rewrite decide_True by by apply fmap_is_Some. apply IH.
  - rewrite decide_False by by rewrite fmap_is_Some. by rewrite <- fmap_insert, IH.
Qed.

Lemma pstep_obs s msg :
  keyed s → hosts_distinct s →
  hstep (mhost <$> s) msg = (mhost <$> (pstep s msg).1, out_obs (pstep s msg).1 (pstep s msg).2).
Proof.
  intros Hk Hd. destruct msg as [m from|l|a]; cbn [hstep pstep fst snd].
  - rewrite hadd_fmap, hids_fmap. unfold out_obs. cbn [omap list_omap last option_bind mbind].
    rewrite ids_of_slice by by apply add_members_keyed.
    rewrite bool_decide_eq_false_2; [done|]. rewrite !elem_of_cons, elem_of_nil. naive_solver.
  - rewrite hadd_fmap, hids_fmap. unfold out_obs. cbn [omap list_omap last option_bind mbind].
    rewrite ids_of_slice by by apply add_members_keyed.
    rewrite bool_decide_eq_false_2; [done|]. rewrite !elem_of_cons, elem_of_nil. naive_solver.
  - destruct (get_by_host s a) as [x|] eqn:E; cbn [fst snd].
    + apply get_by_host_Some in E as (i & Hi & Hh).
      rewrite (remove_member_keyed s i) by done.
      assert (filter (λ kv : nat * nat, kv.2 ≠ a) (mhost <$> s) = mhost <$> delete i s) as ->.
      { apply map_eq. intros j. apply option_eq. intros h.
        rewrite map_filter_lookup_Some, !lookup_fmap. cbn [snd].
        destruct (decide (j = i)) as [->|Hne].
        - rewrite lookup_delete, Hi. simpl. split; [|done]. intros [[= <-] ?]. done.
        - rewrite lookup_delete_ne by done. destruct (s !! j) as [y|] eqn:Hj; simpl; [|naive_solver].
          split; [naive_solver|]. intros [= <-]. split; [done|]. intros Hy. apply Hne.
          eapply Hd; eauto. congruence. }
      rewrite decide_False.
      2:{ intros Heq. assert (i ∈ dom (mhost <$> delete i s)) as Hin.
          { rewrite Heq, dom_fmap_L. apply elem_of_dom; eauto. }
          rewrite dom_fmap_L, dom_delete_L in Hin. set_solver. }
      rewrite hids_fmap. unfold out_obs. cbn [omap list_omap last option_bind mbind].
      rewrite ids_of_slice.
      2:{ intros j y [_ H]%lookup_delete_Some. eauto. }
      rewrite bool_decide_eq_false_2; [done|]. rewrite !elem_of_cons, elem_of_nil. naive_solver.
    + rewrite get_by_host_None in E.
      assert (filter (λ kv : nat * nat, kv.2 ≠ a) (mhost <$> s) = mhost <$> s) as ->.
      { apply map_filter_id. intros j h. rewrite lookup_fmap. cbn [snd].
        destruct (s !! j) as [y|] eqn:Hj; simpl; [|done]. intros [= <-]. eauto. }
      rewrite decide_True by done. rewrite hids_fmap. unfold out_obs. simpl.
      done.
Qed.

Lemma prun_obs dir hist s :
  host_inj dir → keyed s → vals_in dir s →
  (∀ msg m, msg ∈ hist → m ∈ mentioned msg → m ∈ dir) →
  hrun (mhost <$> s) hist = (λ r, out_obs r.1 r.2) <$> prun s hist.
Proof.
  intros Hinj. revert s. induction hist as [|msg hist IH]; intros s Hk Hv Hm; [done|].
  cbn [hrun prun fmap list_fmap].
  rewrite pstep_obs by (done || by eapply hosts_distinct_of). cbn [fst snd]. f_equal.
  apply IH.
  - by apply pstep_keyed.
  - intros i m [H|H]%pstep_values; [eauto|]. eapply Hm; [left|done].
  - intros msg' m H. apply Hm. by right.
Qed.

Lemma all2_refl {A} (f : A → A → bool) l : (∀ x, f x x = true) → all2 f l l = true.
Proof. intros Hf. induction l as [|x l IH]; [done|]. simpl. by rewrite Hf, IH. Qed.

Lemma pobs_eqb_refl o : pobs_eqb o o = true.
Proof. unfold pobs_eqb. by rewrite !bool_decide_eq_true_2. Qed.

Lemma host_injb_spec dir : host_injb dir = true ↔ host_inj dir.
Proof.
  unfold host_injb, host_inj. rewrite bool_decide_eq_true, Forall_forall.
  setoid_rewrite Forall_forall. naive_solver.
Qed.

Lemma model_prun_is_spec self hist :
  host_inj (directory self hist) → model_prun self hist = spec_prun self hist.
Proof.
  intros Hinj. unfold model_prun, spec_prun.
  assert (hinit self = mhost <$> pinit self) as ->.
  { unfold hinit, pinit. by rewrite map_fmap_singleton. }
  f_equal.
  - unfold pstart, out_obs. cbn [fst snd omap list_omap last option_bind mbind].
    rewrite hids_fmap, ids_of_slice by apply keyed_pinit.
    rewrite bool_decide_eq_false_2; [done|]. rewrite !elem_of_cons, elem_of_nil. naive_solver.
  - symmetry. apply (prun_obs (directory self hist)); [done|apply keyed_pinit| |].
    + unfold pinit. intros i m [<- <-]%lookup_singleton_Some. by left.
    + intros msg m Hmsg Hm. right. apply elem_of_list_In, in_concat. exists (mentioned msg).
      split; apply elem_of_list_In; [|done]. apply elem_of_list_fmap. eauto.
Qed.

(** * shared addresses: any choice of GetByHost *)
Lemma pstep_ch_None s msg : pstep_ch None s msg = pstep s msg.
Proof. by destruct msg. Qed.
Lemma hstep_ch_None S msg : hstep_ch None S msg = hstep S msg.
Proof. by destruct msg. Qed.

Lemma get_by_host_ch_cases ch s a :
  (get_by_host_ch ch s a = None ∧ ∀ i m, s !! i = Some m → mhost m ≠ a) ∨
  (∃ i m, get_by_host_ch ch s a = Some m ∧ s !! i = Some m ∧ mhost m = a).
Proof.
  assert ((get_by_host s a = None ∧ ∀ i m, s !! i = Some m → mhost m ≠ a) ∨
          (∃ i m, get_by_host s a = Some m ∧ s !! i = Some m ∧ mhost m = a)) as Hc.
  { destruct (get_by_host s a) as [m|] eqn:E.
    - right. apply get_by_host_Some in E as (i & ? & ?). eauto.
    - left. split; [done|]. by apply get_by_host_None. }
  destruct ch as [i|]; [|done]. simpl.
  destruct (s !! i) as [m|] eqn:Hi; [|done]. case_decide; [|done]. right. eauto.
Qed.

Lemma get_by_host_ch_valid s a i m :
  s !! i = Some m → mhost m = a → get_by_host_ch (Some i) s a = Some m.
Proof. intros Hi Hh. simpl. by rewrite Hi, decide_True. Qed.

(* one report, any choice: nobody at the address — nothing happens; otherwise
   exactly one member at that address goes and the agent is told the new list *)
Lemma leave_ch_step ch s a :
  keyed s →
  ((∀ i m, s !! i = Some m → mhost m ≠ a) ∧ pstep_ch ch s (LeaveAddr a) = (s, [])) ∨
  (∃ i m, s !! i = Some m ∧ mhost m = a ∧
          pstep_ch ch s (LeaveAddr a) = (delete i s, [ToAgent (slice (delete i s))])).
Proof.
  intros Hk. cbn [pstep_ch].
  destruct (get_by_host_ch_cases ch s a) as [[-> Hn]|(i & m & -> & Hi & Hh)]; [by left|right].
  exists i, m. by rewrite (remove_member_keyed s i).
Qed.

(* and every such outcome is the step for the choice of that member *)
Lemma leave_ch_step_chosen s a i m :
  keyed s → s !! i = Some m → mhost m = a →
  pstep_ch (Some i) s (LeaveAddr a) = (delete i s, [ToAgent (slice (delete i s))]).
Proof.
  intros Hk Hi Hh. cbn [pstep_ch]. rewrite (get_by_host_ch_valid s a i m) by done.
  by rewrite (remove_member_keyed s i).
Qed.

Lemma pstep_ch_keyed ch s msg : keyed s → keyed (pstep_ch ch s msg).1.
Proof.
  intros Hk. destruct msg as [m from|l|a]; [by apply (pstep_keyed s (Handshake m from))
                                           |by apply (pstep_keyed s (MembersMsg l))|].
  destruct (leave_ch_step ch s a Hk) as [[_ ->]|(i & m & _ & _ & ->)]; [done|].
  cbn [fst]. intros j x [_ H]%lookup_delete_Some. eauto.
Qed.

Lemma pafter_ch_keyed self hist chs : keyed (pafter_ch self hist chs).
Proof.
  unfold pafter_ch. assert (keyed (pinit self)) as Hk by apply keyed_pinit.
  revert Hk. generalize (pinit self). revert chs.
  induction hist as [|msg hist IH]; intros chs s Hk; [done|].
  simpl. apply IH. by apply pstep_ch_keyed.
Qed.

(** ** k reports for an address with m members behind it *)
Lemma behind_size_0 a s : size (behind a s) = 0 ↔ ∀ i m, s !! i = Some m → mhost m ≠ a.
Proof.
  rewrite map_size_empty_iff. unfold behind. rewrite map_filter_empty_iff. unfold map_Forall.
  simpl. split; intros H i m Hi; specialize (H i m Hi); naive_solver.
Qed.

Lemma leave_ch_count ch s a :
  keyed s →
  let r := pstep_ch ch s (LeaveAddr a) in
  size (behind a r.1) = size (behind a s) - 1 ∧ elsewhere a r.1 = elsewhere a s ∧
  r.1 ⊆ s ∧ keyed r.1 ∧
  (size (behind a s) = 0 → r = (s, [])) ∧
  (size (behind a s) ≠ 0 → r.2 = [ToAgent (slice r.1)] ∧ r.1 ≠ s).
Proof.
  intros Hk r. pose proof (pstep_ch_keyed ch s (LeaveAddr a) Hk) as Hk'. fold r in Hk'.
  destruct (leave_ch_step ch s a Hk) as [[Hn Hr]|(i & m & Hi & Hh & Hr)]; subst r; rewrite Hr in *; cbn [fst snd].
  - apply behind_size_0 in Hn. rewrite Hn. split_and!; try done.
  - assert (behind a s !! i = Some m) as Hb by by apply map_filter_lookup_Some.
    assert (size (behind a s) ≠ 0) as Hne.
    { rewrite map_size_non_empty_iff. intros He. by rewrite He, lookup_empty in Hb. }
    split_and!; try done.
    + unfold behind. rewrite map_filter_delete. rewrite map_size_delete_Some by eauto. lia.
    + unfold elsewhere. rewrite map_filter_delete. apply delete_notin.
      apply map_filter_lookup_None. right. intros x Hx. simpl. naive_solver.
    + apply delete_subseteq.
    + intros Heq. split; [done|]. intros He. assert (delete i s !! i = s !! i) as Hl by by rewrite He.
      by rewrite lookup_delete, Hi in Hl.
Qed.

Lemma leaves_ch_keyed s a chs : keyed s → keyed (leaves_ch s a chs).1.
Proof.
  revert s. induction chs as [|ch chs IH]; intros s Hk; [done|].
  cbn [leaves_ch]. cbn zeta. cbn [fst]. apply IH. by apply pstep_ch_keyed.
Qed.

(* k reports (any choices) for an address with m members behind it: max(m-k,0)
   of them are left, everybody at another address is untouched, nobody is
   added; the agent is told exactly at the first min(k,m) reports — those
   that changed the list *)
Theorem repeated_reports s a chs :
  keyed s →
  let r := leaves_ch s a chs in
  size (behind a r.1) = size (behind a s) - length chs ∧
  elsewhere a r.1 = elsewhere a s ∧ r.1 ⊆ s ∧
  length r.2 = length chs ∧
  ∀ j outs, r.2 !! j = Some outs →
    (j < size (behind a s) → ∃ l, outs = [ToAgent l]) ∧ (size (behind a s) ≤ j → outs = []).
Proof.
  revert s. induction chs as [|ch chs IH]; intros s Hk.
  - simpl. split_and!; [lia|done|done|done|]. intros j outs. by rewrite lookup_nil.
  - cbn [leaves_ch]. cbn zeta.
    destruct (leave_ch_count ch s a Hk) as (Hsz & Hel & Hsub & Hk' & H0 & Hn0).
    set (r1 := pstep_ch ch s (LeaveAddr a)) in *.
    destruct (IH r1.1 Hk') as (IHsz & IHel & IHsub & IHlen & IHouts).
    cbn [fst snd length]. split_and!.
    + rewrite IHsz, Hsz. lia.
    + by rewrite IHel.
    + by etrans.
    + by rewrite IHlen.
    + intros [|j] outs; simpl.
      * intros [= <-]. split.
        -- intros Hlt. destruct Hn0 as [-> _]; [lia|eauto].
        -- intros Hle. assert (size (behind a s) = 0) as Hz by lia. by rewrite (H0 Hz).
      * intros Hj. destruct (IHouts j outs Hj) as [Ha Hb]. split.
        -- intros Hlt. apply Ha. lia.
        -- intros Hle. apply Hb. lia.
Qed.

(** ** the oracle holds of every model run, whatever GetByHost chooses *)
Lemma filter_none {A} (P : A → Prop) `{!∀ x, Decision (P x)} (l : list A) :
  (∀ x, x ∈ l → ¬ P x) → filter P l = [].
Proof.
  induction l as [|x l IH]; intros Hl; [done|].
  rewrite filter_cons_False by (apply Hl; left). apply IH. intros y Hy. apply Hl. by right.
Qed.

Lemma filter_unique `{EqDecision A} (P : A → Prop) `{!∀ x, Decision (P x)} (l : list A) i :
  NoDup l → i ∈ l → (∀ x, x ∈ l → P x ↔ x = i) → filter P l = [i].
Proof.
  induction l as [|x l IH]; intros Hnd Hi HP; [by apply elem_of_nil in Hi|].
  apply NoDup_cons in Hnd as [Hx Hnd].
  destruct (decide (x = i)) as [->|Hne].
  - rewrite filter_cons_True by (apply HP; [left|done]). f_equal.
    apply filter_none. intros y Hy HPy. apply HP in HPy; [|by right]. by subst.
  - rewrite filter_cons_False by (intros HPx; apply HP in HPx; [done|left]).
    apply IH; [done|set_solver|]. intros y Hy. apply HP. by right.
Qed.

Lemma elem_of_sids s i : i ∈ sids s ↔ i ∈ dom s.
Proof.
  unfold sids, nsort. rewrite <- (elem_of_elements (dom s)).
  apply elem_of_Permutation_proper, merge_sort_Permutation.
Qed.
Lemma NoDup_sids s : NoDup (sids s).
Proof. unfold sids, nsort. rewrite merge_sort_Permutation. apply NoDup_elements. Qed.

Lemma choice_of_removed s i outs :
  i ∈ dom s → choice_of (sids s) (out_obs (delete i s) outs) = Some i.
Proof.
  intros Hi. unfold choice_of. cbn [out_obs p_list].
  rewrite (filter_unique _ _ i); [done|apply NoDup_sids|by apply elem_of_sids|].
  intros j Hj. rewrite elem_of_sids in Hj.
  rewrite elem_of_sids, dom_delete_L, elem_of_difference, elem_of_singleton. split.
  - intros Hn. destruct (decide (j = i)); [done|]. exfalso. by apply Hn.
  - intros -> [_ ?]. done.
Qed.

Lemma choice_of_unchanged s outs : choice_of (sids s) (out_obs s outs) = None.
Proof.
  unfold choice_of. cbn [out_obs p_list]. rewrite filter_none; [done|]. intros j Hj Hn. done.
Qed.

Lemma hstep_add_obs s msg :
  keyed s → (∀ a, msg ≠ LeaveAddr a) →
  hstep (mhost <$> s) msg = (mhost <$> (pstep s msg).1, out_obs (pstep s msg).1 (pstep s msg).2).
Proof.
  intros Hk Hm. destruct msg as [m from|l|a]; [| |by destruct (Hm a)]; cbn [hstep pstep fst snd].
  - rewrite hadd_fmap, hids_fmap. unfold out_obs. cbn [omap list_omap last option_bind mbind].
    rewrite ids_of_slice by by apply add_members_keyed.
    rewrite bool_decide_eq_false_2; [done|]. rewrite !elem_of_cons, elem_of_nil. naive_solver.
  - rewrite hadd_fmap, hids_fmap. unfold out_obs. cbn [omap list_omap last option_bind mbind].
    rewrite ids_of_slice by by apply add_members_keyed.
    rewrite bool_decide_eq_false_2; [done|]. rewrite !elem_of_cons, elem_of_nil. naive_solver.
Qed.

(* the reference, given the choice visible in the model's observation,
   reproduces that observation *)
Lemma pstep_ch_obs ch s msg :
  keyed s →
  let r := pstep_ch ch s msg in
  hstep_ch (choice_of (hids (mhost <$> s)) (out_obs r.1 r.2)) (mhost <$> s) msg
  = (mhost <$> r.1, out_obs r.1 r.2).
Proof.
  intros Hk r. rewrite hids_fmap.
  destruct msg as [m from|l|a].
  - subst r. cbn [pstep_ch hstep_ch]. by apply hstep_add_obs.
  - subst r. cbn [pstep_ch hstep_ch]. by apply hstep_add_obs.
  - destruct (leave_ch_step ch s a Hk) as [[Hn Hr]|(i & m & Hi & Hh & Hr)]; subst r; rewrite Hr; cbn [fst snd].
    + rewrite choice_of_unchanged. cbn [hstep_ch].
      assert (filter (λ kv : nat * nat, kv.2 ≠ a) (mhost <$> s) = mhost <$> s) as ->.
      { apply map_filter_id. intros j h. rewrite lookup_fmap. cbn [snd].
        destruct (s !! j) as [y|] eqn:Hj; simpl; [|done]. intros [= <-]. eauto. }
      rewrite decide_True by done. rewrite hids_fmap. unfold out_obs. simpl. done.
    + rewrite choice_of_removed by (apply elem_of_dom; eauto). cbn [hstep_ch].
      rewrite decide_True by (by rewrite lookup_fmap, Hi; simpl; rewrite Hh).
      rewrite <- fmap_delete.
      rewrite decide_False.
      2:{ intros Heq. assert (i ∈ dom (mhost <$> delete i s)) as Hin.
          { rewrite Heq, dom_fmap_L. apply elem_of_dom; eauto. }
          rewrite dom_fmap_L, dom_delete_L in Hin. set_solver. }
      rewrite hids_fmap. unfold out_obs. cbn [omap list_omap last option_bind mbind].
      rewrite ids_of_slice.
      2:{ intros j y [_ H]%lookup_delete_Some. eauto. }
      rewrite bool_decide_eq_false_2; [done|]. rewrite !elem_of_cons, elem_of_nil. naive_solver.
Qed.

Lemma prun_ch_obs hist s chs :
  keyed s →
  let os := (λ r, out_obs r.1 r.2) <$> prun_ch s hist chs in
  hrun_driven (mhost <$> s) hist os = os.
Proof.
  revert s chs. induction hist as [|msg hist IH]; intros s chs Hk; [done|].
  cbn [prun_ch fmap list_fmap hrun_driven hd_choice_of tail].
  rewrite pstep_ch_obs by done. cbn [fst snd]. f_equal.
  apply IH. by apply pstep_ch_keyed.
Qed.

(* the model driven by its own observations reproduces itself *)
Lemma pstep_ch_driven ch s msg :
  keyed s →
  let r := pstep_ch ch s msg in
  pstep_ch (choice_of (sids s) (out_obs r.1 r.2)) s msg = r.
Proof.
  intros Hk r. destruct msg as [m from|l|a]; [done|done|].
  destruct (leave_ch_step ch s a Hk) as [[Hn Hr]|(i & m & Hi & Hh & Hr)]; subst r; rewrite Hr; cbn [fst snd].
  - rewrite choice_of_unchanged. cbn [pstep_ch get_by_host_ch].
    apply get_by_host_None in Hn. by rewrite Hn.
  - rewrite choice_of_removed by (apply elem_of_dom; eauto). by apply (leave_ch_step_chosen s a i m).
Qed.

Lemma prun_ch_driven hist s chs :
  keyed s →
  let os := (λ r, out_obs r.1 r.2) <$> prun_ch s hist chs in
  prun_driven s hist os = os.
Proof.
  revert s chs. induction hist as [|msg hist IH]; intros s chs Hk; [done|].
  cbn [prun_ch fmap list_fmap prun_driven hd_choice_of tail].
  rewrite pstep_ch_driven by done. f_equal.
  apply IH. by apply pstep_ch_keyed.
Qed.

Theorem model_prun_ch_is_spec self hist chs :
  spec_prun_driven self hist (model_prun_ch self hist chs) = model_prun_ch self hist chs.
Proof.
  unfold model_prun_ch, spec_prun_driven. cbn [tail].
  assert (hinit self = mhost <$> pinit self) as ->.
  { unfold hinit, pinit. by rewrite map_fmap_singleton. }
  f_equal.
  - unfold pstart, out_obs. cbn [fst snd omap list_omap last option_bind mbind].
    rewrite hids_fmap, ids_of_slice by apply keyed_pinit.
    rewrite bool_decide_eq_false_2; [done|]. rewrite !elem_of_cons, elem_of_nil. naive_solver.
  - apply prun_ch_obs, keyed_pinit.
Qed.

Theorem model_prun_ch_driven self hist chs :
  model_prun_driven self hist (model_prun_ch self hist chs) = model_prun_ch self hist chs.
Proof.
  unfold model_prun_ch, model_prun_driven. cbn [tail]. f_equal. apply prun_ch_driven, keyed_pinit.
Qed.

Theorem poracle_holds_of_model self hist chs :
  poracle_on self hist (model_prun_ch self hist chs) = true.
Proof.
  unfold poracle_on. rewrite model_prun_ch_is_spec. apply all2_refl, pobs_eqb_refl.
Qed.

(* the canonical run is the run with no choices *)
Lemma prun_ch_nil s hist : prun_ch s hist [] = prun s hist.
Proof.
  revert s. induction hist as [|msg hist IH]; intros s; [done|].
  cbn [prun_ch prun hd_choice tail]. by rewrite pstep_ch_None, IH.
Qed.
Lemma model_prun_ch_nil self hist : model_prun_ch self hist [] = model_prun self hist.
Proof. unfold model_prun_ch, model_prun. by rewrite prun_ch_nil. Qed.

(* three members behind address 7; four reports: 3, 2, 1, 0, 0 left; the
   agent is told three times; node 0 and node 4 untouched *)
Example repeated_reports_example :
  let self := mk 0 [] in
  let q i := {| mid := i; mhost := 7; mkinds := [] |} in
  let hist := [MembersMsg [q 1; q 2; mk 4 []]; Handshake (q 3) 7;
               LeaveAddr 7; LeaveAddr 7; LeaveAddr 7; LeaveAddr 7] in
  (length ∘ p_list <$> model_prun_ch self hist [None; None; Some 2; Some 3]) = [1; 4; 5; 4; 3; 2; 2] ∧
  (length ∘ p_agent <$> model_prun_ch self hist [None; None; Some 2; Some 3]) = [1; 1; 1; 1; 1; 1; 0] ∧
  last (p_list <$> model_prun_ch self hist [None; None; Some 2; Some 3]) = Some [0; 4].
Proof. by vm_compute. Qed.

(** * the pinned tree *)
(* D10: nodes 0 (self) and 1; address 9 is reported unreachable: Receive
   panics, the provider restarts with a list of its own and forgets node 1 *)
Example leave_unknown_pinned_refuted :
  let self := mk 0 [] in
  let s := pafter self [Handshake (mk 1 []) 1] in
  (∀ i m, s !! i = Some m → mhost m ≠ 9) ∧
  Panic ∈ (pstep_pinned self s (LeaveAddr 9)).2 ∧
  (pstep_pinned self s (LeaveAddr 9)).1 ≠ s ∧
  sids s = [0; 1] ∧ sids (pstep_pinned self s (LeaveAddr 9)).1 = [0].
Proof.
  split_and!.
  - apply get_by_host_None. by vm_compute.
  - apply (bool_decide_unpack _). by vm_compute.
  - intros H. assert (sids (pstep_pinned (mk 0 []) (pafter (mk 0 []) [Handshake (mk 1 []) 1]) (LeaveAddr 9)).1
                      = sids (pafter (mk 0 []) [Handshake (mk 1 []) 1])) as H' by by rewrite H.
    by vm_compute in H'.
  - by vm_compute.
  - by vm_compute.
Qed.

(* the repaired step on the same input *)
Example leave_unknown_repaired_example :
  let self := mk 0 [] in
  let s := pafter self [Handshake (mk 1 []) 1] in
  pstep s (LeaveAddr 9) = (s, []).
Proof. apply leave_unknown_step. apply get_by_host_None. by vm_compute. Qed.

(* two members behind one address: one report removes one of them only *)
Example shared_address_removes_one :
  let self := mk 0 [] in
  let s := pafter self [MembersMsg [{| mid := 1; mhost := 5; mkinds := [] |};
                                    {| mid := 2; mhost := 5; mkinds := [] |}]] in
  sids s = [0; 1; 2] ∧ length (sids (pstep s (LeaveAddr 5)).1) = 2.
Proof. by vm_compute. Qed.

(* non-vacuity: a history with joins, a list, and reports for a member, a
   non-member and a repeat *)
Example history_example :
  let self := mk 0 [0] in
  let hist := [Handshake (mk 1 [1]) 1; MembersMsg [mk 2 []; mk 3 [2]; mk 1 [1]];
               LeaveAddr 2; LeaveAddr 2; LeaveAddr 7; Handshake (mk 2 []) 2] in
  host_consistent (directory self hist) ∧
  (p_list <$> model_prun self hist) = [[0]; [0; 1]; [0; 1; 2; 3]; [0; 1; 3]; [0; 1; 3]; [0; 1; 3]; [0; 1; 2; 3]] ∧
  (p_agent <$> model_prun self hist) = [[[0]]; [[0; 1]]; [[0; 1; 2; 3]]; [[0; 1; 3]]; []; []; [[0; 1; 2; 3]]].
Proof.
  split; [|by vm_compute].
  intros x y Hx Hy.
  assert (Forall (λ x, Forall (λ y, mhost x = mhost y ↔ mid x = mid y)
     (directory (mk 0 [0]) [Handshake (mk 1 [1]) 1; MembersMsg [mk 2 []; mk 3 [2]; mk 1 [1]];
               LeaveAddr 2; LeaveAddr 2; LeaveAddr 7; Handshake (mk 2 []) 2]))
     (directory (mk 0 [0]) [Handshake (mk 1 [1]) 1; MembersMsg [mk 2 []; mk 3 [2]; mk 1 [1]];
               LeaveAddr 2; LeaveAddr 2; LeaveAddr 7; Handshake (mk 2 []) 2])) as HF.
  { apply (bool_decide_unpack _). by vm_compute. }
  rewrite Forall_forall in HF. specialize (HF x Hx). rewrite Forall_forall in HF. by apply HF.
Qed.
