(** L0, concurrent part — interleaving model of ringbuffer/ringbuffer.go.

    ONE shared ring, any number of client threads, each running a list of
    operations (Ring.op).  One step = one scheduling point of the
    deterministic scheduler on the real code built with its [sync] and
    [sync/atomic] imports rewritten to the yielding shims, plus the plain
    code that follows that point up to the next one (it runs atomically with
    it).  Scheduling points, per operation:

      every op   [call]     announced by the harness before it calls the method
                            (the invocation event of the history)
      Push x     [lock]     Lock (enabled only while the mutex is free);
                            tail = (tail+1) % mod; grow if tail == head
                 [add +1]   atomic.AddInt64(&len, 1); items[tail] = x; Unlock
                 [unlock]   the yield that follows the release; return
      Pop        [lock]     Lock; if len == 0 { Unlock } else
                            { head = (head+1) % mod; item = items[head]; items[head] = zero }
                 [add -1]   (non-empty only) AddInt64(&len, -1); Unlock
                 [unlock]   return (item, true) / (zero, false)
      PopN n     [lock]     Lock; if len == 0 { Unlock } else { n = min n len }
                 [add -n]   (non-empty only) AddInt64(&len, -n); copy the n slots out,
                            zero them; head = (head+n) % mod; Unlock
                 [unlock]   return
      Len        [load]     atomic.LoadInt64(&len); return

    Ghost state (it never influences a step): a step counter [now], the
    abstract queue [gq] updated at the linearization points, the list [lin]
    of linearization points in the order they happened (thread, operation,
    the result the list queue gives, time), and for every completed
    operation the times of its call, its linearization point and its return.
    LP of a mutator = its [add] step, or its [lock] step when it finds the
    queue empty; LP of Len = its [load].

    Definitions only; proofs are in RingConcProofs.v. *)
From stdpp Require Import list list_numbers.
From Coq Require Import ZArith.
From HV Require Import Ring.

Section conc.
Context {T : Type} (dflt : T).
Notation ring := (ring T).
Notation op := (op T).
Notation res := (res T).

(** ** the sequential bodies cut at the scheduling points *)
(* Push, [lock] part: tail advanced, buffer grown if full; len and the slot untouched *)
Definition push_lock (r : ring) : ring :=
  let t1 := (tail r + 1) mod modn r in
  if decide (t1 = head r) then
    {| len := len r;
       items := ((λ i, get dflt (items r) ((t1 + i) mod modn r)) <$> seq 0 (modn r)) ++ replicate (modn r) dflt;
       head := 0; tail := modn r; modn := 2 * modn r |}
  else {| len := len r; items := items r; head := head r; tail := t1; modn := modn r |}.
(* Push, [add] part: len++ ; items[tail] = x *)
Definition push_add (r : ring) (x : T) : ring :=
  {| len := len r + 1; items := <[tail r := x]> (items r); head := head r; tail := tail r; modn := modn r |}.

(* Pop on a non-empty ring, [lock] part: head advanced, item read, slot zeroed *)
Definition pop_lock (r : ring) : ring * T :=
  let h1 := (head r + 1) mod modn r in
  ({| len := len r; items := <[h1 := dflt]> (items r); head := h1; tail := tail r; modn := modn r |},
   get dflt (items r) h1).
(* Pop, [add] part: len-- *)
Definition pop_add (r : ring) : ring :=
  {| len := len r - 1; items := items r; head := head r; tail := tail r; modn := modn r |}.

(* PopN on a non-empty ring, [add] part, k = the clamped count computed at [lock] *)
Definition popN_add (r : ring) (k : nat) : ring * list T :=
  ({| len := len r - k; items := clear dflt r k; head := (head r + k) mod modn r; tail := tail r; modn := modn r |},
   (λ i, get dflt (items r) (slot r i)) <$> seq 0 k).

(** ** threads *)
Inductive pc :=
| PIdle                        (* between operations: about to announce the next one *)
| PCalled                      (* announced; at the first scheduling point of the method *)
| PPushAdd (x : T)             (* in the critical section of Push, before the len write *)
| PPopAdd (x : T)              (* in the critical section of Pop; x = the item read *)
| PPopNAdd (k : nat)           (* in the critical section of PopN; k = clamped count *)
| PUnl (r : res) (lp : nat).   (* mutex released; about to return r; lp = time of the LP *)

(* a completed operation, as the client saw it (+ ghost times) *)
Record done := { d_res : res; d_inv : nat; d_lp : nat; d_ret : nat }.

Record thread := { prog : list op;        (* operations still to run; the head is the one in progress *)
                   pcs : pc;
                   cur_inv : nat;         (* time of the call of the operation in progress *)
                   outs : list done }.    (* completed operations, oldest first *)

(* a linearization point *)
Record entry := { e_tid : nat; e_op : op; e_res : res; e_time : nat }.

Record st := { rg : ring; lk : option nat;   (* the mutex: its holder (which thread holds it is ghost) *)
               thr : list thread;
               now : nat; gq : list T; lin : list entry }.

Inductive label :=
| LCall (o : op)
| LLock
| LAdd (d : Z) (v : nat)       (* delta, new value of len *)
| LLoad (v : nat)
| LUnlock.

Definition set_thr (s : st) (i : nat) (t : thread) : list thread := <[i := t]> (thr s).

(* the linearization point of thread i's operation o at the current time *)
Definition lp_entry (s : st) (i : nat) (o : op) : entry :=
  {| e_tid := i; e_op := o; e_res := (step_fifo (gq s) o).2; e_time := now s |}.

Definition mk (s : st) (r : ring) (l : option nat) (i : nat) (t : thread) (lp : option op) : st :=
  {| rg := r; lk := l; thr := set_thr s i t; now := S (now s);
     gq := match lp with Some o => (step_fifo (gq s) o).1 | None => gq s end;
     lin := match lp with Some o => lin s ++ [lp_entry s i o] | None => lin s end |}.

Definition at_pc (t : thread) (p : pc) : thread :=
  {| prog := prog t; pcs := p; cur_inv := cur_inv t; outs := outs t |}.

(* the operation returns r *)
Definition ret (s : st) (t : thread) (r : res) (lp : nat) : thread :=
  {| prog := List.tl (prog t); pcs := PIdle; cur_inv := cur_inv t;
     outs := outs t ++ [{| d_res := r; d_inv := cur_inv t; d_lp := lp; d_ret := S (now s) |}] |}.

Definition step (s : st) (i : nat) : option (st * label) :=
  match thr s !! i with
  | None => None
  | Some t =>
    match prog t with
    | [] => None                                          (* program finished *)
    | o :: _ =>
      match pcs t with
      | PIdle =>
          Some (mk s (rg s) (lk s) i {| prog := prog t; pcs := PCalled; cur_inv := now s; outs := outs t |} None,
                LCall o)
      | PCalled =>
          match o with
          | Len => Some (mk s (rg s) (lk s) i (ret s t (RLen (len (rg s))) (now s)) (Some o), LLoad (len (rg s)))
          | Push x =>
              if lk s then None (* held: not enabled *) else
              Some (mk s (push_lock (rg s)) (Some i) i (at_pc t (PPushAdd x)) None, LLock)
          | Pop =>
              if lk s then None (* held: not enabled *) else
              if decide (len (rg s) = 0)
              then Some (mk s (rg s) None i (at_pc t (PUnl (RPop None) (now s))) (Some o), LLock)
              else let '(r', x) := pop_lock (rg s) in
                   Some (mk s r' (Some i) i (at_pc t (PPopAdd x)) None, LLock)
          | PopN n =>
              if lk s then None (* held: not enabled *) else
              if decide (len (rg s) = 0)
              then Some (mk s (rg s) None i (at_pc t (PUnl (RPopN None) (now s))) (Some o), LLock)
              else Some (mk s (rg s) (Some i) i (at_pc t (PPopNAdd (n `min` len (rg s)))) None, LLock)
          end
      | PPushAdd x =>
          Some (mk s (push_add (rg s) x) None i (at_pc t (PUnl RPush (now s))) (Some o),
                LAdd 1 (len (rg s) + 1))
      | PPopAdd x =>
          Some (mk s (pop_add (rg s)) None i (at_pc t (PUnl (RPop (Some x)) (now s))) (Some o),
                LAdd (-1) (len (rg s) - 1))
      | PPopNAdd k =>
          let '(r', xs) := popN_add (rg s) k in
          Some (mk s r' None i (at_pc t (PUnl (RPopN (Some xs)) (now s))) (Some o),
                LAdd (- Z.of_nat k) (len (rg s) - k))
      | PUnl r lp => Some (mk s (rg s) (lk s) i (ret s t r lp) None, LUnlock)
      end
    end
  end.

Definition new_thread (p : list op) : thread := {| prog := p; pcs := PIdle; cur_inv := 0; outs := [] |}.

(* initial state: a ring r0 (a fresh one, or one filled by a sequential
   prefix) and the client programs *)
Definition init (r0 : ring) (progs : list (list op)) : st :=
  {| rg := r0; lk := None; thr := new_thread <$> progs; now := 0; gq := abs dflt r0; lin := [] |}.

(* the ring after a sequential prefix of operations on a fresh ring *)
Definition prefilled (size : nat) (pre : list op) : ring :=
  fold_left (λ r o, (step_ring dflt r o).1) pre (new dflt size).

(* a schedule is a list of thread indices; run it, collecting labels; None
   if some index names a thread that cannot step (finished, or blocked on the mutex) *)
Fixpoint run_sched (s : st) (sched : list nat) : option (st * list label) :=
  match sched with
  | [] => Some (s, [])
  | i :: rest =>
    match step s i with
    | None => None
    | Some (s', l) =>
      match run_sched s' rest with
      | None => None
      | Some (s'', ls) => Some (s'', l :: ls)
      end
    end
  end.

Inductive reach (s0 : st) : st -> Prop :=
| reach_refl : reach s0 s0
| reach_step s i s' l : reach s0 s -> step s i = Some (s', l) -> reach s0 s'.

(* all client programs have run to completion *)
Definition finished (t : thread) : bool := match prog t with [] => true | _ => false end.
Definition complete (s : st) : bool := forallb finished (thr s).

(* inside the critical section *)
Definition crit (p : pc) : bool :=
  match p with PPushAdd _ | PPopAdd _ | PPopNAdd _ => true | _ => false end.
Definition cnt (f : pc -> bool) (l : list thread) : nat := length (filter (λ t, f (pcs t) = true) l).

(* the linearization points of thread t, in order *)
Definition lin_of (t : nat) (l : list entry) : list entry := filter (λ e, e_tid e = t) l.

(* operations of thread t whose LP has not happened yet *)
Definition lp_done (p : pc) : bool := match p with PUnl _ _ => true | _ => false end.
Definition remaining (t : thread) : list op := if lp_done (pcs t) then List.tl (prog t) else prog t.
(* (result, LP time) of the operation that passed its LP but has not returned *)
Definition pending (t : thread) : list (res * nat) :=
  match pcs t with PUnl r lp => [(r, lp)] | _ => [] end.

End conc.

Arguments pc : clear implicits.
Arguments done : clear implicits.
Arguments thread : clear implicits.
Arguments entry : clear implicits.
Arguments st : clear implicits.
Arguments label : clear implicits.
