(** L1 over L0 — the inbox transition system of Inbox.v with the real ring
    buffer (Ring.v: the transcription of ringbuffer.go) in place of the list
    queue.  Push = Ring.push, PopN = Ring.popN with the batch bound,
    Len = Ring.len; the ring starts as [new size] for any size.  Everything
    else (threads, pcs, labels, status, ghost lists) is as in Inbox.v.

    Definitions only; InboxRingProofs.v shows this system and the list system
    simulate each other step by step with equal labels. *)
From stdpp Require Import list.
From Coq Require Import Arith Bool.
From HV Require Import Ring Inbox.

Definition rdflt : msg := 0.
Notation mring := (Ring.ring msg).

Record rst := { rstatus : status; rq : mring; rthr : list pc;
                rdelivered : list msg; rdropped : list msg; rpushed : list msg }.

Definition rset_thr (s : rst) (i : nat) (p : pc) (extra : list pc) : list pc :=
  firstn i (rthr s) ++ p :: skipn (S i) (rthr s) ++ extra.

Definition rupd (s : rst) stt qq i p extra dl dr pu : rst :=
  {| rstatus := stt; rq := qq; rthr := rset_thr s i p extra; rdelivered := dl; rdropped := dr; rpushed := pu |}.

Definition rkick (s : rst) (i : nat) (next : pc) : rst * label :=
  if status_eqb (rstatus s) Idle
  then (rupd s Running (rq s) i next [WLoad] (rdelivered s) (rdropped s) (rpushed s), LCas Idle Running true)
  else (rupd s (rstatus s) (rq s) i next [] (rdelivered s) (rdropped s) (rpushed s), LCas Idle Running false).

Definition rsame (s : rst) i p := rupd s (rstatus s) (rq s) i p [] (rdelivered s) (rdropped s) (rpushed s).

Definition rstep (c : config) (s : rst) (i : nat) : option (rst * label) :=
  match nth_error (rthr s) i with
  | None => None
  | Some p =>
    match p with
    | Done => None
    | SPush [] => Some (rsame s i Done, LNone)
    | SPush (m :: ms) =>
        Some (rupd s (rstatus s) (Ring.push rdflt (rq s) m) i (SCas ms) []
                   (rdelivered s) (rdropped s) (rpushed s ++ [m]), LPush m)
    | SCas ms => Some (rkick s i (match ms with [] => Done | _ => SPush ms end))
    | TCas => if status_eqb (rstatus s) Stopped
              then Some (rupd s Starting (rq s) i TSwap [] (rdelivered s) (rdropped s) (rpushed s), LCas Stopped Starting true)
              else Some (rsame s i Done, LCas Stopped Starting false)
    | TSwap => Some (rupd s Idle (rq s) i TSched [] (rdelivered s) (rdropped s) (rpushed s), LSwap Idle (rstatus s))
    | TSched => Some (rkick s i Done)
    | WLoad => if status_eqb (rstatus s) Stopped
               then Some (rsame s i WExit, LLoad (rstatus s))
               else Some (rsame s i WPop, LLoad (rstatus s))
    | WPop => (* msgs, ok := rb.PopN(bound); ok && len(msgs) > 0 *)
              match Ring.popN rdflt (rq s) (bound c) with
              | (r', Some (x :: b)) =>
                  Some (rupd s (rstatus s) r' i (WInvB (x :: b)) [] (rdelivered s) (rdropped s) (rpushed s),
                        LPopN (x :: b) true)
              | (r', _) => Some (rupd s (rstatus s) r' i WExit [] (rdelivered s) (rdropped s) (rpushed s),
                                 LPopN [] false)
              end
    | WInvB b => Some (rupd s (rstatus s) (rq s) i (if has_pill b then WStop else WInvE) []
                            (rdelivered s ++ before_pill b) (rdropped s ++ after_pill b) (rpushed s), LInvB b)
    | WStop => Some (rupd s Stopped (rq s) i WInvE [] (rdelivered s) (rdropped s) (rpushed s), LStore Stopped)
    | WInvE => Some (rsame s i WLoad, LInvE)
    | WExit => if status_eqb (rstatus s) Running
               then Some (rupd s Idle (rq s) i WLen [] (rdelivered s) (rdropped s) (rpushed s), LCas Running Idle true)
               else Some (rsame s i Done, LCas Running Idle false)
    | WLen => match Ring.len (rq s) with
              | 0 => Some (rsame s i Done, LLen 0)
              | n => Some (rsame s i WSched, LLen n)
              end
    | WSched => Some (rkick s i Done)
    end
  end.

(* NewInbox(size): a fresh, stopped inbox over a ring of capacity [size] *)
Definition rinit (size : nat) (clients : list pc) : rst :=
  {| rstatus := Stopped; rq := Ring.new rdflt size; rthr := clients;
     rdelivered := []; rdropped := []; rpushed := [] |}.
Definition rinit_started (size : nat) (clients : list pc) : rst :=
  {| rstatus := Running; rq := Ring.new rdflt size; rthr := WLoad :: clients;
     rdelivered := []; rdropped := []; rpushed := [] |}.

Fixpoint rrun_sched (c : config) (s : rst) (sched : list nat) : option (rst * list label) :=
  match sched with
  | [] => Some (s, [])
  | i :: rest =>
    match rstep c s i with
    | None => None
    | Some (s', l) =>
      match rrun_sched c s' rest with
      | None => None
      | Some (s'', ls) => Some (s'', l :: ls)
      end
    end
  end.

Inductive rreach (c : config) (s0 : rst) : rst -> Prop :=
| rreach_refl : rreach c s0 s0
| rreach_step s i s' l : rreach c s0 s -> rstep c s i = Some (s', l) -> rreach c s0 s'.

Definition rquiescent (s : rst) : bool := forallb is_done (rthr s).

(* the list-system state a ring-system state stands for *)
Definition abs_st (s : rst) : st :=
  {| status_ := rstatus s; q := Ring.abs rdflt (rq s); thr := rthr s;
     delivered := rdelivered s; dropped := rdropped s; pushed := rpushed s |}.
