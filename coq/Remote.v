(** L4 — model of the remote layer above the wire encoding: remote/remote.go
    (the Start/Stop state machine, [Send]), remote/stream_router.go (the
    [streams] table, [deliverStream], [handleTerminateStream]), the life cycle
    of remote/stream_writer.go ([Start]/[init]: dial with three attempts,
    [Invoke] as "hand the batch to the link", [Shutdown] statement by
    statement) and remote/stream_reader.go as "decode and SendLocal in order".

    Three machines:
    - [rmach]: the three-state Start/Stop machine of [Remote];
    - the *deterministic* machine [dstate]/[exec] (router and writers take one
      message / one batch per step, Shutdown is one step): any list of [op]s
      is an interleaving of senders, router, writers, readers, peers going up
      and down and connections being lost, at the granularity the inbox layer
      gives (C01-C03: per-inbox FIFO, exactly once, one message at a time).
      The wire encoding is Wire.v's [encode]/[decode] (C15);
    - the *interleaving* machine [rstate]/[rstep] for one peer address, in
      which [Shutdown] and [deliverStream] are cut into their statements (the
      registry is shared state): the question of defect D12.  It is
      parametrised by the order of the statements of [Shutdown]: [Pinned]
      (tree c85c093: notify the router first, unregister last) and [Repaired]
      (fixes/D12.diff: unregister first).

    The writer PID is "stream/<address>" for every incarnation of the writer
    of an address, so the router's table is, per address, one bit ("has an
    entry") and the registry holds at most one writer per address.

    Definitions only; proofs are in RemoteProofs.v. *)
From Coq Require Import List Arith Bool Lia.
From HV Require Import Wire.
Import ListNotations.

(** * 1. Remote.Start / Remote.Stop *)

Inductive rst := StInitialized | StRunning | StStopped.
Inductive rcall := CStart | CStop.
(* Start: nil / "remote already started"; Stop: the WaitGroup of the server
   goroutine / a fresh empty WaitGroup (with a warning) *)
Inductive rres := ResOk | ResAlreadyStarted | ResNotRunning.

Record rmach := { r_state : rst; r_listening : bool; r_routers : nat }.

Definition rmach0 : rmach := {| r_state := StInitialized; r_listening := false; r_routers := 0 |}.

Definition rcall_step (m : rmach) (c : rcall) : rmach * rres :=
  match c, r_state m with
  | CStart, StInitialized =>
      ({| r_state := StRunning; r_listening := true; r_routers := S (r_routers m) |}, ResOk)
  | CStart, _ => (m, ResAlreadyStarted)
  | CStop, StRunning =>
      (* stopCh <- struct{}{}; cancel(); Serve returns, the listener is closed; Wait() returns after that *)
      ({| r_state := StStopped; r_listening := false; r_routers := r_routers m |}, ResOk)
  | CStop, _ => (m, ResNotRunning)
  end.

Fixpoint rcalls (m : rmach) (cs : list rcall) : rmach * list (rres * bool) :=
  match cs with
  | [] => (m, [])
  | c :: cs' =>
    let '(m1, r) := rcall_step m c in
    let '(m2, rs) := rcalls m1 cs' in
    (m2, (r, r_listening m1) :: rs)
  end.

(** * 2. The deterministic machine *)

Definition str_dec : forall a b : str, {a = b} + {a <> b} := list_eq_dec Nat.eq_dec.

Section det.
Context {value data : Type}.
Context (tyname_of : value -> option tyname) (ser : value -> option data)
        (deser : tyname -> data -> option value).

Notation dlv := (deliver value).
Notation env := (envelope data).
Notation dly := (delivery value).

(* the node a message is for *)
Definition addr_of (d : dlv) : str := fst (s_target d).

(* the router's inbox holds streamDelivers and RemoteUnreachableEvents *)
Inductive rmsg := RDeliver (d : dlv) | RUnreach (a : str).

(* what the registry holds under "stream/<a>": nothing, or a started writer
   whose connection is up, with its inbox *)
Inductive wst := WAbsent | WUp (inbox : list dlv).

(* everything that is per peer address *)
Record ast := {
  a_streams : bool;          (* router.streams has the key *)
  a_w : wst;
  a_peer : bool;             (* link oracle: a dial of this address succeeds now *)
  a_link : list env;         (* envelopes written to the connection, not yet read by the peer *)
  a_got : list dly;          (* SendLocal calls made by the peer's reader, in order *)
  a_lost : list dlv          (* silently dropped: in the inbox of this address's writer when it shut down *)
}.

Record dstate := {
  rq : list rmsg;            (* router inbox, FIFO *)
  tab : str -> ast;
  dead : list dlv;           (* DeadLetterEvent{Target: stream/<a>, Message: the streamDeliver}, in order *)
  evs : list str;            (* RemoteUnreachableEvent{a} broadcast on the event stream, in order *)
  dups : nat                 (* ActorDuplicateIdEvent for a writer id *)
}.

Definition ast0 : ast := {| a_streams := false; a_w := WAbsent; a_peer := false; a_link := []; a_got := []; a_lost := [] |}.
Definition dstate0 : dstate := {| rq := []; tab := fun _ => ast0; dead := []; evs := []; dups := 0 |}.

Definition upd (t : str -> ast) (a : str) (x : ast) : str -> ast :=
  fun b => if str_dec b a then x else t b.

Definition set_streams (x : ast) (b : bool) : ast :=
  {| a_streams := b; a_w := a_w x; a_peer := a_peer x; a_link := a_link x; a_got := a_got x; a_lost := a_lost x |}.
Definition set_w (x : ast) (w : wst) : ast :=
  {| a_streams := a_streams x; a_w := w; a_peer := a_peer x; a_link := a_link x; a_got := a_got x; a_lost := a_lost x |}.
Definition set_peer (x : ast) (b : bool) : ast :=
  {| a_streams := a_streams x; a_w := a_w x; a_peer := b; a_link := a_link x; a_got := a_got x; a_lost := a_lost x |}.
Definition set_link (x : ast) (l : list env) : ast :=
  {| a_streams := a_streams x; a_w := a_w x; a_peer := a_peer x; a_link := l; a_got := a_got x; a_lost := a_lost x |}.
Definition set_lost (x : ast) (l : list dlv) : ast :=
  {| a_streams := a_streams x; a_w := a_w x; a_peer := a_peer x; a_link := a_link x; a_got := a_got x; a_lost := l |}.
Definition set_got (x : ast) (g : list dly) : ast :=
  {| a_streams := a_streams x; a_w := a_w x; a_peer := a_peer x; a_link := a_link x; a_got := g; a_lost := a_lost x |}.

Definition with_rq (s : dstate) (q : list rmsg) : dstate :=
  {| rq := q; tab := tab s; dead := dead s; evs := evs s; dups := dups s |}.
Definition with_tab (s : dstate) (t : str -> ast) : dstate :=
  {| rq := rq s; tab := t; dead := dead s; evs := evs s; dups := dups s |}.
Definition at_addr (s : dstate) (a : str) (x : ast) : dstate := with_tab s (upd (tab s) a x).

(* streamWriter.Shutdown when it runs as one step: tell the router, broadcast,
   stop the inbox (what is in it is never looked at again), unregister *)
Definition shutdown_now (s : dstate) (a : str) (inbox : list dlv) : dstate :=
  {| rq := rq s ++ [RUnreach a];
     tab := upd (tab s) a (set_lost (set_w (tab s a) WAbsent) (a_lost (tab s a) ++ inbox));
     dead := dead s; evs := evs s ++ [a]; dups := dups s |}.

(* deliverStream, streams miss: SpawnProc(newStreamWriter(...)); s.streams[address] = swpid.
   Registry.add either finds the id taken (ActorDuplicateIdEvent, nothing is
   started) or registers the writer and calls Start: inbox.Start, init.  init
   dials (three attempts; the oracle [a_peer] answers for all three) and on
   failure calls Shutdown on the spot, on the router's goroutine. *)
Definition spawn (s : dstate) (a : str) : dstate :=
  let x := tab s a in
  match a_w x with
  | WUp _ =>
      {| rq := rq s; tab := upd (tab s) a (set_streams x true);
         dead := dead s; evs := evs s; dups := S (dups s) |}
  | WAbsent =>
      if a_peer x then at_addr s a (set_w (set_streams x true) (WUp []))
      else let s1 := shutdown_now s a [] in at_addr s1 a (set_streams (tab s1 a) true)
  end.

(* s.engine.Send(swpid, msg): Registry.get, then the writer's inbox or a dead letter *)
Definition hand (s : dstate) (a : str) (d : dlv) : dstate :=
  let x := tab s a in
  match a_w x with
  | WUp ib => at_addr s a (set_w x (WUp (ib ++ [d])))
  | WAbsent =>
      {| rq := rq s; tab := tab s; dead := dead s ++ [d]; evs := evs s; dups := dups s |}
  end.

(* the router handles the message at the head of its inbox *)
Definition router_step (s : dstate) : dstate :=
  match rq s with
  | [] => s
  | RUnreach a :: q =>                                   (* handleTerminateStream: delete(s.streams, addr) *)
      at_addr (with_rq s q) a (set_streams (tab s a) false)
  | RDeliver d :: q =>                                   (* deliverStream *)
      let a := addr_of d in
      let s1 := with_rq s q in
      let s2 := if a_streams (tab s1 a) then s1 else spawn s1 a in
      hand s2 a d
  end.

(* the writer's worker pops up to [S n] messages and sends them as one envelope *)
Definition writer_step (s : dstate) (a : str) (n : nat) : dstate :=
  let x := tab s a in
  match a_w x with
  | WUp (d :: ib) =>
      let b := firstn (S n) (d :: ib) in
      at_addr s a (set_link (set_w x (WUp (skipn (S n) (d :: ib)))) (a_link x ++ [encode tyname_of ser b]))
  | _ => s
  end.

(* the peer's reader takes the next envelope and calls SendLocal per message *)
Definition reader_step (s : dstate) (a : str) : dstate :=
  let x := tab s a in
  match a_link x with
  | e :: l => at_addr s a (set_got (set_link x l) (a_got x ++ delivered (decode deser e)))
  | [] => s
  end.

(* the connection to [a] is lost: the writer's goroutine runs Shutdown *)
Definition drop_step (s : dstate) (a : str) : dstate :=
  match a_w (tab s a) with
  | WUp ib => shutdown_now s a ib
  | WAbsent => s
  end.

Inductive op :=
| OSend (d : dlv)                 (* Remote.Send: push a streamDeliver onto the router's inbox *)
| ORouter
| OWriter (a : str) (n : nat)
| OReader (a : str)
| ODrop (a : str)
| OPeer (a : str) (up : bool).    (* the peer starts / stops listening *)

Definition exec (s : dstate) (o : op) : dstate :=
  match o with
  | OSend d => with_rq s (rq s ++ [RDeliver d])
  | ORouter => router_step s
  | OWriter a n => writer_step s a n
  | OReader a => reader_step s a
  | ODrop a => drop_step s a
  | OPeer a b => at_addr s a (set_peer (tab s a) b)
  end.

Definition run (ops : list op) (s : dstate) : dstate := fold_left exec ops s.

(** observation functions used by the theorems *)

Definition inbox_of (x : ast) : list dlv := match a_w x with WUp ib => ib | WAbsent => [] end.

(* the streamDelivers for [a] waiting in the router's inbox, in order *)
Fixpoint rq_for (a : str) (q : list rmsg) : list dlv :=
  match q with
  | [] => []
  | RDeliver d :: q' => if str_dec (addr_of d) a then d :: rq_for a q' else rq_for a q'
  | RUnreach _ :: q' => rq_for a q'
  end.

Definition unreach_in (a : str) (q : list rmsg) : Prop := In (RUnreach a) q.

(* what the peer's reader will deliver from the envelopes in flight *)
Definition in_link (x : ast) : list dly := flat_map (fun e => delivered (decode deser e)) (a_link x).

Definition only (a : str) (l : list dlv) : list dlv :=
  filter (fun d => if str_dec (addr_of d) a then true else false) l.

(* messages handed to Remote.Send for node [a] by a list of operations, in order *)
Fixpoint sent_to (a : str) (ops : list op) : list dlv :=
  match ops with
  | [] => []
  | OSend d :: ops' => if str_dec (addr_of d) a then d :: sent_to a ops' else sent_to a ops'
  | _ :: ops' => sent_to a ops'
  end.

(* deliveries made at [a] ++ deliveries still to come from what is in the pipe *)
Definition flow (s : dstate) (a : str) : list dly :=
  a_got (tab s a) ++ in_link (tab s a)
  ++ expected tyname_of ser (inbox_of (tab s a)) ++ expected tyname_of ser (rq_for a (rq s)).

(* nothing for [a] is on its way any more *)
Definition drained (s : dstate) (a : str) : Prop :=
  rq_for a (rq s) = [] /\ inbox_of (tab s a) = [] /\ a_link (tab s a) = [].

(* the connection to [a] stays up and the peer stays reachable *)
Definition up_op (a : str) (o : op) : Prop := o <> ODrop a /\ o <> OPeer a false.
(* the peer stays unreachable *)
Definition down_op (a : str) (o : op) : Prop := o <> OPeer a true.

(* the router has nothing to do with [a] at the moment *)
Definition router_quiet (s : dstate) (a : str) : Prop :=
  rq_for a (rq s) = [] /\ ~ unreach_in a (rq s).

End det.

Arguments rmsg : clear implicits.
Arguments wst : clear implicits.
Arguments ast : clear implicits.
Arguments dstate : clear implicits.
Arguments op : clear implicits.

(** * 3. The interleaving machine for one peer address (D12) *)

Inductive order := Pinned | Repaired.

(* the statements of streamWriter.Shutdown *)
Inductive sstep :=
| SNotify        (* s.engine.Send(s.routerPID, evt) *)
| SBroadcast     (* s.engine.BroadcastEvent(evt) *)
| SClose         (* s.stream.Close() *)
| SStop          (* s.inbox.Stop() *)
| SRemove.       (* s.engine.Registry.Remove(s.PID()) *)

Definition shutdown_code (o : order) : list sstep :=
  match o with
  | Pinned => [SNotify; SBroadcast; SClose; SStop; SRemove]
  | Repaired => [SRemove; SNotify; SBroadcast; SClose; SStop]
  end.

Definition sstep_eqb (a b : sstep) : bool :=
  match a, b with
  | SNotify, SNotify | SBroadcast, SBroadcast | SClose, SClose | SStop, SStop | SRemove, SRemove => true
  | _, _ => false
  end.

(* router inbox: numbered streamDelivers for the address, and its RemoteUnreachableEvents *)
Inductive qmsg := QDlv (n : nat) | QEvt.

(* where the router's goroutine is inside Receive *)
Inductive rpc :=
| RIdle
| RAdd (n : nat)               (* deliverStream, streams miss: about to Registry.add the new writer *)
| RDial (n w : nat)            (* registered; Start: inbox.Start, init dialling *)
| RShut (n w : nat)            (* the dial failed: Shutdown of [w] runs on this goroutine *)
| RSet (n : nat)               (* s.streams[address] = swpid *)
| RGet (n : nat)               (* engine.Send(swpid, msg): Registry.get *)
| RPush (n w : nat).           (* proc.Send: push onto that writer's inbox *)

(* the inbox worker of a writer *)
Inductive wpc := WIdle | WLoaded | WHave (b : list nat).

Record writer := {
  w_conn : bool;                        (* the dial succeeded; the goroutine waiting for conn.Closed() exists *)
  w_todo : option (list sstep);         (* None: Shutdown not called; Some l: statements still to run *)
  w_inbox : list nat;
  w_pc : wpc;
  w_stopped : bool;
  w_closed : bool;
  w_wire : list nat;                    (* messages written to the connection, in order *)
  w_failed : list nat                   (* messages whose stream.Send failed (logged only) *)
}.

Definition writer0 : writer :=
  {| w_conn := false; w_todo := None; w_inbox := []; w_pc := WIdle; w_stopped := false;
     w_closed := false; w_wire := []; w_failed := [] |}.

Record rstate := {
  q : list qmsg;                 (* router inbox *)
  pc : rpc;
  has : bool;                    (* router.streams has the address *)
  reg : option nat;              (* the writer registered under "stream/<addr>" *)
  nw : nat;                      (* writers started so far: ids 0 .. nw-1 *)
  ws : nat -> writer;
  rdead : list nat;              (* dead letters, in order *)
  bcast : nat;                   (* RemoteUnreachableEvents on the event stream *)
  rdups : nat;                   (* ActorDuplicateIdEvents *)
  pushed : nat                   (* messages pushed onto some writer's inbox *)
}.

Definition rstate0 : rstate :=
  {| q := []; pc := RIdle; has := false; reg := None; nw := 0; ws := fun _ => writer0;
     rdead := []; bcast := 0; rdups := 0; pushed := 0 |}.

Definition wupd (f : nat -> writer) (w : nat) (x : writer) : nat -> writer :=
  fun v => if Nat.eqb v w then x else f v.

Definition w_set_todo (x : writer) (t : option (list sstep)) : writer :=
  {| w_conn := w_conn x; w_todo := t; w_inbox := w_inbox x; w_pc := w_pc x; w_stopped := w_stopped x;
     w_closed := w_closed x; w_wire := w_wire x; w_failed := w_failed x |}.
Definition w_set_conn (x : writer) (b : bool) : writer :=
  {| w_conn := b; w_todo := w_todo x; w_inbox := w_inbox x; w_pc := w_pc x; w_stopped := w_stopped x;
     w_closed := w_closed x; w_wire := w_wire x; w_failed := w_failed x |}.
Definition w_set_inbox (x : writer) (l : list nat) : writer :=
  {| w_conn := w_conn x; w_todo := w_todo x; w_inbox := l; w_pc := w_pc x; w_stopped := w_stopped x;
     w_closed := w_closed x; w_wire := w_wire x; w_failed := w_failed x |}.
Definition w_set_pc (x : writer) (p : wpc) : writer :=
  {| w_conn := w_conn x; w_todo := w_todo x; w_inbox := w_inbox x; w_pc := p; w_stopped := w_stopped x;
     w_closed := w_closed x; w_wire := w_wire x; w_failed := w_failed x |}.
Definition w_set_stopped (x : writer) : writer :=
  {| w_conn := w_conn x; w_todo := w_todo x; w_inbox := w_inbox x; w_pc := w_pc x; w_stopped := true;
     w_closed := w_closed x; w_wire := w_wire x; w_failed := w_failed x |}.
Definition w_set_closed (x : writer) : writer :=
  {| w_conn := w_conn x; w_todo := w_todo x; w_inbox := w_inbox x; w_pc := w_pc x; w_stopped := w_stopped x;
     w_closed := true; w_wire := w_wire x; w_failed := w_failed x |}.
Definition w_sent (x : writer) (b : list nat) : writer :=
  if w_closed x then
    {| w_conn := w_conn x; w_todo := w_todo x; w_inbox := w_inbox x; w_pc := WIdle; w_stopped := w_stopped x;
       w_closed := w_closed x; w_wire := w_wire x; w_failed := w_failed x ++ b |}
  else
    {| w_conn := w_conn x; w_todo := w_todo x; w_inbox := w_inbox x; w_pc := WIdle; w_stopped := w_stopped x;
       w_closed := w_closed x; w_wire := w_wire x ++ b; w_failed := w_failed x |}.

Definition st_q (s : rstate) (x : list qmsg) : rstate :=
  {| q := x; pc := pc s; has := has s; reg := reg s; nw := nw s; ws := ws s; rdead := rdead s;
     bcast := bcast s; rdups := rdups s; pushed := pushed s |}.
Definition st_pc (s : rstate) (x : rpc) : rstate :=
  {| q := q s; pc := x; has := has s; reg := reg s; nw := nw s; ws := ws s; rdead := rdead s;
     bcast := bcast s; rdups := rdups s; pushed := pushed s |}.
Definition st_has (s : rstate) (x : bool) : rstate :=
  {| q := q s; pc := pc s; has := x; reg := reg s; nw := nw s; ws := ws s; rdead := rdead s;
     bcast := bcast s; rdups := rdups s; pushed := pushed s |}.
Definition st_reg (s : rstate) (x : option nat) : rstate :=
  {| q := q s; pc := pc s; has := has s; reg := x; nw := nw s; ws := ws s; rdead := rdead s;
     bcast := bcast s; rdups := rdups s; pushed := pushed s |}.
Definition st_w (s : rstate) (w : nat) (x : writer) : rstate :=
  {| q := q s; pc := pc s; has := has s; reg := reg s; nw := nw s; ws := wupd (ws s) w x; rdead := rdead s;
     bcast := bcast s; rdups := rdups s; pushed := pushed s |}.

(* one statement of Shutdown of writer [w] *)
Definition do_sstep (s : rstate) (w : nat) (st : sstep) (rest : list sstep) : rstate :=
  let s1 := st_w s w (w_set_todo (ws s w) (Some rest)) in
  match st with
  | SNotify => st_q s1 (q s1 ++ [QEvt])
  | SBroadcast =>
      {| q := q s1; pc := pc s1; has := has s1; reg := reg s1; nw := nw s1; ws := ws s1; rdead := rdead s1;
         bcast := S (bcast s1); rdups := rdups s1; pushed := pushed s1 |}
  | SClose => st_w s1 w (w_set_closed (ws s1 w))
  | SStop => st_w s1 w (w_set_stopped (ws s1 w))
  | SRemove => st_reg s1 None               (* delete(r.lookup, pid.ID): whatever is registered under the id *)
  end.

Definition shut_step (s : rstate) (w : nat) : rstate :=
  match w_todo (ws s w) with
  | Some (st :: rest) => do_sstep s w st rest
  | _ => s
  end.

Definition router (o : order) (s : rstate) (dial_ok : bool) : rstate :=
  match pc s with
  | RIdle =>
      match q s with
      | [] => s
      | QEvt :: q' => st_has (st_q s q') false
      | QDlv n :: q' => st_pc (st_q s q') (if has s then RGet n else RAdd n)
      end
  | RAdd n =>
      match reg s with
      | Some _ =>                                  (* id taken: ActorDuplicateIdEvent, the new writer is not started *)
          {| q := q s; pc := RSet n; has := has s; reg := reg s; nw := nw s; ws := ws s; rdead := rdead s;
             bcast := bcast s; rdups := S (rdups s); pushed := pushed s |}
      | None =>
          let w := nw s in
          {| q := q s; pc := RDial n w; has := has s; reg := Some w; nw := S w; ws := wupd (ws s) w writer0;
             rdead := rdead s; bcast := bcast s; rdups := rdups s; pushed := pushed s |}
      end
  | RDial n w =>
      if dial_ok then st_pc (st_w s w (w_set_conn (ws s w) true)) (RSet n)
      else st_pc (st_w s w (w_set_todo (ws s w) (Some (shutdown_code o)))) (RShut n w)
  | RShut n w =>
      match w_todo (ws s w) with
      | Some (_ :: _) => shut_step s w
      | _ => st_pc s (RSet n)
      end
  | RSet n => st_pc (st_has s true) (RGet n)
  | RGet n =>
      match reg s with
      | Some w => st_pc s (RPush n w)
      | None =>
          {| q := q s; pc := RIdle; has := has s; reg := reg s; nw := nw s; ws := ws s; rdead := rdead s ++ [n];
             bcast := bcast s; rdups := rdups s; pushed := pushed s |}
      end
  | RPush n w =>
      let s1 := st_w s w (w_set_inbox (ws s w) (w_inbox (ws s w) ++ [n])) in
      {| q := q s1; pc := RIdle; has := has s1; reg := reg s1; nw := nw s1; ws := ws s1; rdead := rdead s1;
         bcast := bcast s1; rdups := rdups s1; pushed := S (pushed s1) |}
  end.

Definition router_runs_shutdown (s : rstate) (w : nat) : bool :=
  match pc s with RShut _ w' => Nat.eqb w w' | _ => false end.

(* the worker of writer [w]: see that the inbox is not stopped, pop what is
   there, send it as one envelope *)
Definition work_step (s : rstate) (w : nat) : rstate :=
  let x := ws s w in
  match w_pc x with
  | WIdle =>
      match w_inbox x with
      | [] => s
      | _ :: _ => if w_stopped x then s else st_w s w (w_set_pc x WLoaded)
      end
  | WLoaded => st_w s w (w_set_pc (w_set_inbox x []) (WHave (w_inbox x)))
  | WHave b => st_w s w (w_sent x b)
  end.

Inductive lbl :=
| LSend (n : nat)              (* Remote.Send of message n for the address *)
| LRouter (dial_ok : bool)     (* one statement of the router *)
| LDrop (w : nat)              (* the connection of writer w is lost: its goroutine calls Shutdown *)
| LShut (w : nat)              (* that goroutine runs its next statement *)
| LWork (w : nat).             (* the inbox worker of writer w *)

Definition rstep (o : order) (s : rstate) (l : lbl) : rstate :=
  match l with
  | LSend n => st_q s (q s ++ [QDlv n])
  | LRouter ok => router o s ok
  | LDrop w =>
      if Nat.ltb w (nw s) && w_conn (ws s w) && (match w_todo (ws s w) with None => true | Some _ => false end)
      then st_w s w (w_set_todo (ws s w) (Some (shutdown_code o))) else s
  | LShut w =>
      if Nat.ltb w (nw s) && negb (router_runs_shutdown s w) then shut_step s w else s
  | LWork w => if Nat.ltb w (nw s) then work_step s w else s
  end.

Definition rrun (o : order) (sched : list lbl) (s : rstate) : rstate := fold_left (rstep o) sched s.

(** predicates of the D12 analysis *)

Definition has_notify (l : list sstep) : bool := existsb (sstep_eqb SNotify) l.

(* a started writer that has not told the router of its end yet *)
Definition unnotified (x : writer) : bool :=
  match w_todo x with None => true | Some l => has_notify l end.

(* an event that will make the router forget the stream is on its way *)
Definition evt_pending (s : rstate) : Prop :=
  In QEvt (q s) \/ exists w l, w < nw s /\ w_todo (ws s w) = Some l /\ has_notify l = true.

(* nothing is running *)
Definition at_rest (s : rstate) : Prop :=
  q s = [] /\ pc s = RIdle /\
  forall w, w < nw s -> (w_todo (ws s w) = None \/ w_todo (ws s w) = Some []).

(* the address is black-holed: the router maps it to a PID under which nothing
   is registered, and nothing will ever tell it otherwise *)
Definition blackholed (s : rstate) : Prop :=
  has s = true /\ reg s = None /\ ~ In QEvt (q s) /\
  (pc s = RIdle \/ exists n, pc s = RGet n) /\
  forall w, w < nw s -> unnotified (ws s w) = false.
