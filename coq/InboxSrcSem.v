(** CMini — syntax and interleaving semantics of the fragment of Go in which
    actor/inbox.go is written, for the translation tie of C01–C03.

    [tools/inboxtrans] maps the method bodies of [*Inbox] (Send, schedule,
    process, run, Start, Stop) one-to-one to terms of [stmt]; this file says
    what those terms mean when several goroutines run them against one inbox:
    a thread is a stack of frames plus its locals; one step of the system is
    one VISIBLE operation of one thread (exactly the operations at which the
    scheduler shim of the harness yields, and the labels of [Inbox.label]):

      Push, PopN, Len on the ring (the ring is the list queue here, as in
      Inbox.v; Ring/RingSrcProofs show the ring buffer is that list),
      CompareAndSwap / Load / Swap / Store on procStatus,
      entering and leaving proc.Invoke,

    followed by that thread's local computation up to its next visible
    operation ([norm]: sequencing, calls and returns, loops, conditions on
    locals, local assignments, runtime.Gosched, and [go in.process()], which
    creates a thread).  What the ENVIRONMENT of inbox.go does is fixed here
    the way Inbox.v fixes it: a sender calls in.Send(m) for each m of its
    program; the starter calls in.Start(p); proc.Invoke(b) hands the messages
    before the first pill to the receiver, and on a pill calls in.Stop()
    (the translated method) and drops the rest of the batch.

    Definitions only (total, executable).  InboxSrcProofs.v proves that the
    system built from the terms generated from the current inbox.go and the
    model Inbox.v simulate each other step by step, label by label. *)
From Coq Require Import List Arith Bool ZArith String.
Import ListNotations.
From HV Require Import Inbox.
Local Open Scope string_scope.
Local Open Scope list_scope.

(* expressions over the locals of a method (int) *)
Inductive lexp :=
| LConst (z : Z)
| LVar (x : string)
| LThroughput.                  (* in.scheduler.Throughput() *)

Inductive lcmp := Gt | Ge | Lt | Le | EqC | NeC.

Inductive cond :=
| CCas (o n : status)           (* atomic.CompareAndSwapInt32(&in.procStatus, o, n) *)
| CLoadNe (v : status)          (* atomic.LoadInt32(&in.procStatus) != v *)
| CLoadEq (v : status)          (* atomic.LoadInt32(&in.procStatus) == v *)
| CLenGt0                       (* in.rb.Len() > 0 *)
| CAnd (a b : cond)             (* a && b, short-circuit *)
| CLoc (o : lcmp) (a b : lexp)  (* comparison of locals *)
| COk                           (* ok         — second result of the last PopN *)
| CBatchNonEmpty.               (* len(msgs) > 0 — first result of the last PopN *)

Inductive stmt :=
| Skip
| Seq (a b : stmt)
| If (c : cond) (t e : stmt)
| For (c : cond) (b : stmt)     (* for c { b } *)
| Return
| Push                          (* in.rb.Push(msg), msg the parameter of Send *)
| PopN (n : Z)                  (* msgs, ok := in.rb.PopN(n) *)
| Invoke                        (* in.proc.Invoke(msgs) *)
| Call (m : string)             (* in.m() *)
| Spawn (m : string)            (* in.scheduler.Schedule(in.m), Schedule(fn) = go fn() *)
| SetProc                       (* in.proc = proc *)
| Swap (v : status)             (* atomic.SwapInt32(&in.procStatus, v), result unused *)
| Store (v : status)            (* atomic.StoreInt32(&in.procStatus, v) *)
| LocSet (x : string) (e : lexp)
| LocInc (x : string)
| Gosched.                      (* runtime.Gosched() *)

Definition methods := list (string * stmt).

Fixpoint lookup {A} (m : string) (ms : list (string * A)) : option A :=
  match ms with
  | [] => None
  | (n, b) :: r => if String.eqb m n then Some b else lookup m r
  end.

Inductive frame :=
| FS (s : stmt)
| FRet                          (* boundary of a method call: Return unwinds to here *)
| FSendLoop (ms : list msg)     (* client: for m in ms { in.Send(m) } *)
| FInvEnd.                      (* environment: proc.Invoke returns *)

Record thread := { frames : list frame; arg : msg; batch : list msg; okr : bool;
                   locs : list (string * Z) }.

Definition with_frames (th : thread) (k : list frame) : thread :=
  {| frames := k; arg := arg th; batch := batch th; okr := okr th; locs := locs th |}.

Fixpoint set_loc (x : string) (z : Z) (l : list (string * Z)) : list (string * Z) :=
  match l with
  | [] => [(x, z)]
  | (y, w) :: r => if String.eqb x y then (y, z) :: r else (y, w) :: set_loc x z r
  end.

Definition get_loc (x : string) (l : list (string * Z)) : Z :=
  match lookup x l with Some z => z | None => 0%Z end.

Definition leval (T : Z) (l : list (string * Z)) (e : lexp) : Z :=
  match e with LConst z => z | LVar x => get_loc x l | LThroughput => T end.

Definition lcmp_eval (o : lcmp) (a b : Z) : bool :=
  match o with
  | Gt => Z.gtb a b | Ge => Z.geb a b | Lt => Z.ltb a b | Le => Z.leb a b
  | EqC => Z.eqb a b | NeC => negb (Z.eqb a b)
  end.

Definition qne (l : list msg) : bool := match l with [] => false | _ => true end.

(* unwind to the innermost call boundary *)
Fixpoint unwind (k : list frame) : option (list frame) :=
  match k with
  | [] => None
  | FRet :: r => Some r
  | _ :: r => unwind r
  end.

Definition fresh_thread (k : list frame) : thread :=
  {| frames := k; arg := 0; batch := []; okr := false; locs := [] |}.

(* one silent step of a thread: Some (thread', spawned) or None when the head
   is a visible operation, the thread has finished, or it is stuck *)
Definition tau (M : methods) (T : Z) (th : thread) : option (thread * list thread) :=
  match frames th with
  | [] => None
  | FRet :: k => Some (with_frames th k, [])
  | FInvEnd :: _ => None
  | FSendLoop [] :: _ => None
  | FSendLoop (m :: ms) :: k =>
      Some ({| frames := FS (Call "Send") :: match ms with [] => k | _ => FSendLoop ms :: k end;
               arg := m; batch := batch th; okr := okr th; locs := locs th |}, [])
  | FS s :: k =>
      match s with
      | Skip => Some (with_frames th k, [])
      | Seq a b => Some (with_frames th (FS a :: FS b :: k), [])
      | If (CAnd a b) t e => Some (with_frames th (FS (If a (If b t e) e) :: k), [])
      | If (CLoc o a b) t e =>
          Some (with_frames th (FS (if lcmp_eval o (leval T (locs th) a) (leval T (locs th) b) then t else e) :: k), [])
      | If COk t e => Some (with_frames th (FS (if okr th then t else e) :: k), [])
      | If CBatchNonEmpty t e => Some (with_frames th (FS (if qne (batch th) then t else e) :: k), [])
      | If _ _ _ => None
      | For c b => Some (with_frames th (FS (If c (Seq b (For c b)) Skip) :: k), [])
      | Return => match unwind k with Some k' => Some (with_frames th k', []) | None => None end
      | Call m => match lookup m M with
                  | Some b => Some (with_frames th (FS b :: FRet :: k), [])
                  | None => None
                  end
      | Spawn m => Some (with_frames th k, [fresh_thread [FS (Call m)]])
      | SetProc => Some (with_frames th k, [])
      | Gosched => Some (with_frames th k, [])
      | LocSet x e => Some ({| frames := k; arg := arg th; batch := batch th; okr := okr th;
                               locs := set_loc x (leval T (locs th) e) (locs th) |}, [])
      | LocInc x => Some ({| frames := k; arg := arg th; batch := batch th; okr := okr th;
                             locs := set_loc x (get_loc x (locs th) + 1)%Z (locs th) |}, [])
      | Push | PopN _ | Invoke | Swap _ | Store _ => None
      end
  end.

(* run silent steps; the result's head is visible or the thread has finished.
   None: out of fuel (a loop over locals only) *)
Fixpoint norm (fuel : nat) (M : methods) (T : Z) (th : thread) : option (thread * list thread) :=
  match tau M T th with
  | None => Some (th, [])
  | Some (th', sp) =>
      match fuel with
      | 0 => None
      | S f => match norm f M T th' with
               | Some (th'', sp') => Some (th'', sp ++ sp')
               | None => None
               end
      end
  end.

Definition norm_fuel := 64.

(* spawned threads are normalised too (they spawn nothing before their first
   visible operation in any term we accept: otherwise None) *)
Fixpoint norm_all (M : methods) (T : Z) (l : list thread) : option (list thread) :=
  match l with
  | [] => Some []
  | th :: r =>
      match norm norm_fuel M T th, norm_all M T r with
      | Some (th', []), Some r' => Some (th' :: r')
      | _, _ => None
      end
  end.

Record sst := { h_status : status; h_q : list msg; h_thr : list thread;
                h_delivered : list msg; h_dropped : list msg; h_pushed : list msg }.

(* the visible operation at the head of a (normalised) thread: new shared
   components, the thread's continuation (not yet normalised), the label *)
Record vres := { v_status : status; v_q : list msg; v_th : thread;
                 v_delivered : list msg; v_dropped : list msg; v_pushed : list msg; v_label : label }.

Definition vkeep (s : sst) (th : thread) (l : label) : vres :=
  {| v_status := h_status s; v_q := h_q s; v_th := th; v_delivered := h_delivered s;
     v_dropped := h_dropped s; v_pushed := h_pushed s; v_label := l |}.

Definition vstat (s : sst) (stt : status) (th : thread) (l : label) : vres :=
  {| v_status := stt; v_q := h_q s; v_th := th; v_delivered := h_delivered s;
     v_dropped := h_dropped s; v_pushed := h_pushed s; v_label := l |}.

Definition visible (s : sst) (th : thread) : option vres :=
  match frames th with
  | FSendLoop [] :: k => Some (vkeep s (with_frames th k) LNone)
  | FInvEnd :: k => Some (vkeep s (with_frames th k) LInvE)
  | FS (If (CCas o n) t e) :: k =>
      if status_eqb (h_status s) o
      then Some (vstat s n (with_frames th (FS t :: k)) (LCas o n true))
      else Some (vkeep s (with_frames th (FS e :: k)) (LCas o n false))
  | FS (If (CLoadNe v) t e) :: k =>
      Some (vkeep s (with_frames th (FS (if status_eqb (h_status s) v then e else t) :: k)) (LLoad (h_status s)))
  | FS (If (CLoadEq v) t e) :: k =>
      Some (vkeep s (with_frames th (FS (if status_eqb (h_status s) v then t else e) :: k)) (LLoad (h_status s)))
  | FS (If CLenGt0 t e) :: k =>
      Some (vkeep s (with_frames th (FS (if qne (h_q s) then t else e) :: k)) (LLen (List.length (h_q s))))
  | FS Push :: k =>
      Some {| v_status := h_status s; v_q := h_q s ++ [arg th]; v_th := with_frames th k;
              v_delivered := h_delivered s; v_dropped := h_dropped s;
              v_pushed := h_pushed s ++ [arg th]; v_label := LPush (arg th) |}
  | FS (PopN n) :: k =>
      match h_q s with
      | [] => Some (vkeep s {| frames := k; arg := arg th; batch := []; okr := false; locs := locs th |}
                          (LPopN [] false))
      | _ => Some {| v_status := h_status s; v_q := skipn (Z.to_nat n) (h_q s);
                     v_th := {| frames := k; arg := arg th; batch := firstn (Z.to_nat n) (h_q s);
                                okr := true; locs := locs th |};
                     v_delivered := h_delivered s; v_dropped := h_dropped s; v_pushed := h_pushed s;
                     v_label := LPopN (firstn (Z.to_nat n) (h_q s)) true |}
      end
  | FS Invoke :: k =>
      Some {| v_status := h_status s; v_q := h_q s;
              v_th := with_frames th ((if has_pill (batch th) then [FS (Call "Stop")] else []) ++ FInvEnd :: k);
              v_delivered := h_delivered s ++ before_pill (batch th);
              v_dropped := h_dropped s ++ after_pill (batch th);
              v_pushed := h_pushed s; v_label := LInvB (batch th) |}
  | FS (Swap v) :: k => Some (vstat s v (with_frames th k) (LSwap v (h_status s)))
  | FS (Store v) :: k => Some (vstat s v (with_frames th k) (LStore v))
  | _ => None
  end.

(* one step of the system: thread i performs its visible operation and then
   its local computation up to the next one *)
Definition src_step (M : methods) (T : Z) (s : sst) (i : nat) : option (sst * label) :=
  match nth_error (h_thr s) i with
  | None => None
  | Some th =>
      match visible s th with
      | None => None
      | Some r =>
          match norm norm_fuel M T (v_th r) with
          | None => None
          | Some (th', sp) =>
              match norm_all M T sp with
              | None => None
              | Some sp' =>
                  Some ({| h_status := v_status r; h_q := v_q r;
                           h_thr := firstn i (h_thr s) ++ th' :: skipn (S i) (h_thr s) ++ sp';
                           h_delivered := v_delivered r; h_dropped := v_dropped r; h_pushed := v_pushed r |},
                        v_label r)
              end
          end
      end
  end.

(* client threads, as the harness creates them *)
Inductive client := CSender (ms : list msg) | CStarter.

Definition client_seed (c : client) : thread :=
  match c with
  | CSender ms => fresh_thread [FSendLoop ms]
  | CStarter => fresh_thread [FS (Call "Start")]
  end.

(* a sender with an empty program stays at its (visible) end-of-program mark *)
Definition client_thread (M : methods) (T : Z) (c : client) : option thread :=
  match c with
  | CSender [] => Some (client_seed c)
  | _ => match norm norm_fuel M T (client_seed c) with Some (th, []) => Some th | _ => None end
  end.

Fixpoint client_threads (M : methods) (T : Z) (cs : list client) : option (list thread) :=
  match cs with
  | [] => Some []
  | c :: r => match client_thread M T c, client_threads M T r with
              | Some th, Some r' => Some (th :: r')
              | _, _ => None
              end
  end.

(* a fresh inbox (NewInbox: procStatus = stopped, empty ring) and the clients *)
Definition src_init (M : methods) (T : Z) (cs : list client) : option sst :=
  match client_threads M T cs with
  | Some ths => Some {| h_status := Stopped; h_q := []; h_thr := ths;
                        h_delivered := []; h_dropped := []; h_pushed := [] |}
  | None => None
  end.

(* an inbox on which Start has completed: running, the worker created by
   Start's schedule() is thread 0 *)
Definition src_init_started (M : methods) (T : Z) (cs : list client) : option sst :=
  match norm norm_fuel M T (fresh_thread [FS (Call "process")]), client_threads M T cs with
  | Some (w, []), Some ths => Some {| h_status := Running; h_q := []; h_thr := w :: ths;
                                      h_delivered := []; h_dropped := []; h_pushed := [] |}
  | _, _ => None
  end.

Inductive src_reach (M : methods) (T : Z) (s0 : sst) : sst -> Prop :=
| src_reach_refl : src_reach M T s0 s0
| src_reach_step s i s' l : src_reach M T s0 s -> src_step M T s i = Some (s', l) -> src_reach M T s0 s'.

Fixpoint src_run (M : methods) (T : Z) (s : sst) (sched : list nat) : option (sst * list label) :=
  match sched with
  | [] => Some (s, [])
  | i :: rest =>
      match src_step M T s i with
      | None => None
      | Some (s', l) =>
          match src_run M T s' rest with
          | None => None
          | Some (s'', ls) => Some (s'', l :: ls)
          end
      end
  end.

Definition finished (th : thread) : bool := match frames th with [] => true | _ => false end.
Definition src_quiescent (s : sst) : bool := forallb finished (h_thr s).

(* inside proc.Invoke: between the entry (LInvB) and the return (LInvE) *)
Definition is_invend (f : frame) : bool := match f with FInvEnd => true | _ => false end.
Definition src_in_region (th : thread) : bool := existsb is_invend (frames th).
(* the batch a thread has popped and is about to hand to Invoke *)
Definition src_inflight_of (th : thread) : list msg :=
  match frames th with FS Invoke :: _ => batch th | _ => [] end.
Definition src_inflight (s : sst) : list msg := flat_map src_inflight_of (h_thr s).

(* the argument of the (only) PopN of a method body: the batch bound *)
Fixpoint popn_args (s : stmt) : list Z :=
  match s with
  | Seq a b => popn_args a ++ popn_args b
  | If _ t e => popn_args t ++ popn_args e
  | For _ b => popn_args b
  | PopN n => [n]
  | _ => []
  end.
