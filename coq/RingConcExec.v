(** Executable checks for the concurrent part of C14: lock-step replay in
    RingConc of schedules explored on the real ringbuffer.go under the
    deterministic scheduler, and the linearizability predicate evaluated on
    the histories the implementation produced.  Elements are [Z], zero value 0. *)
From stdpp Require Import list list_numbers.
From Coq Require Import ZArith Bool.
From HV Require Export Ring RingConc.
From HV Require RingExec.

Definition zop := op Z.
Definition zres := res Z.
Definition zres_eqb : zres -> zres -> bool := RingExec.zres_eqb.
Definition all2 {A} := @RingExec.all2 A.

Definition zop_eqb (a b : zop) : bool :=
  match a, b with
  | Push x, Push y => Z.eqb x y
  | Pop, Pop => true
  | PopN n, PopN m => Nat.eqb n m
  | Len, Len => true
  | _, _ => false
  end.

Definition label_eqb (a b : label Z) : bool :=
  match a, b with
  | LCall o, LCall o' => zop_eqb o o'
  | LLock, LLock => true
  | LAdd d v, LAdd d' v' => Z.eqb d d' && Nat.eqb v v'
  | LLoad v, LLoad v' => Nat.eqb v v'
  | LUnlock, LUnlock => true
  | _, _ => false
  end.

(* one completed operation as the harness saw it: result, position of its
   call event in the trace, position just behind its last event *)
Definition span := (zres * nat * nat)%type.
Definition span_eqb (a b : span) : bool :=
  let '(r, i, e) := a in let '(r', i', e') := b in zres_eqb r r' && Nat.eqb i i' && Nat.eqb e e'.

(* a case: initial capacity, the sequential prefix run before the threads
   start, the client programs; for a replayed execution the schedule (thread
   per executed scheduling point) and what the shims logged at each point;
   the completed operations of every thread.  A case with c_replay = false
   carries results only (a distinct terminal result vector of an enumeration):
   its spans are (0,1), i.e. no real-time constraint. *)
Record case := { c_cap : nat; c_pre : list zop; c_progs : list (list zop);
                 c_sched : list nat; c_labels : list (label Z); c_replay : bool;
                 c_obs : list (list span) }.

Definition start (c : case) : st Z := init 0%Z (prefilled 0%Z (c_cap c) (c_pre c)) (c_progs c).

Definition model_obs (s : st Z) : list (list span) :=
  (λ t, (λ d, (d_res d, d_inv d, d_ret d)) <$> outs t) <$> thr s.

(* correspondence: the model, driven by the same thread choices, passes the
   same scheduling points with the same values and gives every client the
   same results at the same call/return positions *)
Definition corr (c : case) : bool :=
  if negb (c_replay c) then true else
  match run_sched 0%Z (start c) (c_sched c) with
  | None => false
  | Some (s, ls) => all2 label_eqb ls (c_labels c) && all2 (all2 span_eqb) (model_obs s) (c_obs c)
  end.

(** ** the linearizability oracle *)
Definition orec := (zop * span)%type.
Definition o_inv (x : orec) : nat := x.2.1.2.
Definition o_ret (x : orec) : nat := x.2.2.

(* no operation still to be linearized returned before position [inv] *)
Definition minimal (pend : list (list orec)) (inv : nat) : bool :=
  forallb (forallb (λ x, negb (o_ret x <=? inv))) pend.

Definition all_nil {A} (l : list (list A)) : bool := forallb (λ x, match x with [] => true | _ => false end) l.

(* is there an order of the pending operations that respects every thread's
   program order and the real-time order, on which the list queue, started
   from q, returns exactly the observed results? *)
Fixpoint search (fuel : nat) (q : list Z) (pend : list (list orec)) : bool :=
  all_nil pend ||
  match fuel with
  | 0 => false
  | S f =>
    existsb (λ t, match pend !! t with
                  | Some (x :: rest) =>
                      minimal pend (o_inv x) &&
                      zres_eqb (step_fifo q x.1).2 x.2.1.1 &&
                      search f (step_fifo q x.1).1 (<[t := rest]> pend)
                  | _ => false
                  end) (seq 0 (length pend))
  end.

Definition fifo_after (pre : list zop) : list Z := fold_left (λ q o, (step_fifo q o).1) pre [].

Definition zipo (p : list zop) (o : list span) : list orec := zip p o.

(* the observed history is linearizable w.r.t. the list queue: every operation
   of every program completed, and [search] finds an order *)
Definition lin_ok (pre : list zop) (progs : list (list zop)) (obs : list (list span)) : bool :=
  Nat.eqb (length progs) (length obs) &&
  forallb (λ po, Nat.eqb (length po.1) (length po.2)) (zip progs obs) &&
  search (sum_list (length <$> progs)) (fifo_after pre) (zip_with zipo progs obs).

Definition oracle (c : case) : bool := lin_ok (c_pre c) (c_progs c) (c_obs c).

(** ** proof-relevant situations reached by a replayed schedule:
    1 a thread waits for the mutex (announced a mutator while another thread
      is inside the critical section), 2 Len reads len while the mutex is held,
    3 a Push grows the buffer, 4 Pop/PopN finds the queue empty,
    5 PopN takes several elements, 6 two threads' operations overlap in time *)
Definition waiting (s : st Z) : bool :=
  match lk s with
  | None => false
  | Some _ => existsb (λ t, match pcs t, prog t with
                            | PCalled, o :: _ => negb (zop_eqb o Len)
                            | _, _ => false end) (thr s)
  end.
Definition in_op (t : thread Z) : bool := match pcs t with PIdle => false | _ => true end.

Definition tags_step (s : st Z) (i : nat) (l : label Z) (s' : st Z) : list nat :=
  (if waiting s' then [1] else []) ++
  (match l, lk s with LLoad _, Some _ => [2] | _, _ => [] end) ++
  (match l with LLock => if negb (Nat.eqb (modn (rg s')) (modn (rg s))) then [3] else [] | _ => [] end) ++
  (match l with LLock => if Nat.eqb (length (lin s')) (S (length (lin s))) then [4] else [] | _ => [] end) ++
  (match l with LAdd d _ => if (d <=? -2)%Z then [5] else [] | _ => [] end) ++
  (if Nat.leb 2 (length (filter (λ t, in_op t = true) (thr s'))) then [6] else []).

Fixpoint tags_run (s : st Z) (sched : list nat) : list nat :=
  match sched with
  | [] => []
  | i :: rest => match step 0%Z s i with
                 | None => []
                 | Some (s', l) => tags_step s i l s' ++ tags_run s' rest
                 end
  end.

Definition branches (c : case) : list nat :=
  if c_replay c then remove_dups (tags_run (start c) (c_sched c)) else [].

Definition failing := @RingExec.failing.

Definition report (cs : list case) : list nat * list nat * list (list nat) :=
  (failing _ corr 0 cs, failing _ oracle 0 cs, map branches cs).
