(** The property theorems of the cluster layer (C18, C20).  Nothing else lives
    here: each is closed by [exact <lemma>] and followed by [Print Assumptions]. *)
From stdpp Require Import gmap list sorting.
From HV Require Import Agent AgentProofs Provider ProviderProofs.

(** * C18 — the membership view follows the provider's snapshots exactly *)

(* For every history of snapshots, each containing the observing node, after
   each snapshot ([step_ok], Agent.v): (a) the view's id set is the
   snapshot's id set; (b) at most one event per id, a Join exactly for the ids
   new to the view, a Leave exactly for the ids that dropped out (so none for
   members that stayed); (c) HasKind(k) iff some member of the view lists k;
   and which Member value the view holds: the one it already had for a member
   that stayed, the snapshot's last entry with that id for a new one. *)
Theorem C18_view_follows_snapshots :
  forall (self : nat) (own : gset nat) (hist : list (list member)),
    Forall (has_self self own) hist ->
    forall i pre post ev snap,
      hist !! i = Some snap -> run (init own) hist !! i = Some (pre, post, ev) ->
      step_ok pre post ev snap.
Proof. exact view_follows_snapshots. Qed.
Print Assumptions C18_view_follows_snapshots.

(* clauses (a) and (b) hold for arbitrary snapshots (with or without the node itself) *)
Theorem C18_members_and_events_follow_any_snapshot :
  forall (own : gset nat) (hist : list (list member)) i pre post ev snap,
    hist !! i = Some snap -> run (init own) hist !! i = Some (pre, post, ev) ->
    view_ids post = list_to_set (mid <$> snap) /\
    NoDup (ev_id <$> ev) /\
    (forall j, j ∈ join_ids ev <-> j ∈ mid <$> snap /\ j ∉ view_ids pre) /\
    (forall j, j ∈ leave_ids ev <-> j ∈ view_ids pre /\ j ∉ mid <$> snap).
Proof. exact view_and_events_follow_any_snapshots. Qed.
Print Assumptions C18_members_and_events_follow_any_snapshot.

(* clause (c) read against the snapshot itself: true when a member's kinds do
   not change while it is known (K: id -> kinds) *)
Theorem C18_has_kind_iff_snapshot_lists :
  forall (self : nat) (own : gset nat) (K : nat -> gset nat) (hist : list (list member)),
    Forall (has_self self own) hist -> kinds_stable K hist ->
    forall i pre post ev snap,
      hist !! i = Some snap -> run (init own) hist !! i = Some (pre, post, ev) ->
      forall k, has_kind k post = true <-> exists m, m ∈ snap /\ k ∈ mkinds m.
Proof. exact has_kind_iff_snapshot_lists. Qed.
Print Assumptions C18_has_kind_iff_snapshot_lists.

(* without the node itself in the snapshot clause (c) fails: the pre-loaded
   own kinds are stale *)
Theorem C18_self_membership_needed :
  let post := (handle_members (init {[7]}) [mk 1 []]).1 in
  has_kind 7 post = true /\ ~ exists i m, members post !! i = Some m /\ 7 ∈ mkinds m.
Proof. exact self_membership_needed. Qed.
Print Assumptions C18_self_membership_needed.

(* a member that stays under the same id with other kinds: no event, the view
   (and HasKind) keep the old value *)
Theorem C18_staying_member_keeps_old_kinds :
  let h := [[mk 0 []; mk 1 [1]]; [mk 0 []; mk 1 [2]]] in
  exists pre post, run (init ∅) h !! 1 = Some (pre, post, []) /\
    members post !! 1 = Some (mk 1 [1]) /\ has_kind 1 post = true /\ has_kind 2 post = false.
Proof. exact staying_member_keeps_old_kinds. Qed.
Print Assumptions C18_staying_member_keeps_old_kinds.

(* the order in which Go iterates over the joined / left members is irrelevant *)
Theorem C18_iteration_order_irrelevant :
  forall a snap js ls,
    keyed (members a) -> js ≡ₚ joined a snap -> ls ≡ₚ left_ a snap ->
    (handle_members_ord a js ls).1 = (handle_members a snap).1 /\
    (handle_members_ord a js ls).2 ≡ₚ (handle_members a snap).2.
Proof. exact handle_members_order_irrelevant. Qed.
Print Assumptions C18_iteration_order_irrelevant.

(* the predicate evaluated on the implementation is true of every model run *)
Theorem C18_oracle_holds_of_model :
  forall self own hist, oracle_on self own hist (model_run own hist) = true.
Proof. exact oracle_holds_of_model. Qed.
Print Assumptions C18_oracle_holds_of_model.

(** * C20 — the self-managed provider keeps a correct member list
      (all statements are about the state reached by an arbitrary history) *)

(* a handshake adds the peer (keeping what was known), the peer is sent the
   complete new list, the agent is told the new list *)
Theorem C20_handshake :
  forall (self : member) (hist : list pmsg) (m : member) (from : nat),
    let s := pafter self hist in
    let s' := (pstep s (Handshake m from)).1 in
    dom s' = {[mid m]} ∪ dom s /\
    (s !! mid m = None -> s' !! mid m = Some m) /\
    (forall i x, s !! i = Some x -> s' !! i = Some x) /\
    (pstep s (Handshake m from)).2 = [ToAgent (slice s'); Reply from (slice s')] /\
    (forall x, x ∈ slice s' <-> exists i, s' !! i = Some x).
Proof. intros self hist. exact (handshake_step (pafter self hist)). Qed.
Print Assumptions C20_handshake.

(* every member of a received list is added (nothing else changes), and the agent is told *)
Theorem C20_members :
  forall (self : member) (hist : list pmsg) (l : list member),
    let s := pafter self hist in
    let s' := (pstep s (MembersMsg l)).1 in
    dom s' = list_to_set (mid <$> l) ∪ dom s /\
    (forall m, m ∈ l -> mid m ∈ dom s') /\
    (forall i x, s !! i = Some x -> s' !! i = Some x) /\
    (forall i x, s' !! i = Some x -> s !! i = Some x \/ x ∈ l) /\
    (pstep s (MembersMsg l)).2 = [ToAgent (slice s')].
Proof. intros self hist. exact (members_step (pafter self hist)). Qed.
Print Assumptions C20_members.

(* an unreachable report for a member's address removes that member and only
   it, and the agent is told (no address shared by two nodes) *)
Theorem C20_leave_removes_exactly_that_member :
  forall (self : member) (hist : list pmsg) (a i : nat) (m : member),
    host_inj (directory self hist) ->
    let s := pafter self hist in
    s !! i = Some m -> mhost m = a ->
    pstep s (LeaveAddr a) = (delete i s, [ToAgent (slice (delete i s))]).
Proof.
  intros self hist a i m H. apply leave_member_step.
  - exact (proj1 (pafter_inv self hist)).
  - exact (pafter_hosts_distinct self hist H).
Qed.
Print Assumptions C20_leave_removes_exactly_that_member.

(* with a shared address: one of the members at that address is removed *)
Theorem C20_leave_shared_address_removes_one :
  forall (self : member) (hist : list pmsg) (a : nat),
    let s := pafter self hist in
    (exists i m, s !! i = Some m /\ mhost m = a) ->
    exists i m, s !! i = Some m /\ mhost m = a /\
      pstep s (LeaveAddr a) = (delete i s, [ToAgent (slice (delete i s))]).
Proof. intros self hist a. apply leave_shared_address_step. exact (proj1 (pafter_inv self hist)). Qed.
Print Assumptions C20_leave_shared_address_removes_one.

(* a report for an address that is not a member's: member list intact,
   nothing sent, no panic *)
Theorem C20_leave_unknown_is_noop :
  forall (self : member) (hist : list pmsg) (a : nat),
    let s := pafter self hist in
    (forall i m, s !! i = Some m -> mhost m <> a) ->
    pstep s (LeaveAddr a) = (s, []).
Proof. intros self hist a. exact (leave_unknown_step (pafter self hist) a). Qed.
Print Assumptions C20_leave_unknown_is_noop.

Theorem C20_no_panic : forall s msg, Panic ∉ (pstep s msg).2.
Proof. exact pstep_no_panic. Qed.
Print Assumptions C20_no_panic.

(* the pinned tree: the same report panics and resets the list (D10) *)
Theorem C20_leave_unknown_pinned_refuted :
  let self := mk 0 [] in
  let s := pafter self [Handshake (mk 1 []) 1] in
  (forall i m, s !! i = Some m -> mhost m <> 9) /\
  Panic ∈ (pstep_pinned self s (LeaveAddr 9)).2 /\
  (pstep_pinned self s (LeaveAddr 9)).1 <> s /\
  sids s = [0; 1] /\ sids (pstep_pinned self s (LeaveAddr 9)).1 = [0].
Proof. exact leave_unknown_pinned_refuted. Qed.
Print Assumptions C20_leave_unknown_pinned_refuted.

(* invariants over histories *)
Theorem C20_self_stays_member :
  forall (self : member) (hist : list pmsg),
    host_inj (directory self hist) -> (forall a, LeaveAddr a ∈ hist -> a <> mhost self) ->
    pafter self hist !! mid self = Some self.
Proof. exact self_stays_member. Qed.
Print Assumptions C20_self_stays_member.

Theorem C20_member_list_is_spec :
  forall (self : member) (hist : list pmsg),
    host_consistent (directory self hist) -> dom (pafter self hist) = spec_ids self hist.
Proof. exact member_list_is_spec. Qed.
Print Assumptions C20_member_list_is_spec.

(* shared addresses.  One report, whatever member GetByHost picks ([ch]):
   nobody at the address — nothing happens; otherwise exactly one member at
   that address goes and the agent is told the new list.  Conversely each
   such outcome is the step for the choice of that member. *)
Theorem C20_leave_any_choice :
  forall (self : member) (hist : list pmsg) (chs : list (option nat)) (ch : option nat) (a : nat),
    let s := pafter_ch self hist chs in
    ((forall i m, s !! i = Some m -> mhost m <> a) /\ pstep_ch ch s (LeaveAddr a) = (s, [])) \/
    (exists i m, s !! i = Some m /\ mhost m = a /\
       pstep_ch ch s (LeaveAddr a) = (delete i s, [ToAgent (slice (delete i s))])).
Proof. intros self hist chs ch a. apply leave_ch_step. exact (pafter_ch_keyed self hist chs). Qed.
Print Assumptions C20_leave_any_choice.

Theorem C20_leave_choice_realised :
  forall (self : member) (hist : list pmsg) (chs : list (option nat)) (a i : nat) (m : member),
    let s := pafter_ch self hist chs in
    s !! i = Some m -> mhost m = a ->
    pstep_ch (Some i) s (LeaveAddr a) = (delete i s, [ToAgent (slice (delete i s))]).
Proof. intros self hist chs a i m. apply leave_ch_step_chosen. exact (pafter_ch_keyed self hist chs). Qed.
Print Assumptions C20_leave_choice_realised.

(* k reports for an address with m members behind it (any choices, any
   reachable state): max(m-k,0) of them are left, members at other addresses
   are untouched, nobody is added; the agent is told at exactly the first
   min(k,m) reports — those that changed the list — and not afterwards *)
Theorem C20_repeated_reports :
  forall (self : member) (hist : list pmsg) (chs0 : list (option nat)) (a : nat) (chs : list (option nat)),
    let s := pafter_ch self hist chs0 in
    let r := leaves_ch s a chs in
    size (behind a r.1) = size (behind a s) - length chs /\
    elsewhere a r.1 = elsewhere a s /\ r.1 ⊆ s /\
    length r.2 = length chs /\
    forall j outs, r.2 !! j = Some outs ->
      (j < size (behind a s) -> exists l, outs = [ToAgent l]) /\ (size (behind a s) <= j -> outs = []).
Proof. intros self hist chs0 a chs. apply repeated_reports. exact (pafter_ch_keyed self hist chs0). Qed.
Print Assumptions C20_repeated_reports.

(* the predicate evaluated on the implementation is true of every model run,
   whatever GetByHost chooses; and the model driven by the choices visible in
   its own observations reproduces them *)
Theorem C20_oracle_holds_of_model :
  forall self hist chs, poracle_on self hist (model_prun_ch self hist chs) = true.
Proof. exact poracle_holds_of_model. Qed.
Print Assumptions C20_oracle_holds_of_model.

Theorem C20_driven_model_reproduces_itself :
  forall self hist chs,
    model_prun_driven self hist (model_prun_ch self hist chs) = model_prun_ch self hist chs.
Proof. exact model_prun_ch_driven. Qed.
Print Assumptions C20_driven_model_reproduces_itself.
