(** Oracle for runs of the real engine (process.go + inbox.go + registry.go
    together) under the deterministic scheduler: one scripted actor is spawned
    while other goroutines send to it and poison it; the receiver yields inside
    every Receive.  There is no combined model of process and inbox to replay
    (Inbox.v and Proc.v are each tied to the code on their own); what is judged
    here are the predicates their theorems prove, on what the implementation
    did under each explored schedule:
      C02  no two Receive calls of the actor overlap (C02_receive_mutex, with
           Proc's guarantee that a cleaned-up process never reopens its inbox);
      C04  the delivery stream is a well-formed lifecycle word (C04_lifecycle_word);
      C07  at a terminal state every Stop/Poison context is done (C07_every_pill_cancelled_exactly_once,
           C08_no_hang for the race between a poisoner's lookup-push-recheck and the target's cleanup);
      C01/C05/C09  no payload is delivered twice; every message sent is, at a
           terminal state, either delivered or reported as a dead letter. *)
From Coq Require Import List Arith Bool.
Import ListNotations.
From HV Require Export Proc ProcExec.

Record case := { c_recvs : list (nat * lmsg); c_overlap : bool; c_deadlock : bool; c_stuck : bool;
                 c_terminal : bool; c_sent : list nat; c_dead : list nat; c_restarts_scripted : nat;
                 c_pills_done : list bool }.   (* one entry per Stop/Poison context created *)

Definition to_orecv (r : nat * lmsg) : orecv :=
  {| or_inc := fst r; or_msg := snd r; or_snd := false; or_full := true |}.

Definition oracle (c : case) : bool :=
  let rs := map to_orecv (c_recvs c) in
  let delivered := user_payloads rs in
  negb (c_overlap c) && negb (c_deadlock c) && negb (c_stuck c) &&
  c04_word rs 0 0 &&
  nodupb delivered &&
  forallb (fun n => existsb (Nat.eqb n) (c_sent c)) delivered &&
  forallb (fun n => negb (existsb (Nat.eqb n) (c_dead c))) delivered &&
  (if c_terminal c
   then (* every message sent is delivered or reported as a dead letter; a send that races the
           actor's shutdown (registry hit, push after the final flush) may be neither: the
           properties speak of live actors and of sends after the stop was signalled *)
        (if existsb (fun r => lmsg_eqb (snd r) LStopped) (c_recvs c)
         then Nat.leb (length delivered + length (c_dead c)) (length (c_sent c))
         else Nat.eqb (length delivered + length (c_dead c)) (length (c_sent c))) &&
        forallb (fun d => d) (c_pills_done c)       (* C07: every Stop/Poison caller is signalled *)
   else true).

Definition corr (c : case) : bool := true.

(* 1 a restart happened, 2 the actor was stopped, 3 some message was a dead
   letter, 4 some message was delivered to a later incarnation, 5 several stoppers *)
Definition branches (c : case) : list nat :=
  (if existsb (fun r => Nat.ltb 1 (fst r)) (c_recvs c) then [1] else []) ++
  (if existsb (fun r => lmsg_eqb (snd r) LStopped) (c_recvs c) then [2] else []) ++
  (match c_dead c with [] => [] | _ => [3] end) ++
  (if existsb (fun r => Nat.ltb 1 (fst r) && match snd r with LUser _ => true | _ => false end) (c_recvs c) then [4] else []) ++
  (if Nat.ltb 1 (length (c_pills_done c)) then [5] else []).

Fixpoint failing {A} (f : A -> bool) (i : nat) (l : list A) : list nat :=
  match l with [] => [] | a :: l' => (if f a then [] else [i]) ++ failing f (S i) l' end.

Definition report (cs : list case) : list nat * list nat * list (list nat) :=
  (failing corr 0 cs, failing oracle 0 cs, map branches cs).
