(** Translation tie of C01–C03: the system built from the terms that
    tools/inboxtrans generates from the CURRENT actor/inbox.go (HVSrc.InboxSrc,
    semantics InboxSrcSem.v) and the hand-written interleaving model Inbox.v
    simulate each other step by step, with the same labels — so every theorem
    of PropsInbox.v about reachable model states is a theorem about every
    schedule of the translated code.

    NOT part of the main build (coq/_CoqProject): compiled on every run of the
    checks C01–C03 against the freshly generated InboxSrc.v
    (coqc -Q /verif/coq HV -Q <work> HVSrc).

    The control states of the translated code that correspond to the model's
    program counters are COMPUTED from the generated terms (the [F_…]
    definitions run the source semantics along one path and are evaluated
    when this file is compiled), so a rewrite of inbox.go that keeps the
    sequence of visible operations (inlining schedule() into Send, nesting
    the two tests of process(), another loop shape in run()) re-proves
    unchanged; anything that changes which shared operations are performed,
    or their order, makes [sim_step] fail. *)
From Coq Require Import List Arith Bool ZArith String Lia Permutation.
Import ListNotations.
From HV Require Import Inbox InboxExec InboxProofs InboxSrcSem.
From HVSrc Require Import InboxSrc.
Local Open Scope list_scope.

Definition M : methods := src_methods.

(* the batch bound the code passes to PopN *)
Definition popn_bound : Z := match flat_map (fun m => popn_args (snd m)) M with [n] => n | _ => 0%Z end.

Section Sim.
Variable T : Z.        (* the scheduler's throughput: any value *)

(* the control states are computed with a concrete throughput: the frames a
   thread reaches do not depend on the values of its locals, only the path of
   silent steps does ([sim_step] is proved for every T) *)
Definition nf (th : thread) : thread :=
  match norm norm_fuel M 1%Z th with Some (th', _) => th' | None => th end.
Definition dummy (stt : status) (qq : list msg) : sst :=
  {| h_status := stt; h_q := qq; h_thr := []; h_delivered := []; h_dropped := []; h_pushed := [] |}.
(* perform the visible operation of [th] in a shared state with status [stt]
   and queue [qq], then the local computation behind it *)
Definition adv (stt : status) (qq : list msg) (th : thread) : thread :=
  match visible (dummy stt qq) th with Some r => nf (v_th r) | None => th end.

(* worker *)
Definition th_WLoad := nf (fresh_thread [FS (Call "process")]).
Definition th_WPop := adv Running [] th_WLoad.
Definition th_WExit := adv Stopped [] th_WLoad.
Definition th_WInvB := adv Running [7] th_WPop.
Definition th_WInvB_pill := adv Running [pill_base] th_WPop.
Definition th_WInvE := adv Running [] th_WInvB.
Definition th_WStop := adv Running [] th_WInvB_pill.
Definition th_WLen := adv Running [] th_WExit.
Definition th_WSched := adv Idle [7] th_WLen.
(* starter *)
Definition th_TCas := nf (fresh_thread [FS (Call "Start")]).
Definition th_TSwap := adv Stopped [] th_TCas.
Definition th_TSched := adv Starting [] th_TSwap.

Definition F_WLoad := Eval vm_compute in frames th_WLoad.
Definition F_WPop := Eval vm_compute in frames th_WPop.
Definition F_WExit := Eval vm_compute in frames th_WExit.
Definition F_WInvB := Eval vm_compute in frames th_WInvB.
Definition F_WInvE := Eval vm_compute in frames th_WInvE.
Definition F_WStop := Eval vm_compute in frames th_WStop.
Definition F_WLen := Eval vm_compute in frames th_WLen.
Definition F_WSched := Eval vm_compute in frames th_WSched.
Definition F_TCas := Eval vm_compute in frames th_TCas.
Definition F_TSwap := Eval vm_compute in frames th_TSwap.
Definition F_TSched := Eval vm_compute in frames th_TSched.
(* sender with program m :: ms, about to Push m / about to kick *)
Definition F_SPush := Eval vm_compute in
  (fun ms : list msg => frames (nf (fresh_thread [FSendLoop (0 :: ms)]))).
Definition F_SCas := Eval vm_compute in
  (fun ms : list msg => frames (adv Stopped [] (nf (fresh_thread [FSendLoop (0 :: ms)])))).

(* the control state of the translated code that stands for a model pc *)
Definition R (p : pc) (th : thread) : Prop :=
  match p with
  | SPush [] => frames th = [FSendLoop []]
  | SPush (m :: ms) => frames th = F_SPush ms /\ arg th = m
  | SCas ms => frames th = F_SCas ms
  | TCas => frames th = F_TCas
  | TSwap => frames th = F_TSwap
  | TSched => frames th = F_TSched
  | WLoad => frames th = F_WLoad
  | WPop => frames th = F_WPop
  | WInvB b => frames th = F_WInvB /\ batch th = b
  | WStop => frames th = F_WStop
  | WInvE => frames th = F_WInvE
  | WExit => frames th = F_WExit
  | WLen => frames th = F_WLen
  | WSched => frames th = F_WSched
  | Done => frames th = []
  end.

Definition Rst (s : st) (t : sst) : Prop :=
  status_ s = h_status t /\ q s = h_q t /\ delivered s = h_delivered t /\
  dropped s = h_dropped t /\ pushed s = h_pushed t /\ Forall2 R (thr s) (h_thr t).

(* ---- lists *)
Lemma Forall2_nth {A B} (P : A -> B -> Prop) l1 l2 i a :
  Forall2 P l1 l2 -> nth_error l1 i = Some a -> exists b, nth_error l2 i = Some b /\ P a b.
Proof.
  intros H; revert i; induction H as [|x y l1 l2 Hxy H IH]; intros [|i] Hn; cbn in *; try discriminate.
  - inversion Hn; subst; eauto.
  - eauto.
Qed.
Lemma Forall2_nth_none {A B} (P : A -> B -> Prop) l1 l2 i :
  Forall2 P l1 l2 -> nth_error l1 i = None -> nth_error l2 i = None.
Proof.
  intros H; revert i; induction H as [|x y l1 l2 Hxy H IH]; intros [|i] Hn; cbn in *; try discriminate; auto.
Qed.
Lemma Forall2_firstn {A B} (P : A -> B -> Prop) l1 l2 i :
  Forall2 P l1 l2 -> Forall2 P (firstn i l1) (firstn i l2).
Proof. intros H; revert i; induction H; intros [|i]; cbn; auto. Qed.
Lemma Forall2_skipn {A B} (P : A -> B -> Prop) l1 l2 i :
  Forall2 P l1 l2 -> Forall2 P (skipn i l1) (skipn i l2).
Proof. intros H; revert i; induction H; intros [|i]; cbn; auto. Qed.
Lemma Forall2_set {A B} (P : A -> B -> Prop) l1 l2 i a b e1 e2 :
  Forall2 P l1 l2 -> P a b -> Forall2 P e1 e2 ->
  Forall2 P (firstn i l1 ++ a :: skipn (S i) l1 ++ e1) (firstn i l2 ++ b :: skipn (S i) l2 ++ e2).
Proof.
  intros H Hab He. apply Forall2_app; [apply Forall2_firstn; exact H|].
  constructor; [exact Hab|]. apply Forall2_app; [apply Forall2_skipn; exact H|exact He].
Qed.

Lemma qne_spec (l : list msg) : InboxSrcSem.qne l = match l with [] => false | _ => true end.
Proof. reflexivity. Qed.

(* ---- the step-by-step simulation *)
Arguments firstn : simpl never.
Arguments skipn : simpl never.
Arguments Z.to_nat : simpl never.
Arguments before_pill : simpl never.
Arguments after_pill : simpl never.
Arguments has_pill : simpl never.
Arguments app : simpl never.
Arguments InboxSrcSem.qne : simpl never.

Ltac fin :=
  repeat match goal with
  | |- exists _, _ => eexists
  | |- _ /\ _ => split
  | |- Rst _ _ => unfold Rst, same, upd, set_thr;
                   cbn [status_ q thr delivered dropped pushed h_status h_q h_thr h_delivered h_dropped h_pushed]
  | |- Forall2 R (firstn _ _ ++ _ :: skipn _ _ ++ _) (firstn _ _ ++ _ :: skipn _ _ ++ _) =>
      apply Forall2_set; [assumption| |]
  | |- Forall2 R [] [] => constructor
  | |- Forall2 R [_] [_] => constructor
  | |- R _ _ => cbn; auto
  | |- _ = _ => reflexivity
  end.

Lemma sim_step c s t i :
  bound c = Z.to_nat popn_bound -> 1 <= bound c -> Rst s t ->
  match step c s i with
  | Some (s', l) => exists t', src_step M T t i = Some (t', l) /\ Rst s' t'
  | None => src_step M T t i = None
  end.
Proof.
  intros Hb Hb1 (Hs & Hq & Hd & Hdr & Hp & Hthr).
  destruct s as [stt qq thrs dl dr pu]; destruct t as [stt' qq' ths dl' dr' pu'].
  cbn in Hs, Hq, Hd, Hdr, Hp, Hthr. subst stt' qq' dl' dr' pu'.
  unfold step, src_step. cbn [thr h_thr].
  destruct (nth_error thrs i) as [p|] eqn:Hn.
  2:{ rewrite (Forall2_nth_none _ _ _ _ Hthr Hn). reflexivity. }
  destruct (Forall2_nth _ _ _ _ _ Hthr Hn) as (th & Hn' & HR). rewrite Hn'.
  destruct th as [fr a b o lo].
  assert (Hpb : Z.to_nat popn_bound = bound c) by (symmetry; exact Hb).
  let v := eval vm_compute in popn_bound in change popn_bound with v in Hpb.
  destruct p as [ms|ms| | | | | |bb| | | | | | ]; cbn [R frames arg batch] in HR.
  - (* SPush *)
    destruct ms as [|m ms].
    + subst fr. cbn. fin.
    + destruct HR as [-> ->]. destruct ms as [|m' ms']; cbn; fin.
  - (* SCas *)
    subst fr. unfold kick. cbn [status_].
    destruct stt; destruct ms as [|m' ms']; cbn; fin.
  - (* TCas *) subst fr. destruct stt; cbn; fin.
  - (* TSwap *) subst fr. destruct stt; cbn; fin.
  - (* TSched *) subst fr. unfold kick. cbn [status_]. destruct stt; cbn; fin.
  - (* WLoad *)
    subst fr. destruct stt; cbn;
      repeat (match goal with |- context [if ?b then _ else _] => destruct b; cbn end); fin.
  - (* WPop *)
    subst fr. cbn [q]. destruct qq as [|x qq].
    + cbn. fin.
    + assert (Hne : InboxSrcSem.qne (firstn (bound c) (x :: qq)) = true).
      { destruct (bound c) as [|n]; [lia|]. reflexivity. }
      cbn. rewrite !Hpb, Hne. cbn. fin.
  - (* WInvB *)
    destruct HR as [-> ->]. cbn. destruct (has_pill bb); cbn; fin.
  - (* WStop *) subst fr. cbn. fin.
  - (* WInvE *) subst fr. cbn. fin.
  - (* WExit *) subst fr. destruct stt; cbn; try (destruct qq; cbn); fin.
  - (* WLen *) subst fr. cbn [q]. destruct qq; cbn; fin.
  - (* WSched *) subst fr. unfold kick. cbn [status_]. destruct stt; cbn; fin.
  - (* Done *) subst fr. reflexivity.
Qed.

(* the converse direction: the two step functions agree *)
Lemma sim_step_conv c s t i t' l :
  bound c = Z.to_nat popn_bound -> 1 <= bound c -> Rst s t ->
  src_step M T t i = Some (t', l) -> exists s', step c s i = Some (s', l) /\ Rst s' t'.
Proof.
  intros Hb Hb1 HR Hs. pose proof (sim_step c s t i Hb Hb1 HR) as H.
  destruct (step c s i) as [[s' l']|].
  - destruct H as (t'' & Ht & HR'). rewrite Hs in Ht. inversion Ht; subst. eauto.
  - rewrite Hs in H. discriminate.
Qed.

(* ---- initial states *)
Definition pc_of (cl : client) : pc := match cl with CSender ms => SPush ms | CStarter => TCas end.

Lemma client_thread_R cl : exists th, client_thread M T cl = Some th /\ R (pc_of cl) th.
Proof.
  destruct cl as [ms|].
  - destruct ms as [|m ms]; [eexists; split; [reflexivity|reflexivity]|].
    destruct ms as [|m' ms']; eexists; (split; [reflexivity|cbn; auto]).
  - eexists; split; [reflexivity|reflexivity].
Qed.

Lemma client_threads_R cs : exists ths, client_threads M T cs = Some ths /\ Forall2 R (map pc_of cs) ths.
Proof.
  induction cs as [|cl cs (ths & E & H)].
  - exists []. split; [reflexivity|constructor].
  - destruct (client_thread_R cl) as (th & Eth & HR).
    exists (th :: ths). split.
    + cbn [client_threads]. rewrite Eth, E. reflexivity.
    + constructor; assumption.
Qed.

Lemma sim_init cs : exists t0, src_init M T cs = Some t0 /\ Rst (init (map pc_of cs)) t0.
Proof.
  destruct (client_threads_R cs) as (ths & E & H). unfold src_init. rewrite E.
  eexists; split; [reflexivity|]. unfold Rst, init; cbn. auto 10.
Qed.

Lemma sim_init_started cs :
  exists t0, src_init_started M T cs = Some t0 /\ Rst (init_started (map pc_of cs)) t0.
Proof.
  destruct (client_threads_R cs) as (ths & E & H). unfold src_init_started. rewrite E.
  eexists; split; [reflexivity|]. unfold Rst, init_started; cbn.
  repeat (split; [reflexivity|]). constructor; [reflexivity|exact H].
Qed.

(* ---- every reachable state of the translated code stands for a reachable model state *)
Lemma sim_reach c s0 t0 t :
  bound c = Z.to_nat popn_bound -> 1 <= bound c -> Rst s0 t0 ->
  src_reach M T t0 t -> exists s, reach c s0 s /\ Rst s t.
Proof.
  intros Hb Hb1 H0 Hr. induction Hr as [|t i t' l Hr (s & Hs & HR) Hstep].
  - exists s0. split; [constructor|exact H0].
  - destruct (sim_step_conv c s t i t' l Hb Hb1 HR Hstep) as (s' & Hs' & HR').
    exists s'. split; [exact (reach_step c s0 _ _ _ _ Hs Hs')|exact HR'].
Qed.

(* ---- observables agree *)
Lemma R_region p th : R p th -> in_region p = src_in_region th.
Proof.
  destruct th as [fr a b o lo]. unfold src_in_region. cbn [frames].
  destruct p as [ms|ms| | | | | |bb| | | | | | ]; cbn [R frames arg batch];
    try (intros ->; reflexivity).
  - destruct ms as [|m ms]; [intros ->; reflexivity|]. intros [-> _]. destruct ms; reflexivity.
  - intros ->. destruct ms; reflexivity.
  - intros [-> _]. reflexivity.
Qed.

Lemma R_inflight p th : R p th -> fI p = src_inflight_of th.
Proof.
  destruct th as [fr a b o lo]. unfold src_inflight_of. cbn [frames batch].
  destruct p as [ms|ms| | | | | |bb| | | | | | ]; cbn [R frames arg batch fI];
    try (intros ->; reflexivity).
  - destruct ms as [|m ms]; [intros ->; reflexivity|]. intros [-> _]. reflexivity.
  - intros [-> ->]. reflexivity.
Qed.

Lemma R_done p th : R p th -> is_done p = finished th.
Proof.
  destruct th as [fr a b o lo]. unfold finished. cbn [frames].
  destruct p as [ms|ms| | | | | |bb| | | | | | ]; cbn [R frames arg batch];
    try (intros ->; reflexivity).
  - destruct ms as [|m ms]; [intros ->; reflexivity|]. intros [-> _]. reflexivity.
  - intros [-> _]. reflexivity.
Qed.

Lemma Forall2_filter_len {A B} (P : A -> B -> Prop) (f : A -> bool) (g : B -> bool) l1 l2 :
  Forall2 P l1 l2 -> (forall a b, P a b -> f a = g b) ->
  List.length (filter f l1) = List.length (filter g l2).
Proof.
  intros H Hfg. induction H as [|a b l1 l2 Hab H IH]; [reflexivity|].
  cbn. rewrite (Hfg a b Hab). destruct (g b); cbn; congruence.
Qed.
Lemma Forall2_flat_map {A B C} (P : A -> B -> Prop) (f : A -> list C) (g : B -> list C) l1 l2 :
  Forall2 P l1 l2 -> (forall a b, P a b -> f a = g b) -> flat_map f l1 = flat_map g l2.
Proof.
  intros H Hfg. induction H as [|a b l1 l2 Hab H IH]; [reflexivity|].
  cbn. rewrite (Hfg a b Hab), IH. reflexivity.
Qed.
Lemma Forall2_forallb {A B} (P : A -> B -> Prop) (f : A -> bool) (g : B -> bool) l1 l2 :
  Forall2 P l1 l2 -> (forall a b, P a b -> f a = g b) -> forallb f l1 = forallb g l2.
Proof.
  intros H Hfg. induction H as [|a b l1 l2 Hab H IH]; [reflexivity|].
  cbn. rewrite (Hfg a b Hab), IH. reflexivity.
Qed.

Lemma inflight_flat s : inflight s = flat_map fI (thr s).
Proof. reflexivity. Qed.

(* ---- the model's program of a client list *)
Definition sender_programs (cs : list client) : list msg :=
  flat_map (fun cl => match cl with CSender ms => ms | CStarter => [] end) cs.
Definition one_starter (cs : list client) : nat :=
  List.length (filter (fun cl => match cl with CStarter => true | _ => false end) cs).

Lemma clients_ok cs : forallb client_ok (map pc_of cs) = true.
Proof. induction cs as [|[ms|] cs IH]; cbn; auto. Qed.
Lemma starters_cnt cs : cnt is_starter (map pc_of cs) = one_starter cs.
Proof. unfold cnt, one_starter. induction cs as [|[ms|] cs IH]; cbn; auto. Qed.
Lemma program_msgs_map cs : program_msgs (map pc_of cs) = sender_programs cs.
Proof.
  unfold program_msgs, sender_programs. induction cs as [|[ms|] cs IH]; cbn; [reflexivity| |exact IH].
  rewrite IH. reflexivity.
Qed.

End Sim.

(** * The property theorems of PropsInbox.v, transferred to every schedule of
      the code as translated now.

    [T] is the scheduler's throughput (any value), [cs] the client threads
    (any number of senders with any programs; at most one starter), [t0] the
    initial state built from the generated terms, [t] any state some schedule
    reaches. *)
Section Transfer.
Variable T : Z.
Variable cs : list client.
Let c : config := {| bound := Z.to_nat popn_bound |}.

Lemma bound_ok : 1 <= bound c.
Proof. cbn. let v := eval vm_compute in popn_bound in change popn_bound with v. lia. Qed.

(* fresh inbox (NewInbox) with at most one Start, or an inbox that Start has completed on *)
Definition src_valid_start (t0 : sst) : Prop :=
  (src_init M T cs = Some t0 /\ one_starter cs <= 1) \/
  (src_init_started M T cs = Some t0 /\ one_starter cs = 0).
Definition src_started_start (t0 : sst) : Prop :=
  (src_init M T cs = Some t0 /\ one_starter cs = 1) \/
  (src_init_started M T cs = Some t0 /\ one_starter cs = 0).

Lemma start_rel t0 : src_valid_start t0 ->
  exists s0, valid_start (map pc_of cs) s0 /\ Rst s0 t0.
Proof.
  intros [[E H]|[E H]].
  - destruct (sim_init T cs) as (t0' & E' & HR). rewrite E in E'. inversion E'; subst t0'.
    exists (init (map pc_of cs)). split; [|exact HR].
    split; [apply clients_ok|]. left. split; [reflexivity|]. rewrite starters_cnt. exact H.
  - destruct (sim_init_started T cs) as (t0' & E' & HR). rewrite E in E'. inversion E'; subst t0'.
    exists (init_started (map pc_of cs)). split; [|exact HR].
    split; [apply clients_ok|]. right. split; [reflexivity|]. rewrite starters_cnt. exact H.
Qed.

Lemma started_rel t0 : src_started_start t0 ->
  exists s0, started_start (map pc_of cs) s0 /\ Rst s0 t0.
Proof.
  intros [[E H]|[E H]].
  - destruct (sim_init T cs) as (t0' & E' & HR). rewrite E in E'. inversion E'; subst t0'.
    exists (init (map pc_of cs)). split; [|exact HR].
    split; [apply clients_ok|]. left. split; [reflexivity|]. rewrite starters_cnt. exact H.
  - destruct (sim_init_started T cs) as (t0' & E' & HR). rewrite E in E'. inversion E'; subst t0'.
    exists (init_started (map pc_of cs)). split; [|exact HR].
    split; [apply clients_ok|]. right. split; [reflexivity|]. rewrite starters_cnt. exact H.
Qed.

Lemma reach_rel t0 t : src_valid_start t0 -> src_reach M T t0 t ->
  exists s0 s, valid_start (map pc_of cs) s0 /\ reach c s0 s /\ Rst s t.
Proof.
  intros Hv Hr. destruct (start_rel t0 Hv) as (s0 & Hv0 & HR0).
  destruct (sim_reach T c s0 t0 t eq_refl bound_ok HR0 Hr) as (s & Hs & HR).
  exists s0, s. auto.
Qed.

(* C02: in every reachable state of the translated code at most one thread is inside proc.Invoke *)
Theorem C02_src_receive_mutex t0 t :
  src_valid_start t0 -> src_reach M T t0 t ->
  List.length (filter src_in_region (h_thr t)) <= 1.
Proof.
  intros Hv Hr. destruct (reach_rel t0 t Hv Hr) as (s0 & s & Hv0 & Hs & HR).
  pose proof (C02_receive_mutex_thm c _ s0 s Hv0 Hs) as H. unfold cnt in H.
  destruct HR as (_ & _ & _ & _ & _ & Hthr).
  rewrite <- (Forall2_filter_len R in_region src_in_region _ _ Hthr R_region). exact H.
Qed.

(* C01: nothing is lost, duplicated or reordered between Push and Invoke *)
Theorem C01_src_conservation t0 t :
  src_valid_start t0 -> src_reach M T t0 t ->
  h_delivered t ++ h_dropped t ++ src_inflight t ++ h_q t = h_pushed t.
Proof.
  intros Hv Hr. destruct (reach_rel t0 t Hv Hr) as (s0 & s & Hv0 & Hs & HR).
  pose proof (conservation c _ s0 s Hv0 Hs) as H.
  destruct HR as (_ & Hq & Hd & Hdr & Hp & Hthr).
  unfold src_inflight. rewrite <- (Forall2_flat_map R fI src_inflight_of _ _ Hthr R_inflight).
  rewrite <- Hq, <- Hd, <- Hdr, <- Hp. exact H.
Qed.

(* C01/C03: when every thread has finished, the started, pill-free inbox rests
   idle and empty, and what was delivered is what was pushed: every sender's
   messages completely and in its program order, each message as often as sent *)
Theorem C01_C03_src_quiescent_is_drained t0 t :
  src_started_start t0 -> pills_in (sender_programs cs) = false -> NoDup (sender_programs cs) ->
  src_reach M T t0 t -> src_quiescent t = true ->
  h_status t = Idle /\ h_q t = [] /\ h_delivered t = h_pushed t /\
  (forall ms, In (CSender ms) cs -> sub_of ms (h_delivered t) = ms) /\
  Permutation (h_delivered t) (sender_programs cs).
Proof.
  intros Hv Hp Hnd Hr Hq.
  destruct (started_rel t0 Hv) as (s0 & Hv0 & HR0).
  destruct (sim_reach T c s0 t0 t eq_refl bound_ok HR0 Hr) as (s & Hs & HR).
  destruct HR as (Hst & Hqq & Hd & Hdr & Hpu & Hthr).
  assert (Hquiet : quiescent s = true).
  { unfold quiescent. rewrite (Forall2_forallb R is_done finished _ _ Hthr R_done). exact Hq. }
  rewrite <- program_msgs_map in Hp, Hnd |- *.
  destruct (C03_quiescent_is_drained_thm c _ s0 s Hv0 Hp Hs Hquiet) as (H1 & H2 & H3 & _).
  destruct (C01_exactly_once_in_order_thm c _ s0 s Hv0 Hp Hnd Hs Hquiet) as (_ & H4 & _).
  pose proof (C01_delivered_permutation_thm c _ s0 s Hv0 Hp Hs Hquiet) as H5.
  rewrite <- Hst, <- Hqq, <- Hd, <- Hpu. repeat split; auto.
  intros ms Hin. apply H4. change (SPush ms) with (pc_of (CSender ms)). apply in_map. exact Hin.
Qed.

(* C03: an idle inbox with a non-empty queue is impossible once every thread has
   finished, and no schedule of the translated code is infinite *)
Definition src_Rstep (t0 : sst) : sst -> sst -> Prop :=
  fun t2 t1 => exists i l, src_step M T t1 i = Some (t2, l) /\ src_reach M T t0 t1.

Theorem C03_src_terminates t0 : src_valid_start t0 -> forall t, src_reach M T t0 t -> Acc (src_Rstep t0) t.
Proof.
  intros Hv t Hr. destruct (start_rel t0 Hv) as (s0 & Hv0 & HR0).
  destruct (sim_reach T c s0 t0 t eq_refl bound_ok HR0 Hr) as (s & Hs & HR).
  revert t Hr HR Hs.
  induction (C03_terminates_thm c _ s0 Hv0 bound_ok s) as [s _ IH]. intros t Hr HR Hs.
  constructor. intros t' (i & l & Hstep & _).
  destruct (sim_step_conv T c s t i t' l eq_refl bound_ok HR Hstep) as (s' & Hs' & HR').
  apply (IH s').
  - exists i, l. split; [exact Hs'|exact Hs].
  - exact (src_reach_step M T t0 _ _ _ _ Hr Hstep).
  - exact HR'.
  - exact (reach_step c s0 _ _ _ _ Hs Hs').
Qed.

Theorem C03_src_no_infinite_run t0 (g : nat -> sst) :
  src_valid_start t0 -> src_reach M T t0 (g 0) ->
  (forall n, exists i l, src_step M T (g n) i = Some (g (S n), l)) -> False.
Proof.
  intros Hv H0 Hg.
  assert (Hr : forall n, src_reach M T t0 (g n)).
  { induction n as [|n IH]; [exact H0|]. destruct (Hg n) as (i & l & Hs).
    exact (src_reach_step M T t0 _ _ _ _ IH Hs). }
  assert (H : forall t, Acc (src_Rstep t0) t -> forall n, g n = t -> False).
  { intros t Hacc. induction Hacc as [t _ IH]. intros n E. subst t.
    destruct (Hg n) as (i & l & Hs). apply (IH (g (S n))) with (n := S n); [|reflexivity].
    exists i, l. split; [exact Hs|exact (Hr n)]. }
  exact (H (g 0) (C03_src_terminates t0 Hv (g 0) H0) 0 eq_refl).
Qed.

(* no deadlock: while some thread has not finished, some thread can step *)
Theorem C03_src_no_deadlock t0 t :
  src_valid_start t0 -> src_reach M T t0 t -> src_quiescent t = false ->
  exists i, src_step M T t i <> None.
Proof.
  intros Hv Hr Hq. destruct (reach_rel t0 t Hv Hr) as (s0 & s & Hv0 & Hs & HR).
  assert (Hquiet : quiescent s = false).
  { destruct HR as (_ & _ & _ & _ & _ & Hthr). unfold quiescent.
    rewrite (Forall2_forallb R is_done finished _ _ Hthr R_done). exact Hq. }
  destruct (no_deadlock c s Hquiet) as (i & _ & Hi). exists i.
  pose proof (sim_step T c s t i eq_refl bound_ok HR) as H.
  destruct (step c s i) as [[s' l]|]; [|congruence].
  destruct H as (t' & Ht & _). congruence.
Qed.

End Transfer.

(* the terms the theorems are about, and what the translator read beside them *)
Example src_initial_status : initial_status = Stopped.
Proof. reflexivity. Qed.

(* non-vacuity: a concrete run of the translated code (two senders, a starter;
   the lowest enabled thread runs) reaches a quiescent state with everything
   delivered, and one with a pill stops *)
Fixpoint first_enabled (T : Z) (t : sst) (i n : nat) : option (sst * label) :=
  match n with
  | 0 => None
  | S n' => match src_step M T t i with Some r => Some r | None => first_enabled T t (S i) n' end
  end.
Fixpoint greedy (fuel : nat) (T : Z) (t : sst) : sst :=
  match fuel with
  | 0 => t
  | S f => match first_enabled T t 0 (List.length (h_thr t)) with Some (t', _) => greedy f T t' | None => t end
  end.
Example src_run_example :
  match src_init M 5 [CSender [1; 2]; CSender [3]; CStarter] with
  | Some t0 => let t := greedy 200 5 t0 in
      src_quiescent t = true /\ h_status t = Idle /\ h_delivered t = h_pushed t /\ List.length (h_pushed t) = 3
  | None => False
  end.
Proof. vm_compute. auto. Qed.
Example src_run_example_pill :
  match src_init_started M 0 [CSender [1; pill_base; 2]] with
  | Some t0 => let t := greedy 200 0 t0 in
      src_quiescent t = true /\ h_status t = Stopped /\ h_delivered t = [1] /\
      List.length (h_dropped t) + List.length (h_q t) = 2
  | None => False
  end.
Proof. vm_compute. auto. Qed.

Goal True. idtac "@@BEGIN sim_step". Abort.
Print Assumptions sim_step.
Goal True. idtac "@@END". Abort.
Goal True. idtac "@@BEGIN sim_reach". Abort.
Print Assumptions sim_reach.
Goal True. idtac "@@END". Abort.
Goal True. idtac "@@BEGIN C02_src_receive_mutex". Abort.
Print Assumptions C02_src_receive_mutex.
Goal True. idtac "@@END". Abort.
Goal True. idtac "@@BEGIN C01_src_conservation". Abort.
Print Assumptions C01_src_conservation.
Goal True. idtac "@@END". Abort.
Goal True. idtac "@@BEGIN C01_C03_src_quiescent_is_drained". Abort.
Print Assumptions C01_C03_src_quiescent_is_drained.
Goal True. idtac "@@END". Abort.
Goal True. idtac "@@BEGIN C03_src_terminates". Abort.
Print Assumptions C03_src_terminates.
Goal True. idtac "@@END". Abort.
Goal True. idtac "@@BEGIN C03_src_no_infinite_run". Abort.
Print Assumptions C03_src_no_infinite_run.
Goal True. idtac "@@END". Abort.
Goal True. idtac "@@BEGIN C03_src_no_deadlock". Abort.
Print Assumptions C03_src_no_deadlock.
Goal True. idtac "@@END". Abort.
