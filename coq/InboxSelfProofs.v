(** Proofs for the inbox with self-sends (InboxSelf.v): token invariant and
    receive mutex, conservation, wake-up invariant, quiescent-is-drained,
    delivery in the real-time order of the pushes (which covers successive
    sends of one actor), and termination for every fan-out that is
    well-founded (a weight [wt] with  sum_{m' in react m} (wt m' + 1) < wt m). *)
From Coq Require Import List Arith Bool Lia Wellfounded Relations.
Import ListNotations.
From HV Require Import Inbox InboxExec InboxProofs InboxSelf.

(* ------------------------------------------------------------------ *)
(** * Counting over xpc lists *)

Lemma xcnt_app f a b : xcnt f (a ++ b) = xcnt f a + xcnt f b.
Proof. unfold xcnt. rewrite filter_app, app_length. reflexivity. Qed.

Lemma xcnt_cons f a l : xcnt f (a :: l) = b2n (f a) + xcnt f l.
Proof. unfold xcnt. cbn [filter]. destruct (f a); reflexivity. Qed.

Lemma xcnt_nil f : xcnt f [] = 0.
Proof. reflexivity. Qed.

Lemma xcnt_set f l i old p extra :
  nth_error l i = Some old ->
  xcnt f (firstn i l ++ p :: skipn (S i) l ++ extra) + b2n (f old)
  = xcnt f l + b2n (f p) + xcnt f extra.
Proof.
  intros H. rewrite (nth_split_set l i old H) at 3.
  rewrite !xcnt_app, !xcnt_cons, xcnt_app. lia.
Qed.

Lemma xcnt_pos f l i p : nth_error l i = Some p -> f p = true -> 0 < xcnt f l.
Proof.
  intros H Hf. rewrite (nth_split_set l i p H), xcnt_app, xcnt_cons, Hf. cbn. lia.
Qed.

Lemma xcnt_le f g l : (forall p, f p = true -> g p = true) -> xcnt f l <= xcnt g l.
Proof.
  intros H. induction l as [|a l IH]; [reflexivity|]. rewrite !xcnt_cons.
  specialize (H a). destruct (f a) eqn:Ef.
  - rewrite (H eq_refl). cbn. lia.
  - cbn. lia.
Qed.

Lemma xcnt_zero_all f l : (forall p, In p l -> f p = false) -> xcnt f l = 0.
Proof.
  induction l as [|a l IH]; intros H; [reflexivity|]. rewrite xcnt_cons, (H a (or_introl eq_refl)), IH.
  - reflexivity.
  - intros p Hp. apply H. right. exact Hp.
Qed.

Definition xsumf (g : xpc -> nat) (l : list xpc) := fold_right (fun p a => g p + a) 0 l.

Lemma xsumf_cons g a l : xsumf g (a :: l) = g a + xsumf g l.
Proof. reflexivity. Qed.

Lemma xsumf_app g a b : xsumf g (a ++ b) = xsumf g a + xsumf g b.
Proof. induction a as [|x a IH]; [reflexivity|]. cbn [app]. rewrite !xsumf_cons, IH. lia. Qed.

Lemma xsumf_set g l i old p extra :
  nth_error l i = Some old ->
  xsumf g (firstn i l ++ p :: skipn (S i) l ++ extra) + g old = xsumf g l + g p + xsumf g extra.
Proof.
  intros H. rewrite (nth_split_set l i old H) at 3.
  rewrite !xsumf_app, !xsumf_cons, xsumf_app. lia.
Qed.

(* ------------------------------------------------------------------ *)
(** * Thread classes *)

Definition xisTCas p := match p with XTCas => true | _ => false end.
Definition xatTS p := match p with XTSwap => true | _ => false end.
Definition xisWLoad p := match p with XWLoad => true | _ => false end.
Definition xisWPop p := match p with XWPop => true | _ => false end.
Definition xisWInvB p := match p with XWInvB _ => true | _ => false end.
(* sending to itself, no Stop pending *)
Definition xselfnp p := match p with XWSelf _ false | XWSelfCas _ false => true | _ => false end.
(* a Stop is pending: at the Store, or still sending to itself before it *)
Definition xpstop p := match p with XWStop | XWSelf _ true | XWSelfCas _ true => true | _ => false end.
Definition xisWInvE p := match p with XWInvE => true | _ => false end.
Definition xisWExit p := match p with XWExit => true | _ => false end.
Definition xis_worker p :=
  match p with
  | XWLoad | XWPop | XWInvB _ | XWSelf _ _ | XWSelfCas _ _ | XWStop | XWInvE | XWExit | XWLen | XWSched => true
  | _ => false
  end.

Lemma xcnt_holder_split l :
  xcnt xholder l = xcnt xisWLoad l + xcnt xisWPop l + xcnt xisWInvB l + xcnt xselfnp l + xcnt xpstop l
                   + xcnt xisWInvE l + xcnt xisWExit l.
Proof.
  induction l as [|a l IH]; [reflexivity|]. rewrite !xcnt_cons, IH.
  destruct a as [| | | | | | | |? [|]|? [|]| | | | | | ]; cbn; lia.
Qed.

(* ------------------------------------------------------------------ *)
(** * Case analysis of one step *)

Ltac xstep_cases s i Hn :=
  unfold xstep;
  let p := fresh "p" in
  destruct (nth_error (xthr s) i) as [p|] eqn:Hn; [|discriminate];
  destruct p as [ms|ms| | | | | |b|ms pill|ms pill| | | | | | ];
  unfold xkick, xsame, xupd, self_or_after, after_self;
  repeat match goal with
  | |- context [match ?ms with [] => _ | _ :: _ => _ end] =>
      first [ is_var ms; destruct ms as [|? ?] | destruct ms as [|? ?] eqn:? ]
  | |- context [status_eqb (xstatus s) ?x] => destruct (xstatus s) eqn:?; cbn [status_eqb]
  | |- context [has_pill ?b] => destruct (has_pill b) eqn:?
  | pill : bool |- _ => destruct pill
  end;
  let H := fresh "Hstep" in
  intros H; try discriminate H; injection H as <- <-;
  cbn [xstatus xq xthr xdelivered xdropped xpushed].

(* ------------------------------------------------------------------ *)
(** * Token invariant *)

Definition XTI (stt : status) (C T nL nPo nB nF nS nE nX nW : nat) : Prop :=
  (C + T >= 1 -> nW = 0) /\
  match stt with
  | Running  => C = 0 /\ T = 0 /\ nL + nPo + nB + nF + nS + nE + nX = 1
  | Idle     => C = 0 /\ T = 0 /\ nL + nPo + nB + nF + nS + nE + nX = 0
  | Starting => C = 0 /\ T = 1 /\ nL + nPo + nB + nF + nS + nE + nX = 0
  | Stopped  => T = 0 /\ nPo = 0 /\ nB = 0 /\ nF = 0 /\ nS = 0 /\ C + nL + nE + nX <= 1
  end.

Definition XTokenInv (s : xst) : Prop :=
  XTI (xstatus s) (xcnt xisTCas (xthr s)) (xcnt xatTS (xthr s)) (xcnt xisWLoad (xthr s))
      (xcnt xisWPop (xthr s)) (xcnt xisWInvB (xthr s)) (xcnt xselfnp (xthr s)) (xcnt xpstop (xthr s))
      (xcnt xisWInvE (xthr s)) (xcnt xisWExit (xthr s)) (xcnt xis_worker (xthr s)).

Ltac xpose_cnts Hn :=
  match goal with
  | |- context [xset_thr ?s ?i ?p ?extra] =>
      pose proof (xcnt_set xisTCas (xthr s) i _ p extra Hn);
      pose proof (xcnt_set xatTS (xthr s) i _ p extra Hn);
      pose proof (xcnt_set xisWLoad (xthr s) i _ p extra Hn);
      pose proof (xcnt_set xisWPop (xthr s) i _ p extra Hn);
      pose proof (xcnt_set xisWInvB (xthr s) i _ p extra Hn);
      pose proof (xcnt_set xselfnp (xthr s) i _ p extra Hn);
      pose proof (xcnt_set xpstop (xthr s) i _ p extra Hn);
      pose proof (xcnt_set xisWInvE (xthr s) i _ p extra Hn);
      pose proof (xcnt_set xisWExit (xthr s) i _ p extra Hn);
      pose proof (xcnt_set xis_worker (xthr s) i _ p extra Hn);
      unfold xset_thr
  end.

Ltac xsimp_cnts :=
  rewrite ?xcnt_cons, ?xcnt_nil in *;
  cbn [b2n xisTCas xatTS xisWLoad xisWPop xisWInvB xselfnp xpstop xisWInvE xisWExit xis_worker] in *.

Theorem xtoken_inv_step c s i s' l : XTokenInv s -> xstep c s i = Some (s', l) -> XTokenInv s'.
Proof.
  unfold XTokenInv, XTI. intros HI. revert HI.
  destruct (xstatus s) eqn:Hst; intros HI; xstep_cases s i Hn; try congruence; rewrite ?Hst;
  xpose_cnts Hn; xsimp_cnts; lia.
Qed.

(* ------------------------------------------------------------------ *)
(** * Pill phase *)

Definition XDropInv (s : xst) : Prop :=
  xdropped s <> [] ->
  xcnt xisTCas (xthr s) = 0 /\ (xstatus s = Stopped \/ xcnt xpstop (xthr s) = 1).

Theorem xdrop_inv_step c s i s' l :
  XTokenInv s -> XDropInv s -> xstep c s i = Some (s', l) -> XDropInv s'.
Proof.
  unfold XTokenInv, XTI, XDropInv. intros HT HI. revert HT HI.
  destruct (xstatus s) eqn:Hst; intros HT HI; xstep_cases s i Hn; try congruence; rewrite ?Hst;
  try (rewrite (has_pill_after _ ltac:(eassumption)), app_nil_r);
  intros Hd;
  (destruct (xdropped s) as [|d0 dr] eqn:Hdr;
   [ clear HI; try (exfalso; apply Hd; reflexivity)
   | specialize (HI ltac:(discriminate)); destruct HI as [HI1 [HI2|HI2]]; try discriminate HI2 ]);
  xpose_cnts Hn; xsimp_cnts; try (exfalso; lia);
  (split; [lia | first [left; reflexivity | right; lia]]).
Qed.

(* like xstep_cases, but keeps [self_or_after] / [after_self] folded *)
Ltac xstep_cases0 s i Hn :=
  unfold xstep;
  let p := fresh "p" in
  destruct (nth_error (xthr s) i) as [p|] eqn:Hn; [|discriminate];
  destruct p as [ms|ms| | | | | |b|ms pill|ms pill| | | | | | ];
  unfold xkick, xsame, xupd;
  repeat match goal with
  | |- context [match ?ms with [] => _ | _ :: _ => _ end] =>
      first [ is_var ms; destruct ms as [|? ?] | destruct ms as [|? ?] eqn:? ]
  | |- context [status_eqb (xstatus s) ?x] => destruct (xstatus s) eqn:?; cbn [status_eqb]
  end;
  let H := fresh "Hstep" in
  intros H; try discriminate H; injection H as <- <-;
  cbn [xstatus xq xthr xdelivered xdropped xpushed].

(* ------------------------------------------------------------------ *)
(** * Wake-up invariant *)

Definition XWakeInv (s : xst) : Prop :=
  xstatus s = Idle -> xq s <> [] -> 0 < xcnt xpending_kick (xthr s).

Theorem xwake_inv_step c s i s' l : XWakeInv s -> xstep c s i = Some (s', l) -> XWakeInv s'.
Proof.
  unfold XWakeInv. intros HI.
  xstep_cases s i Hn; intros Hs Hq; try discriminate Hs;
  match goal with
  | |- context [xset_thr ?s ?i ?p ?extra] =>
      pose proof (xcnt_set xpending_kick (xthr s) i _ p extra Hn) as E; unfold xset_thr
  end;
  rewrite ?xcnt_cons, ?xcnt_nil in *; cbn [b2n xpending_kick] in *; try lia;
  try (assert (0 < xcnt xpending_kick (xthr s))
         by (apply HI; [congruence | first [assumption | congruence | eapply skipn_nonnil; eassumption]]); lia);
  try (exfalso; apply Hq; first [assumption | reflexivity]).
Qed.

(* ------------------------------------------------------------------ *)
(** * Conservation *)

Definition xfI (p : xpc) : list msg := match p with XWInvB b => b | _ => [] end.

Lemma xinflight_eq s : xinflight s = flat_map xfI (xthr s).
Proof. reflexivity. Qed.

Lemma xflat_map_set {B} (f : xpc -> list B) l i old p extra :
  nth_error l i = Some old ->
  flat_map f l = flat_map f (firstn i l) ++ f old ++ flat_map f (skipn (S i) l) /\
  flat_map f (firstn i l ++ p :: skipn (S i) l ++ extra)
  = flat_map f (firstn i l) ++ f p ++ flat_map f (skipn (S i) l) ++ flat_map f extra.
Proof.
  intros H. split.
  - rewrite (nth_split_set l i old H) at 1. rewrite flat_map_app. cbn [flat_map]. reflexivity.
  - rewrite flat_map_app. cbn [flat_map]. rewrite flat_map_app. reflexivity.
Qed.

Lemma xcnt_split3 f l i old :
  nth_error l i = Some old -> xcnt f l = xcnt f (firstn i l) + b2n (f old) + xcnt f (skipn (S i) l).
Proof. intros H. rewrite (nth_split_set l i old H) at 1. rewrite xcnt_app, xcnt_cons. lia. Qed.

Lemma xnoB_flat l : xcnt xisWInvB l = 0 -> flat_map xfI l = [].
Proof.
  induction l as [|a l IH]; [reflexivity|]. rewrite xcnt_cons. intros H.
  cbn [flat_map]. rewrite IH by lia. destruct a; cbn in *; try reflexivity. lia.
Qed.

Lemma xinflight_only l i old p extra :
  nth_error l i = Some old -> xcnt xisWInvB l <= b2n (xisWInvB old) ->
  flat_map xfI l = xfI old /\
  flat_map xfI (firstn i l ++ p :: skipn (S i) l ++ extra) = xfI p ++ flat_map xfI extra.
Proof.
  intros H Hc. pose proof (xcnt_split3 xisWInvB l i old H) as E.
  destruct (xflat_map_set xfI l i old p extra H) as [E1 E2]. rewrite E1, E2.
  rewrite !xnoB_flat by lia. cbn [app]. rewrite app_nil_r. split; reflexivity.
Qed.

Lemma xinflight_same l i old p extra :
  nth_error l i = Some old -> xfI old = [] -> xfI p = [] -> flat_map xfI extra = [] ->
  flat_map xfI (firstn i l ++ p :: skipn (S i) l ++ extra) = flat_map xfI l.
Proof.
  intros H H1 H2 H3. destruct (xflat_map_set xfI l i old p extra H) as [E1 E2].
  rewrite E1, E2, H1, H2, H3. cbn [app]. rewrite app_nil_r. reflexivity.
Qed.

Definition XConsInv (s : xst) : Prop :=
  xdelivered s ++ xdropped s ++ xinflight s ++ xq s = xpushed s.

Lemma XTokenInv_B_le1 s : XTokenInv s -> xcnt xisWInvB (xthr s) <= 1.
Proof. unfold XTokenInv, XTI. destruct (xstatus s); lia. Qed.

Lemma XTokenInv_PoB_le1 s : XTokenInv s -> xcnt xisWPop (xthr s) + xcnt xisWInvB (xthr s) <= 1.
Proof. unfold XTokenInv, XTI. destruct (xstatus s); lia. Qed.

Lemma XDropInv_noB s : XTokenInv s -> XDropInv s -> 0 < xcnt xisWInvB (xthr s) -> xdropped s = [].
Proof.
  unfold XTokenInv, XTI, XDropInv. intros HT HD HB.
  destruct (xdropped s) as [|d dr]; [reflexivity|]. exfalso.
  specialize (HD ltac:(discriminate)). destruct HD as [_ [HD|HD]].
  - rewrite HD in HT. lia.
  - destruct (xstatus s); lia.
Qed.

Lemma xfI_self_or_after ms pill : xfI (self_or_after ms pill) = [].
Proof. destruct ms, pill; reflexivity. Qed.

Lemma xfI_after_self pill : xfI (after_self pill) = [].
Proof. destruct pill; reflexivity. Qed.

Theorem xcons_inv_step c s i s' l :
  XTokenInv s -> XDropInv s -> XConsInv s -> xstep c s i = Some (s', l) -> XConsInv s'.
Proof.
  unfold XConsInv. rewrite !xinflight_eq. intros HT HD HI.
  xstep_cases0 s i Hn; unfold xset_thr.
  all: try (rewrite (xinflight_same _ _ _ _ _ Hn) by (try apply xfI_self_or_after; try apply xfI_after_self; reflexivity); exact HI).
  - (* push *)
    rewrite (xinflight_same _ _ _ _ _ Hn) by reflexivity.
    rewrite <- HI. rewrite <- !app_assoc. reflexivity.
  - (* pop *)
    pose proof (XTokenInv_PoB_le1 s HT) as Hle.
    pose proof (xcnt_pos xisWPop _ _ _ Hn eq_refl) as Hpos.
    match goal with |- context [XWInvB ?bb :: _] =>
      destruct (xinflight_only (xthr s) i XWPop (XWInvB bb) [] Hn) as [E1 E2]; [cbn; lia|] end.
    rewrite E2. rewrite E1 in HI. cbn [xfI flat_map app] in *. rewrite app_nil_r.
    rewrite firstn_skipn. exact HI.
  - (* invoke *)
    pose proof (XTokenInv_B_le1 s HT) as Hle.
    pose proof (xcnt_pos xisWInvB _ _ _ Hn eq_refl) as Hpos.
    rewrite (XDropInv_noB s HT HD Hpos) in *.
    match goal with |- context [self_or_after ?ms ?pl :: _] =>
      destruct (xinflight_only (xthr s) i (XWInvB b) (self_or_after ms pl) [] Hn) as [E1 E2]; [cbn; lia|] end.
    rewrite E2. rewrite E1 in HI. rewrite xfI_self_or_after. cbn [xfI flat_map app] in *.
    rewrite <- HI. rewrite <- (before_after_pill b) at 3. rewrite <- !app_assoc. reflexivity.
  - (* self push *)
    rewrite (xinflight_same _ _ _ _ _ Hn) by reflexivity.
    rewrite <- HI. rewrite <- !app_assoc. reflexivity.
Qed.

(* ------------------------------------------------------------------ *)
(** * Counting messages: pushed = sent by the clients + sent by the actor to itself *)

Definition xrem (p : xpc) : list msg :=
  match p with XSPush ms | XSCas ms | XWSelf ms _ | XWSelfCas ms _ => ms | _ => [] end.

Lemma xrem_self_or_after ms pill : xrem (self_or_after ms pill) = ms.
Proof. destruct ms, pill; reflexivity. Qed.
Lemma xrem_after_self pill : xrem (after_self pill) = [].
Proof. destruct pill; reflexivity. Qed.

Definition XCountInv (f : msg -> bool) (c : xconfig) (n0 : nat) (s : xst) : Prop :=
  cntm f (xpushed s) + xsumf (fun p => cntm f (xrem p)) (xthr s)
  = n0 + cntm f (flat_map (react c) (xdelivered s)).

Theorem xcount_inv_step f c n0 s i s' l :
  XCountInv f c n0 s -> xstep c s i = Some (s', l) -> XCountInv f c n0 s'.
Proof.
  unfold XCountInv. intros HI.
  xstep_cases0 s i Hn;
  match goal with
  | |- context [xset_thr ?s ?i ?p ?extra] =>
      pose proof (xsumf_set (fun z => cntm f (xrem z)) (xthr s) i _ p extra Hn) as E; unfold xset_thr
  end; cbv beta in E;
  rewrite ?xrem_self_or_after, ?xrem_after_self in E;
  cbn [xsumf fold_right xrem] in E;
  rewrite ?flat_map_app, ?cntm_app, ?cntm_cons in *;
  change (cntm f []) with 0 in *; lia.
Qed.

Lemma xstep_pushed_label c s i s' l :
  xstep c s i = Some (s', l) -> xpushed s' = xpushed s ++ pushes [l].
Proof. xstep_cases0 s i Hn; cbn [pushes flat_map app]; rewrite ?app_nil_r; reflexivity. Qed.

Lemma xrun_sched_pushed c sched : forall s s' ls,
  xrun_sched c s sched = Some (s', ls) -> xpushed s' = xpushed s ++ pushes ls.
Proof.
  induction sched as [|i r IH]; intros s s' ls H; cbn [xrun_sched] in H.
  - injection H as <- <-. cbn. rewrite app_nil_r. reflexivity.
  - destruct (xstep c s i) as [[s1 l]|] eqn:E; [|discriminate].
    destruct (xrun_sched c s1 r) as [[s2 ls2]|] eqn:E2; [|discriminate]. injection H as <- <-.
    rewrite (IH _ _ _ E2), (xstep_pushed_label _ _ _ _ _ E).
    change (l :: ls2) with ([l] ++ ls2). rewrite pushes_app, app_assoc. reflexivity.
Qed.

Lemma xrun_sched_reach c s0 sched : forall s s' ls,
  xreach c s0 s -> xrun_sched c s sched = Some (s', ls) -> xreach c s0 s'.
Proof.
  induction sched as [|i r IH]; intros s s' ls Hr H; cbn [xrun_sched] in H.
  - injection H as <- _. exact Hr.
  - destruct (xstep c s i) as [[s1 l]|] eqn:E; [|discriminate].
    destruct (xrun_sched c s1 r) as [[s2 ls2]|] eqn:E2; [|discriminate]. injection H as <- _.
    exact (IH s1 s2 ls2 (xreach_step c s0 _ _ _ _ Hr E) E2).
Qed.

(* ------------------------------------------------------------------ *)
(** * No pills (neither sent by clients nor by the actor to itself) *)

Definition XNP1 (s : xst) : Prop := xcnt xpstop (xthr s) = 0 /\ xdropped s = [].
Definition XNP2 (s : xst) : Prop := xstatus s = Stopped -> xcnt xisTCas (xthr s) = 1.

Lemma xbatch_pill_free s i b :
  XConsInv s -> pills_in (xpushed s) = false -> nth_error (xthr s) i = Some (XWInvB b) -> has_pill b = false.
Proof.
  unfold XConsInv, pills_in, has_pill. intros HC HP Hn. rewrite <- HC in HP.
  apply existsb_app_false in HP. destruct HP as [_ HP].
  apply existsb_app_false in HP. destruct HP as [_ HP].
  apply existsb_app_false in HP. destruct HP as [HP _].
  rewrite xinflight_eq in HP. destruct (xflat_map_set xfI (xthr s) i _ XDone [] Hn) as [E _].
  rewrite E in HP. apply existsb_app_false in HP. destruct HP as [_ HP].
  apply existsb_app_false in HP. destruct HP as [HP _]. exact HP.
Qed.

Theorem xnp1_step c s i s' l :
  XConsInv s -> pills_in (xpushed s) = false -> XNP1 s -> xstep c s i = Some (s', l) -> XNP1 s'.
Proof.
  unfold XNP1. intros HC HP [HS HD].
  pose proof (xbatch_pill_free s i) as Hb. specialize (fun b => Hb b HC HP).
  xstep_cases s i Hn; try (rewrite (Hb _ eq_refl) in *; discriminate);
  try (rewrite (has_pill_after _ ltac:(eassumption)), app_nil_r);
  (split; [|exact HD]);
  match goal with
  | |- context [xset_thr ?s ?i ?p ?extra] =>
      pose proof (xcnt_set xpstop (xthr s) i _ p extra Hn) as E; unfold xset_thr
  end;
  rewrite ?xcnt_cons, ?xcnt_nil in *; cbn [b2n xpstop] in *; lia.
Qed.

Theorem xnp2_step c s i s' l :
  XConsInv s -> pills_in (xpushed s) = false -> XNP1 s -> XNP2 s -> xstep c s i = Some (s', l) -> XNP2 s'.
Proof.
  unfold XNP1, XNP2. intros HC HP [HS HD] HI.
  pose proof (xbatch_pill_free s i) as Hb. specialize (fun b => Hb b HC HP).
  xstep_cases s i Hn; try (rewrite (Hb _ eq_refl) in *; discriminate);
  intros Hst; try discriminate Hst; try specialize (HI Hst); try specialize (HI eq_refl);
  match goal with
  | |- context [xset_thr ?s ?i ?p ?extra] =>
      pose proof (xcnt_set xpstop (xthr s) i _ p extra Hn) as E;
      pose proof (xcnt_set xisTCas (xthr s) i _ p extra Hn) as E2; unfold xset_thr
  end;
  rewrite ?xcnt_cons, ?xcnt_nil in *; cbn [b2n xpstop xisTCas] in *; try lia; congruence.
Qed.

(* ------------------------------------------------------------------ *)
(** * Initial states *)

Definition xvalid_start (clients : list pc) (s0 : xst) : Prop :=
  forallb client_ok clients = true /\
  ((s0 = xinit clients /\ cnt is_starter clients <= 1) \/
   (s0 = xinit_started clients /\ cnt is_starter clients = 0)).

Definition xstarted_start (clients : list pc) (s0 : xst) : Prop :=
  forallb client_ok clients = true /\
  ((s0 = xinit clients /\ cnt is_starter clients = 1) \/
   (s0 = xinit_started clients /\ cnt is_starter clients = 0)).

Lemma xstarted_valid clients s0 : xstarted_start clients s0 -> xvalid_start clients s0.
Proof. intros [H [[-> E]|[-> E]]]; (split; [exact H|]); [left|right]; split; try reflexivity; lia. Qed.

Lemma xcnt_map_inj f l : xcnt f (map inj l) = cnt (fun p => f (inj p)) l.
Proof. induction l as [|a l IH]; [reflexivity|]. cbn [map]. rewrite xcnt_cons, cnt_cons, IH. reflexivity. Qed.

Lemma xrem_inj_msgs clients : flat_map xrem (map inj clients) = program_msgs clients.
Proof.
  induction clients as [|a l IH]; [reflexivity|]. cbn [map flat_map]. rewrite IH.
  unfold program_msgs at 2. cbn [flat_map]. f_equal. destruct a; reflexivity.
Qed.

Lemma xinv_init clients s0 :
  xvalid_start clients s0 -> XTokenInv s0 /\ XDropInv s0 /\ XWakeInv s0 /\ XConsInv s0.
Proof.
  intros [Hok Hs].
  assert (HC : xcnt xisTCas (map inj clients) = cnt is_starter clients)
    by (rewrite xcnt_map_inj; apply cnt_clients_ext; [exact Hok|client_cases]).
  assert (H1 : xcnt xatTS (map inj clients) = 0) by (rewrite xcnt_map_inj; apply cnt_clients; [exact Hok|client_cases]).
  assert (H2 : xcnt xisWLoad (map inj clients) = 0) by (rewrite xcnt_map_inj; apply cnt_clients; [exact Hok|client_cases]).
  assert (H3 : xcnt xisWPop (map inj clients) = 0) by (rewrite xcnt_map_inj; apply cnt_clients; [exact Hok|client_cases]).
  assert (H4 : xcnt xisWInvB (map inj clients) = 0) by (rewrite xcnt_map_inj; apply cnt_clients; [exact Hok|client_cases]).
  assert (H5 : xcnt xselfnp (map inj clients) = 0) by (rewrite xcnt_map_inj; apply cnt_clients; [exact Hok|client_cases]).
  assert (H6 : xcnt xpstop (map inj clients) = 0) by (rewrite xcnt_map_inj; apply cnt_clients; [exact Hok|client_cases]).
  assert (H7 : xcnt xisWInvE (map inj clients) = 0) by (rewrite xcnt_map_inj; apply cnt_clients; [exact Hok|client_cases]).
  assert (H8 : xcnt xisWExit (map inj clients) = 0) by (rewrite xcnt_map_inj; apply cnt_clients; [exact Hok|client_cases]).
  assert (H9 : xcnt xis_worker (map inj clients) = 0) by (rewrite xcnt_map_inj; apply cnt_clients; [exact Hok|client_cases]).
  destruct Hs as [[-> Hc]|[-> Hc]]; unfold XTokenInv, XTI, XDropInv, XWakeInv, XConsInv, xinit, xinit_started;
  cbn [xstatus xthr xq xdelivered xdropped xpushed app];
  rewrite ?xcnt_cons; cbn [b2n xisTCas xatTS xisWLoad xisWPop xisWInvB xselfnp xpstop xisWInvE xisWExit xis_worker].
  - repeat split; try lia; try congruence.
    rewrite xinflight_eq; cbn [xthr]. rewrite xnoB_flat by exact H4. reflexivity.
  - repeat split; try lia; try congruence.
    rewrite xinflight_eq; cbn [xthr flat_map xfI app]. rewrite xnoB_flat by exact H4. reflexivity.
Qed.

Theorem xreach_inv c clients s0 s :
  xvalid_start clients s0 -> xreach c s0 s ->
  XTokenInv s /\ XDropInv s /\ XWakeInv s /\ XConsInv s.
Proof.
  intros Hv Hr. induction Hr as [|s i s' l Hr IH Hstep]; [exact (xinv_init _ _ Hv)|].
  destruct IH as (HT & HD & HW & HC). split; [|split; [|split]].
  - exact (xtoken_inv_step _ _ _ _ _ HT Hstep).
  - exact (xdrop_inv_step _ _ _ _ _ HT HD Hstep).
  - exact (xwake_inv_step _ _ _ _ _ HW Hstep).
  - exact (xcons_inv_step _ _ _ _ _ HT HD HC Hstep).
Qed.

Theorem xreach_count c clients s0 s f :
  xvalid_start clients s0 -> xreach c s0 s ->
  cntm f (xpushed s) + xsumf (fun p => cntm f (xrem p)) (xthr s)
  = cntm f (program_msgs clients) + cntm f (flat_map (react c) (xdelivered s)).
Proof.
  intros Hv Hr. change (XCountInv f c (cntm f (program_msgs clients)) s).
  induction Hr as [|s i s' l Hr IH Hstep]; [|exact (xcount_inv_step _ _ _ _ _ _ _ IH Hstep)].
  unfold XCountInv. rewrite <- xrem_inj_msgs.
  assert (G : forall l, xsumf (fun p => cntm f (xrem p)) l = cntm f (flat_map xrem l)).
  { induction l as [|a l IH]; [reflexivity|]. cbn [flat_map]. rewrite cntm_app, xsumf_cons, IH. reflexivity. }
  destruct Hv as [_ [[-> _]|[-> _]]]; cbn [xinit xinit_started xpushed xthr xdelivered flat_map];
  rewrite ?xsumf_cons, G; cbn; lia.
Qed.

Definition react_pill_free (c : xconfig) : Prop := forall m, pills_in (react c m) = false.

Lemma cntm_flat_map_zero {A} f (g : A -> list msg) l : (forall a, cntm f (g a) = 0) -> cntm f (flat_map g l) = 0.
Proof. intros H. induction l as [|a l IH]; [reflexivity|]. cbn [flat_map]. rewrite cntm_app, H, IH. reflexivity. Qed.

Lemma xpushed_pill_free c clients s0 s :
  xvalid_start clients s0 -> pills_in (program_msgs clients) = false -> react_pill_free c ->
  xreach c s0 s -> pills_in (xpushed s) = false.
Proof.
  intros Hv HP HR Hr. pose proof (xreach_count c clients s0 s is_pill Hv Hr) as E.
  apply cntm_zero_existsb in HP. apply cntm_zero_existsb.
  rewrite cntm_flat_map_zero in E by (intros a; apply cntm_zero_existsb; apply HR).
  unfold pills_in in *. lia.
Qed.

Theorem xreach_np1 c clients s0 s :
  xvalid_start clients s0 -> pills_in (program_msgs clients) = false -> react_pill_free c ->
  xreach c s0 s -> XNP1 s.
Proof.
  intros Hv HP HR Hr. induction Hr as [|s i s' l Hr IH Hstep].
  - destruct (xinv_init _ _ Hv) as (HT & _). destruct Hv as [_ [[-> _]|[-> _]]];
    (split; [|reflexivity]); unfold XTokenInv, XTI in HT; cbn [xstatus xthr xinit xinit_started] in *; xsimp_cnts; lia.
  - destruct (xreach_inv c _ _ _ Hv Hr) as (_ & _ & _ & HC).
    exact (xnp1_step _ _ _ _ _ HC (xpushed_pill_free _ _ _ _ Hv HP HR Hr) IH Hstep).
Qed.

Theorem xreach_np2 c clients s0 s :
  xstarted_start clients s0 -> pills_in (program_msgs clients) = false -> react_pill_free c ->
  xreach c s0 s -> XNP2 s.
Proof.
  intros Hs HP HR Hr. pose proof (xstarted_valid _ _ Hs) as Hv. induction Hr as [|s i s' l Hr IH Hstep].
  - destruct Hs as [Hok [[-> Hc]|[-> Hc]]]; unfold XNP2, xinit, xinit_started; cbn [xstatus xthr]; intros Hst; [|discriminate].
    rewrite <- Hc, xcnt_map_inj. apply cnt_clients_ext; [exact Hok|client_cases].
  - destruct (xreach_inv c _ _ _ Hv Hr) as (_ & _ & _ & HC).
    exact (xnp2_step _ _ _ _ _ HC (xpushed_pill_free _ _ _ _ Hv HP HR Hr) (xreach_np1 _ _ _ _ Hv HP HR Hr) IH Hstep).
Qed.

(* ------------------------------------------------------------------ *)
(** * Safety theorems *)

Theorem xtoken_invariant c clients s0 s :
  xvalid_start clients s0 -> xreach c s0 s ->
  (xstatus s = Running -> xcnt xholder (xthr s) = 1) /\
  (xstatus s = Idle \/ xstatus s = Starting -> xcnt xholder (xthr s) = 0) /\
  (xstatus s = Stopped -> xcnt xholder (xthr s) <= 1) /\
  (xcnt xisTCas (xthr s) + xcnt xatTS (xthr s) >= 1 -> xcnt xis_worker (xthr s) = 0).
Proof.
  intros Hv Hr. destruct (xreach_inv c _ _ _ Hv Hr) as (HT & _).
  unfold XTokenInv, XTI in HT. rewrite xcnt_holder_split.
  destruct (xstatus s); (split; [|split; [|split]]);
  try (intros [E|E]; try discriminate E); try (intros E; try discriminate E); lia.
Qed.

Theorem xreceive_mutex c clients s0 s :
  xvalid_start clients s0 -> xreach c s0 s -> xcnt xin_region (xthr s) <= 1.
Proof.
  intros Hv Hr. destruct (xreach_inv c _ _ _ Hv Hr) as (HT & _).
  assert (xcnt xholder (xthr s) <= 1)
    by (unfold XTokenInv, XTI in HT; rewrite xcnt_holder_split; destruct (xstatus s); lia).
  assert (xcnt xin_region (xthr s) <= xcnt xholder (xthr s)); [|lia].
  apply xcnt_le. intros p; destruct p; cbn; congruence.
Qed.

(* the self-sends never acquire the token: the worker's own CAS idle->running fails *)
Theorem xself_cas_fails c clients s0 s i ms pill s' l :
  xvalid_start clients s0 -> xreach c s0 s ->
  nth_error (xthr s) i = Some (XWSelfCas ms pill) -> xstep c s i = Some (s', l) ->
  l = LCas Idle Running false /\ length (xthr s') = length (xthr s).
Proof.
  intros Hv Hr Hn Hstep. destruct (xreach_inv c _ _ _ Hv Hr) as (HT & _).
  assert (Hst : xstatus s <> Idle).
  { intros E. unfold XTokenInv, XTI in HT. rewrite E in HT.
    pose proof (xcnt_pos xselfnp _ _ _ Hn). pose proof (xcnt_pos xpstop _ _ _ Hn).
    destruct pill; cbn in *; [specialize (H0 eq_refl)|specialize (H eq_refl)]; lia. }
  unfold xstep in Hstep. rewrite Hn in Hstep. unfold xkick in Hstep.
  destruct (xstatus s); try congruence; cbn [status_eqb] in Hstep; injection Hstep as <- <-;
  (split; [reflexivity|]); unfold xupd, xset_thr; cbn [xthr]; rewrite (set_length _ _ _ _ _ Hn); cbn; lia.
Qed.

Theorem xconservation c clients s0 s :
  xvalid_start clients s0 -> xreach c s0 s ->
  xdelivered s ++ xdropped s ++ xinflight s ++ xq s = xpushed s.
Proof. intros Hv Hr. exact (proj2 (proj2 (proj2 (xreach_inv c _ _ _ Hv Hr)))). Qed.

Theorem xwakeup_invariant c clients s0 s :
  xvalid_start clients s0 -> xreach c s0 s ->
  xstatus s = Idle -> xq s <> [] -> 0 < xcnt xpending_kick (xthr s).
Proof. intros Hv Hr. exact (proj1 (proj2 (proj2 (xreach_inv c _ _ _ Hv Hr)))). Qed.

(* ------------------------------------------------------------------ *)
(** * Quiescent states *)

Lemma xquiescent_all_done s p : xquiescent s = true -> In p (xthr s) -> p = XDone.
Proof.
  unfold xquiescent. rewrite forallb_forall. intros H Hp. specialize (H p Hp). destruct p; try discriminate H. reflexivity.
Qed.

Lemma xquiescent_cnt s f : xquiescent s = true -> f XDone = false -> xcnt f (xthr s) = 0.
Proof. intros H Hf. apply xcnt_zero_all. intros p Hp. rewrite (xquiescent_all_done s p H Hp). exact Hf. Qed.

Lemma xsumf_zero_all g l : (forall p, In p l -> g p = 0) -> xsumf g l = 0.
Proof.
  induction l as [|a l IH]; intros H; [reflexivity|]. rewrite xsumf_cons, (H a (or_introl eq_refl)), IH.
  - reflexivity.
  - intros p Hp. apply H. right. exact Hp.
Qed.

Lemma xquiescent_sumf s g : xquiescent s = true -> g XDone = 0 -> xsumf g (xthr s) = 0.
Proof. intros H Hg. apply xsumf_zero_all. intros p Hp. rewrite (xquiescent_all_done s p H Hp). exact Hg. Qed.

Lemma xquiescent_inflight s : xquiescent s = true -> xinflight s = [].
Proof. intros H. rewrite xinflight_eq. apply xnoB_flat. apply xquiescent_cnt; [exact H|reflexivity]. Qed.

(* all threads finished => idle, empty queue, every pushed message invoked;
   and what was pushed is what the clients sent plus what the actor sent to
   itself in reaction to the delivered messages *)
Theorem xquiescent_is_drained c clients s0 s :
  xstarted_start clients s0 -> pills_in (program_msgs clients) = false -> react_pill_free c ->
  xreach c s0 s -> xquiescent s = true ->
  xstatus s = Idle /\ xq s = [] /\ xdelivered s = xpushed s /\
  (forall f, cntm f (xpushed s) = cntm f (program_msgs clients) + cntm f (flat_map (react c) (xdelivered s))).
Proof.
  intros Hs HP HR Hr Hq. pose proof (xstarted_valid _ _ Hs) as Hv.
  destruct (xreach_inv c _ _ _ Hv Hr) as (HT & _ & HW & HC).
  destruct (xreach_np1 c _ _ _ Hv HP HR Hr) as [_ HD].
  pose proof (xreach_np2 c _ _ _ Hs HP HR Hr) as H2.
  assert (Hst : xstatus s = Idle).
  { unfold XTokenInv, XTI in HT. unfold XNP2 in H2.
    rewrite (xquiescent_cnt s xisTCas Hq), (xquiescent_cnt s xatTS Hq), (xquiescent_cnt s xisWLoad Hq),
      (xquiescent_cnt s xisWPop Hq), (xquiescent_cnt s xisWInvB Hq), (xquiescent_cnt s xselfnp Hq),
      (xquiescent_cnt s xpstop Hq), (xquiescent_cnt s xisWInvE Hq), (xquiescent_cnt s xisWExit Hq) in * by reflexivity.
    destruct (xstatus s); try reflexivity; try lia. specialize (H2 eq_refl). lia. }
  assert (Hqe : xq s = []).
  { destruct (xq s) as [|m r] eqn:E; [reflexivity|]. exfalso.
    unfold XWakeInv in HW. rewrite E in HW. specialize (HW Hst ltac:(discriminate)).
    rewrite (xquiescent_cnt s xpending_kick Hq) in HW by reflexivity. lia. }
  split; [exact Hst|]. split; [exact Hqe|]. split.
  - unfold XConsInv in HC. rewrite HD, (xquiescent_inflight s Hq), Hqe in HC. cbn [app] in HC.
    rewrite app_nil_r in HC. exact HC.
  - intros f. pose proof (xreach_count c _ _ _ f Hv Hr) as E.
    rewrite (xquiescent_sumf s _ Hq) in E by reflexivity. lia.
Qed.

(* delivery order = real-time order of the pushes, the actor's own included:
   successive sends of one actor (its self-sends are LPush labels of its
   worker thread, in script order) are received in that order *)
Theorem xhappens_before_order c clients s0 sched s ls :
  xstarted_start clients s0 -> pills_in (program_msgs clients) = false -> react_pill_free c ->
  xrun_sched c s0 sched = Some (s, ls) -> xquiescent s = true ->
  xdelivered s = pushes ls /\
  forall l1 m1 l2 m2 l3, ls = l1 ++ LPush m1 :: l2 ++ LPush m2 :: l3 ->
    xdelivered s = pushes l1 ++ m1 :: pushes l2 ++ m2 :: pushes l3.
Proof.
  intros Hs HP HR Hrun Hq.
  assert (Hr : xreach c s0 s) by (eapply xrun_sched_reach; [apply xreach_refl|exact Hrun]).
  destruct (xquiescent_is_drained c _ _ _ Hs HP HR Hr Hq) as (_ & _ & E & _).
  assert (E0 : xpushed s0 = []) by (destruct Hs as [_ [[-> _]|[-> _]]]; reflexivity).
  rewrite E, (xrun_sched_pushed _ _ _ _ _ Hrun), E0. cbn [app]. split; [reflexivity|].
  intros l1 m1 l2 m2 l3 ->.
  change (LPush m1 :: l2 ++ LPush m2 :: l3) with ([LPush m1] ++ l2 ++ [LPush m2] ++ l3).
  rewrite !pushes_app. reflexivity.
Qed.

(* ------------------------------------------------------------------ *)
(** * Termination for well-founded fan-out *)

(* total weight of a list of messages; a message not yet pushed costs one more *)
Definition W (wt : msg -> nat) (l : list msg) : nat := fold_right (fun m a => wt m + a) 0 l.
Definition W1 (wt : msg -> nat) (l : list msg) : nat := W wt l + length l.

(* the weight of a message pays for everything it makes the actor send to itself *)
Definition fan_ok (c : xconfig) (wt : msg -> nat) : Prop := forall m, W1 wt (react c m) < wt m.

Lemma W_app wt a b : W wt (a ++ b) = W wt a + W wt b.
Proof. induction a as [|x a IH]; [reflexivity|]. cbn [app W fold_right] in *. fold (W wt (a ++ b)). fold (W wt a). lia. Qed.

Lemma xsumf_nil g : xsumf g [] = 0.
Proof. reflexivity. Qed.

Lemma W_nil wt : W wt [] = 0.
Proof. reflexivity. Qed.

Lemma W_cons wt m l : W wt (m :: l) = wt m + W wt l.
Proof. reflexivity. Qed.

Lemma W1_fan c wt l : fan_ok c wt -> W1 wt (flat_map (react c) l) <= W wt l.
Proof.
  intros H. induction l as [|m l IH]; [cbn; lia|]. cbn [flat_map]. unfold W1 in *.
  rewrite W_app, app_length, W_cons. specialize (H m). unfold W1 in H. lia.
Qed.

Lemma W_before_pill wt b : W wt (before_pill b) <= W wt b.
Proof. rewrite <- (before_after_pill b) at 2. rewrite W_app. lia. Qed.

Definition xgU wt (p : xpc) : nat := W1 wt (xrem p) + W wt (xfI p).
Definition xgA (p : xpc) : nat :=
  match p with XSCas _ | XTCas | XTSwap | XTSched | XWSched | XWSelfCas _ _ => 1 | _ => 0 end.
Definition xgLen (p : xpc) : nat := match p with XWLen => 1 | _ => 0 end.
Definition xgExit (p : xpc) : nat := b2n (xisWExit p).
Definition xgL (p : xpc) : nat :=
  match p with
  | XWLen => 1 | XWExit => 2 | XWPop => 3 | XWLoad => 4 | XWInvE => 5 | XWStop => 6
  | XWSelf _ _ => 8 | XWInvB _ => 9
  | XTCas => 2 | XTSwap => 1 | XSPush [] => 1 | _ => 0
  end.

(* weight of everything still to be delivered, counting what it will cause *)
Definition xmU wt (s : xst) : nat := xsumf (xgU wt) (xthr s) + W wt (xq s).
Definition xmK (s : xst) : nat :=
  xsumf xgA (xthr s) +
  (if qne (xq s) then xsumf xgLen (xthr s) + (if status_eqb (xstatus s) Stopped then 0 else xsumf xgExit (xthr s)) else 0).
Definition xmL (s : xst) : nat := 8 * length (xq s) + xsumf xgL (xthr s).
Definition xmeas wt (s : xst) : nat * nat * nat := (xmU wt s, xmK s, xmL s).

Lemma xsumf_b2n f l : xsumf (fun p => b2n (f p)) l = xcnt f l.
Proof. induction l as [|a l IH]; [reflexivity|]. rewrite xsumf_cons, xcnt_cons, IH. reflexivity. Qed.

Lemma self_or_after_meas wt ms pill :
  xgU wt (self_or_after ms pill) = W1 wt ms /\ xgA (self_or_after ms pill) = 0 /\
  xgLen (self_or_after ms pill) = 0 /\ xgExit (self_or_after ms pill) = 0 /\
  5 <= xgL (self_or_after ms pill) <= 8.
Proof. destruct ms, pill; cbn; repeat split; lia. Qed.

Lemma after_self_meas wt pill :
  xgU wt (after_self pill) = 0 /\ xgA (after_self pill) = 0 /\
  xgLen (after_self pill) = 0 /\ xgExit (after_self pill) = 0 /\ 5 <= xgL (after_self pill) <= 6.
Proof. destruct pill; cbn; repeat split; lia. Qed.

Ltac xpose_sums wt Hn :=
  match goal with
  | |- context [xset_thr ?s ?i ?p ?extra] =>
      pose proof (xsumf_set (xgU wt) (xthr s) i _ p extra Hn);
      pose proof (xsumf_set xgA (xthr s) i _ p extra Hn);
      pose proof (xsumf_set xgLen (xthr s) i _ p extra Hn);
      pose proof (xsumf_set xgExit (xthr s) i _ p extra Hn);
      pose proof (xsumf_set xgL (xthr s) i _ p extra Hn);
      unfold xset_thr
  end.

Theorem xmeasure_decreases c wt s i s' l :
  1 <= xbound c -> fan_ok c wt -> XTokenInv s -> xstep c s i = Some (s', l) ->
  lexlt3 (xmeas wt s') (xmeas wt s).
Proof.
  intros Hb Hfan HT. unfold xmeas, lexlt3, xmU, xmK, xmL.
  assert (HX : xstatus s = Stopped -> 0 < xcnt xisTCas (xthr s) -> xsumf xgExit (xthr s) = 0).
  { intros Hst HC. unfold xgExit. rewrite xsumf_b2n. unfold XTokenInv, XTI in HT. rewrite Hst in HT. lia. }
  pose proof (skipn_shorter (xbound c) (xq s) Hb) as Hsk.
  assert (Hln : forall m, length (xq s ++ [m]) = S (length (xq s))) by (intros m; rewrite app_length; cbn; lia).
  assert (Hqn : forall m, qne (xq s ++ [m]) = true) by (intros m; destruct (xq s); reflexivity).
  assert (HWq : forall m, W wt (xq s ++ [m]) = W wt (xq s) + wt m) by (intros m; rewrite W_app; cbn; lia).
  assert (HWs : W wt (firstn (xbound c) (xq s)) + W wt (skipn (xbound c) (xq s)) = W wt (xq s))
    by (rewrite <- W_app, firstn_skipn; reflexivity).
  destruct (xstatus s) eqn:Hst; xstep_cases0 s i Hn; try congruence; rewrite ?Hst; cbn [status_eqb];
  try (pose proof (HX eq_refl (xcnt_pos xisTCas _ _ _ Hn eq_refl)));
  try (exfalso; pose proof (xcnt_pos xatTS _ _ _ Hn eq_refl); unfold XTokenInv, XTI in HT; rewrite Hst in HT; lia);
  try match goal with |- context [self_or_after ?ms ?pl] => pose proof (self_or_after_meas wt ms pl) end;
  try match goal with |- context [after_self ?pl] => pose proof (after_self_meas wt pl) end;
  try match goal with |- context [flat_map (react c) (before_pill ?b)] =>
        pose proof (W1_fan c wt (before_pill b) Hfan); pose proof (W_before_pill wt b) end;
  xpose_sums wt Hn; rewrite ?Hln, ?Hqn, ?HWq; unfold xgU, W1 in *;
  rewrite ?xsumf_cons, ?xsumf_nil in *;
  cbn [xgA xgLen xgExit xgL xrem xfI b2n xisWExit length qne] in *;
  rewrite ?W_cons, ?W_nil in *;
  try match goal with H : xq s = _ |- _ => rewrite H in * end; cbn [qne length] in *;
  try specialize (Hsk ltac:(discriminate));
  try match goal with |- context [skipn (xbound c) ?l] => destruct (skipn (xbound c) l) eqn:?; cbn [qne length] in * end;
  try (destruct (xq s); cbn [qne]);
  lia.
Qed.

Definition Rxstep (c : xconfig) (s0 : xst) : xst -> xst -> Prop :=
  fun s2 s1 => exists i l, xstep c s1 i = Some (s2, l) /\ xreach c s0 s1.

Theorem xterminates c wt clients s0 :
  xvalid_start clients s0 -> 1 <= xbound c -> fan_ok c wt -> well_founded (Rxstep c s0).
Proof.
  intros Hv Hb Hf s.
  apply (Acc_incl _ (Rxstep c s0) (fun x y => lexlt3 (xmeas wt x) (xmeas wt y))).
  - intros s2 s1 (i & l & Hstep & Hr).
    destruct (xreach_inv c _ _ _ Hv Hr) as (HT & _).
    exact (xmeasure_decreases c wt s1 i s2 l Hb Hf HT Hstep).
  - apply (Acc_inverse_image _ _ lexlt3 (xmeas wt)). apply lexlt3_wf.
Qed.

Lemma xstep_enabled c s i p :
  nth_error (xthr s) i = Some p -> xis_done p = false -> xstep c s i <> None.
Proof.
  intros H Hd. unfold xstep. rewrite H.
  destruct p as [[|? ?]|ms| | | | | |b|[|? ?] pill|ms pill| | | | | | ]; try discriminate Hd;
  try (destruct (status_eqb (xstatus s) _)); try (destruct (xq s)); unfold xkick;
  try (destruct (status_eqb (xstatus s) _)); discriminate.
Qed.

Theorem xno_deadlock c s :
  xquiescent s = false -> exists i, i < length (xthr s) /\ xstep c s i <> None.
Proof.
  intros H. apply forallb_false_ex in H. destruct H as (p & Hp & Hd).
  apply In_nth_error in Hp. destruct Hp as [i Hi]. exists i. split.
  - apply nth_error_Some. congruence.
  - exact (xstep_enabled c s i p Hi Hd).
Qed.

Inductive xinev (c : xconfig) (P : xst -> Prop) : xst -> Prop :=
| xinev_now s : P s -> xinev c P s
| xinev_step s : (exists i, xstep c s i <> None) ->
                 (forall i s' l, xstep c s i = Some (s', l) -> xinev c P s') -> xinev c P s.

(* every maximal run is finite and ends drained: the actor's sends to itself
   need no further stimulus either *)
Theorem xevery_run_drains c wt clients s0 s :
  xstarted_start clients s0 -> pills_in (program_msgs clients) = false -> react_pill_free c ->
  1 <= xbound c -> fan_ok c wt -> xreach c s0 s ->
  xinev c (fun t => xquiescent t = true /\ xstatus t = Idle /\ xq t = [] /\ xdelivered t = xpushed t /\
                    length (xpushed t) = length (program_msgs clients) + length (flat_map (react c) (xdelivered t))) s.
Proof.
  intros Hs HP HR Hb Hf. pose proof (xstarted_valid _ _ Hs) as Hv.
  induction (xterminates c wt clients s0 Hv Hb Hf s) as [s _ IH]. intros Hr.
  destruct (xquiescent s) eqn:E.
  - apply xinev_now. split; [exact E|].
    destruct (xquiescent_is_drained c _ _ _ Hs HP HR Hr E) as (E1 & E2 & E3 & E4).
    split; [exact E1|]. split; [exact E2|]. split; [exact E3|].
    specialize (E4 (fun _ => true)). rewrite !cntm_true in E4. exact E4.
  - apply xinev_step.
    + destruct (xno_deadlock c s E) as (i & _ & Hi). exists i. exact Hi.
    + intros i s' l Hstep. apply IH.
      * exists i, l. split; [exact Hstep|exact Hr].
      * exact (xreach_step c s0 _ _ _ _ Hr Hstep).
Qed.

(* ------------------------------------------------------------------ *)
(** * Non-vacuity *)

(* messages 100..199 make the actor send (m - 100) to itself twice-removed:
   100+k -> [k; 50+k] for k < 50 *)
Definition ex_react (m : msg) : list msg :=
  if (100 <=? m) && (m <? 150) then [m - 100; m - 50] else [].
Definition ex_wt (m : msg) : nat := if (100 <=? m) && (m <? 150) then 5 else 1.
Definition ex_xc : xconfig := {| xbound := 2; react := ex_react |}.

Example ex_fan_ok : fan_ok ex_xc ex_wt.
Proof.
  intros m. unfold ex_xc, react, ex_react, ex_wt.
  destruct ((100 <=? m) && (m <? 150)) eqn:E; [|cbn; lia].
  apply andb_prop in E. destruct E as [E1 E2]. apply Nat.leb_le in E1. apply Nat.ltb_lt in E2.
  unfold W1. cbn [W fold_right length].
  replace ((100 <=? m - 100) && (m - 100 <? 150)) with false
    by (symmetry; apply andb_false_intro1; apply Nat.leb_gt; lia).
  replace ((100 <=? m - 50) && (m - 50 <? 150)) with false
    by (symmetry; apply andb_false_intro1; apply Nat.leb_gt; lia).
  lia.
Qed.

Example ex_react_pill_free : react_pill_free ex_xc.
Proof.
  intros m. unfold ex_xc, react, ex_react. destruct ((100 <=? m) && (m <? 150)) eqn:E; [|reflexivity].
  apply andb_prop in E. destruct E as [E1 E2]. apply Nat.leb_le in E1. apply Nat.ltb_lt in E2.
  unfold pills_in, is_pill, pill_base. cbn [existsb].
  rewrite !orb_false_iff. repeat split; apply Nat.leb_gt; lia.
Qed.

(* one sender sends 101 then 7; the actor reacts to 101 by sending itself 1 and 51 *)
Example ex_self_run :
  exists s ls,
    xrun_sched ex_xc (xinit [SPush [101; 7]; TCas])
      [0; 1; 0; 1; 0; 1; 0; 2; 2; 2; 2; 2; 2; 2; 2; 2; 2; 2; 2; 2; 2; 2; 2] = Some (s, ls) /\
    xquiescent s = true /\ xstatus s = Idle /\ xq s = [] /\
    xdelivered s = [101; 7; 1; 51] /\ xpushed s = [101; 7; 1; 51] /\ pushes ls = [101; 7; 1; 51] /\
    In (LCas Idle Running false) ls.
Proof. eexists. eexists. split; [vm_compute; reflexivity|]. vm_compute. intuition. Qed.
