(** Proofs about Events.v: C12 (event stream) and C09 (undeliverable messages). *)
From stdpp Require Import list sets.
From Coq Require Import Lia ssreflect.
From HV Require Export Events.
Local Open Scope general_if_scope.

(** * Routing *)

Definition live (v : view) (p : pid) : Prop := is_local v p = true ∧ registered v p = true.
Global Instance live_dec v p : Decision (live v p).
Proof. rewrite /live. apply _. Defined.

Lemma route_total v t m s : route v t m s ≠ Panicked.
Proof. destruct t as [p|]; simpl; [|done]. by repeat case_match. Qed.

(* the five classes of targets *)
Lemma route_nil v m s : route v None m s = Dropped.
Proof. done. Qed.
Lemma route_live v p m s : live v p → route v (Some p) m s = ToInbox p m s.
Proof. intros [H1 H2]. by rewrite /route H1 H2. Qed.
Lemma route_dead v p m s :
  is_local v p = true → registered v p = false → route v (Some p) m s = DeadLetter p m s.
Proof. intros H1 H2. by rewrite /route H1 H2. Qed.
Lemma route_missing v p m s :
  is_local v p = false → v_remote v = false → route v (Some p) m s = RemoteMissing p m s.
Proof. intros H1 H2. by rewrite /route H1 H2. Qed.
Lemma route_remote v p m s :
  is_local v p = false → v_remote v = true → route v (Some p) m s = ToRemote p m s.
Proof. intros H1 H2. by rewrite /route H1 H2. Qed.

Lemma live_reachable v p : live v p → unreachable v p = false.
Proof. intros [H1 H2]. by rewrite /unreachable H1 H2. Qed.

(* a forward comes back as an event exactly when the subscriber is unreachable *)
Lemma route_event_iff v p m s :
  is_Some (outcome_event (route v (Some p) m s)) ↔ unreachable v p = true.
Proof.
  rewrite /route /unreachable.
  destruct (is_local v p), (registered v p), (v_remote v); simpl; split; intros Hx;
    try done; try (by inversion Hx); by eauto.
Qed.

Lemma route_delivery_iff v p m s :
  is_Some (outcome_delivery (route v (Some p) m s)) ↔ live v p.
Proof.
  rewrite /route /live.
  destruct (is_local v p), (registered v p), (v_remote v); simpl; split; intros Hx;
    try done; try (by inversion Hx); try (by destruct Hx); by eauto.
Qed.

(** * The subscriber set *)

Lemma subs_add_nodup p subs : NoDup subs → NoDup (subs_add p subs).
Proof.
  intros Hn. rewrite /subs_add. case_decide; [done|].
  apply NoDup_app. split_and!; [done| |apply NoDup_singleton].
  intros x Hx ->%elem_of_list_singleton. done.
Qed.
Lemma subs_del_nodup p subs : NoDup subs → NoDup (subs_del p subs).
Proof. apply NoDup_filter. Qed.
Lemma elem_of_subs_add q p subs : q ∈ subs_add p subs ↔ q ∈ subs ∨ q = p.
Proof.
  rewrite /subs_add. case_decide.
  - split; [by left|]. intros [?| ->]; done.
  - rewrite elem_of_app elem_of_list_singleton. done.
Qed.
Lemma elem_of_subs_del q p subs : q ∈ subs_del p subs ↔ q ∈ subs ∧ q ≠ p.
Proof. rewrite /subs_del elem_of_list_filter. tauto. Qed.

Lemma subs_add_idem p subs : subs_add p (subs_add p subs) = subs_add p subs.
Proof.
  rewrite {1}/subs_add. case_decide as Hd; [done|]. exfalso. apply Hd, elem_of_subs_add. by right.
Qed.

Lemma es_step_nodup v es subs m : NoDup subs → NoDup (es_step v es subs m).1.
Proof.
  destruct m; simpl; auto using subs_add_nodup, subs_del_nodup. apply NoDup_filter.
Qed.

Lemma es_run_nodup es h : ∀ subs, NoDup subs → NoDup (es_run es subs h).1.
Proof.
  induction h as [|[v m] h IH]; intros subs Hn; simpl; [done|].
  destruct (es_step v es subs m) as [s1 f1] eqn:E1.
  specialize (IH s1). destruct (es_run es s1 h) as [s2 f2]. simpl in *.
  apply IH. by rewrite (eq_refl : s1 = (s1, f1).1) -E1; apply es_step_nodup.
Qed.

(** * Deliveries *)

Lemma deliveries_to_app p l1 l2 : deliveries_to p (l1 ++ l2) = deliveries_to p l1 ++ deliveries_to p l2.
Proof. apply omap_app. Qed.
Lemma deliveries_to_cons p t m s l :
  deliveries_to p ((t, m, s) :: l) = (if decide (t = p) then [m] else []) ++ deliveries_to p l.
Proof. rewrite /deliveries_to. cbn. by destruct (decide (t = p)). Qed.
Lemma delivered_to_app p f1 f2 : delivered_to p (f1 ++ f2) = delivered_to p f1 ++ delivered_to p f2.
Proof. by rewrite /delivered_to omap_app deliveries_to_app. Qed.

Lemma delivered_to_cons p q o fw :
  delivered_to p ((q, o) :: fw) =
  match outcome_delivery o with
  | Some (t, m, _) => if decide (t = p) then [m] else []
  | None => []
  end ++ delivered_to p fw.
Proof.
  rewrite /delivered_to /=. destruct (outcome_delivery o) as [[[t m] s]|]; [|done].
  by rewrite deliveries_to_cons.
Qed.

Definition forwards (v : view) (es : pid) (e : msg) (subs : list pid) : list (pid * outcome) :=
  (λ q, (q, route v (Some q) e (Some es))) <$> subs.

(* one event, forwarded to a duplicate-free subscriber set, reaches a live
   subscriber exactly once and nobody else *)
Lemma delivered_forwards v es e p subs :
  NoDup subs →
  delivered_to p (forwards v es e subs) =
  if decide (p ∈ subs ∧ live v p) then [e] else [].
Proof.
  induction 1 as [|q subs Hq Hn IH].
  { case_decide as Hd; [|done]. destruct Hd as [Hd%elem_of_nil _]. done. }
  change (forwards v es e (q :: subs)) with ((q, route v (Some q) e (Some es)) :: forwards v es e subs).
  rewrite delivered_to_cons IH.
  destruct (decide (live v q)) as [Hl|Hl].
  - rewrite (route_live _ _ _ _ Hl) /=.
    repeat case_decide; simpl; try done; exfalso; set_solver.
  - destruct (outcome_delivery (route v (Some q) e (Some es))) as [d|] eqn:E.
    { exfalso. apply Hl, (route_delivery_iff v q e (Some es)). by rewrite E. }
    simpl. repeat case_decide; try done; exfalso; set_solver.
Qed.

(** * C12 *)

Lemma es_step_delivered v es subs m p :
  NoDup subs → live v p →
  delivered_to p (es_step v es subs m).2 =
    match m with Ev e => if bool_decide (p ∈ subs) then [e] else [] | _ => [] end.
Proof.
  intros Hn Hl. destruct m as [q|q|e]; simpl; [done..|].
  fold (forwards v es e subs). rewrite delivered_forwards //.
  case_bool_decide; case_decide; naive_solver.
Qed.

Lemma es_step_member v es subs m p :
  live v p →
  bool_decide (p ∈ (es_step v es subs m).1) =
    match m with
    | Sub q => bool_decide (p ∈ subs) || bool_decide (q = p)
    | Unsub q => bool_decide (p ∈ subs) && negb (bool_decide (q = p))
    | Ev _ => bool_decide (p ∈ subs)
    end.
Proof.
  intros Hl. destruct m as [q|q|e]; simpl.
  - apply eq_true_iff_eq. rewrite orb_true_iff !bool_decide_eq_true elem_of_subs_add. naive_solver.
  - apply eq_true_iff_eq. rewrite andb_true_iff negb_true_iff !bool_decide_eq_true
      bool_decide_eq_false elem_of_subs_del. naive_solver.
  - apply bool_decide_ext. rewrite elem_of_list_filter. pose proof (live_reachable _ _ Hl). tauto.
Qed.

(* the main statement: whatever the subscriber set at the start, whatever
   other actors subscribe, unsubscribe, stop or vanish meanwhile *)
Lemma once_between_sub_and_unsub es p h :
  ∀ subs, NoDup subs → Forall (λ x, live x.1 p) h →
  delivered_to p (es_run es subs h).2 = between p (bool_decide (p ∈ subs)) (h.*2).
Proof.
  induction h as [|[v m] h IH]; intros subs Hn Hl; simpl; [done|].
  apply Forall_cons in Hl as [Hv Hl]. simpl in Hv.
  pose proof (es_step_nodup v es subs m Hn) as Hn1.
  pose proof (es_step_delivered v es subs m p Hn Hv) as Hd.
  pose proof (es_step_member v es subs m p Hv) as Hm.
  destruct (es_step v es subs m) as [s1 f1]. simpl in *.
  specialize (IH s1 Hn1 Hl). destruct (es_run es s1 h) as [s2 f2]. simpl in *.
  rewrite delivered_to_app Hd IH Hm. by destruct m.
Qed.

(** ** the general form: a subscriber whose reachability changes *)




Lemma liveb_live v p : liveb v p = true ↔ live v p.
Proof. rewrite /liveb /live andb_true_iff. done. Qed.

Lemma handed_to_app p f1 f2 : handed_to p (f1 ++ f2) = handed_to p f1 ++ handed_to p f2.
Proof. apply omap_app. Qed.

Lemma handed_forwards v es e p subs :
  NoDup subs →
  handed_to p (forwards v es e subs) = if decide (p ∈ subs) then (if reachable v p then [e] else []) else [].
Proof.
  induction 1 as [|q subs Hq Hn IH].
  { case_decide as Hd; [|done]. by apply elem_of_nil in Hd. }
  change (forwards v es e (q :: subs)) with ([(q, route v (Some q) e (Some es))] ++ forwards v es e subs).
  rewrite handed_to_app IH.
  assert (handed_to p [(q, route v (Some q) e (Some es))] =
          if decide (q = p) then (if reachable v p then [e] else []) else []) as ->.
  { rewrite /handed_to /route /reachable /unreachable /=.
    destruct (is_local v q) eqn:E1, (registered v q) eqn:E2, (v_remote v) eqn:E3; simpl;
      repeat case_decide; subst; rewrite ?E1 ?E2 ?E3 //=. }
  repeat case_decide; try done; try (exfalso; set_solver).
  - by rewrite app_nil_r.
Qed.

Lemma delivered_forwards' v es e p subs :
  NoDup subs →
  delivered_to p (forwards v es e subs) = if decide (p ∈ subs) then (if liveb v p then [e] else []) else [].
Proof.
  intros Hn. rewrite delivered_forwards //. pose proof (liveb_live v p).
  destruct (liveb v p); repeat case_decide; try done; exfalso; naive_solver.
Qed.

Section general.
Context (proj : pid → list (pid * outcome) → list msg) (ok : view → pid → bool).
Hypothesis proj_nil : ∀ p, proj p [] = [].
Hypothesis proj_app : ∀ p f1 f2, proj p (f1 ++ f2) = proj p f1 ++ proj p f2.
Hypothesis proj_forwards : ∀ v es e p subs,
  NoDup subs → proj p (forwards v es e subs) = if decide (p ∈ subs) then (if ok v p then [e] else []) else [].

Lemma run_between_g es p h : ∀ subs,
  NoDup subs → proj p (es_run es subs h).2 = between_g ok p (bool_decide (p ∈ subs)) h.
Proof.
  induction h as [|[v m] h IH]; intros subs Hn; simpl; [done|].
  pose proof (es_step_nodup v es subs m Hn) as Hn1.
  destruct m as [q|q|e]; simpl in *.
  - specialize (IH _ Hn1). destruct (es_run es (subs_add q subs) h) as [s2 f2]. simpl in *.
    rewrite IH. f_equal. apply eq_true_iff_eq.
    rewrite orb_true_iff !bool_decide_eq_true elem_of_subs_add. naive_solver.
  - specialize (IH _ Hn1). destruct (es_run es (subs_del q subs) h) as [s2 f2]. simpl in *.
    rewrite IH. f_equal. apply eq_true_iff_eq.
    rewrite andb_true_iff negb_true_iff !bool_decide_eq_true bool_decide_eq_false elem_of_subs_del. naive_solver.
  - specialize (IH _ Hn1). destruct (es_run es (filter (λ q, unreachable v q = false) subs) h) as [s2 f2].
    simpl in *. fold (forwards v es e subs). rewrite proj_app proj_forwards // IH. f_equal.
    + destruct (decide (p ∈ subs)) as [Hp|Hp];
        [rewrite (bool_decide_eq_true_2 (p ∈ subs)) //|rewrite (bool_decide_eq_false_2 (p ∈ subs)) //].
    + f_equal. apply eq_true_iff_eq.
      rewrite andb_true_iff negb_true_iff !bool_decide_eq_true elem_of_list_filter. naive_solver.
Qed.
End general.

(* what is handed to [p] (inbox or remote), for every history and every [p] *)
Lemma handed_between_g es p h subs :
  NoDup subs → handed_to p (es_run es subs h).2 = between_g reachable p (bool_decide (p ∈ subs)) h.
Proof. apply (run_between_g handed_to reachable); [done|apply handed_to_app|apply handed_forwards]. Qed.

(* what reaches the inbox of [p], for every history and every [p] *)
Lemma delivered_between_g es p h subs :
  NoDup subs → delivered_to p (es_run es subs h).2 = between_g liveb p (bool_decide (p ∈ subs)) h.
Proof. apply (run_between_g delivered_to liveb); [done|apply delivered_to_app|apply delivered_forwards']. Qed.

Lemma between_g_live p h : ∀ on, live_while_on p on h → between_g liveb p on h = between p on (h.*2).
Proof.
  induction h as [|[v m] h IH]; intros on Hl; [done|]. destruct m as [q|q|e]; simpl in *; [by apply IH..|].
  destruct Hl as [Hv Hl]. destruct on; simpl; [|by apply IH].
  rewrite Hv //. f_equal. rewrite (live_reachable v p); [by apply liveb_live, Hv|]. by apply IH.
Qed.

(* C12, first clause: [p] is alive whenever an event is handled between its
   Sub and the next Unsub *)
Lemma once_between_while_subscribed es p h subs :
  NoDup subs → live_while_on p (bool_decide (p ∈ subs)) h →
  delivered_to p (es_run es subs h).2 = between p (bool_decide (p ∈ subs)) (h.*2).
Proof. intros Hn Hl. rewrite delivered_between_g //. by apply between_g_live. Qed.

Lemma live_always_while_on p h : ∀ on, Forall (λ x, live x.1 p) h → live_while_on p on h.
Proof.
  induction h as [|[v m] h IH]; intros on Hf; [done|]. apply Forall_cons in Hf as [Hv Hf].
  destruct m; simpl; [by apply IH..|]. split; [|by apply IH]. intros _. by apply liveb_live.
Qed.

(* Subscribe twice = subscribe once (the object that holds the PID plays no role:
   there is none in the model; cf. [pointer_keys_refuted]) *)
Lemma sub_idempotent_step v1 v2 es subs p :
  es_step v2 es (es_step v1 es subs (Sub p)).1 (Sub p) = ((es_step v1 es subs (Sub p)).1, []).
Proof.
  simpl. by rewrite subs_add_idem.
Qed.

Lemma es_run_app es h1 h2 subs :
  es_run es subs (h1 ++ h2) =
  let r1 := es_run es subs h1 in let r2 := es_run es r1.1 h2 in (r2.1, r1.2 ++ r2.2).
Proof.
  revert subs. induction h1 as [|[v m] h1 IH]; intros subs; simpl.
  { by destruct (es_run es subs h2). }
  destruct (es_step v es subs m) as [s1 f1]. rewrite IH.
  destruct (es_run es s1 h1) as [s2 f2]. simpl. destruct (es_run es s2 h2). simpl. by rewrite assoc.
Qed.

Lemma sub_idempotent es subs h1 v1 v2 p h2 :
  es_run es subs (h1 ++ (v1, Sub p) :: (v2, Sub p) :: h2) = es_run es subs (h1 ++ (v1, Sub p) :: h2).
Proof.
  rewrite !es_run_app. simpl. set (s := (es_run es subs h1).1).
  rewrite subs_add_idem. by destruct (es_run es (subs_add p s) h2).
Qed.

(* Unsubscribe removes the subscriber whose address and id are equal, and
   nothing reaches it until it subscribes again *)
Lemma unsub_by_value_step v es subs p : p ∉ (es_step v es subs (Unsub p)).1.
Proof. simpl. rewrite elem_of_subs_del. naive_solver. Qed.

Lemma between_off_no_sub p h :
  Forall (λ m, m ≠ Sub p) h → between p false h = [].
Proof.
  induction h as [|m h IH]; intros Hf; [done|]. apply Forall_cons in Hf as [Hm Hf].
  destruct m as [q|q|e]; simpl; [|by apply IH..].
  rewrite bool_decide_eq_false_2; [by intros ->|]. by apply IH.
Qed.

Lemma unsub_by_value es subs v p h :
  NoDup subs → Forall (λ x, live x.1 p) ((v, Unsub p) :: h) → Forall (λ m, m ≠ Sub p) (h.*2) →
  delivered_to p (es_run es subs ((v, Unsub p) :: h)).2 = [].
Proof.
  intros Hn Hl Hs. rewrite once_between_sub_and_unsub //. simpl.
  rewrite (bool_decide_eq_true_2 (p = p)) // andb_false_r. by apply between_off_no_sub.
Qed.

(* order: what a subscriber receives is, in order, a sub-sequence of the
   events in the order they entered the event stream's inbox — hence so are
   the events of any one source (any subset [f] of the events) *)
Lemma sublist_filter_mono {A} (P : A → Prop) `{∀ x, Decision (P x)} (l1 l2 : list A) :
  sublist l1 l2 → sublist (filter P l1) (filter P l2).
Proof.
  induction 1 as [|x l1 l2 Hs IH|x l1 l2 Hs IH]; [done| |].
  - rewrite !filter_cons. case_decide; [by apply sublist_skip|done].
  - rewrite filter_cons. case_decide; [by apply sublist_cons|done].
Qed.

Lemma between_sublist p on h : sublist (between p on h) (events_of h).
Proof.
  revert on. induction h as [|m h IH]; intros on; simpl; [done|].
  destruct m as [q|q|e]; simpl; auto.
  destruct on; simpl; [by apply sublist_skip|by apply sublist_cons].
Qed.

Lemma between_on_no_unsub p h :
  Forall (λ m, m ≠ Unsub p) h → between p true h = events_of h.
Proof.
  induction h as [|m h IH]; intros Hf; [done|]. apply Forall_cons in Hf as [Hm Hf].
  destruct m as [q|q|e]; simpl; [by apply IH| |by f_equal; apply IH].
  rewrite bool_decide_eq_false_2; [by intros ->|]. by apply IH.
Qed.

Lemma broadcast_order es p h subs (f : msg → bool) :
  NoDup subs → Forall (λ x, live x.1 p) h →
  sublist (filter (λ e, f e = true) (delivered_to p (es_run es subs h).2))
          (filter (λ e, f e = true) (events_of (h.*2))) ∧
  (p ∈ subs → Forall (λ m, m ≠ Unsub p) (h.*2) →
   delivered_to p (es_run es subs h).2 = events_of (h.*2)).
Proof.
  intros Hn Hl. rewrite once_between_sub_and_unsub //. split.
  - apply sublist_filter_mono, between_sublist.
  - intros Hp Hu. rewrite bool_decide_eq_true_2 //. by apply between_on_no_unsub.
Qed.

(* Pinned tree (D5): keyed by object, the same PID subscribed through two
   objects gets every event twice, and unsubscribing through the other object
   removes nothing. *)
Definition v_ex : view := {| v_addr := 0; v_remote := false; v_reg := [1; 2; 9] |}.
Definition es_ex : pid := (0, 9).

Example pointer_keys_refuted :
  delivered_to (0, 1) (es_run_pinned v_ex es_ex []
     [SubR (0, (0, 1)); SubR (1, (0, 1)); EvR (EUser 7)]).2 = [EUser 7; EUser 7] ∧
  delivered_to (0, 1) (es_run_pinned v_ex es_ex []
     [SubR (0, (0, 1)); UnsubR (1, (0, 1)); EvR (EUser 7)]).2 = [EUser 7] ∧
  (* the repaired machine on the same histories *)
  delivered_to (0, 1) (es_run es_ex []
     [(v_ex, Sub (0, 1)); (v_ex, Sub (0, 1)); (v_ex, Ev (EUser 7))]).2 = [EUser 7] ∧
  delivered_to (0, 1) (es_run es_ex []
     [(v_ex, Sub (0, 1)); (v_ex, Unsub (0, 1)); (v_ex, Ev (EUser 7))]).2 = [].
Proof. by vm_compute. Qed.

(* non-vacuity of the C12 statements: two subscribers, one of which
   re-subscribes, a third one that stops mid-way *)
Example c12_example :
  let v1 := {| v_addr := 0; v_remote := false; v_reg := [1; 2; 3; 9] |} in
  let v2 := {| v_addr := 0; v_remote := false; v_reg := [1; 2; 9] |} in
  let h := [(v1, Sub (0, 1)); (v1, Sub (0, 3)); (v1, Ev (EUser 1)); (v1, Sub (0, 2)); (v1, Sub (0, 1));
            (v2, Ev (EUser 2)); (v2, Unsub (0, 1)); (v2, Ev (EUser 3)); (v2, Sub (0, 1)); (v2, Ev (EUser 4))] in
  let r := es_run es_ex [] h in
  Forall (λ x, live x.1 (0, 1)) h ∧
  delivered_to (0, 1) r.2 = [EUser 1; EUser 2; EUser 4] ∧
  delivered_to (0, 2) r.2 = [EUser 2; EUser 3; EUser 4] ∧
  fed_back r.2 = [EDead (0, 3) (EUser 2) (Some es_ex)] ∧ r.1 = [(0, 2); (0, 1)].
Proof. vm_compute. split_and!; try done. repeat constructor. Qed.

(* non-vacuity of the weaker premise and of the general form: actor (0, 1)
   subscribes, receives, stops while subscribed (its own ActorStoppedEvent ends
   the subscription), misses an event, is spawned again under its id (not a
   subscriber), subscribes again, receives; meanwhile (1, 1), the same id on
   another node, stays subscribed and is handed everything *)
Example c12_example_respawn :
  let v a := {| v_addr := 0; v_remote := true; v_reg := if a : bool then [1; 9] else [9] |} in
  let h1 := [(v true, Sub (0, 1)); (v true, Sub (1, 1)); (v true, Ev (EUser 1)); (v true, Unsub (0, 1));
             (v false, Ev (EStopped (0, 1))); (v false, Ev (EUser 2)); (v true, Ev (ELife 0 (0, 1)));
             (v true, Sub (0, 1)); (v true, Ev (EUser 3))] in
  let h2 := [(v true, Sub (0, 1)); (v true, Sub (1, 1)); (v true, Ev (EUser 1));
             (v false, Ev (EStopped (0, 1))); (v false, Ev (EUser 2)); (v true, Ev (ELife 0 (0, 1)));
             (v true, Ev (EUser 3)); (v true, Sub (0, 1)); (v true, Ev (EUser 4))] in
  live_while_on (0, 1) false h1 ∧ ¬ Forall (λ x, live x.1 (0, 1)) h1 ∧
  delivered_to (0, 1) (es_run es_ex [] h1).2 = [EUser 1; EUser 3] ∧
  ¬ live_while_on (0, 1) false h2 ∧
  delivered_to (0, 1) (es_run es_ex [] h2).2 = [EUser 1; EUser 4] ∧
  handed_to (1, 1) (es_run es_ex [] h2).2 =
    [EUser 1; EStopped (0, 1); EUser 2; ELife 0 (0, 1); EUser 3; EUser 4] ∧
  fed_back (es_run es_ex [] h2).2 = [EDead (0, 1) (EStopped (0, 1)) (Some es_ex)].
Proof.
  split_and!; try by vm_compute.
  - intros Hf. eapply Forall_forall in Hf as [_ Hr]; [|do 5 right; left]. by vm_compute in Hr.
  - intros Hl. vm_compute in Hl. naive_solver.
Qed.

(** * C09: the closed loop *)

Definition bounce (v : view) (es : pid) (e : msg) (q : pid) : msg :=
  if is_local v q then EDead q e (Some es) else EMissing q e (Some es).
Definition live_subs (v : view) (subs : list pid) : list pid := filter (λ q, unreachable v q = false) subs.

(* what comes back from forwarding [e]: one event per unreachable subscriber,
   with the subscriber as target, [e] as message, the event stream as sender *)
Lemma route_event_bounce v es e q :
  outcome_event (route v (Some q) e (Some es)) = if unreachable v q then Some (bounce v es e q) else None.
Proof. rewrite /route /unreachable /bounce. by destruct (is_local v q), (registered v q), (v_remote v). Qed.

Lemma fed_back_forwards v es e subs :
  fed_back (forwards v es e subs) = bounce v es e <$> dead_subs v subs.
Proof.
  rewrite /fed_back /forwards /dead_subs. induction subs as [|q subs IH]; [done|].
  rewrite fmap_cons filter_cons. cbn [omap list_omap]. rewrite -/omap IH. cbn [snd].
  rewrite route_event_bounce. destruct (unreachable v q); case_decide; done.
Qed.

Lemma dead_subs_live_subs v subs : dead_subs v (live_subs v subs) = [].
Proof.
  rewrite /dead_subs /live_subs. induction subs as [|q subs IH]; [done|].
  rewrite filter_cons. case_decide as Hq; [|done]. rewrite filter_cons. case_decide; [congruence|done].
Qed.

Lemma live_subs_all v subs : dead_subs v subs = [] → live_subs v subs = subs.
Proof.
  rewrite /dead_subs /live_subs. induction subs as [|q subs IH]; [done|].
  rewrite !filter_cons. destruct (unreachable v q); repeat case_decide; try done.
  intros ?. f_equal. auto.
Qed.

Lemma live_subs_nodup v subs : NoDup subs → NoDup (live_subs v subs).
Proof. apply NoDup_filter. Qed.

Lemma nsubq_app q1 q2 : nsubq (q1 ++ q2) = nsubq q1 + nsubq q2.
Proof. by rewrite /nsubq filter_app app_length. Qed.
Lemma nsubq_cons m q : nsubq (m :: q) = (match m with Sub _ => 1 | _ => 0 end) + nsubq q.
Proof. rewrite /nsubq filter_cons. destruct m; case_decide; done. Qed.
Lemma nsubq_nil : nsubq [] = 0.
Proof. done. Qed.
Lemma nsubq_events G : nsubq (Ev <$> G) = 0.
Proof. rewrite /nsubq. induction G as [|g G IH]; [done|]. rewrite fmap_cons filter_cons. by case_decide. Qed.
Lemma events_of_app q1 q2 : events_of (q1 ++ q2) = events_of q1 ++ events_of q2.
Proof. apply omap_app. Qed.
Lemma events_of_events G : events_of (Ev <$> G) = G.
Proof. rewrite /events_of. induction G as [|g G IH]; [done|]. rewrite fmap_cons /=. by f_equal. Qed.

Lemma dead_subs_add_le v p subs : length (dead_subs v (subs_add p subs)) ≤ S (length (dead_subs v subs)).
Proof.
  rewrite /subs_add /dead_subs. case_decide; [lia|].
  rewrite filter_app app_length filter_cons filter_nil. case_decide; simpl; lia.
Qed.
Lemma dead_subs_del_le v p subs : length (dead_subs v (subs_del p subs)) ≤ length (dead_subs v subs).
Proof.
  rewrite /subs_del /dead_subs. induction subs as [|q subs IH]; [done|].
  rewrite !filter_cons. repeat case_decide; simpl; rewrite ?filter_cons; repeat case_decide; simpl; try lia; done.
Qed.

Section closed_loop.
Context (es : pid).
Notation proc := (wq_proc es).

Lemma wq_proc_nil st : w_q st = [] → proc st = st.
Proof. intros H. by rewrite /wq_proc H. Qed.

(* every step of the event stream on a non-empty inbox lowers the measure *)
Lemma wq_proc_measure st : w_q st ≠ [] → wq_measure (proc st) < wq_measure st.
Proof.
  rewrite /wq_proc /wq_measure. destruct (w_q st) as [|m q'] eqn:Eq; [done|]. intros _.
  destruct m as [p|p|e]; simpl.
  - rewrite app_nil_r. pose proof (dead_subs_add_le (w_view st) p (w_subs st)).
    rewrite nsubq_cons. simpl. lia.
  - rewrite app_nil_r. pose proof (dead_subs_del_le (w_view st) p (w_subs st)).
    rewrite nsubq_cons. simpl. lia.
  - fold (forwards (w_view st) es e (w_subs st)). rewrite fed_back_forwards.
    fold (live_subs (w_view st) (w_subs st)). rewrite dead_subs_live_subs.
    rewrite app_length !fmap_length nsubq_app nsubq_events.
    rewrite nsubq_cons. simpl. lia.
Qed.

Lemma iter_proc_nil n st : w_q st = [] → Nat.iter n proc st = st.
Proof. intros H. induction n as [|n IH]; [done|]. by rewrite Nat.iter_succ IH wq_proc_nil. Qed.

(* any amount of fuel above the measure gives the same, quiescent, state *)
Lemma iter_proc_enough k1 : ∀ k2 st,
  wq_measure st ≤ k1 → wq_measure st ≤ k2 → Nat.iter k1 proc st = Nat.iter k2 proc st.
Proof.
  induction k1 as [|k1 IH]; intros k2 st H1 H2.
  - assert (w_q st = []) as Hq.
    { rewrite /wq_measure in H1. destruct (w_q st); [done|]. simpl in H1. lia. }
    by rewrite !iter_proc_nil.
  - destruct (decide (w_q st = [])) as [Hq|Hq]; [by rewrite !iter_proc_nil|].
    pose proof (wq_proc_measure st Hq).
    destruct k2 as [|k2]; [lia|]. rewrite !Nat.iter_succ_r. apply IH; lia.
Qed.

Lemma wq_drain_unfold st : w_q st ≠ [] → wq_drain es st = wq_drain es (proc st).
Proof.
  intros Hq. rewrite /wq_drain. pose proof (wq_proc_measure st Hq).
  destruct (wq_measure st) as [|k] eqn:E; [lia|]. rewrite Nat.iter_succ_r. apply iter_proc_enough; lia.
Qed.
Lemma wq_drain_nil st : w_q st = [] → wq_drain es st = st.
Proof. apply iter_proc_nil. Qed.

Lemma iter_proc_quiescent k : ∀ st, wq_measure st ≤ k → w_q (Nat.iter k proc st) = [].
Proof.
  induction k as [|k IH]; intros st H.
  - rewrite /wq_measure in H. simpl. destruct (w_q st); [done|]. simpl in H. lia.
  - destruct (decide (w_q st = [])) as [Hq|Hq]; [by rewrite iter_proc_nil|].
    pose proof (wq_proc_measure st Hq). rewrite Nat.iter_succ_r. apply IH. lia.
Qed.

(* termination: the drained state is quiescent, and stays as it is *)
Lemma wq_drain_quiescent st : w_q (wq_drain es st) = [].
Proof. by apply iter_proc_quiescent. Qed.
Lemma wq_drain_stable st n : Nat.iter n proc (wq_drain es st) = wq_drain es st.
Proof. apply iter_proc_nil, wq_drain_quiescent. Qed.

(** ** the bound on the number of events *)

Definition potential (st : wstate) : nat :=
  events_total st + length (dead_subs (w_view st) (w_subs st)) + nsubq (w_q st).

Lemma wq_proc_nodup st : NoDup (w_subs st) → NoDup (w_subs (proc st)).
Proof.
  intros Hn. rewrite /wq_proc. destruct (w_q st) as [|m q']; [done|].
  pose proof (es_step_nodup (w_view st) es (w_subs st) m Hn).
  by destruct (es_step (w_view st) es (w_subs st) m).
Qed.

Lemma wq_proc_potential st : potential (proc st) ≤ potential st.
Proof.
  rewrite /wq_proc /potential /events_total. destruct (w_q st) as [|m q'] eqn:Eq; [by rewrite Eq|].
  destruct m as [p|p|e]; simpl.
  - rewrite !app_nil_r. pose proof (dead_subs_add_le (w_view st) p (w_subs st)).
    rewrite nsubq_cons. simpl. lia.
  - rewrite !app_nil_r. pose proof (dead_subs_del_le (w_view st) p (w_subs st)).
    rewrite nsubq_cons. simpl. lia.
  - fold (forwards (w_view st) es e (w_subs st)). rewrite fed_back_forwards.
    fold (live_subs (w_view st) (w_subs st)). rewrite dead_subs_live_subs.
    rewrite events_of_app events_of_events !app_length !fmap_length nsubq_app nsubq_events.
    rewrite nsubq_cons. simpl. lia.
Qed.

(* a stop makes at most one subscriber of a duplicate-free set unreachable *)
Lemma dead_subs_stop_le v id subs :
  NoDup subs →
  length (dead_subs {| v_addr := v_addr v; v_remote := v_remote v; v_reg := filter (λ i, i ≠ id) (v_reg v) |} subs)
  ≤ S (length (dead_subs v subs)).
Proof.
  set (v' := {| v_addr := v_addr v; v_remote := v_remote v; v_reg := _ |}).
  assert (∀ q, q ≠ (v_addr v, id) → unreachable v' q = unreachable v q) as Hsame.
  { intros [a i] Hne. rewrite /unreachable /is_local /registered /=.
    case_bool_decide as Ha; [|done]. simpl in Ha. subst a. f_equal.
    apply bool_decide_ext. rewrite elem_of_list_filter. naive_solver. }
  rewrite /dead_subs.
  assert (∀ l : list pid, (v_addr v, id) ∉ l →
     filter (λ q, unreachable v' q = true) l = filter (λ q, unreachable v q = true) l) as Hnotin.
  { induction l as [|q l IH]; [done|]. intros Hq. apply not_elem_of_cons in Hq as [Hq1 Hq2].
    assert (q ≠ (v_addr v, id)) as Hq3 by (by intros ->).
    by rewrite !filter_cons (Hsame q Hq3) IH. }
  induction 1 as [|q subs Hq Hn IH]; [simpl; lia|].
  destruct (decide (q = (v_addr v, id))) as [->|Hne].
  - rewrite !filter_cons Hnotin //. repeat case_decide; simpl; lia.
  - rewrite !filter_cons Hsame //. case_decide; simpl; lia.
Qed.

Lemma wq_step_nodup st l : NoDup (w_subs st) → NoDup (w_subs (wq_step es st l)).
Proof. destruct l; simpl; try done. apply wq_proc_nodup. Qed.

Lemma wq_step_potential st l :
  NoDup (w_subs st) → potential (wq_step es st l) ≤ potential st + label_cost l.
Proof.
  intros Hn. destruct l as [t m s|e|p|p|id|]; simpl.
  - rewrite /potential /events_total /apply_outcome /=.
    rewrite events_of_app events_of_events app_length nsubq_app nsubq_events.
    destruct (outcome_event (route (w_view st) t m s)); simpl; lia.
  - rewrite /potential /events_total /=. rewrite events_of_app app_length nsubq_app nsubq_cons nsubq_nil. simpl. lia.
  - rewrite /potential /events_total /=. rewrite events_of_app app_length nsubq_app nsubq_cons nsubq_nil. simpl. lia.
  - rewrite /potential /events_total /=. rewrite events_of_app app_length nsubq_app nsubq_cons nsubq_nil. simpl. lia.
  - rewrite /potential /events_total /=. rewrite events_of_app app_length nsubq_app nsubq_cons nsubq_nil. simpl.
    pose proof (dead_subs_stop_le (w_view st) id (w_subs st) Hn). lia.
  - pose proof (wq_proc_potential st). lia.
Qed.

Lemma wq_run_potential ls : ∀ st,
  NoDup (w_subs st) →
  NoDup (w_subs (wq_run es st ls)) ∧ potential (wq_run es st ls) ≤ potential st + cost ls.
Proof.
  induction ls as [|l ls IH]; intros st Hn; simpl; [split; [done|lia]|].
  destruct (IH (wq_step es st l) (wq_step_nodup st l Hn)) as [H1 H2]. split; [done|].
  pose proof (wq_step_potential st l Hn). lia.
Qed.

Lemma iter_proc_potential n st :
  NoDup (w_subs st) →
  NoDup (w_subs (Nat.iter n proc st)) ∧ potential (Nat.iter n proc st) ≤ potential st.
Proof.
  intros Hn. induction n as [|n [IH1 IH2]]; [split; [done|simpl; lia]|]. rewrite Nat.iter_succ. split.
  - by apply wq_proc_nodup.
  - pose proof (wq_proc_potential (Nat.iter n proc st)). lia.
Qed.

(* C09, last clause.  [ls] is any finite interleaving of sends, broadcasts,
   subscriptions, stops (by anyone) with steps of the event stream; once the
   external steps are over the event stream comes to rest, and the number of
   events it ever handled is at most [cost ls] (one per send or broadcast, one
   per subscription, two per stop) plus the number of subscribers that were
   unreachable at the start. *)
Lemma finitely_many_events v subs ls :
  NoDup subs →
  let st := wq_drain es (wq_run es (winit v subs) ls) in
  w_q st = [] ∧ (∀ n, Nat.iter n proc st = st) ∧
  length (w_done st) ≤ cost ls + length (dead_subs v subs).
Proof.
  intros Hn st. split_and!.
  - apply wq_drain_quiescent.
  - intros n. apply wq_drain_stable.
  - destruct (wq_run_potential ls (winit v subs) Hn) as [Hn1 Hp1].
    destruct (iter_proc_potential (wq_measure (wq_run es (winit v subs) ls)) _ Hn1) as [_ Hp2].
    fold (wq_drain es (wq_run es (winit v subs) ls)) in Hp2. fold st in Hp2.
    rewrite /potential /events_total in Hp1 Hp2. simpl in Hp1.
    rewrite /potential /events_total in Hp2. rewrite nsubq_nil in Hp1. lia.
Qed.

(** ** exactness: what one event causes, from a quiescent state *)

Lemma inbox_of_proc_ev st e q' p :
  w_q st = Ev e :: q' → NoDup (w_subs st) →
  inbox_of p (proc st) = inbox_of p st ++ if decide (p ∈ w_subs st ∧ live (w_view st) p) then [e] else [].
Proof.
  intros Hq Hn. rewrite /wq_proc Hq /= /inbox_of /= deliveries_to_app. f_equal.
  fold (forwards (w_view st) es e (w_subs st)). by rewrite -(delivered_forwards _ es).
Qed.

Lemma proc_ev_fields st e q' :
  w_q st = Ev e :: q' →
  w_view (proc st) = w_view st ∧ w_subs (proc st) = live_subs (w_view st) (w_subs st) ∧
  w_q (proc st) = q' ++ (Ev <$> (bounce (w_view st) es e <$> dead_subs (w_view st) (w_subs st))) ∧
  w_done (proc st) = w_done st ++ [e].
Proof.
  intros Hq. rewrite /wq_proc Hq /=. fold (forwards (w_view st) es e (w_subs st)).
  by rewrite fed_back_forwards.
Qed.

(* a queue of events and no unreachable subscriber: every event is handled
   once, reaches every live subscriber once, and causes nothing further *)
Lemma drain_events G : ∀ st,
  w_q st = Ev <$> G → NoDup (w_subs st) → dead_subs (w_view st) (w_subs st) = [] →
  let st' := wq_drain es st in
  w_q st' = [] ∧ w_done st' = w_done st ++ G ∧ w_subs st' = w_subs st ∧ w_view st' = w_view st ∧
  ∀ p, inbox_of p st' = inbox_of p st ++ if decide (p ∈ w_subs st ∧ live (w_view st) p) then G else [].
Proof.
  induction G as [|g G IH]; intros st Hq Hn Hd; simpl.
  { rewrite wq_drain_nil //. split_and!; try done; rewrite ?app_nil_r //.
    intros p. case_decide; by rewrite app_nil_r. }
  rewrite fmap_cons in Hq. rewrite wq_drain_unfold; [by rewrite Hq|].
  destruct (proc_ev_fields st g _ Hq) as (Hv & Hs & Hq1 & Hdn).
  rewrite Hd /= app_nil_r in Hq1. rewrite (live_subs_all _ _ Hd) in Hs.
  destruct (IH (proc st)) as (H1 & H2 & H3 & H4 & H5); [done|by rewrite Hs|by rewrite Hv Hs|].
  split_and!; [done|by rewrite H2 Hdn -assoc|by rewrite H3|by rewrite H4|].
  intros p. rewrite H5 (inbox_of_proc_ev st g _ p Hq Hn) Hs Hv.
  case_decide; by rewrite -assoc.
Qed.

(* one event put on the inbox of a quiescent event stream *)
Lemma event_exact st e :
  w_q st = [] → NoDup (w_subs st) →
  let v := w_view st in
  let G := e :: (bounce v es e <$> dead_subs v (w_subs st)) in
  let st' := wq_drain es (enqueue [Ev e] st) in
  w_q st' = [] ∧ w_done st' = w_done st ++ G ∧ w_subs st' = live_subs v (w_subs st) ∧ w_view st' = v ∧
  ∀ p, inbox_of p st' = inbox_of p st ++ if decide (p ∈ w_subs st ∧ live v p) then G else [].
Proof.
  intros Hq Hn v G. set (st1 := enqueue [Ev e] st).
  assert (w_q st1 = Ev e :: []) as Hq1 by (by rewrite /st1 /= Hq).
  simpl. rewrite wq_drain_unfold; [by rewrite Hq1|].
  destruct (proc_ev_fields st1 e _ Hq1) as (Hv & Hs & Hq2 & Hdn). simpl in Hv, Hs, Hq2, Hdn.
  destruct (drain_events (bounce v es e <$> dead_subs v (w_subs st)) (proc st1))
    as (H1 & H2 & H3 & H4 & H5); [done|by rewrite Hs; apply live_subs_nodup| |].
  { rewrite Hv Hs. apply dead_subs_live_subs. }
  split_and!; [done|by rewrite H2 Hdn -assoc|by rewrite H3|by rewrite H4|].
  intros p. rewrite H5 (inbox_of_proc_ev st1 e _ p Hq1 Hn) Hs Hv. simpl. fold v.
  assert (live v p → (p ∈ live_subs v (w_subs st) ↔ p ∈ w_subs st)) as Hiff.
  { intros Hl. rewrite /live_subs elem_of_list_filter. pose proof (live_reachable _ _ Hl). tauto. }
  rewrite /G. repeat case_decide; rewrite -?assoc ?app_nil_r //; exfalso; naive_solver.
Qed.

Lemma send_step_event st t m s e :
  outcome_event (route (w_view st) t m s) = Some e → outcome_delivery (route (w_view st) t m s) = None →
  outcome_remote (route (w_view st) t m s) = None →
  wq_step es st (LSend t m s) =
  {| w_view := w_view st; w_subs := w_subs st; w_q := w_q st ++ [Ev e]; w_done := w_done st;
     w_inbox := w_inbox st; w_remote := w_remote st |}.
Proof. intros H1 H2 H3. by rewrite /= /apply_outcome H1 H2 H3 /= !app_nil_r. Qed.

(* C09: a message for a local PID with no registered actor, sent while the
   event stream is at rest: exactly one DeadLetterEvent with the original
   target, message and sender is handled, followed only by one event per
   unreachable subscriber (about that subscriber, not about [t]); every live
   subscriber receives all of them once, in this order; unreachable
   subscribers are dropped. *)
Lemma dead_letter_exact st t m s :
  w_q st = [] → NoDup (w_subs st) →
  is_local (w_view st) t = true → registered (w_view st) t = false →
  let v := w_view st in
  let G := EDead t m s :: (bounce v es (EDead t m s) <$> dead_subs v (w_subs st)) in
  let st' := wq_drain es (wq_step es st (LSend (Some t) m s)) in
  w_q st' = [] ∧ w_done st' = w_done st ++ G ∧ w_subs st' = live_subs v (w_subs st) ∧
  (∀ p, p ∈ w_subs st → live v p → inbox_of p st' = inbox_of p st ++ G) ∧
  (∀ p, p ∉ w_subs st → inbox_of p st' = inbox_of p st).
Proof.
  intros Hq Hn Hl Hr v G.
  pose proof (route_dead _ _ m s Hl Hr) as Hroute.
  rewrite (send_step_event st (Some t) m s (EDead t m s)); [by rewrite Hroute..|].
  destruct (event_exact st (EDead t m s) Hq Hn) as (H1 & H2 & H3 & H4 & H5).
  change (enqueue [Ev (EDead t m s)] st) with
    {| w_view := w_view st; w_subs := w_subs st; w_q := w_q st ++ [Ev (EDead t m s)]; w_done := w_done st;
       w_inbox := w_inbox st; w_remote := w_remote st |} in *.
  split_and!; try done.
  - intros p Hp Hlp. rewrite H5. case_decide; [done|naive_solver].
  - intros p Hp. rewrite H5. case_decide; [naive_solver|by rewrite app_nil_r].
Qed.

Lemma remote_missing_exact st t m s :
  w_q st = [] → NoDup (w_subs st) →
  is_local (w_view st) t = false → v_remote (w_view st) = false →
  let v := w_view st in
  let G := EMissing t m s :: (bounce v es (EMissing t m s) <$> dead_subs v (w_subs st)) in
  let st' := wq_drain es (wq_step es st (LSend (Some t) m s)) in
  w_q st' = [] ∧ w_done st' = w_done st ++ G ∧ w_subs st' = live_subs v (w_subs st) ∧
  (∀ p, p ∈ w_subs st → live v p → inbox_of p st' = inbox_of p st ++ G) ∧
  (∀ p, p ∉ w_subs st → inbox_of p st' = inbox_of p st).
Proof.
  intros Hq Hn Hl Hr v G.
  pose proof (route_missing _ _ m s Hl Hr) as Hroute.
  rewrite (send_step_event st (Some t) m s (EMissing t m s)); [by rewrite Hroute..|].
  destruct (event_exact st (EMissing t m s) Hq Hn) as (H1 & H2 & H3 & H4 & H5).
  change (enqueue [Ev (EMissing t m s)] st) with
    {| w_view := w_view st; w_subs := w_subs st; w_q := w_q st ++ [Ev (EMissing t m s)]; w_done := w_done st;
       w_inbox := w_inbox st; w_remote := w_remote st |} in *.
  split_and!; try done.
  - intros p Hp Hlp. rewrite H5. case_decide; [done|naive_solver].
  - intros p Hp. rewrite H5. case_decide; [naive_solver|by rewrite app_nil_r].
Qed.

(* nil and live targets, and foreign targets on an engine with a remote, cause no event *)
Lemma send_silent st t m s :
  outcome_event (route (w_view st) t m s) = None →
  w_q (wq_step es st (LSend t m s)) = w_q st ∧ w_done (wq_step es st (LSend t m s)) = w_done st.
Proof. intros H. by rewrite /= /apply_outcome H /= app_nil_r. Qed.

End closed_loop.

(* non-vacuity of the C09 statements: one live subscriber, a stopped one, one
   behind a foreign address, one never spawned; a dead letter, then (in any
   interleaving) a re-subscription of the stopped one and a stop of the live
   one: 1 + 3 events for the first send, 8 in all, which is the bound
   cost + 3 = (1 + 1 + 1 + 2) + 3 *)
Example c09_example :
  let v := {| v_addr := 0; v_remote := false; v_reg := [1; 9] |} in
  let subs := [(0, 1); (0, 3); (1, 3); (0, 7)] in
  let dl := EDead (0, 7) (EUser 1) None in
  let st1 := wq_drain (0, 9) (wq_step (0, 9) (winit v subs) (LSend (Some (0, 7)) (EUser 1) None)) in
  w_done st1 = [dl; EDead (0, 3) dl (Some (0, 9)); EMissing (1, 3) dl (Some (0, 9)); EDead (0, 7) dl (Some (0, 9))] ∧
  inbox_of (0, 1) st1 = w_done st1 ∧ w_subs st1 = [(0, 1)] ∧ dead_subs v subs = [(0, 3); (1, 3); (0, 7)] ∧
  let ls := [LSend (Some (0, 7)) (EUser 1) None; LProc; LSub (0, 3); LBcast (EUser 2); LProc; LProc; LStop 1] in
  let st2 := wq_drain (0, 9) (wq_run (0, 9) (winit v subs) ls) in
  w_q st2 = [] ∧ length (w_done st2) = 8 ∧ cost ls + length (dead_subs v subs) = 8.
Proof. by vm_compute. Qed.

(* Pinned tree (D6): the un-repaired event stream never drops anybody: with
   one unreachable subscriber the inbox never empties — after [n] steps [n]
   events have been handled and one more is waiting. *)
Lemma dead_subscriber_diverges_pinned v es d e n :
  unreachable v d = true →
  ∃ e', Nat.iter n (wq_proc_pinned v es) ([d], [e], 0) = ([d], [e'], n).
Proof.
  intros Hd. induction n as [|n [e' IH]]; [by eexists|].
  rewrite Nat.iter_succ IH /=. rewrite route_event_bounce Hd /=. by eexists.
Qed.

Example dead_subscriber_diverges_pinned_ex :
  let v := {| v_addr := 0; v_remote := false; v_reg := [1; 9] |} in
  (* un-repaired: subscriber (0,3) has stopped; one event *)
  Nat.iter 50 (wq_proc_pinned v (0, 9)) ([(0, 1); (0, 3)], [EUser 7], 0) =
    ([(0, 1); (0, 3)],
     [Nat.iter 50 (λ x, EDead (0, 3) x (Some (0, 9))) (EUser 7)], 50) ∧
  (* repaired: two events in all, then rest *)
  let st := wq_drain (0, 9) (enqueue [Ev (EUser 7)] (winit v [(0, 1); (0, 3)])) in
  w_q st = [] ∧ w_done st = [EUser 7; EDead (0, 3) (EUser 7) (Some (0, 9))] ∧ w_subs st = [(0, 1)] ∧
  inbox_of (0, 1) st = [EUser 7; EDead (0, 3) (EUser 7) (Some (0, 9))].
Proof. by vm_compute. Qed.


(** * Totality of send, and the oracles on model runs *)

Lemma send_total v t m s :
  route v t m s ≠ Panicked ∧
  match t with
  | None => route v t m s = Dropped
  | Some p =>
      if is_local v p
      then (if registered v p then route v t m s = ToInbox p m s else route v t m s = DeadLetter p m s)
      else (if v_remote v then route v t m s = ToRemote p m s else route v t m s = RemoteMissing p m s)
  end.
Proof.
  split; [apply route_total|]. destruct t as [p|]; [|done].
  rewrite /route. by destruct (is_local v p), (registered v p), (v_remote v).
Qed.

Lemma pid12_eq q p : bool_decide (pid12 q = pid12 p) = bool_decide (q = p).
Proof.
  apply bool_decide_ext. rewrite /pid12. split; [|by intros ->].
  repeat case_decide; intros [=]; lia.
Qed.

Lemma users_app l1 l2 : users (l1 ++ l2) = users l1 ++ users l2.
Proof. apply omap_app. Qed.

Lemma reachable12 remote reg p :
  reachable (v12 remote reg) (pid12 p) = if decide (p < 50) then bool_decide (p ∈ reg) else remote.
Proof.
  rewrite /reachable /unreachable /pid12 /is_local /registered /=.
  case_decide; simpl; [by rewrite negb_involutive|by rewrite negb_involutive].
Qed.

Lemma spec12_of_machine remote p ops : ∀ reg on,
  users (between_g reachable (pid12 p) on (hist12 remote reg ops)) =
  spec12_p p (reachable (v12 remote reg) (pid12 p)) on ops.
Proof.
  induction ops as [|o ops IH]; intros reg on; [done|]. destruct o as [q ?|q ?|n|q|q]; simpl.
  - by rewrite pid12_eq IH.
  - by rewrite pid12_eq IH.
  - rewrite users_app IH. f_equal. by destruct (on && reachable _ _).
  - rewrite users_app IH.
    assert (users (if on && reachable (v12 remote (filter (λ i, i ≠ q) reg)) (pid12 p)
                   then [EStopped (0, q)] else []) = []) as -> by (by case_match).
    simpl. rewrite -/(reachable _ _).
    assert (reachable (v12 remote (filter (λ i, i ≠ q) reg)) (pid12 p) =
            reachable (v12 remote reg) (pid12 p) && negb (bool_decide (q = p) && bool_decide (p < 50))) as ->; [|done].
    rewrite !reachable12. case_decide; [|by rewrite (bool_decide_eq_false_2 (p < 50)) // andb_false_r /= andb_true_r].
    rewrite (bool_decide_eq_true_2 (p < 50)) // andb_true_r. apply eq_true_iff_eq.
    rewrite andb_true_iff negb_true_iff !bool_decide_eq_true bool_decide_eq_false elem_of_list_filter. naive_solver.
  - rewrite !users_app IH.
    set (r' := reachable (v12 remote (q :: reg)) (pid12 p)).
    assert (∀ k (b : bool), users (if b then [ELife k (0, q)] else []) = []) as Hk2 by (by intros ? []).
    rewrite -/(reachable _ _) -/r' !Hk2 /=.
    assert (r' = reachable (v12 remote reg) (pid12 p) || (bool_decide (q = p) && bool_decide (p < 50))) as ->.
    { rewrite /r' !reachable12. case_decide; [|by rewrite (bool_decide_eq_false_2 (p < 50)) // andb_false_r orb_false_r].
      rewrite (bool_decide_eq_true_2 (p < 50)) // andb_true_r. apply eq_true_iff_eq.
      rewrite orb_true_iff !bool_decide_eq_true elem_of_cons. naive_solver. }
    f_equal. by destruct on, (reachable _ _ || _).
Qed.

Lemma oracle12_holds_of_model remote np ops :
  np ≤ 50 → oracle12_on remote np ops (model12 remote np ops).1 (model12 remote np ops).2 = true.
Proof.
  intros Hnp. rewrite /oracle12_on bool_decide_eq_true /model12 /spec12 /=. f_equal.
  - apply Forall_fmap_ext_1, Forall_forall. intros i Hi%elem_of_seq.
    rewrite handed_between_g; [apply NoDup_nil_2|]. rewrite spec12_of_machine. f_equal.
    rewrite reachable12. case_decide; [|lia]. apply bool_decide_eq_true_2.
    apply elem_of_cons. right. apply elem_of_seq. lia.
  - apply Forall_fmap_ext_1, Forall_forall. intros i Hi%elem_of_seq.
    rewrite handed_between_g; [apply NoDup_nil_2|]. rewrite spec12_of_machine. f_equal.
    rewrite reachable12. case_decide; [lia|done].
Qed.

(** * Scenarios as the harness runs them (C09): the oracle holds of every model run *)

Lemma entries_to_app p l1 l2 : entries_to p (l1 ++ l2) = entries_to p l1 ++ entries_to p l2.
Proof. apply omap_app. Qed.
Lemma entries_to_cons p t m s l :
  entries_to p ((t, m, s) :: l) = (if decide (t = p) then [(m, s)] else []) ++ entries_to p l.
Proof. rewrite /entries_to. cbn. by destruct (decide (t = p)). Qed.

Lemma entries_forwards v es e p subs :
  NoDup subs →
  entries_to p (omap (λ x, outcome_delivery x.2) (forwards v es e subs)) =
  if decide (p ∈ subs ∧ live v p) then [(e, Some es)] else [].
Proof.
  induction 1 as [|q subs Hq Hn IH].
  { case_decide as Hd; [|done]. destruct Hd as [Hd%elem_of_nil _]. done. }
  change (forwards v es e (q :: subs)) with ((q, route v (Some q) e (Some es)) :: forwards v es e subs).
  cbn [omap list_omap snd]. rewrite -/omap.
  destruct (decide (live v q)) as [Hl|Hl].
  - rewrite (route_live _ _ _ _ Hl). cbn [outcome_delivery]. rewrite entries_to_cons IH.
    repeat case_decide; simpl; try done; exfalso; set_solver.
  - destruct (outcome_delivery (route v (Some q) e (Some es))) as [d|] eqn:E.
    { exfalso. apply Hl, (route_delivery_iff v q e (Some es)). by rewrite E. }
    rewrite IH. repeat case_decide; try done; exfalso; set_solver.
Qed.

(* every delivery a forward round makes has the event stream as sender *)
Lemma forwards_sender v es e subs :
  Forall (λ x, x.2 = Some es) (omap (λ x, outcome_delivery x.2) (forwards v es e subs)).
Proof.
  induction subs as [|q subs IH]; [constructor|].
  change (forwards v es e (q :: subs)) with ((q, route v (Some q) e (Some es)) :: forwards v es e subs).
  cbn [omap list_omap snd]. rewrite -/omap.
  destruct (outcome_delivery (route v (Some q) e (Some es))) as [d|] eqn:E; [|done].
  constructor; [|done]. revert E. rewrite /route.
  destruct (is_local v q), (registered v q), (v_remote v); simpl; intros E; by inversion E.
Qed.

Lemma entries_to_sender p (P : option pid → Prop) l :
  Forall (λ x, P x.2) l → Forall (λ x, P x.2) (entries_to p l).
Proof.
  induction 1 as [|[[t m] s] l Hx Hl IH]; [constructor|].
  rewrite entries_to_cons. case_decide; simpl; [by constructor|done].
Qed.

Section scenario.
Notation es := es09.
Notation proc := (wq_proc es09).
Context (nmon : nat) (Hnmon : nmon ≤ 3).

Record good (st : wstate) : Prop := {
  g_nodup : NoDup (w_subs st);
  g_addr : v_addr (w_view st) = 0;
  g_remote : v_remote (w_view st) = false;
  g_mon : ∀ i, i < nmon → (0, i) ∈ w_subs st ∧ i ∈ v_reg (w_view st);
  g_five : 5 ∈ v_reg (w_view st);
  g_unsub : ∀ p, Unsub p ∈ w_q st → ¬ mon3 p;
}.

Lemma good_mon_live st i : good st → i < nmon → live (w_view st) (0, i).
Proof.
  intros Hg Hi. destruct (g_mon st Hg i Hi) as [_ Hr]. split.
  - apply bool_decide_eq_true. simpl. by rewrite (g_addr st Hg).
  - by apply bool_decide_eq_true.
Qed.

Lemma good_proc st : good st → good (proc st).
Proof.
  intros Hg. pose proof (λ i, good_mon_live st i Hg) as Hlive.
  rewrite /wq_proc. destruct (w_q st) as [|m q'] eqn:Eq; [done|].
  destruct Hg as [G1 G2 G3 G4 G5 G6]. rewrite Eq in G6.
  pose proof (es_step_nodup (w_view st) es (w_subs st) m G1) as Hn.
  destruct m as [p|p|e]; simpl in *.
  - split; simpl; [done..| |done|].
    + intros i Hi. destruct (G4 i Hi). split; [|done]. apply elem_of_subs_add. by left.
    + intros p'. rewrite app_nil_r. intros Hp. apply G6. by right.
  - split; simpl; [done..| |done|].
    + intros i Hi. destruct (G4 i Hi). split; [|done]. apply elem_of_subs_del. split; [done|].
      intros <-. apply (G6 (0, i)); [by left|]. split; simpl; lia.
    + intros p'. rewrite app_nil_r. intros Hp. apply G6. by right.
  - split; simpl; [done..| |done|].
    + intros i Hi. destruct (G4 i Hi). split; [|done]. apply elem_of_list_filter. split; [|done].
      by apply live_reachable, Hlive.
    + intros p' [Hp|Hp]%elem_of_app.
      * apply G6. by right.
      * apply elem_of_list_fmap in Hp as (? & ? & _). done.
Qed.

Lemma good_iter n st : good st → good (Nat.iter n proc st).
Proof. intros. apply Nat.iter_ind; auto using good_proc. Qed.

Lemma good_step st l : wf_label l = true → good st → good (wq_step es st l).
Proof.
  intros Hw [G1 G2 G3 G4 G5 G6]. destruct l as [t m s|e|p|p|id|]; simpl in *; try done.
  - split; simpl; [done..|]. intros p [Hp|Hp]%elem_of_app; [by apply G6|].
    apply elem_of_list_fmap in Hp as (? & ? & _). done.
  - split; simpl; [done..|]. intros p [Hp|Hp]%elem_of_app; [by apply G6|].
    apply elem_of_list_singleton in Hp. done.
  - split; simpl; [done..|]. intros p' [Hp|Hp]%elem_of_app; [by apply G6|].
    apply elem_of_list_singleton in Hp. done.
  - split; simpl; [done..|]. intros p' [Hp|Hp]%elem_of_app; [by apply G6|].
    apply elem_of_list_singleton in Hp. inversion Hp; subst. by apply bool_decide_eq_true in Hw.
  - apply bool_decide_eq_true in Hw.
    assert (id = 3 ∨ id = 4) as Hid by set_solver.
    split; simpl; [done..| | |].
    + intros i Hi. destruct (G4 i Hi). split; [done|]. apply elem_of_list_filter. split; [lia|done].
    + apply elem_of_list_filter. split; [lia|done].
    + intros p' [Hp|Hp]%elem_of_app; [by apply G6|].
      apply elem_of_list_singleton in Hp. done.
Qed.

Definition step1 (st : wstate) (l : wlabel) : wstate := wq_drain es (wq_step es st l).

Lemma good_step1 st l : wf_label l = true → good st → good (step1 st l).
Proof. intros. by apply good_iter, good_step. Qed.

(* state invariants of scenarios *)
Lemma scn_inv (P : wstate → Prop) :
  (∀ st l, good st → wf_label l = true → P st → P (wq_step es st l)) →
  (∀ st, good st → P st → P (proc st)) →
  ∀ ops st, forallb wf_label ops = true → good st → P st →
    good (scn_run es st ops) ∧ P (scn_run es st ops).
Proof.
  intros Hstep Hproc. induction ops as [|l ops IH]; intros st Hw Hg HP; [done|].
  simpl in Hw. apply andb_true_iff in Hw as [Hl Hw]. simpl. apply IH; [done|by apply good_step1|].
  rewrite /wq_drain.
  assert (good (wq_step es st l) ∧ P (wq_step es st l)) as H0 by (split; [by apply good_step|by apply Hstep]).
  revert H0. generalize (wq_step es st l). intros st1 [Hg1 HP1].
  generalize (wq_measure st1). intros n.
  induction n as [|n IHn]; [done|]. rewrite Nat.iter_succ. apply Hproc; [by apply good_iter|done].
Qed.

(* quantities that the event stream's own steps leave alone *)
Lemma iter_proc_preserves {A} (Q : wstate → A) n st :
  (∀ y, Q (proc y) = Q y) → Q (Nat.iter n proc st) = Q st.
Proof. intros H. induction n as [|n IH]; [done|]. by rewrite Nat.iter_succ H. Qed.

Lemma view_proc st : w_view (proc st) = w_view st.
Proof.
  rewrite /wq_proc. destruct (w_q st) as [|m q']; [done|].
  by destruct (es_step (w_view st) es (w_subs st) m).
Qed.
Lemma view_drain st : w_view (wq_drain es st) = w_view st.
Proof. apply (iter_proc_preserves w_view), view_proc. Qed.

End scenario.

Section scenario_clauses.
Notation es := es09.
Notation proc := (wq_proc es09).
Context (nmon : nat) (Hnmon : nmon ≤ 3).
Notation good := (good nmon).

Lemma log_of_proc p st :
  log_of p (proc st) =
  log_of p st ++ match w_q st with
                 | Ev e :: _ => entries_to p (omap (λ x, outcome_delivery x.2) (forwards (w_view st) es e (w_subs st)))
                 | _ => []
                 end.
Proof.
  rewrite /wq_proc /log_of. destruct (w_q st) as [|[q|q|e] q']; simpl; rewrite ?app_nil_r //.
  by rewrite entries_to_app.
Qed.

Lemma done_proc st :
  w_done (proc st) = w_done st ++ match w_q st with Ev e :: _ => [e] | _ => [] end.
Proof. rewrite /wq_proc. destruct (w_q st) as [|[q|q|e] q']; simpl; rewrite ?app_nil_r //. Qed.

(* what a send delivers *)
Lemma send_delivery v t m s :
  option_list (outcome_delivery (route v t m s)) =
  match t with
  | Some p => if decide (live v p) then [(p, m, s)] else []
  | None => []
  end.
Proof.
  destruct t as [p|]; [|done]. case_decide as Hl.
  - by rewrite (route_live _ _ _ _ Hl).
  - destruct (outcome_delivery (route v (Some p) m s)) as [d|] eqn:E; [|done].
    exfalso. apply Hl, (route_delivery_iff v p m s). by rewrite E.
Qed.

Lemma log_of_send p st t m s :
  log_of p (wq_step es st (LSend t m s)) =
  log_of p st ++ if decide (t = Some p ∧ live (w_view st) p) then [(m, s)] else [].
Proof.
  rewrite /log_of /= entries_to_app send_delivery. f_equal.
  destruct t as [p'|]; [|case_decide; naive_solver].
  case_decide.
  - rewrite entries_to_cons. repeat case_decide; simpl; try done; naive_solver.
  - case_decide; [naive_solver|done].
Qed.

(** ** monitors see exactly the handled events, from the event stream *)
Definition mon_rel (i : nat) (st : wstate) : Prop :=
  log_of (0, i) st = (λ e, (e, Some es)) <$> w_done st.

Lemma mon_rel_proc i st : i < nmon → good st → mon_rel i st → mon_rel i (proc st).
Proof.
  intros Hi Hg Hr. rewrite /mon_rel log_of_proc done_proc fmap_app Hr. f_equal.
  destruct (w_q st) as [|[q|q|e] q']; try done.
  rewrite entries_forwards; [apply Hg|]. case_decide as Hd; [done|]. exfalso. apply Hd. split.
  - by apply (g_mon nmon st Hg).
  - by apply (good_mon_live nmon).
Qed.

Lemma mon_rel_step i st l :
  i < nmon → good st → wf_label l = true → mon_rel i st → mon_rel i (wq_step es st l).
Proof.
  intros Hi Hg Hw Hr. destruct l as [t m s|e|p|p|id|]; try done.
  rewrite /mon_rel log_of_send. simpl. rewrite -Hr. case_decide as Hd; [|by rewrite app_nil_r].
  exfalso. destruct Hd as [-> _]. simpl in Hw. apply andb_true_iff in Hw as [_ Hw].
  apply andb_true_iff in Hw as [_ Hw]. apply bool_decide_eq_true in Hw. apply Hw. split; simpl; lia.
Qed.

(** ** the events the external steps put on the event stream *)
Definition Q1 (st : wstate) : list msg :=
  filter (λ e, is_bounce e = false) (w_done st ++ events_of (w_q st)).

Lemma bounce_is_bounce v e q : is_bounce (bounce v es e q) = true.
Proof. rewrite /bounce. destruct (is_local v q); by vm_compute. Qed.
Lemma filter_bounces_nil v e l :
  filter (λ e', is_bounce e' = false) (bounce v es e <$> l) = [].
Proof.
  induction l as [|q l IH]; [done|]. rewrite fmap_cons filter_cons IH bounce_is_bounce. by case_decide.
Qed.

Lemma events_of_cons m q : events_of (m :: q) = match m with Ev e => [e] | _ => [] end ++ events_of q.
Proof. by destruct m. Qed.

Lemma queue_proc st :
  w_q (proc st) =
  match w_q st with
  | [] => []
  | Ev e :: q' => q' ++ (Ev <$> (bounce (w_view st) es e <$> dead_subs (w_view st) (w_subs st)))
  | _ :: q' => q'
  end.
Proof.
  rewrite /wq_proc. destruct (w_q st) as [|[q|q|e] q'] eqn:Eq; simpl; rewrite ?app_nil_r //.
  fold (forwards (w_view st) es e (w_subs st)). by rewrite fed_back_forwards.
Qed.

Lemma Q1_proc st : Q1 (proc st) = Q1 st.
Proof.
  rewrite /Q1 done_proc queue_proc. destruct (w_q st) as [|[q|q|e] q']; rewrite ?app_nil_r //.
  rewrite events_of_app events_of_events events_of_cons -!assoc !filter_app filter_bounces_nil.
  by rewrite app_nil_r.
Qed.

Definition prim1 (v : view) (l : wlabel) : list msg :=
  match l with
  | LSend t m s => option_list (outcome_event (route v t m s))
  | LBcast e => [e]
  | LStop id => [EStopped (v_addr v, id)]
  | _ => []
  end.
Definition view_after (v : view) (l : wlabel) : view :=
  match l with
  | LStop id => {| v_addr := v_addr v; v_remote := v_remote v; v_reg := filter (λ i, i ≠ id) (v_reg v) |}
  | _ => v
  end.

Lemma primaries_cons v l ops : primaries v (l :: ops) = prim1 v l ++ primaries (view_after v l) ops.
Proof. by destruct l. Qed.
Lemma view_step st l : w_view (wq_step es st l) = view_after (w_view st) l.
Proof. destruct l; try done. apply view_proc. Qed.
Lemma view_step1 st l : w_view (step1 st l) = view_after (w_view st) l.
Proof. by rewrite /step1 view_drain view_step. Qed.

Lemma send_event_not_bounce v t m s :
  s ≠ Some es → filter (λ e, is_bounce e = false) (option_list (outcome_event (route v t m s)))
                = option_list (outcome_event (route v t m s)).
Proof.
  intros Hs. destruct t as [p|]; [|done]. rewrite /route.
  destruct (is_local v p), (registered v p), (v_remote v); simpl; try done;
    rewrite filter_cons; (case_decide as Hb; [done|]); exfalso; apply Hb;
    (destruct s as [s'|]; [|done]); apply bool_decide_eq_false; congruence.
Qed.

Lemma Q1_step st l : wf_label l = true → Q1 (wq_step es st l) = Q1 st ++ prim1 (w_view st) l.
Proof.
  intros Hw. destruct l as [t m s|e|p|p|id|]; try done; rewrite /Q1 /=.
  - rewrite events_of_app events_of_events assoc filter_app. f_equal. apply send_event_not_bounce.
    simpl in Hw. apply andb_true_iff in Hw as [Hw _]. apply andb_true_iff in Hw as [Hw _].
    by apply bool_decide_eq_true in Hw.
  - rewrite events_of_app assoc filter_app. f_equal. cbn.
    simpl in Hw. apply negb_true_iff in Hw. by case_decide.
  - by rewrite events_of_app /= !app_nil_r.
  - by rewrite events_of_app /= !app_nil_r.
  - rewrite events_of_app assoc filter_app. f_equal.
Qed.

Lemma Q1_run ops : ∀ st,
  forallb wf_label ops = true → Q1 (scn_run es st ops) = Q1 st ++ primaries (w_view st) ops.
Proof.
  induction ops as [|l ops IH]; intros st Hw; [by rewrite /= app_nil_r|].
  simpl in Hw. apply andb_true_iff in Hw as [Hl Hw].
  change (scn_run es st (l :: ops)) with (scn_run es (step1 st l) ops).
  rewrite IH // view_step1 primaries_cons assoc. f_equal.
  rewrite /step1 /wq_drain (iter_proc_preserves Q1); [apply Q1_proc|]. by apply Q1_step.
Qed.

(** ** what the live target 5 got from others than the event stream *)
Definition Q5 (st : wstate) : list (msg * option pid) := filter (λ x, x.2 ≠ Some es) (log_of (0, 5) st).

Lemma filter_sender_nil (l : list (msg * option pid)) :
  Forall (λ x, x.2 = Some es) l → filter (λ x, x.2 ≠ Some es) l = [].
Proof. induction 1 as [|x l Hx Hl IH]; [done|]. rewrite filter_cons IH. by case_decide. Qed.

Lemma Q5_proc st : Q5 (proc st) = Q5 st.
Proof.
  rewrite /Q5 log_of_proc filter_app. destruct (w_q st) as [|[q|q|e] q']; rewrite ?app_nil_r //.
  rewrite (filter_sender_nil (entries_to _ _)) ?app_nil_r //.
  apply (entries_to_sender _ (λ s, s = Some es)), forwards_sender.
Qed.

Definition sends1 (p : pid) (l : wlabel) : list (msg * option pid) :=
  match l with LSend (Some t) m s => if decide (t = p) then [(m, s)] else [] | _ => [] end.
Lemma sends_to_cons p l ops : sends_to p (l :: ops) = sends1 p l ++ sends_to p ops.
Proof. rewrite /sends_to /=. destruct l as [[t|] m s| | | | |]; simpl; try done. by case_decide. Qed.

Lemma Q5_step st l : good st → wf_label l = true → Q5 (wq_step es st l) = Q5 st ++ sends1 (0, 5) l.
Proof.
  intros Hg Hw. destruct l as [t m s|e|p|p|id|]; try done; rewrite /Q5; try by rewrite /= app_nil_r.
  rewrite log_of_send filter_app. f_equal. simpl in Hw.
  apply andb_true_iff in Hw as [Hw _]. apply andb_true_iff in Hw as [Hs%bool_decide_eq_true _].
  assert (live (w_view st) (0, 5)) as Hl.
  { split; apply bool_decide_eq_true; simpl; [by rewrite (g_addr _ _ Hg)|by apply (g_five _ _ Hg)]. }
  simpl. destruct t as [t|]; [|case_decide; naive_solver].
  repeat case_decide; try naive_solver. rewrite filter_cons. case_decide; naive_solver.
Qed.

Lemma Q5_run ops : ∀ st,
  good st → forallb wf_label ops = true → Q5 (scn_run es st ops) = Q5 st ++ sends_to (0, 5) ops.
Proof.
  induction ops as [|l ops IH]; intros st Hg Hw; [by rewrite /= app_nil_r|].
  simpl in Hw. apply andb_true_iff in Hw as [Hl Hw].
  change (scn_run es st (l :: ops)) with (scn_run es (step1 st l) ops).
  rewrite IH //; [by apply good_step1|]. rewrite sends_to_cons assoc. f_equal.
  rewrite /step1 /wq_drain (iter_proc_preserves Q5); [apply Q5_proc|]. by apply Q5_step.
Qed.

(** ** actors 3 and 4: what the event stream forwarded to them is part of what it handled *)
Definition sub_rel (j : nat) (st : wstate) : Prop :=
  sublist (filter (λ x, x.2 = Some es) (log_of (0, j) st)).*1 (w_done st).

Lemma sub_rel_proc j st : good st → sub_rel j st → sub_rel j (proc st).
Proof.
  intros Hg Hr. rewrite /sub_rel log_of_proc done_proc filter_app fmap_app. apply sublist_app; [done|].
  destruct (w_q st) as [|[q|q|e] q']; try done.
  rewrite entries_forwards; [apply Hg|]. case_decide; [|apply sublist_nil_l].
  rewrite filter_cons. case_decide; [done|apply sublist_nil_l].
Qed.

Lemma sub_rel_step j st l : good st → wf_label l = true → sub_rel j st → sub_rel j (wq_step es st l).
Proof.
  intros Hg Hw Hr. destruct l as [t m s|e|p|p|id|]; try done.
  rewrite /sub_rel log_of_send filter_app. simpl in *.
  apply andb_true_iff in Hw as [Hw _]. apply andb_true_iff in Hw as [Hs%bool_decide_eq_true _].
  case_decide; [|by rewrite app_nil_r]. rewrite filter_cons. case_decide; [done|by rewrite app_nil_r].
Qed.

(** ** events that report a forward: their message was handled before *)
Definition bmsg_inv (st : wstate) : Prop :=
  ∀ b, b ∈ w_done st ++ events_of (w_q st) → is_bounce b = true →
       ∃ m, bounce_msg b = Some m ∧ m ∈ w_done st.

Lemma bounce_msg_bounce v e q : bounce_msg (bounce v es e q) = Some e.
Proof. rewrite /bounce. by destruct (is_local v q). Qed.
Lemma bounce_target_bounce v e q : bounce_target (bounce v es e q) = Some q.
Proof. rewrite /bounce. by destruct (is_local v q). Qed.

Lemma bmsg_inv_proc st : bmsg_inv st → bmsg_inv (proc st).
Proof.
  intros Hi b. rewrite done_proc queue_proc. destruct (w_q st) as [|[q|q|e] q'] eqn:Eq.
  - rewrite !app_nil_r. intros Hb Hbb. apply Hi; [by rewrite Eq app_nil_r|done].
  - rewrite !app_nil_r. intros Hb Hbb. apply Hi; [by rewrite Eq|done].
  - rewrite !app_nil_r. intros Hb Hbb. apply Hi; [by rewrite Eq|done].
  - rewrite events_of_app events_of_events. intros Hb Hbb.
    assert (b ∈ w_done st ++ events_of (w_q st) ∨ b ∈ bounce (w_view st) es e <$> dead_subs (w_view st) (w_subs st))
      as [Hold|Hnew].
    { rewrite Eq events_of_cons. set_solver. }
    + destruct (Hi b Hold Hbb) as (m & ? & ?). exists m. split; [done|]. apply elem_of_app. by left.
    + apply elem_of_list_fmap in Hnew as (d & -> & _). exists e. split; [apply bounce_msg_bounce|].
      apply elem_of_app. right. by left.
Qed.

Lemma send_event_nonbounce v t m s e :
  s ≠ Some es → outcome_event (route v t m s) = Some e → is_bounce e = false.
Proof.
  intros Hs. destruct t as [p|]; [|done]. rewrite /route.
  destruct (is_local v p), (registered v p), (v_remote v); simpl; intros He; inversion He; subst; simpl;
    (destruct s as [s'|]; [|done]); apply bool_decide_eq_false; congruence.
Qed.

(* the events an external step adds are not such reports *)
Lemma step_new_events st l :
  wf_label l = true →
  w_done (wq_step es st l) = w_done st ∧
  ∃ new, events_of (w_q (wq_step es st l)) = events_of (w_q st) ++ new ∧ Forall (λ e, is_bounce e = false) new.
Proof.
  intros Hw. destruct l as [t m s|e|p|p|id|]; try done; simpl; (split; [done|]).
  - eexists. rewrite events_of_app events_of_events. split; [done|].
    simpl in Hw. apply andb_true_iff in Hw as [Hw _]. apply andb_true_iff in Hw as [Hs%bool_decide_eq_true _].
    destruct (outcome_event (route (w_view st) t m s)) as [e|] eqn:E; [|constructor].
    constructor; [|constructor]. exact (send_event_nonbounce _ _ _ _ _ Hs E).
  - exists [e]. rewrite events_of_app. split; [done|]. repeat constructor. by apply negb_true_iff.
  - exists []. rewrite events_of_app /= app_nil_r. done.
  - exists []. rewrite events_of_app /= app_nil_r. done.
  - eexists [_]. rewrite events_of_app. split; [done|]. by repeat constructor.
Qed.

Lemma bmsg_inv_step st l : wf_label l = true → bmsg_inv st → bmsg_inv (wq_step es st l).
Proof.
  intros Hw Hi b. destruct (step_new_events st l Hw) as (-> & new & -> & Hnew).
  rewrite assoc. intros [Hb|Hb]%elem_of_app Hbb; [by apply Hi|].
  rewrite Forall_forall in Hnew. rewrite (Hnew b Hb) in Hbb. done.
Qed.

(** ** at most one such report per subscription of a PID *)
Definition bt (q : pid) (e : msg) : Prop := is_bounce e = true ∧ bounce_target e = Some q.
Global Instance bt_dec q e : Decision (bt q e).
Proof. rewrite /bt. apply _. Defined.
Definition Bq (q : pid) (st : wstate) : nat := length (filter (bt q) (w_done st ++ events_of (w_q st))).
Definition Sq (q : pid) (st : wstate) : nat :=
  (if decide (q ∈ w_subs st) then 1 else 0) + length (filter (λ m, m = Sub q) (w_q st)).

Lemma count_bt_bounces q v e l :
  NoDup l → length (filter (bt q) (bounce v es e <$> l)) = if decide (q ∈ l) then 1 else 0.
Proof.
  induction 1 as [|d l Hd Hn IH]; [by case_decide; [set_solver|]|].
  rewrite fmap_cons filter_cons.
  assert (bt q (bounce v es e d) ↔ d = q) as Hiff.
  { rewrite /bt bounce_is_bounce bounce_target_bounce. naive_solver. }
  repeat case_decide; simpl; rewrite ?IH; repeat case_decide; try done; exfalso; set_solver.
Qed.

Lemma count_sub_events q G : filter (λ m, m = Sub q) (Ev <$> G) = [].
Proof. induction G as [|g G IH]; [done|]. rewrite fmap_cons filter_cons IH. by case_decide. Qed.
Lemma filter_bt_nonbounce q new : Forall (λ e, is_bounce e = false) new → filter (bt q) new = [].
Proof.
  induction 1 as [|e new He Hn IH]; [done|]. rewrite filter_cons IH. case_decide as Hb; [|done].
  destruct Hb as [Hb _]. congruence.
Qed.

Lemma subs_proc st :
  w_subs (proc st) =
  match w_q st with
  | [] => w_subs st
  | Sub p :: _ => subs_add p (w_subs st)
  | Unsub p :: _ => subs_del p (w_subs st)
  | Ev _ :: _ => live_subs (w_view st) (w_subs st)
  end.
Proof. rewrite /wq_proc. by destruct (w_q st) as [|[q|q|e] q']. Qed.

Lemma Pq_proc q st : NoDup (w_subs st) → Bq q (proc st) + Sq q (proc st) ≤ Bq q st + Sq q st.
Proof.
  intros Hn. rewrite /Bq /Sq done_proc queue_proc subs_proc.
  destruct (w_q st) as [|[p|p|e] q'] eqn:Eq; rewrite ?app_nil_r.
  - done.
  - rewrite events_of_cons filter_cons /=.
    pose proof (elem_of_subs_add q p (w_subs st)).
    repeat case_decide; simpl; try lia; exfalso; naive_solver.
  - rewrite events_of_cons filter_cons /=.
    pose proof (elem_of_subs_del q p (w_subs st)).
    repeat case_decide; simpl; try lia; exfalso; naive_solver.
  - rewrite events_of_app events_of_events events_of_cons !filter_app !app_length filter_cons.
    rewrite count_sub_events (filter_cons _ (Ev e)).
    rewrite count_bt_bounces; [by apply NoDup_filter|].
    assert (q ∈ dead_subs (w_view st) (w_subs st) → q ∈ w_subs st ∧ q ∉ live_subs (w_view st) (w_subs st)) as Hdead.
    { rewrite /dead_subs /live_subs !elem_of_list_filter. intros [H1 H2]. split; [done|]. intros [H3 _]. congruence. }
    assert (q ∈ live_subs (w_view st) (w_subs st) → q ∈ w_subs st) as Hlive.
    { rewrite /live_subs elem_of_list_filter. tauto. }
    simpl. repeat case_decide; simpl; try lia; exfalso; naive_solver.
Qed.

Lemma Pq_step q st l :
  wf_label l = true →
  Bq q (wq_step es st l) + Sq q (wq_step es st l) ≤ Bq q st + Sq q st + if decide (l = LSub q) then 1 else 0.
Proof.
  intros Hw. rewrite /Bq. destruct (step_new_events st l Hw) as (-> & new & -> & Hnew).
  rewrite assoc filter_app app_length (filter_bt_nonbounce q new Hnew) /= Nat.add_0_r.
  rewrite /Sq. destruct l as [t m s|e|p|p|id|]; try done; simpl; rewrite (filter_app _ (w_q st)) app_length.
  - rewrite count_sub_events /=. lia.
  - rewrite filter_cons /=. repeat case_decide; simpl; try done; lia.
  - rewrite filter_cons /=. repeat case_decide; simpl; try lia; exfalso; naive_solver.
  - rewrite filter_cons /=. repeat case_decide; simpl; try done; lia.
  - rewrite filter_cons /=. repeat case_decide; simpl; try done; lia.
Qed.

Lemma Pq_iter q n st :
  NoDup (w_subs st) →
  NoDup (w_subs (Nat.iter n proc st)) ∧
  Bq q (Nat.iter n proc st) + Sq q (Nat.iter n proc st) ≤ Bq q st + Sq q st.
Proof.
  intros Hn. induction n as [|n [IH1 IH2]]; [done|]. rewrite Nat.iter_succ. split.
  - by apply wq_proc_nodup.
  - pose proof (Pq_proc q _ IH1). lia.
Qed.

Lemma Pq_run q ops : ∀ st,
  NoDup (w_subs st) → forallb wf_label ops = true →
  Bq q (scn_run es st ops) + Sq q (scn_run es st ops) ≤ Bq q st + Sq q st + count_subs q ops.
Proof.
  induction ops as [|l ops IH]; intros st Hn Hw; [simpl; lia|].
  simpl in Hw. apply andb_true_iff in Hw as [Hl Hw].
  change (scn_run es st (l :: ops)) with (scn_run es (step1 st l) ops).
  destruct (Pq_iter q (wq_measure (wq_step es st l)) (wq_step es st l)) as [Hn1 Hle]; [by apply wq_step_nodup|].
  fold (wq_drain es (wq_step es st l)) in Hn1, Hle. fold (step1 st l) in Hn1, Hle.
  pose proof (IH (step1 st l) Hn1 Hw). pose proof (Pq_step q st l Hl).
  assert (count_subs q (l :: ops) = (if decide (l = LSub q) then 1 else 0) + count_subs q ops) as ->.
  { rewrite /count_subs filter_cons. by case_decide. }
  lia.
Qed.

(** ** finitely many *)
Lemma potential_run ops : ∀ st,
  NoDup (w_subs st) → potential (scn_run es st ops) ≤ potential st + cost ops.
Proof.
  induction ops as [|l ops IH]; intros st Hn; [simpl; lia|].
  change (scn_run es st (l :: ops)) with (scn_run es (step1 st l) ops).
  destruct (iter_proc_potential es (wq_measure (wq_step es st l)) (wq_step es st l)) as [Hn1 Hle];
    [by apply wq_step_nodup|].
  fold (wq_drain es (wq_step es st l)) in Hn1, Hle. fold (step1 st l) in Hn1, Hle.
  pose proof (IH (step1 st l) Hn1). pose proof (wq_step_potential es st l Hn). simpl. lia.
Qed.

Lemma scn_run_quiescent ops : ∀ st, w_q st = [] → w_q (scn_run es st ops) = [].
Proof.
  induction ops as [|l ops IH]; intros st Hq; [done|]. simpl. apply IH, wq_drain_quiescent.
Qed.

End scenario_clauses.

(** ** assembly *)

Lemma is_sublist_complete l2 : ∀ l1, sublist l1 l2 → is_sublist l1 l2 = true.
Proof.
  induction l2 as [|y l2 IH]; intros l1 Hs.
  - apply sublist_nil_r in Hs as ->. done.
  - destruct l1 as [|x l1]; [done|]. simpl. apply sublist_cons_r in Hs as [Hs|(l' & Heq & Hs)].
    + case_decide; subst; apply IH; [|done]. trans (y :: l1); [by apply sublist_cons|done].

    + inversion Heq; subst. case_decide; [by apply IH|done].
Qed.

Lemma good_init nmon : good nmon (winit (v09 nmon) (subs09 nmon)).
Proof.
  split; simpl; try done.
  - apply NoDup_fmap_2; [by intros ?? [=]|apply NoDup_seq].
  - intros i Hi. split.
    + apply elem_of_list_fmap. exists i. split; [done|]. apply elem_of_seq. lia.
    + apply elem_of_app. left. apply elem_of_seq. lia.
  - apply elem_of_app. right. set_solver.
  - intros p Hp. by apply elem_of_nil in Hp.
Qed.

Lemma lookup_model09 nmon ops i :
  nmon ≤ 3 → i ∈ recorders09 nmon →
  lookup_log i (model09 nmon ops) = log_of (0, i) (final09 nmon ops).
Proof.
  intros Hn Hi. rewrite /model09. generalize (final09 nmon ops). intros st.
  destruct nmon as [|[|[|[|?]]]]; [..|lia]; rewrite /recorders09 /= in Hi;
    repeat (apply elem_of_cons in Hi as [->|Hi]; [by vm_compute|]); by apply elem_of_nil in Hi.
Qed.

Lemma filter_none {A} (P : A → Prop) `{∀ x, Decision (P x)} (l : list A) :
  Forall (λ x, ¬ P x) l → filter P l = [].
Proof. induction 1 as [|x l Hx Hl IH]; [done|]. rewrite filter_cons IH. by case_decide. Qed.

Lemma forallb_intro {A} (f : A → bool) (l : list A) : (∀ x, x ∈ l → f x = true) → forallb f l = true.
Proof. intros Hf. apply forallb_forall. intros x Hx. apply Hf. by apply elem_of_list_In. Qed.

Lemma dead_subs_init nmon : dead_subs (v09 nmon) (subs09 nmon) = [].
Proof.
  pose proof (good_init nmon) as Hg. apply filter_none, Forall_forall.
  intros p (i & -> & Hi%elem_of_seq)%elem_of_list_fmap.
  rewrite (live_reachable (v09 nmon) (0, i)); [|done]. apply (good_mon_live nmon _ i Hg). lia.
Qed.

(* the C09 oracle ([oracle09_on], Events.v) is true of every model run of a well-formed scenario *)
Theorem oracle09_holds_of_model nmon ops :
  wf09 nmon ops = true → oracle09_on nmon ops (model09 nmon ops) false false = true.
Proof.
  intros Hwf. apply andb_true_iff in Hwf as [Hwf _]. apply andb_true_iff in Hwf as [Hn%bool_decide_eq_true Hw].
  set (st0 := winit (v09 nmon) (subs09 nmon)).
  pose proof (good_init nmon) as Hg0. fold st0 in Hg0.
  (* the state invariants *)
  destruct (scn_inv nmon Hn
    (λ st, (∀ i, i < nmon → mon_rel i st) ∧ sub_rel 3 st ∧ sub_rel 4 st ∧ bmsg_inv st)) with (ops := ops) (st := st0)
    as (Hg & Hmon & Hs3 & Hs4 & Hbm); [| |done|done| |].
  { intros st l Hgs Hwl (H1 & H2 & H3 & H4). split_and!.
    - intros i Hi. by apply (mon_rel_step nmon Hn), H1.
    - by apply (sub_rel_step nmon).
    - by apply (sub_rel_step nmon).
    - by apply bmsg_inv_step. }
  { intros st Hgs (H1 & H2 & H3 & H4). split_and!.
    - intros i Hi. by apply (mon_rel_proc nmon), H1.
    - by apply (sub_rel_proc nmon).
    - by apply (sub_rel_proc nmon).
    - by apply (bmsg_inv_proc nmon Hn). }
  { split_and!; try done; [apply sublist_nil_l..|]. intros b Hb. by apply elem_of_nil in Hb. }
  set (st := final09 nmon ops). change (scn_run es09 st0 ops) with st in Hg, Hmon, Hs3, Hs4, Hbm.
  assert (w_q st = []) as Hq by (by apply scn_run_quiescent).
  (* the run lemmas *)
  assert (filter (λ e, is_bounce e = false) (w_done st) = primaries (v09 nmon) ops) as Hprim.
  { pose proof (Q1_run ops st0 Hw) as HQ. change (scn_run es09 st0 ops) with st in HQ.
    rewrite /Q1 Hq /= !app_nil_r in HQ. done. }
  assert (Q5 st = sends_to (0, 5) ops) as H5.
  { pose proof (Q5_run nmon Hn ops st0 Hg0 Hw) as HQ. change (scn_run es09 st0 ops) with st in HQ. done. }
  assert (length (w_done st) ≤ cost ops) as Hcost.
  { pose proof (potential_run nmon Hn ops st0 (g_nodup _ _ Hg0)) as HP. change (scn_run es09 st0 ops) with st in HP.
    rewrite /potential /events_total /= dead_subs_init /= in HP. lia. }
  assert (∀ q, Bq q st ≤ count_subs q ops) as HB.
  { intros q. pose proof (Pq_run nmon Hn q ops st0 (g_nodup _ _ Hg0) Hw) as HP.
    change (scn_run es09 st0 ops) with st in HP.
    assert (Bq q st0 = 0) as HB0 by done. rewrite HB0 in HP.
    rewrite /Sq /= in HP. revert HP. destruct (decide (q ∈ subs09 nmon)) as [Hin|Hin]; [|lia].
    apply elem_of_list_fmap in Hin as (i & -> & Hi%elem_of_seq).
    destruct (g_mon _ _ Hg i) as [Hin _]; [lia|]. case_decide; [lia|done]. }
  (* the monitors' logs *)
  set (LL := (λ e, (e, Some es09)) <$> w_done st).
  assert (LL.*1 = w_done st) as HLL1.
  { rewrite /LL -list_fmap_compose. apply list_fmap_id. }
  assert (∀ i, i < nmon → lookup_log i (model09 nmon ops) = LL) as Hlk.
  { intros i Hi. rewrite lookup_model09 //; [|by apply Hmon].
    apply elem_of_app. left. apply elem_of_seq. lia. }
  assert (∀ i, i ∈ [3; 4; 5] → lookup_log i (model09 nmon ops) = log_of (0, i) st) as Hlk2.
  { intros i Hi. rewrite lookup_model09 //. apply elem_of_app. by right. }
  assert (mon_ok nmon ops (w_done st) LL = true) as Hok.
  { rewrite /mon_ok HLL1. repeat (apply andb_true_iff; split).
    - apply forallb_intro. intros x (e & -> & _)%elem_of_list_fmap. by apply bool_decide_eq_true.
    - by apply bool_decide_eq_true.
    - apply forallb_intro. intros e He. destruct (is_bounce e) eqn:Eb; [|done]. simpl.
      destruct (Hbm e) as (m & Hm1 & Hm2); [by rewrite Hq /= app_nil_r|done|].
      rewrite Hm1 /=. apply andb_true_iff. split; apply bool_decide_eq_true; [done|].
      assert (∃ q, bounce_target e = Some q) as [q Hq'] by (destruct e; try done; by eexists).
      rewrite Hq' /=. pose proof (HB q) as HBq. rewrite /Bq Hq /= app_nil_r in HBq. done.
    - apply bool_decide_eq_true. by rewrite /LL fmap_length.
    - by apply bool_decide_eq_true. }
  rewrite /oracle09_on. cbn [negb andb].
  set (mon := (λ i, lookup_log i (model09 nmon ops)) <$> seq 0 nmon).
  assert (∀ L, L ∈ mon → L = LL) as HmonLL.
  { intros L (i & -> & Hi%elem_of_seq)%elem_of_list_fmap. apply Hlk. lia. }
  assert (nmon ≠ 0 → (default [] (head mon)).*1 = w_done st) as Hmon0.
  { intros Hnz. rewrite /mon. destruct nmon as [|n]; [done|]. simpl. rewrite Hlk; [lia|done]. }
  apply andb_true_iff. split; [apply andb_true_iff; split|].
  - apply forallb_intro. intros L HL. rewrite (HmonLL L HL) Hmon0; [|done].
    intros ->. by apply elem_of_nil in HL.
  - apply bool_decide_eq_true. rewrite Hlk2; [set_solver|]. exact H5.
  - apply forallb_intro. intros j Hj. destruct (decide (nmon = 0)) as [->|Hnz]; [done|].
    rewrite bool_decide_eq_false_2 //=. rewrite Hmon0 // Hlk2; [set_solver|].
    apply is_sublist_complete. assert (j = 3 ∨ j = 4) as [-> | ->] by set_solver; done.
Qed.
