(** Proofs about the agent membership model (Agent.v): closed form of
    [handle_members], the C18 step theorem, its lifting to histories, the
    necessity of the self-membership hypothesis, order irrelevance. *)
From stdpp Require Import gmap list sorting.
From HV Require Import Agent.

(** * member sets *)
Lemma insert_all_snoc acc l m : insert_all acc (l ++ [m]) = <[mid m := m]> (insert_all acc l).
Proof. unfold insert_all. by rewrite foldl_app. Qed.

Lemma member_set_snoc l m : member_set (l ++ [m]) = <[mid m := m]> (member_set l).
Proof. apply insert_all_snoc. Qed.

Lemma member_set_nil : member_set [] = ∅.
Proof. done. Qed.

Lemma member_set_lookup l i : member_set l !! i = entry l i.
Proof.
  induction l as [|x l IH] using rev_ind; [apply lookup_empty|].
  rewrite member_set_snoc. unfold entry. rewrite filter_app.
  destruct (decide (mid x = i)) as [<-|Hne].
  - rewrite lookup_insert, filter_cons_True by done. by rewrite filter_nil, last_snoc.
  - rewrite lookup_insert_ne, filter_cons_False by done.
    by rewrite filter_nil, app_nil_r.
Qed.

Lemma member_set_dom l : dom (member_set l) = list_to_set (mid <$> l).
Proof.
  induction l as [|x l IH] using rev_ind; [by rewrite member_set_nil, dom_empty_L|].
  rewrite member_set_snoc, dom_insert_L, fmap_app, list_to_set_app_L, IH. set_solver.
Qed.

Lemma member_set_keyed l : keyed (member_set l).
Proof.
  induction l as [|x l IH] using rev_ind; intros k m; [by rewrite member_set_nil, lookup_empty|].
  rewrite member_set_snoc, lookup_insert_Some. intros [[<- <-]|[_ ?]]; eauto.
Qed.

Lemma member_set_None l i : member_set l !! i = None ↔ i ∉ mid <$> l.
Proof. by rewrite <- not_elem_of_dom, member_set_dom, elem_of_list_to_set. Qed.

Lemma member_set_is_Some l i : is_Some (member_set l !! i) ↔ i ∈ mid <$> l.
Proof. by rewrite <- elem_of_dom, member_set_dom, elem_of_list_to_set. Qed.

Lemma member_set_elem l i m : member_set l !! i = Some m → m ∈ l ∧ mid m = i.
Proof.
  induction l as [|x l IH] using rev_ind; [by rewrite member_set_nil, lookup_empty|].
  rewrite member_set_snoc, lookup_insert_Some, elem_of_app, elem_of_list_singleton.
  intros [[<- <-]|[_ ?]]; naive_solver.
Qed.

Lemma member_set_NoDup l i m :
  NoDup (mid <$> l) → member_set l !! i = Some m ↔ m ∈ l ∧ mid m = i.
Proof.
  intros Hnd. split; [apply member_set_elem|].
  induction l as [|x l IH] using rev_ind; [intros [?%elem_of_nil _]; done|].
  rewrite fmap_app, NoDup_app in Hnd. destruct Hnd as (Hnd & Hx & _).
  rewrite member_set_snoc, lookup_insert_Some, elem_of_app, elem_of_list_singleton.
  intros [[Hm| ->] Hi]; [|by left].
  right. split; [|by apply IH].
  intros Heq. apply (Hx i); [|rewrite <- Heq; set_solver].
  rewrite <- Hi. by apply elem_of_list_fmap_1.
Qed.

(** * slices *)
Lemma elem_of_slice s m : m ∈ slice s ↔ ∃ k, s !! k = Some m.
Proof.
  unfold slice. rewrite elem_of_list_fmap. split.
  - intros ([k m'] & -> & H%elem_of_map_to_list). eauto.
  - intros (k & H). exists (k, m). by rewrite elem_of_map_to_list.
Qed.

Lemma slice_ids s : keyed s → mid <$> slice s = (map_to_list s).*1.
Proof.
  intros Hk. unfold slice. rewrite <- list_fmap_compose.
  apply Forall_fmap_ext, Forall_forall. intros [k m] H%elem_of_map_to_list. simpl. eauto.
Qed.

Lemma slice_NoDup_ids s : keyed s → NoDup (mid <$> slice s).
Proof. intros. rewrite slice_ids by done. apply NoDup_fst_map_to_list. Qed.

Lemma elem_of_slice_ids s i : keyed s → i ∈ mid <$> slice s ↔ i ∈ dom s.
Proof.
  intros Hk. rewrite elem_of_list_fmap, elem_of_dom. unfold is_Some.
  setoid_rewrite elem_of_slice. split.
  - intros (m & -> & k & H). rewrite (Hk _ _ H). eauto.
  - intros (m & H). exists m. split; [by rewrite (Hk _ _ H)|eauto].
Qed.

Lemma member_set_slice s : keyed s → member_set (slice s) = s.
Proof.
  intros Hk. apply map_eq. intros i. apply option_eq. intros m.
  rewrite member_set_NoDup by by apply slice_NoDup_ids.
  rewrite elem_of_slice. split.
  - intros ((k & H) & <-). by rewrite (Hk _ _ H).
  - intros H. split; [eauto|by apply Hk].
Qed.

Lemma keyed_filter (P : nat * member → Prop) `{!∀ x, Decision (P x)} s :
  keyed s → keyed (filter P s).
Proof. intros Hk k m [Hm _]%map_filter_lookup_Some. eauto. Qed.

(** * kinds *)
Lemma elem_of_kset m k : k ∈ kset m ↔ k ∈ mkinds m.
Proof. unfold kset. by rewrite elem_of_list_to_set. Qed.

Lemma elem_of_kinds_of s k :
  k ∈ kinds_of s ↔ ∃ i m, s !! i = Some m ∧ k ∈ mkinds m.
Proof.
  unfold kinds_of. rewrite elem_of_union_list. split.
  - intros (X & (m & -> & (i & H)%elem_of_slice)%elem_of_list_fmap & Hk).
    exists i, m. by rewrite <- elem_of_kset.
  - intros (i & m & H & Hk). exists (kset m). split; [|by rewrite elem_of_kset].
    apply elem_of_list_fmap. exists m. split; [done|]. apply elem_of_slice. eauto.
Qed.

(** * the two loops *)
Lemma joins_members a js : members (foldl member_join a js) = insert_all (members a) js.
Proof. revert a. induction js as [|m js IH]; intros a; simpl; [done|]. by rewrite IH. Qed.

Lemma joins_kinds a js : kinds (foldl member_join a js) = ⋃ (kset <$> js) ∪ kinds a.
Proof.
  revert a. induction js as [|m js IH]; intros a; simpl; [set_solver|].
  rewrite IH. simpl. set_solver.
Qed.

Lemma insert_all_union acc l : insert_all acc l = member_set l ∪ acc.
Proof.
  induction l as [|x l IH] using rev_ind; [by rewrite member_set_nil, (left_id_L ∅ (∪))|].
  by rewrite insert_all_snoc, member_set_snoc, IH, insert_union_l.
Qed.

Lemma leaves_members a ls i :
  members (foldl member_leave a ls) !! i =
  if decide (i ∈ mid <$> ls) then None else members a !! i.
Proof.
  induction ls as [|m ls IH] using rev_ind; [done|].
  rewrite foldl_app. simpl. rewrite fmap_app. simpl.
  destruct (decide (i = mid m)) as [->|Hne].
  - rewrite lookup_delete. rewrite decide_True; [done|set_solver].
  - rewrite lookup_delete_ne, IH by done.
    destruct (decide (i ∈ mid <$> ls)).
    + rewrite decide_True; [done|set_solver].
    + rewrite decide_False; [done|set_solver].
Qed.

Lemma leaves_kinds a ls :
  kinds (foldl member_leave a ls) =
  if decide (ls = []) then kinds a else kinds_of (members (foldl member_leave a ls)).
Proof.
  destruct ls as [|m ls _] using rev_ind; [done|].
  rewrite decide_False by (by intros ?%app_nil; naive_solver).
  by rewrite foldl_app.
Qed.

(** * closed form of handleMembers *)
Lemma joined_eq a snap :
  keyed (members a) → joined a snap = slice (spec_joined (members a) snap).
Proof.
  intros Hk. unfold joined, except, spec_joined. f_equal.
  apply map_filter_ext. intros i x Hx. simpl.
  rewrite member_set_None, elem_of_slice_ids, not_elem_of_dom by done.
  by rewrite (member_set_keyed _ _ _ Hx).
Qed.

Lemma left_eq a snap :
  keyed (members a) → left_ a snap = slice (spec_left (members a) snap).
Proof.
  intros Hk. unfold left_, except, spec_left. f_equal.
  apply map_filter_ext. intros i x Hx. simpl. by rewrite (Hk _ _ Hx).
Qed.

Lemma spec_joined_keyed v snap : keyed (spec_joined v snap).
Proof. apply keyed_filter, member_set_keyed. Qed.
Lemma spec_left_keyed v snap : keyed v → keyed (spec_left v snap).
Proof. apply keyed_filter. Qed.

Lemma spec_view_lookup v snap i :
  spec_view v snap !! i =
  match member_set snap !! i with None => None | Some n => Some (default n (v !! i)) end.
Proof. unfold spec_view. rewrite lookup_merge. by destruct (v !! i), (member_set snap !! i). Qed.

Lemma handle_members_members a snap :
  keyed (members a) → members (handle_members a snap).1 = spec_view (members a) snap.
Proof.
  intros Hk. apply map_eq. intros i.
  unfold handle_members, handle_members_ord. simpl.
  rewrite leaves_members, joins_members, insert_all_union, joined_eq, left_eq by done.
  rewrite member_set_slice by apply spec_joined_keyed.
  rewrite spec_view_lookup.
  destruct (decide _) as [Hin|Hnin].
  - apply elem_of_slice_ids, elem_of_dom in Hin; [|by apply spec_left_keyed].
    destruct Hin as (m & (_ & Hs)%map_filter_lookup_Some). simpl in Hs. by rewrite Hs.
  - rewrite elem_of_slice_ids, not_elem_of_dom in Hnin by by apply spec_left_keyed.
    unfold spec_left in Hnin. apply map_filter_lookup_None in Hnin. simpl in Hnin.
    rewrite lookup_union. unfold spec_joined.
    destruct (member_set snap !! i) as [n|] eqn:Hs.
    + destruct (members a !! i) as [o|] eqn:Ho.
      * rewrite map_filter_lookup_None_2; [done|]. right. intros x _. simpl. by rewrite Ho.
      * erewrite map_filter_lookup_Some_2; [done|done|done].
    + rewrite map_filter_lookup_None_2 by by left.
      destruct Hnin as [->|Hnin]; [done|].
      destruct (members a !! i) as [o|]; [|done]. by destruct (Hnin o).
Qed.

Lemma spec_view_keyed v snap : keyed v → keyed (spec_view v snap).
Proof.
  intros Hk i m. rewrite spec_view_lookup.
  destruct (member_set snap !! i) as [n|] eqn:Hs; [|done].
  destruct (v !! i) as [o|] eqn:Ho; simpl; intros [= <-]; [eauto|].
  by apply member_set_keyed in Hs.
Qed.

Lemma handle_members_keyed a snap :
  keyed (members a) → keyed (members (handle_members a snap).1).
Proof. intros. rewrite handle_members_members by done. by apply spec_view_keyed. Qed.

Lemma spec_view_dom v snap : dom (spec_view v snap) = list_to_set (mid <$> snap).
Proof.
  rewrite <- member_set_dom. apply set_eq. intros i. rewrite !elem_of_dom.
  rewrite spec_view_lookup. destruct (member_set snap !! i); [|by rewrite <- !not_eq_None_Some].
  split; eauto.
Qed.

Lemma handle_members_events a snap :
  keyed (members a) →
  (handle_members a snap).2 =
  (Join <$> slice (spec_joined (members a) snap)) ++ (Leave <$> slice (spec_left (members a) snap)).
Proof. intros. unfold handle_members, handle_members_ord. simpl. by rewrite joined_eq, left_eq. Qed.

Lemma kinds_of_union s1 s2 : s1 ##ₘ s2 → kinds_of (s1 ∪ s2) = kinds_of s1 ∪ kinds_of s2.
Proof.
  intros Hd. apply set_eq. intros k. rewrite elem_of_union, !elem_of_kinds_of. split.
  - intros (i & m & [H|[_ H]]%lookup_union_Some_raw & Hk); eauto.
  - intros [(i & m & H & Hk)|(i & m & H & Hk)]; exists i, m; split; try done.
    + by apply lookup_union_Some_l.
    + apply lookup_union_Some_raw. right. split; [|done].
      destruct (s1 !! i) eqn:E; [|done]. by destruct (map_disjoint_spec s1 s2) as [H1 _]; destruct (H1 Hd _ _ _ E H).
Qed.

Lemma spec_joined_disjoint v snap : spec_joined v snap ##ₘ v.
Proof.
  apply map_disjoint_spec. intros i x y [_ Hn]%map_filter_lookup_Some Hv. simpl in Hn. congruence.
Qed.

(* the kind index after a snapshot: memberJoin only adds, only a leave rebuilds *)
Lemma handle_members_kinds a snap :
  keyed (members a) →
  kinds (handle_members a snap).1 =
  if decide (spec_left (members a) snap = ∅)
  then kinds_of (spec_joined (members a) snap) ∪ kinds a
  else kinds_of (spec_view (members a) snap).
Proof.
  intros Hk. rewrite <- handle_members_members by done.
  unfold handle_members, handle_members_ord. simpl.
  rewrite leaves_kinds, left_eq by done.
  assert (slice (spec_left (members a) snap) = [] ↔ spec_left (members a) snap = ∅) as Hiff.
  { unfold slice. rewrite <- map_to_list_empty_iff. split; [apply fmap_nil_inv|by intros ->]. }
  destruct (decide (slice _ = [])) as [He|Hne].
  - rewrite decide_True by by apply Hiff.
    rewrite joins_kinds, joined_eq by done. done.
  - rewrite decide_False by by rewrite <- Hiff. done.
Qed.

(* once exact, always exact; and from the initial state one snapshot that
   contains the node itself makes it exact *)
Lemma kinds_exact_step a snap :
  keyed (members a) → kinds_exact a → kinds_exact (handle_members a snap).1.
Proof.
  intros Hk He. unfold kinds_exact. rewrite handle_members_kinds by done.
  rewrite handle_members_members by done.
  destruct (decide _) as [Hl|]; [|done].
  rewrite He, <- kinds_of_union by apply spec_joined_disjoint.
  f_equal. apply map_eq. intros i. rewrite spec_view_lookup, lookup_union.
  unfold spec_joined.
  destruct (member_set snap !! i) as [n|] eqn:Hs.
  - destruct (members a !! i) as [o|] eqn:Ho.
    + rewrite map_filter_lookup_None_2; [done|]. right. intros x _. simpl. by rewrite Ho.
    + erewrite map_filter_lookup_Some_2; [done|done|done].
  - rewrite map_filter_lookup_None_2 by by left.
    destruct (members a !! i) as [o|] eqn:Ho; [|done].
    exfalso. eapply (map_filter_empty_not_lookup _ _ i o Hl); [|done]. done.
Qed.

Lemma has_self_kinds self own snap :
  has_self self own snap → own ⊆ kinds_of (member_set snap).
Proof.
  intros [(m & Hm & Hid) Hown] k Hk.
  assert (is_Some (member_set snap !! self)) as [m' Hm'].
  { apply member_set_is_Some. rewrite <- Hid. by apply elem_of_list_fmap_1. }
  destruct (member_set_elem _ _ _ Hm') as [Hin Hid'].
  apply elem_of_kinds_of. exists self, m'. split; [done|].
  apply elem_of_kset. by apply (Hown m').
Qed.

Lemma kinds_exact_first own self snap :
  has_self self own snap → kinds_exact (handle_members (init own) snap).1.
Proof.
  intros Hs. assert (keyed (members (init own))) as Hk by (intros ??; simpl; by rewrite lookup_empty).
  unfold kinds_exact. rewrite handle_members_kinds, handle_members_members by done.
  simpl. unfold spec_left. rewrite map_filter_empty, decide_True by done.
  assert (spec_joined ∅ snap = member_set snap) as ->.
  { unfold spec_joined. apply map_eq. intros i. apply option_eq. intros m.
    rewrite map_filter_lookup_Some. simpl. rewrite lookup_empty. naive_solver. }
  assert (spec_view ∅ snap = member_set snap) as ->.
  { apply map_eq. intros i. rewrite spec_view_lookup, lookup_empty. by destruct (_ !! i). }
  apply has_self_kinds in Hs. set_solver.
Qed.

(** * events *)
Lemma join_ids_joins js : join_ids (Join <$> js) = mid <$> js.
Proof. induction js as [|m js IH]; [done|]. unfold join_ids in *. csimpl. by rewrite IH. Qed.
Lemma join_ids_leaves ls : join_ids (Leave <$> ls) = [].
Proof. induction ls as [|m ls IH]; [done|]. unfold join_ids in *. csimpl. by rewrite IH. Qed.
Lemma leave_ids_joins js : leave_ids (Join <$> js) = [].
Proof. induction js as [|m js IH]; [done|]. unfold leave_ids in *. csimpl. by rewrite IH. Qed.
Lemma leave_ids_leaves ls : leave_ids (Leave <$> ls) = mid <$> ls.
Proof. induction ls as [|m ls IH]; [done|]. unfold leave_ids in *. csimpl. by rewrite IH. Qed.

Lemma join_ids_events js ls : join_ids ((Join <$> js) ++ (Leave <$> ls)) = mid <$> js.
Proof. unfold join_ids. rewrite omap_app. fold (join_ids (Join <$> js)) (join_ids (Leave <$> ls)).
  by rewrite join_ids_joins, join_ids_leaves, app_nil_r. Qed.
Lemma leave_ids_events js ls : leave_ids ((Join <$> js) ++ (Leave <$> ls)) = mid <$> ls.
Proof. unfold leave_ids. rewrite omap_app. fold (leave_ids (Join <$> js)) (leave_ids (Leave <$> ls)).
  by rewrite leave_ids_joins, leave_ids_leaves. Qed.
Lemma ev_ids_events js ls :
  ev_id <$> ((Join <$> js) ++ (Leave <$> ls)) = (mid <$> js) ++ (mid <$> ls).
Proof. rewrite fmap_app, <- !list_fmap_compose. done. Qed.

Lemma dom_spec_joined v snap i :
  i ∈ dom (spec_joined v snap) ↔ i ∈ mid <$> snap ∧ i ∉ dom v.
Proof.
  rewrite elem_of_dom, not_elem_of_dom, <- member_set_is_Some. unfold spec_joined, is_Some.
  setoid_rewrite map_filter_lookup_Some. simpl. naive_solver.
Qed.
Lemma dom_spec_left v snap i :
  i ∈ dom (spec_left v snap) ↔ i ∈ dom v ∧ i ∉ mid <$> snap.
Proof.
  rewrite !elem_of_dom, <- member_set_None. unfold spec_left, is_Some.
  setoid_rewrite map_filter_lookup_Some. simpl. naive_solver.
Qed.

(** * C18 for one step *)
Theorem handle_members_step_ok a snap :
  keyed (members a) → kinds_exact (handle_members a snap).1 →
  step_ok a (handle_members a snap).1 (handle_members a snap).2 snap.
Proof.
  intros Hk He.
  pose proof (spec_joined_keyed (members a) snap) as Hkj.
  pose proof (spec_left_keyed (members a) snap Hk) as Hkl.
  unfold step_ok, view_ids.
  rewrite handle_members_events, handle_members_members by done.
  rewrite join_ids_events, leave_ids_events, ev_ids_events.
  split_and!.
  - apply spec_view_dom.
  - apply NoDup_app. split_and!; [by apply slice_NoDup_ids| |by apply slice_NoDup_ids].
    intros i Hj Hl. rewrite elem_of_slice_ids in Hj, Hl by done.
    apply dom_spec_joined in Hj. apply dom_spec_left in Hl. naive_solver.
  - intros i. rewrite elem_of_slice_ids by done. apply dom_spec_joined.
  - intros i. rewrite elem_of_slice_ids by done. apply dom_spec_left.
  - intros k. unfold has_kind. rewrite bool_decide_eq_true, He, elem_of_kinds_of.
    by rewrite handle_members_members.
  - intros i m. rewrite spec_view_lookup, <- member_set_is_Some, <- member_set_lookup.
    destruct (member_set snap !! i) as [n|], (members a !! i) as [o|]; simpl;
      split; intros; destruct_or?; destruct_and?; simplify_eq; eauto;
      try (by match goal with H : is_Some None |- _ => destruct H end).
  - intros m [Hm|Hm]%elem_of_app; apply elem_of_list_fmap in Hm as (m' & ? & Hm); simplify_eq.
    apply elem_of_slice in Hm as (k & Hm). rewrite (Hkj _ _ Hm), <- member_set_lookup.
    by apply map_filter_lookup_Some in Hm as [? _].
  - intros m [Hm|Hm]%elem_of_app; apply elem_of_list_fmap in Hm as (m' & ? & Hm); simplify_eq.
    apply elem_of_slice in Hm as (k & Hm). rewrite (Hkl _ _ Hm).
    by apply map_filter_lookup_Some in Hm as [? _].
Qed.

(** * histories *)
Definition after (a : astate) (hist : list (list member)) : astate :=
  foldl (λ a snap, (handle_members a snap).1) a hist.

Lemma run_lookup a hist i pre post ev :
  run a hist !! i = Some (pre, post, ev) →
  ∃ snap, hist !! i = Some snap ∧ pre = after a (take i hist) ∧
          post = (handle_members pre snap).1 ∧ ev = (handle_members pre snap).2.
Proof.
  revert a i. induction hist as [|s hist IH]; intros a i; [done|].
  destruct i as [|i]; simpl.
  - intros [= <- <- <-]. eauto.
  - intros H. apply IH in H. done.
Qed.

Lemma run_length a hist : length (run a hist) = length hist.
Proof. revert a. induction hist; intros; simpl; auto. Qed.

Lemma after_snoc a hist snap : after a (hist ++ [snap]) = (handle_members (after a hist) snap).1.
Proof. unfold after. by rewrite foldl_app. Qed.

Lemma after_inv (P : astate → Prop) a hist :
  P a → (∀ a snap, snap ∈ hist → P a → P (handle_members a snap).1) → P (after a hist).
Proof.
  induction hist as [|s hist IH] using rev_ind; intros Ha Hs; [done|].
  rewrite after_snoc. apply Hs; [set_solver|]. apply IH; [done|]. intros ????. apply Hs; [set_solver|done].
Qed.

Lemma keyed_init own : keyed (members (init own)).
Proof. intros ??. simpl. by rewrite lookup_empty. Qed.

Lemma after_keyed own hist : keyed (members (after (init own) hist)).
Proof.
  apply (after_inv (λ a, keyed (members a))); [apply keyed_init|].
  intros. by apply handle_members_keyed.
Qed.

Lemma after_kinds_exact self own hist :
  Forall (has_self self own) hist →
  after (init own) hist = init own ∨
  (keyed (members (after (init own) hist)) ∧ kinds_exact (after (init own) hist)).
Proof.
  intros Hs. induction hist as [|s hist IH] using rev_ind; [by left|].
  apply Forall_app in Hs as [Hs Hs1]. apply Forall_inv in Hs1.
  right. split; [apply after_keyed|]. rewrite after_snoc.
  destruct (IH Hs) as [->|[? ?]].
  - by apply (kinds_exact_first own self).
  - by apply kinds_exact_step.
Qed.

(* C18: every history of snapshots, each containing the observing node *)
Theorem view_follows_snapshots self own hist :
  Forall (has_self self own) hist →
  ∀ i pre post ev snap,
    hist !! i = Some snap → run (init own) hist !! i = Some (pre, post, ev) →
    step_ok pre post ev snap.
Proof.
  intros Hs i pre post ev snap Hi Hr.
  apply run_lookup in Hr as (snap' & Hi' & -> & -> & ->). simplify_eq.
  assert (Forall (has_self self own) (take i hist)) as Hs' by by apply Forall_take.
  apply handle_members_step_ok; [apply after_keyed|].
  destruct (after_kinds_exact self own _ Hs') as [->|[? ?]].
  - apply (kinds_exact_first own self). by apply (Forall_lookup_1 _ _ _ _ Hs Hi).
  - by apply kinds_exact_step.
Qed.

(* clauses (a) and (b) need no hypothesis on the snapshots at all *)
Theorem view_and_events_follow_any_snapshots own hist i pre post ev snap :
  hist !! i = Some snap → run (init own) hist !! i = Some (pre, post, ev) →
  view_ids post = list_to_set (mid <$> snap) ∧
  NoDup (ev_id <$> ev) ∧
  (∀ i, i ∈ join_ids ev ↔ i ∈ mid <$> snap ∧ i ∉ view_ids pre) ∧
  (∀ i, i ∈ leave_ids ev ↔ i ∈ view_ids pre ∧ i ∉ mid <$> snap).
Proof.
  intros Hi Hr. apply run_lookup in Hr as (snap' & Hi' & -> & -> & ->). simplify_eq.
  set (a := after (init own) (take i hist)).
  assert (keyed (members a)) as Hk by apply after_keyed.
  pose proof (spec_joined_keyed (members a) snap) as Hkj.
  pose proof (spec_left_keyed (members a) snap Hk) as Hkl.
  unfold view_ids. rewrite handle_members_events, handle_members_members by done.
  rewrite join_ids_events, leave_ids_events, ev_ids_events.
  split_and!.
  - apply spec_view_dom.
  - apply NoDup_app. split_and!; [by apply slice_NoDup_ids| |by apply slice_NoDup_ids].
    intros j Hj Hl. rewrite elem_of_slice_ids in Hj, Hl by done.
    apply dom_spec_joined in Hj. apply dom_spec_left in Hl. naive_solver.
  - intros j. rewrite elem_of_slice_ids by done. apply dom_spec_joined.
  - intros j. rewrite elem_of_slice_ids by done. apply dom_spec_left.
Qed.

(** * the self-membership hypothesis is necessary for clause (c) *)
Definition mk (i : nat) (ks : list nat) : member := {| mid := i; mhost := i; mkinds := ks |}.

(* node 0 registered kind 7 locally; the provider's snapshot lists only node 1
   (no kinds): HasKind(7) is true although no member of the view lists 7 *)
Example self_membership_needed :
  let post := (handle_members (init {[7]}) [mk 1 []]).1 in
  has_kind 7 post = true ∧ ¬ ∃ i m, members post !! i = Some m ∧ 7 ∈ mkinds m.
Proof.
  split; [by vm_compute|].
  rewrite <- elem_of_kinds_of.
  assert (bool_decide (7 ∈ kinds_of (members (handle_members (init {[7]}) [mk 1 []]).1)) = false)
    as H by by vm_compute.
  by apply bool_decide_eq_false in H.
Qed.

(* and the stale entry disappears at the first leave: same node, then node 1
   is replaced by node 2 — rebuildKinds forgets kind 7 although node 0 still
   has it registered locally *)
Example self_membership_needed_2 :
  let a1 := (handle_members (init {[7]}) [mk 1 []]).1 in
  let a2 := (handle_members a1 [mk 2 []]).1 in
  has_kind 7 a1 = true ∧ has_kind 7 a2 = false.
Proof. by vm_compute. Qed.

(** * a member that stays keeps the Member value the view already holds *)
(* node 0 (no kinds); node 1 first advertises kind 1, then — same id — kind 2:
   no event, the view keeps the old value, HasKind follows the old value *)
Example staying_member_keeps_old_kinds :
  let h := [[mk 0 []; mk 1 [1]]; [mk 0 []; mk 1 [2]]] in
  ∃ pre post, run (init ∅) h !! 1 = Some (pre, post, []) ∧
    members post !! 1 = Some (mk 1 [1]) ∧ has_kind 1 post = true ∧ has_kind 2 post = false.
Proof. eexists _, _. split; [by vm_compute|]. by vm_compute. Qed.

(* a duplicated id inside one snapshot: the last entry counts *)
Example duplicate_entry_last_wins :
  let post := (handle_members (init ∅) [mk 0 []; mk 1 [1]; mk 1 [2]; mk 0 []]).1 in
  members post !! 1 = Some (mk 1 [2]) ∧ (handle_members (init ∅) [mk 0 []; mk 1 [1]; mk 1 [2]; mk 0 []]).2
    = [Join (mk 0 []); Join (mk 1 [2])].
Proof. by vm_compute. Qed.

(* under stable kinds, HasKind can be read off the snapshot itself *)
Theorem has_kind_iff_snapshot_lists self own K hist :
  Forall (has_self self own) hist → kinds_stable K hist →
  ∀ i pre post ev snap,
    hist !! i = Some snap → run (init own) hist !! i = Some (pre, post, ev) →
    ∀ k, has_kind k post = true ↔ ∃ m, m ∈ snap ∧ k ∈ mkinds m.
Proof.
  intros Hs HK i pre post ev snap Hi Hr k.
  destruct (view_follows_snapshots self own hist Hs i pre post ev snap Hi Hr)
    as (Hdom & _ & _ & _ & Hkind & Hval & _).
  rewrite Hkind.
  apply run_lookup in Hr as (snap' & Hi' & -> & _ & _). simplify_eq.
  assert (∀ j m, members (after (init own) (take i hist)) !! j = Some m → kset m = K j) as Hpre.
  { apply (after_inv (λ a, keyed (members a) ∧ ∀ j m, members a !! j = Some m → kset m = K j)).
    - split; [apply keyed_init|]. intros ??. simpl. by rewrite lookup_empty.
    - intros a s Hin [Hk Ha]. split; [by apply handle_members_keyed|]. intros j m.
      rewrite handle_members_members, spec_view_lookup by done.
      destruct (member_set s !! j) as [n|] eqn:Hn; [|done].
      destruct (members a !! j) as [o|] eqn:Ho; simpl; intros [= <-]; [eauto|].
      apply member_set_elem in Hn as [Hn <-]. eapply HK; [|done].
      apply elem_of_take in Hin as (j' & Hj' & _). by eapply elem_of_list_lookup_2. }
  assert (snap ∈ hist) as Hsn by by eapply elem_of_list_lookup_2.
  split.
  - intros (j & m & Hm & Hk). apply Hval in Hm as [[Hm Hj]|[_ Hm]].
    + apply elem_of_list_fmap in Hj as (m' & -> & Hm'). exists m'. split; [done|].
      rewrite <- elem_of_kset, (HK _ _ Hsn Hm'), <- (Hpre _ _ Hm). by apply elem_of_kset.
    + rewrite <- member_set_lookup in Hm. apply member_set_elem in Hm as [? _]. eauto.
  - intros (m & Hm & Hk).
    assert (mid m ∈ dom (members post)) as [m' Hm']%elem_of_dom.
    { unfold view_ids in Hdom. rewrite Hdom, elem_of_list_to_set. by apply elem_of_list_fmap_1. }
    exists (mid m), m'. split; [done|].
    rewrite <- elem_of_kset. rewrite <- elem_of_kset, (HK _ _ Hsn Hm) in Hk.
    apply Hval in Hm' as [[Hm' _]|[_ Hm']].
    + by rewrite (Hpre _ _ Hm').
    + rewrite <- member_set_lookup in Hm'. apply member_set_elem in Hm' as [? Hid].
      by rewrite (HK _ _ Hsn H), Hid.
Qed.

(** * Go's map iteration order does not matter *)
Lemma astate_eq a b : members a = members b → kinds a = kinds b → a = b.
Proof. destruct a, b. simpl. congruence. Qed.

Lemma member_set_perm l l' : NoDup (mid <$> l) → l ≡ₚ l' → member_set l = member_set l'.
Proof.
  intros Hnd Hp. apply map_eq. intros i. apply option_eq. intros m.
  rewrite !member_set_NoDup; [|by rewrite <- Hp|done]. by rewrite Hp.
Qed.

Lemma handle_members_ord_perm a js js' ls ls' :
  NoDup (mid <$> js) → js ≡ₚ js' → ls ≡ₚ ls' →
  (handle_members_ord a js ls).1 = (handle_members_ord a js' ls').1 ∧
  (handle_members_ord a js ls).2 ≡ₚ (handle_members_ord a js' ls').2.
Proof.
  intros Hnd Hj Hl. unfold handle_members_ord. simpl. split; [|by rewrite Hj, Hl].
  assert (members (foldl member_leave (foldl member_join a js) ls) =
          members (foldl member_leave (foldl member_join a js') ls')) as Hm.
  { apply map_eq. intros i. rewrite !leaves_members, !joins_members, !insert_all_union.
    rewrite (member_set_perm js js') by done.
    destruct (decide (i ∈ mid <$> ls)) as [Hi|Hi]; rewrite Hl in Hi.
    - by rewrite decide_True.
    - by rewrite decide_False. }
  apply astate_eq; [done|].
  rewrite !leaves_kinds, Hm.
  destruct (decide (ls = [])) as [He|Hne], (decide (ls' = [])) as [He'|Hne'].
  - rewrite !joins_kinds. f_equal. apply set_eq. intros k. rewrite !elem_of_union_list.
    by setoid_rewrite Hj.
  - subst ls. by apply Permutation_nil_l in Hl.
  - subst ls'. by apply Permutation_nil_r in Hl.
  - done.
Qed.

Theorem handle_members_order_irrelevant a snap js ls :
  keyed (members a) → js ≡ₚ joined a snap → ls ≡ₚ left_ a snap →
  (handle_members_ord a js ls).1 = (handle_members a snap).1 ∧
  (handle_members_ord a js ls).2 ≡ₚ (handle_members a snap).2.
Proof.
  intros Hk Hj Hl. apply handle_members_ord_perm; [|done|done].
  rewrite Hj, joined_eq by done. apply slice_NoDup_ids, spec_joined_keyed.
Qed.

(** * the oracle holds of every model run *)
Lemma has_selfb_spec self own snap : has_selfb self own snap = true ↔ has_self self own snap.
Proof.
  unfold has_selfb, has_self. rewrite bool_decide_eq_true, Exists_exists, Forall_forall. done.
Qed.

Lemma all2_obs self own ck hist a :
  keyed (members a) →
  (ck = true → Forall (has_self self own) hist ∧ (kinds_exact a ∨ a = init own)) →
  all2 (obs_eqb ck) (spec_run (members a) hist) (model_obs <$> run a hist) = true.
Proof.
  revert a. induction hist as [|snap hist IH]; intros a Hk Hck; [done|].
  cbn [run spec_run fmap list_fmap all2]. apply andb_true_intro. split.
  - unfold obs_eqb, model_obs, spec_obs. cbn [fst snd o_ids o_joins o_leaves o_kinds].
    rewrite handle_members_events, handle_members_members by done.
    rewrite join_ids_events, leave_ids_events.
    rewrite !slice_ids by (by apply spec_joined_keyed || by apply spec_left_keyed).
    rewrite !(bool_decide_eq_true_2 (nsort _ = nsort _)) by done. rewrite !andb_true_l.
    destruct ck; [|done]. cbn [negb orb]. apply bool_decide_eq_true_2.
    destruct (Hck eq_refl) as [Hs He]. apply Forall_cons in Hs as [Hs _].
    assert (kinds_exact (handle_members a snap).1) as Hex.
    { destruct He as [He| ->]; [by apply kinds_exact_step|by apply (kinds_exact_first own self)]. }
    apply list_fmap_ext. intros _ k _. unfold has_kind.
    by rewrite Hex, handle_members_members.
  - rewrite <- handle_members_members by done. apply IH; [by apply handle_members_keyed|].
    intros Hc. destruct (Hck Hc) as [Hs He]. apply Forall_cons in Hs as [Hs Hs'].
    split; [done|]. left.
    destruct He as [He| ->]; [by apply kinds_exact_step|by apply (kinds_exact_first own self)].
Qed.

Theorem oracle_holds_of_model self own hist :
  oracle_on self own hist (model_run own hist) = true.
Proof.
  unfold oracle_on, model_run.
  apply (all2_obs self (list_to_set own) _ hist (init (list_to_set own))); [apply keyed_init|].
  intros Hf. split; [|by right].
  apply Forall_forall. intros snap Hin. apply has_selfb_spec.
  rewrite forallb_forall in Hf. apply Hf. by apply elem_of_list_In.
Qed.
