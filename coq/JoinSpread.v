(** A membership change that SPREADS (C19, "a member that joins later learns
    all active actors"), outside the quiescent histories of ClusterNet.v.

    m old members 0..m-1 know each other; node m joins and the agents of the
    old members (and of the joiner) are told the new member list one after the
    other, in any order and in any grouping ([Tell]); in between, old members
    activate actors ([Act]): an old member that has been told already
    broadcasts the activation to the joiner too, one that has not does not.
    Model of cluster/agent.go: handleMembers / memberJoin (an agent that learns
    of a new member sends it its WHOLE activated map, ActorTopology),
    activate / handleActivation (the broadcast goes to the members the
    activating agent knows), handleActorTopology (the receiver merges).  Every
    operation's messages are delivered before the next operation (what the
    harness does); the joiner advertises no kind that is activated.  [Act] may be
    issued by an old member or by the joiner (who = m); the member that is asked
    to spawn refuses when its own agent knows the id to be active (repair D26 —
    before it a joiner that had not caught up yet obtained a second actor under
    a known id: [step_gen false], JoinSpreadProofs.joiner_duplicate_before_D26).

    Definitions only, total and executable; activated maps are functions
    key -> option host.  Proofs: JoinSpreadProofs.v. *)
From Coq Require Import List Arith Bool.
Import ListNotations.

Definition amap := nat -> option nat.                (* key -> host *)
Definition aempty : amap := fun _ => None.
Definition aunion (a b : amap) : amap :=             (* merge b into a: entries of a stay *)
  fun k => match a k with Some h => Some h | None => b k end.
Definition aadd (k h : nat) (a : amap) : amap :=
  fun x => if Nat.eqb x k then (match a k with Some h' => Some h' | None => Some h end) else a x.

Fixpoint memb (x : nat) (l : list nat) : bool :=
  match l with [] => false | y :: r => Nat.eqb x y || memb x r end.

Record st := { told : list nat;          (* old members whose agent has processed the new member list *)
               jtold : bool;             (* the joiner's agent has processed it *)
               omaps : nat -> amap;      (* activated map of old member i *)
               jmap : amap }.            (* activated map of the joiner *)

Definition init : st := {| told := []; jtold := false; omaps := fun _ => aempty; jmap := aempty |}.

Inductive op :=
| Tell (rs : list nat) (j : bool)        (* the member list is sent to the agents of the old members rs, and to the joiner's if j *)
| Act (who k sel : nat).                 (* old member who activates key k; the select function picks old member sel *)

Inductive res := RNil | RPid (h : nat).

(* the old members among rs that learn of the joiner now *)
Definition fresh_told (m : nat) (s : st) (rs : list nat) : list nat :=
  filter (fun r => Nat.ltb r m && negb (memb r (told s))) rs.

Definition is_some {A} (o : option A) : bool := match o with Some _ => true | None => false end.

(* [hostcheck]: handleActivationRequest refuses an id its own agent knows to be active (the repair
   D26); false = the code before it, kept for the refutation example *)
Definition step_gen (hostcheck : bool) (m : nat) (s : st) (o : op) : st * res :=
  match o with
  | Tell rs j =>
      let news := fresh_told m s rs in
      (* memberJoin(joiner) on each of them: its whole map goes to the joiner, which merges *)
      let jm := fold_left (fun acc r => aunion acc (omaps s r)) news (jmap s) in
      (* the joiner's own handleMembers: memberJoin for every member, its map goes to each of them *)
      let jnow := j && negb (jtold s) in
      ({| told := told s ++ news; jtold := jtold s || j;
          omaps := if jnow then (fun i => if Nat.ltb i m then aunion (omaps s i) jm else omaps s i) else omaps s;
          jmap := jm |}, RNil)
  | Act who k sel =>
      if Nat.ltb who m then
        match omaps s who k with
        | Some _ => (s, RNil)                               (* known to the activating agent *)
        | None =>
            if negb (Nat.ltb sel m) then (s, RNil) else     (* select returned nil *)
            if hostcheck && is_some (omaps s sel k) then (s, RNil) else   (* the asked member knows the id is taken (fix D26) *)
            ({| told := told s; jtold := jtold s;
                omaps := fun i => if Nat.ltb i m then aadd k sel (omaps s i) else omaps s i;
                jmap := if memb who (told s) then aadd k sel (jmap s) else jmap s |}, RPid sel)
        end
      else if Nat.eqb who m then
        (* the joiner activates: it knows members only once its own agent has been told *)
        match jmap s k with
        | Some _ => (s, RNil)
        | None =>
            if negb (jtold s) then (s, RNil) else           (* no member with that kind in its view *)
            if negb (Nat.ltb sel m) then (s, RNil) else
            if hostcheck && is_some (omaps s sel k) then (s, RNil) else   (* fix D26 *)
            (* the asked member spawns; the joiner broadcasts to everybody it knows: all *)
            ({| told := told s; jtold := jtold s;
                omaps := fun i => if Nat.ltb i m then aadd k sel (omaps s i) else omaps s i;
                jmap := aadd k sel (jmap s) |}, RPid sel)
        end
      else (s, RNil)
  end.

Definition step := step_gen true.

Fixpoint run (m : nat) (s : st) (ops : list op) : st * list res :=
  match ops with
  | [] => (s, [])
  | o :: r => let '(s1, x) := step m s o in let '(s2, xs) := run m s1 r in (s2, x :: xs)
  end.

(* GetActiveByID on node n (n = m: the joiner) for the keys 0..nk-1: host + 1, 0 for nil *)
Definition view_of (a : amap) (nk : nat) : list nat :=
  map (fun k => match a k with Some h => S h | None => 0 end) (seq 0 nk).
Definition views (m nk : nat) (s : st) : list (list nat) :=
  map (fun i => view_of (omaps s i) nk) (seq 0 m) ++ [view_of (jmap s) nk].

Definition all_told (m : nat) (s : st) : bool := forallb (fun i => memb i (told s)) (seq 0 m).
