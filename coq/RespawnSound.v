(** The oracle of RespawnExec (family `respawn`) holds of the sequential
    machine's own observations, for every history in the domain the generators
    produce (well-formedness predicate [wf_hist] below). *)
From stdpp Require Import list sets.
From HV Require Import Registry RegistryProofs RespawnExec.

(** * what a shutdown does to a state *)

(* s' comes from s by removing processes (and by nothing else that the
   observations or the invariants care about) *)
Record shrinks (s s' : sst) : Prop := {
  sh_runs : runs s' = runs s;
  sh_dups : dups s' = dups s;
  sh_recvd : recvd s' = recvd s;
  sh_gate : gate s' = gate s;
  sh_bad : bad s = true -> bad s' = true;
  sh_procs : forall j, procs s' j = procs s j \/
                       (procs s' j = None /\
                        (bad s' = false -> exists r, procs s j = Some r /\ p_blocked r = false));
  sh_kids : forall x y, y ∈ kids s' x -> y ∈ kids s x
}.

Lemma shrinks_refl s : shrinks s s.
Proof. split; try done. intros j. by left. Qed.

Lemma shrinks_trans s1 s2 s3 : shrinks s1 s2 -> shrinks s2 s3 -> shrinks s1 s3.
Proof.
  intros A B. split.
  - by rewrite (sh_runs _ _ B), (sh_runs _ _ A).
  - by rewrite (sh_dups _ _ B), (sh_dups _ _ A).
  - by rewrite (sh_recvd _ _ B), (sh_recvd _ _ A).
  - by rewrite (sh_gate _ _ B), (sh_gate _ _ A).
  - intros H. by apply (sh_bad _ _ B), (sh_bad _ _ A).
  - intros j. destruct (sh_procs _ _ B j) as [E|[E F]].
    + rewrite E. destruct (sh_procs _ _ A j) as [E'|[E' F']]; [by left|right]. split; [done|].
      intros Hb. apply F'. destruct (bad s2) eqn:Hb2; [|done]. by rewrite (sh_bad _ _ B) in Hb.
    + destruct (sh_procs _ _ A j) as [E'|[E' F']].
      * right. split; [done|]. by rewrite <- E'.
      * right. split; [done|]. intros Hb. destruct (F Hb) as (r & Hr & _). congruence.
  - intros x y H. by apply (sh_kids _ _ A), (sh_kids _ _ B).
Qed.

Lemma shrinks_set_bad s : shrinks s (set_bad s).
Proof. split; simpl; try done. intros j. by left. Qed.

Lemma elem_of_set_del x y l : x ∈ set_del y l -> x ∈ l.
Proof. unfold set_del. intros H. by apply elem_of_list_filter in H as [_ ?]. Qed.

Lemma shrinks_foldl (f : sst -> id -> sst) l :
  (forall s c, shrinks s (f s c)) -> forall s, shrinks s (foldl f s l).
Proof.
  intros Hf. induction l as [|c l IH]; intros s; simpl; [apply shrinks_refl|].
  eapply shrinks_trans; [apply Hf|apply IH].
Qed.

Lemma shrinks_stop_tree fuel : forall s c, shrinks s (stop_tree fuel s c).
Proof.
  induction fuel as [|fuel IH]; intros s c; [apply shrinks_set_bad|]. rewrite stop_tree_S.
  destruct (procs s c) as [r|] eqn:Hc; [|apply shrinks_refl].
  destruct (p_blocked r || p_stopping r) eqn:Hb; [apply shrinks_set_bad|].
  apply orb_false_iff in Hb as [Hb1 Hb2].
  pose proof (shrinks_foldl (stop_tree fuel) (kids s c) IH s) as F. set (s1 := foldl (stop_tree fuel) s (kids s c)) in *.
  eapply shrinks_trans; [exact F|].
  split; simpl; try done.
  - intros j. unfold fupd. destruct (Nat.eqb_spec j c) as [->|?]; [|by left].
    destruct (procs s1 c) as [r1|] eqn:H1; [|by left]. right. split; [done|]. intros _.
    destruct (sh_procs _ _ F c) as [E|[E _]]; [|congruence]. rewrite H1, Hc in E. injection E as ->. eauto.
  - intros x y. destruct (p_parent r) as [p|]; unfold fupd.
    + destruct (Nat.eqb_spec x p) as [->|?]; [apply elem_of_set_del|].
      destruct (Nat.eqb_spec x c); [by intros ?%elem_of_nil|done].
    + destruct (Nat.eqb_spec x c); [by intros ?%elem_of_nil|done].
Qed.

Lemma shrinks_remove_proc s c :
  (forall r, procs s c = Some r -> p_blocked r = false) -> shrinks s (remove_proc s c).
Proof.
  intros Hnb. unfold remove_proc. destruct (procs s c) as [r|] eqn:Hc; [|apply shrinks_refl].
  split; simpl; try done.
  - intros j. unfold fupd. destruct (Nat.eqb_spec j c) as [->|?]; [|by left].
    right. split; [done|]. intros _. exists r. split; [done|]. by apply Hnb.
  - intros x y. destruct (p_parent r) as [p|]; unfold fupd.
    + destruct (Nat.eqb_spec x p) as [->|?]; [apply elem_of_set_del|].
      destruct (Nat.eqb_spec x c); [by intros ?%elem_of_nil|done].
    + destruct (Nat.eqb_spec x c); [by intros ?%elem_of_nil|done].
Qed.

Lemma shrinks_live s s' j : shrinks s s' -> is_live s' j = true -> is_live s j = true.
Proof.
  intros H. unfold is_live. destruct (sh_procs _ _ H j) as [->|[-> _]]; done.
Qed.

(** * lists of observations *)
Lemma list_eqb_refl {A} (f : A -> A -> bool) l : (forall x, f x x = true) -> list_eqb f l l = true.
Proof. intros Hf. induction l as [|a l IH]; [done|]. simpl. by rewrite Hf, IH. Qed.

Lemma rcv_eqb_refl x : rcv_eqb x x = true.
Proof. unfold rcv_eqb. by rewrite !Nat.eqb_refl. Qed.
Lemma bool_eqb_refl b : Bool.eqb b b = true.
Proof. by destruct b. Qed.

Lemma nth_map_seq {A} (f : id -> A) d a m i : i < m -> nth i (map f (seq a m)) d = f (a + i).
Proof.
  revert a i. induction m as [|m IH]; intros a i Hi; [lia|]. destruct i as [|i]; simpl.
  - by rewrite Nat.add_0_r.
  - rewrite IH by lia. f_equal. lia.
Qed.

Lemma imap_map_seq {A B} (g : nat -> A -> B) (f : id -> A) m :
  imap g (map f (seq 0 m)) = map (fun k : id => g k (f k)) (seq 0 m).
Proof.
  apply list_eq. intros k. rewrite list_lookup_imap, !list_lookup_fmap.
  destruct (decide (k < m)) as [Hk|Hk].
  - by rewrite lookup_seq_lt.
  - by rewrite lookup_seq_ge by lia.
Qed.

Lemma map_seq_ext {A} (f g : id -> A) a m : (forall k, f k = g k) -> map f (seq a m) = map g (seq a m).
Proof. intros H. apply map_ext. intros; apply H. Qed.

Lemma map_const_seq {A} (x : A) a m : map (fun _ : id => x) (seq a m) = repeat x m.
Proof. revert a. induction m as [|m IH]; intros a; [done|]. simpl. by rewrite IH. Qed.

Lemma subset_b_maps (f g : id -> bool) m :
  (forall k, f k = true -> g k = true) -> subset_b (map f (seq 0 m)) (map g (seq 0 m)) = true.
Proof.
  intros H. unfold subset_b. rewrite map_length, seq_length.
  assert (E : zip_with (fun x y : bool => x && negb y) (map f (seq 0 m)) (map g (seq 0 m)) = repeat false m).
  { rewrite <- (map_const_seq false 0 m).
    change (map f (seq 0 m)) with (f <$> seq 0 m). change (map g (seq 0 m)) with (g <$> seq 0 m).
    rewrite zip_with_fmap_l, zip_with_fmap_r, zip_with_diag. apply map_ext. intros k.
    destruct (f k) eqn:E; [|done]. by rewrite (H k E). }
  rewrite E. apply list_eqb_refl, bool_eqb_refl.
Qed.

Lemma is_prefix_app a x : is_prefix a (a ++ x) = true.
Proof. unfold is_prefix. rewrite firstn_app, firstn_all, Nat.sub_diag. simpl. rewrite app_nil_r. apply list_eqb_refl, rcv_eqb_refl. Qed.

Section sound.
  Context (n : nat) (depth : id -> nat).

  Definition kdepth (s : sst) : Prop := forall p i, i ∈ kids s p -> depth p < depth i.

  Lemma kdepth_shrinks s s' : shrinks s s' -> kdepth s -> kdepth s'.
  Proof. intros H K p i Hi. by apply K, (sh_kids _ _ H). Qed.

  Lemma stop_tree_local fuel : forall s c j, kdepth s -> depth j < depth c -> procs (stop_tree fuel s c) j = procs s j.
  Proof.
    induction fuel as [|fuel IH]; intros s c j K Hd; [done|]. rewrite stop_tree_S.
    destruct (procs s c) as [r|] eqn:Hc; [|done]. destruct (p_blocked r || p_stopping r); [done|]. simpl.
    rewrite fupd_ne by (intros ->; lia).
    assert (F : forall l s0, kdepth s0 -> (forall k, k ∈ l -> depth j < depth k) ->
                             procs (foldl (stop_tree fuel) s0 l) j = procs s0 j).
    { induction l as [|k l IHl]; intros s0 K0 Hl; [done|]. simpl. rewrite IHl.
      - apply IH; [done|]. apply Hl. left.
      - eapply kdepth_shrinks; [apply shrinks_stop_tree|done].
      - intros k' Hk'. apply Hl. by right. }
    apply F; [done|]. intros k Hk. specialize (K _ _ Hk). lia.
  Qed.

  Lemma foldl_stop_tree_local fuel l : forall s j, kdepth s -> (forall k, k ∈ l -> depth j < depth k) ->
    procs (foldl (stop_tree fuel) s l) j = procs s j.
  Proof.
    induction l as [|k l IHl]; intros s j K Hl; [done|]. simpl. rewrite IHl.
    - apply stop_tree_local; [done|]. apply Hl. left.
    - eapply kdepth_shrinks; [apply shrinks_stop_tree|done].
    - intros k' Hk'. apply Hl. by right.
  Qed.

  (* observations of two states *)
  Definition same_counts (s s' : sst) : Prop := (forall k, runs s' k = runs s k) /\ (forall k, dups s' k = dups s k).

  Lemma shrinks_counts s s' : shrinks s s' -> same_counts s s'.
  Proof. intros H. split; intros k; [by rewrite (sh_runs _ _ H)|by rewrite (sh_dups _ _ H)]. Qed.

  Lemma unchanged_counts_ok s s' : same_counts s s' -> unchanged_counts (mobs n s) (mobs n s') = true.
  Proof.
    intros [E1 E2]. unfold unchanged_counts. cbn [mobs so_runs so_dups].
    rewrite (map_seq_ext _ _ 0 n E1), (map_seq_ext _ _ 0 n E2). unfold neqb.
    by rewrite !list_eqb_refl by apply Nat.eqb_refl.
  Qed.

  Lemma reg_same_ok s s' : (forall j, is_live s' j = is_live s j) -> beqb (so_reg (mobs n s')) (so_reg (mobs n s)) = true.
  Proof. intros H. cbn [so_reg mobs]. rewrite (map_seq_ext _ _ 0 n H). apply list_eqb_refl, bool_eqb_refl. Qed.

  Lemma reg_subset_ok s s' : (forall j, is_live s' j = true -> is_live s j = true) ->
    subset_b (so_reg (mobs n s')) (so_reg (mobs n s)) = true.
  Proof. intros H. cbn [so_reg mobs]. by apply subset_b_maps. Qed.

  Lemma nb_reg s i : i < n -> nb (so_reg (mobs n s)) i = is_live s i.
  Proof. intros Hi. unfold nb. cbn [so_reg mobs]. by rewrite nth_map_seq. Qed.

  Lemma inc_at_runs (f : id -> nat) i : inc_at i (map f (seq 0 n)) = map (fupd f i (S (f i))) (seq 0 n).
  Proof.
    unfold inc_at. rewrite imap_map_seq. apply map_seq_ext. intros k. unfold fupd.
    destruct (Nat.eqb_spec k i) as [->|?]; done.
  Qed.
  Lemma add_at_map (f : id -> nat) i m : add_at i m (map f (seq 0 n)) = map (fupd f i (f i + m)) (seq 0 n).
  Proof.
    unfold add_at. rewrite imap_map_seq. apply map_seq_ext. intros k. unfold fupd.
    destruct (Nat.eqb_spec k i) as [->|?]; done.
  Qed.
  Lemma set_at_map (f : id -> bool) i b : set_at i b (map f (seq 0 n)) = map (fupd f i b) (seq 0 n).
  Proof.
    unfold set_at. rewrite imap_map_seq. apply map_seq_ext. intros k. unfold fupd.
    destruct (Nat.eqb_spec k i) as [->|?]; done.
  Qed.

  Ltac refl_lists := unfold neqb, beqb;
    rewrite ?list_eqb_refl; try done; try apply Nat.eqb_refl; try apply rcv_eqb_refl; try apply bool_eqb_refl.

  (* k spawns of one id in a row (k >= 1 for a free id): what the oracle wants of ORace, and of a
     single Spawn with k = 1 *)
  Lemma race_ok_from s s' i k :
    i < n -> recvd s' = recvd s ->
    (if is_live s i
     then (forall j, runs s' j = runs s j) /\ (forall j, dups s' j = fupd (dups s) i (dups s i + k) j) /\
          (forall j, is_live s' j = is_live s j)
     else (forall j, runs s' j = fupd (runs s) i (S (runs s i)) j) /\
          (forall j, dups s' j = fupd (dups s) i (dups s i + (k - 1)) j) /\
          (forall j, is_live s' j = fupd (is_live s) i true j)) ->
    list_eqb rcv_eqb (so_recv (mobs n s)) (so_recv (mobs n s')) &&
    (if nb (so_reg (mobs n s)) i
     then neqb (so_runs (mobs n s')) (so_runs (mobs n s)) && neqb (so_dups (mobs n s')) (add_at i k (so_dups (mobs n s))) &&
          beqb (so_reg (mobs n s')) (so_reg (mobs n s))
     else neqb (so_runs (mobs n s')) (inc_at i (so_runs (mobs n s))) &&
          neqb (so_dups (mobs n s')) (add_at i (k - 1) (so_dups (mobs n s))) &&
          beqb (so_reg (mobs n s')) (set_at i true (so_reg (mobs n s)))) = true.
  Proof.
    intros Hi Hr H. rewrite nb_reg by done. cbn [mobs so_runs so_dups so_reg so_recv]. rewrite Hr.
    destruct (is_live s i); destruct H as (E1 & E2 & E3);
      rewrite (map_seq_ext _ _ 0 n E1), (map_seq_ext _ _ 0 n E2), (map_seq_ext _ _ 0 n E3).
    - rewrite add_at_map. refl_lists.
    - rewrite inc_at_runs, add_at_map, set_at_map. refl_lists.
  Qed.

  Lemma add_at_1 i l : add_at i 1 l = inc_at i l.
  Proof. unfold add_at, inc_at. apply imap_ext. intros k x _. destruct (k =? i); [lia|done]. Qed.
  Lemma add_at_0 i l : add_at i 0 l = l.
  Proof.
    unfold add_at. rewrite <- (imap_ext (fun _ x => x)); [apply list_eq; intros k; rewrite list_lookup_imap; by destruct (l !! k)|].
    intros k x _. destruct (k =? i); [lia|done].
  Qed.

  Lemma spawn_facts s i parent :
    recvd (spawn s i parent) = recvd s /\
    (if is_live s i
     then (forall j, runs (spawn s i parent) j = runs s j) /\
          (forall j, dups (spawn s i parent) j = fupd (dups s) i (dups s i + 1) j) /\
          (forall j, is_live (spawn s i parent) j = is_live s j)
     else (forall j, runs (spawn s i parent) j = fupd (runs s) i (S (runs s i)) j) /\
          (forall j, dups (spawn s i parent) j = fupd (dups s) i (dups s i + (1 - 1)) j) /\
          (forall j, is_live (spawn s i parent) j = fupd (is_live s) i true j)).
  Proof.
    unfold spawn. destruct (is_live s i) eqn:Hl; simpl; split_and!; try done.
    - intros j. by rewrite Nat.add_1_r.
    - intros j. unfold fupd. destruct (Nat.eqb_spec j i) as [->|?]; [lia|done].
    - intros j. unfold is_live. simpl. unfold fupd. by destruct (Nat.eqb_spec j i).
  Qed.

  Lemma spawn_ok_sound s i parent : i < n -> spawn_ok i (mobs n s) (mobs n (spawn s i parent)) = true.
  Proof.
    intros Hi. destruct (spawn_facts s i parent) as [Hr H].
    pose proof (race_ok_from s (spawn s i parent) i 1 Hi Hr H) as R. unfold spawn_ok.
    rewrite add_at_1, add_at_0 in R. simpl in R. exact R.
  Qed.

  Lemma race_facts s i k :
    let s' := Nat.iter k (fun s0 => spawn s0 i None) s in
    recvd s' = recvd s /\ bad s' = bad s /\ gate s' = gate s /\
    (forall p, kids s' p = kids s p \/ (p = i /\ kids s' p = [])) /\
    (0 < k \/ is_live s i = true ->
     if is_live s i
     then (forall j, runs s' j = runs s j) /\ (forall j, dups s' j = fupd (dups s) i (dups s i + k) j) /\
          (forall j, procs s' j = procs s j)
     else (forall j, runs s' j = fupd (runs s) i (S (runs s i)) j) /\
          (forall j, dups s' j = fupd (dups s) i (dups s i + (k - 1)) j) /\
          (forall j, is_live s' j = fupd (is_live s) i true j) /\
          (forall j, j <> i -> procs s' j = procs s j)).
  Proof.
    induction k as [|k IH]; simpl.
    - split_and!; try done; [by left|]. intros [?|Hl]; [lia|]. rewrite Hl. split_and!; try done.
      intros j. unfold fupd. destruct (Nat.eqb_spec j i) as [->|?]; [lia|done].
    - destruct IH as (Hr & Hb & Hg & Hk & IH). set (s1 := Nat.iter k (fun s0 => spawn s0 i None) s) in *.
      destruct (spawn_facts s1 i None) as [Hr1 H1].
      split_and!.
      + by rewrite Hr1.
      + unfold spawn. by destruct (is_live s1 i).
      + unfold spawn. by destruct (is_live s1 i).
      + intros p. unfold spawn. destruct (is_live s1 i); simpl; [apply Hk|].
        unfold fupd. destruct (Nat.eqb_spec p i) as [->|?]; [by right|apply Hk].
      + intros _. destruct (is_live s i) eqn:Hl.
        * destruct IH as (E1 & E2 & E3); [by right|].
          assert (Hl1 : is_live s1 i = true) by (unfold is_live; by rewrite E3).
          rewrite Hl1 in H1. destruct H1 as (F1 & F2 & F3). split_and!.
          -- intros j. by rewrite F1.
          -- intros j. rewrite F2. unfold fupd at 1 2. destruct (Nat.eqb_spec j i) as [->|?]; [|by rewrite E2, fupd_ne].
             rewrite E2, fupd_eq. lia.
          -- intros j. unfold spawn. rewrite Hl1. simpl. apply E3.
        * destruct k as [|k].
          -- simpl in *. subst s1. rewrite Hl in H1. destruct H1 as (F1 & F2 & F3). split_and!; try done.
             intros j Hj. unfold spawn. rewrite Hl. simpl. by rewrite fupd_ne.
          -- destruct IH as (E1 & E2 & E3 & E4); [left; lia|].
             assert (Hl1 : is_live s1 i = true) by (by rewrite E3, fupd_eq).
             rewrite Hl1 in H1. destruct H1 as (F1 & F2 & F3). split_and!.
             ++ intros j. by rewrite F1.
             ++ intros j. rewrite F2. unfold fupd at 1 2. destruct (Nat.eqb_spec j i) as [->|?]; [|by rewrite E2, fupd_ne].
                rewrite E2, fupd_eq. lia.
             ++ intros j. by rewrite F3.
             ++ intros j Hj. unfold spawn. rewrite Hl1. simpl. by apply E4.
  Qed.

  (* the line of descent: depths do not decrease along it, and it contains both ends *)
  Lemma line_facts fuel : forall s i g l, kdepth s -> line fuel s i g = Some l ->
    i ∈ l /\ g ∈ l /\ forall x, x ∈ l -> depth x <= depth g.
  Proof.
    induction fuel as [|fuel IH]; intros s i g l K H; [done|]. simpl in H.
    destruct (Nat.eqb_spec i g) as [->|Hne].
    - injection H as <-. split_and!; [left|left|]. by intros x ->%elem_of_list_singleton.
    - destruct (kids s i) as [|c [|]] eqn:Hk; try done. destruct (is_live s c); [|done].
      destruct (line fuel s c g) as [l'|] eqn:Hl; [|done]. injection H as <-.
      destruct (IH _ _ _ _ K Hl) as (Hc & Hg & Hd). split_and!; [left|by right|].
      intros x [->|Hx]%elem_of_cons; [|by apply Hd].
      assert (depth i < depth c) by (apply K; rewrite Hk; left). specialize (Hd c Hc). lia.
  Qed.

  Lemma remove_proc_facts s c :
    runs (remove_proc s c) = runs s /\ dups (remove_proc s c) = dups s /\ recvd (remove_proc s c) = recvd s /\
    bad (remove_proc s c) = bad s /\ procs (remove_proc s c) c = None /\
    (forall j, procs (remove_proc s c) j = procs s j \/ procs (remove_proc s c) j = None) /\
    (forall x y, y ∈ kids (remove_proc s c) x -> y ∈ kids s x).
  Proof.
    unfold remove_proc. destruct (procs s c) as [r|] eqn:Hc; simpl; split_and!; try done.
    - by rewrite fupd_eq.
    - intros j. unfold fupd. destruct (Nat.eqb_spec j c); [by right|by left].
    - intros x y. destruct (p_parent r) as [p|]; unfold fupd.
      + destruct (Nat.eqb_spec x p) as [->|?]; [apply elem_of_set_del|].
        destruct (Nat.eqb_spec x c); [by intros ?%elem_of_nil|done].
      + destruct (Nat.eqb_spec x c); [by intros ?%elem_of_nil|done].
    - intros j. by left.
  Qed.

  Lemma foldl_remove_proc_facts l : forall s,
    let s' := foldl remove_proc s l in
    runs s' = runs s /\ dups s' = dups s /\ recvd s' = recvd s /\ bad s' = bad s /\
    (forall j, procs s' j = procs s j \/ (j ∈ l /\ procs s' j = None)) /\
    (forall c, c ∈ l -> procs s' c = None) /\
    (forall x y, y ∈ kids s' x -> y ∈ kids s x).
  Proof.
    induction l as [|c l IH]; intros s; simpl; [split_and!; try done; [by left|by intros ? ?%elem_of_nil]|].
    destruct (remove_proc_facts s c) as (A1 & A2 & A3 & A4 & A5 & A6 & A7).
    destruct (IH (remove_proc s c)) as (B1 & B2 & B3 & B4 & B5 & B6 & B7).
    split_and!; try congruence.
    - intros j. destruct (B5 j) as [E|[E1 E2]]; [|right; split; [by right|done]]. rewrite E.
      destruct (decide (j = c)) as [->|Hne]; [right; split; [left|done]|].
      left. unfold remove_proc. destruct (procs s c); [|done]. simpl. by rewrite fupd_ne.
    - intros x [Ex|Hx]%elem_of_cons; [subst x|by apply B6]. destruct (B5 c) as [E|[_ E]]; [|done]. by rewrite E.
    - intros x y H. by apply A7, B7.
  Qed.

  (** ** one operation *)
  Definition op_wf (o : sop) : Prop :=
    match o with
    | OSpawn i | OStop i | OSend i _ | OBlock i | ORelease i | OGet i | ORace i _ => i < n
    | OSpawnChild p i => p < n /\ i < n /\ depth p < depth i
    | OStopBegin i g | OStopEnd i g => i < n /\ g < n
    end.

  Lemma step_ok_head s s' (spec : bool) :
    (exists x, recvd s' = recvd s ++ x) -> spec = true ->
    negb (so_overlap (mobs n s')) && negb (so_hang (mobs n s')) && beqb (so_reg (mobs n s')) (so_regctx (mobs n s')) &&
    Nat.eqb (length (so_runs (mobs n s'))) n && Nat.eqb (length (so_dups (mobs n s'))) n &&
    Nat.eqb (length (so_reg (mobs n s'))) n && is_prefix (so_recv (mobs n s)) (so_recv (mobs n s')) && spec = true.
  Proof.
    intros [x Hx] ->. cbn [mobs so_overlap so_hang so_reg so_regctx so_runs so_dups so_recv negb].
    rewrite Hx, is_prefix_app, !map_length, seq_length, Nat.eqb_refl. unfold beqb.
    by rewrite list_eqb_refl by apply bool_eqb_refl.
  Qed.

  Lemma live_upd_proc s i r rc j : is_live s i = true -> is_live (upd_proc s i r rc) j = is_live s j.
  Proof. intros H. unfold is_live. simpl. unfold fupd. destruct (Nat.eqb_spec j i) as [->|?]; [|done]. unfold is_live in H. by destruct (procs s i). Qed.

  Lemma stop_tree_removes fuel s i : bad (stop_tree (S fuel) s i) = false -> procs (stop_tree (S fuel) s i) i = None.
  Proof.
    rewrite stop_tree_S. destruct (procs s i) as [r|] eqn:Hi; [|done].
    destruct (p_blocked r || p_stopping r); [done|]. simpl. by rewrite fupd_eq.
  Qed.

  Lemma live_set_stopping s l b j : is_live (set_stopping s l b) j = is_live s j.
  Proof. unfold is_live. simpl. destruct (procs s j); [by destruct (mem j l)|done]. Qed.

  Lemma live_gate_stopping s l b g j : is_live (set_gate (set_stopping s l b) g) j = is_live s j.
  Proof. apply live_set_stopping. Qed.

  Lemma kdepth_spawn s i parent :
    kdepth s -> (forall p, parent = Some p -> depth p < depth i) -> kdepth (spawn s i parent).
  Proof.
    intros K Hp. unfold spawn, kdepth. destruct (is_live s i); simpl.
    - done.
    - destruct parent as [p|]; intros q y; unfold fupd.
      + destruct (Nat.eqb_spec q p) as [->|?].
        * unfold set_add. destruct (mem i (kids s p)); [apply K|].
          intros [?|Hy]%elem_of_app; [by apply K|]. apply elem_of_list_singleton in Hy as ->. by apply Hp.
        * destruct (Nat.eqb_spec q i); [by intros ?%elem_of_nil|apply K].
      + destruct (Nat.eqb_spec q i); [by intros ?%elem_of_nil|apply K].
  Qed.

  Definition gate_line (s : sst) : Prop := forall i g l, gate s = Some (i, g, l) -> i ∈ l /\ g ∈ l.

  Theorem step_sound s o :
    kdepth s -> gate_line s -> op_wf o -> bad (sstep s o) = false ->
    step_ok n o (mobs n s) (mobs n (sstep s o)) = true /\ kdepth (sstep s o).
  Proof.
    intros K G W Hb. destruct o as [i|p i|i|i m|i|i|i|i g|i g|i k]; unfold step_ok; simpl in W.
    - (* Spawn *)
      split; [|by apply kdepth_spawn]. apply step_ok_head; [|by apply spawn_ok_sound].
      exists []. rewrite app_nil_r. apply (spawn_facts s i None).
    - (* SpawnChild *)
      destruct W as (Hp & Hi & Hd). cbn [sstep] in *.
      destruct (is_live s p && negb (busy s p)) eqn:Hc; [|done]. apply andb_true_iff in Hc as [Hl _].
      split; [|apply kdepth_spawn; [done|by intros ? [= <-]]]. apply step_ok_head.
      + exists []. rewrite app_nil_r. apply (spawn_facts s i (Some p)).
      + rewrite nb_reg, Hl by done. by apply spawn_ok_sound.
    - (* Stop *)
      cbn [sstep] in *. destruct (busy s i); [done|]. pose proof (shrinks_stop_tree FUEL s i) as S.
      split; [|by eapply kdepth_shrinks]. apply step_ok_head; [exists []; by rewrite app_nil_r, (sh_recvd _ _ S)|].
      rewrite unchanged_counts_ok by (by apply shrinks_counts). rewrite reg_subset_ok by (intros j; by apply shrinks_live).
      rewrite nb_reg by done. unfold is_live. rewrite FUEL_S in *. by rewrite stop_tree_removes.
    - (* Send *)
      cbn [sstep] in *. destruct (procs s i) as [r|] eqn:Hi.
      + assert (Hl : is_live s i = true) by (unfold is_live; by rewrite Hi).
        destruct (p_stopping r); [|destruct (p_blocked r)].
        * split; [|done]. apply step_ok_head; [exists []; by rewrite app_nil_r|].
          rewrite unchanged_counts_ok by done. by rewrite reg_same_ok.
        * split; [|done]. apply step_ok_head; [exists []; by rewrite app_nil_r|].
          rewrite unchanged_counts_ok by done. rewrite reg_same_ok; [done|]. intros j. by apply live_upd_proc.
        * split; [|done]. apply step_ok_head; [by eexists|].
          rewrite unchanged_counts_ok by done. rewrite reg_same_ok; [done|]. intros j. by apply live_upd_proc.
      + split; [|done]. apply step_ok_head; [exists []; by rewrite app_nil_r|].
        rewrite unchanged_counts_ok by done. by rewrite reg_same_ok.
    - (* Block *)
      cbn [sstep] in *. destruct (procs s i) as [r|] eqn:Hi; [|done].
      assert (Hl : is_live s i = true) by (unfold is_live; by rewrite Hi).
      destruct (p_blocked r || p_stopping r); [done|]. split; [|done].
      apply step_ok_head; [exists []; by rewrite app_nil_r|].
      rewrite unchanged_counts_ok by done. rewrite reg_same_ok; [done|]. intros j. by apply live_upd_proc.
    - (* Release *)
      cbn [sstep] in *. destruct (procs s i) as [r|] eqn:Hi; [|done].
      assert (Hl : is_live s i = true) by (unfold is_live; by rewrite Hi).
      destruct (p_blocked r); [|done]. split; [|done].
      apply step_ok_head; [by eexists|].
      rewrite unchanged_counts_ok by done. rewrite reg_same_ok; [done|]. intros j. by apply live_upd_proc.
    - (* GetPID *)
      split; [|done]. apply step_ok_head; [exists []; by rewrite app_nil_r|].
      rewrite unchanged_counts_ok by done. by rewrite reg_same_ok.
    - (* StopBegin *)
      destruct W as [Hi Hg]. cbn [sstep] in *. destruct (gate s); [done|].
      destruct (line FUEL s i g) as [l|] eqn:Hl; [|done].
      destruct (negb (is_live s i) || existsb (busy s) l); [done|].
      pose proof (shrinks_foldl (stop_tree FUEL) (kids s g) (shrinks_stop_tree FUEL) s) as S.
      set (s1 := foldl (stop_tree FUEL) s (kids s g)) in *.
      destruct (line_facts FUEL s i g l K Hl) as (Hil & Hgl & Hdl).
      split; [|intros p y Hy; by apply (kdepth_shrinks _ _ S K)].
      apply step_ok_head; [exists []; simpl; by rewrite app_nil_r, (sh_recvd _ _ S)|].
      rewrite unchanged_counts_ok by (destruct (shrinks_counts _ _ S); by split).
      rewrite reg_subset_ok by (intros j; rewrite live_gate_stopping; by apply shrinks_live).
      rewrite !nb_reg by done.
      assert (Hloc : forall x, x ∈ l -> is_live (set_gate (set_stopping s1 l true) (Some (i, g, l))) x = is_live s x).
      { intros x Hx. rewrite live_gate_stopping. unfold is_live, s1.
        rewrite foldl_stop_tree_local; [done|done|]. intros c Hc. specialize (K _ _ Hc). specialize (Hdl x Hx). lia. }
      rewrite !Hloc by done. by destruct (is_live s i && is_live s g).
    - (* StopEnd *)
      destruct W as [Hi Hg]. cbn [sstep] in *. destruct (gate s) as [[[i' g'] l]|] eqn:Hgate; [|done].
      destruct (Nat.eqb i i' && Nat.eqb g g' && negb (existsb (blocked_at s) l)) eqn:Hc; [|done].
      apply andb_true_iff in Hc as [Hc _]. apply andb_true_iff in Hc as [->%Nat.eqb_eq ->%Nat.eqb_eq].
      destruct (G _ _ _ Hgate) as (Hil & Hgl).
      set (s0 := set_gate (set_stopping s l false) None) in *.
      destruct (foldl_remove_proc_facts (rev l) s0) as (A1 & A2 & A3 & A4 & A5 & A6 & A7).
      split; [|intros p y Hy; by apply K, A7].
      apply step_ok_head; [exists []; by rewrite app_nil_r, A3|].
      rewrite unchanged_counts_ok by (split; intros j; [by rewrite A1|by rewrite A2]).
      rewrite !nb_reg by done. unfold is_live at 1 2.
      rewrite !A6 by (apply elem_of_list_In, in_rev; rewrite rev_involutive; by apply elem_of_list_In).
      rewrite reg_subset_ok; [done|]. intros j. unfold is_live at 1. destruct (A5 j) as [-> | [_ ->]]; [|done].
      intros H. rewrite <- (live_set_stopping s l false j). exact H.
    - (* Race *)
      cbn [sstep] in *. destruct (race_facts s i k) as (Hr & Hbd & Hgt & Hkd & Hf).
      set (s' := Nat.iter k (fun s0 => spawn s0 i None) s) in *.
      split.
      + apply step_ok_head; [exists []; by rewrite app_nil_r|].
        destruct (is_live s i) eqn:Hl.
        * destruct Hf as (E1 & E2 & E3); [by right|].
          pose proof (race_ok_from s s' i k W Hr) as R. rewrite Hl in R.
          assert (R' := R ltac:(split_and!; try done; intros j; unfold is_live; by rewrite E3)).
          rewrite (nb_reg s i W), Hl in R'. rewrite (nb_reg s i W), Hl. exact R'.
        * destruct k as [|k].
          -- subst s'. cbn [Nat.iter nat_rect]. rewrite (nb_reg s i W), Hl. cbn [Nat.eqb].
             rewrite unchanged_counts_ok by done. rewrite reg_same_ok by done. refl_lists.
          -- destruct Hf as (E1 & E2 & E3 & _); [left; lia|].
             pose proof (race_ok_from s s' i (S k) W Hr) as R. rewrite Hl in R.
             assert (R' := R ltac:(by split_and!)).
             rewrite (nb_reg s i W), Hl in R'. rewrite (nb_reg s i W), Hl. exact R'.
      + intros p y Hy. destruct (Hkd p) as [E|[-> E]]; rewrite E in Hy; [by apply K|by apply elem_of_nil in Hy].
  Qed.

  (** ** histories *)
  Lemma bad_sticky s o : bad s = true -> bad (sstep s o) = true.
  Proof.
    intros Hb. destruct o as [i|p i|i|i m|i|i|i|i g|i g|i k]; simpl.
    - unfold spawn. by destruct (is_live s i).
    - destruct (is_live s p && negb (busy s p)); [|done]. unfold spawn. by destruct (is_live s i).
    - destruct (busy s i); [done|]. by apply (sh_bad _ _ (shrinks_stop_tree FUEL s i)).
    - destruct (procs s i) as [r|]; [|done]. destruct (p_stopping r); [done|]. by destruct (p_blocked r).
    - destruct (procs s i) as [r|]; [|done]. by destruct (p_blocked r || p_stopping r).
    - destruct (procs s i) as [r|]; [|done]. by destruct (p_blocked r).
    - done.
    - destruct (gate s); [done|]. destruct (line FUEL s i g) as [l|]; [|done].
      destruct (negb (is_live s i) || existsb (busy s) l); [done|]. simpl.
      by apply (sh_bad _ _ (shrinks_foldl (stop_tree FUEL) (kids s g) (shrinks_stop_tree FUEL) s)).
    - destruct (gate s) as [[[i' g'] l]|]; [|done].
      destruct (Nat.eqb i i' && Nat.eqb g g' && negb (existsb (blocked_at s) l)); [|done].
      destruct (foldl_remove_proc_facts (rev l) (set_gate (set_stopping s l false) None)) as (_ & _ & _ & -> & _). done.
    - destruct (race_facts s i k) as (_ & -> & _). done.
  Qed.

  Lemma bad_sticky_run h : forall s, bad s = true -> bad (srun s h) = true.
  Proof. induction h as [|o h IH]; intros s Hb; [done|]. simpl. apply IH. by apply bad_sticky. Qed.

  Lemma gate_foldl_remove l : forall s, gate (foldl remove_proc s l) = gate s.
  Proof.
    induction l as [|c l IH]; intros s; [done|]. simpl. rewrite IH. unfold remove_proc. by destruct (procs s c).
  Qed.

  (** ** the invariant of non-bad runs *)
  Record WInv (s : sst) : Prop := {
    w_kdepth : kdepth s;
    w_gate : gate_line s;
    w_inc : forall i r, procs s i = Some r -> p_inc r = runs s i;
    w_queue : forall i r, procs s i = Some r -> p_blocked r = false -> p_queue r = [];
    w_stop : forall x r, procs s x = Some r -> p_stopping r = true ->
                         p_blocked r = false /\ exists i g l, gate s = Some (i, g, l) /\ x ∈ l
  }.

  Lemma winv_init : WInv sinit.
  Proof. split; try done. intros p i H. by apply elem_of_nil in H. Qed.

  Lemma winv_shrinks s s' : shrinks s s' -> WInv s -> WInv s'.
  Proof.
    intros S I. split.
    - by apply (kdepth_shrinks _ _ S), I.
    - intros i g l H. rewrite (sh_gate _ _ S) in H. by apply (w_gate _ I).
    - intros i r H. destruct (sh_procs _ _ S i) as [E|[E _]]; [|congruence]. rewrite E in H.
      rewrite (sh_runs _ _ S). by apply (w_inc _ I).
    - intros i r H. destruct (sh_procs _ _ S i) as [E|[E _]]; [|congruence]. rewrite E in H. by apply (w_queue _ I i).
    - intros x r H. destruct (sh_procs _ _ S x) as [E|[E _]]; [|congruence]. rewrite E in H.
      rewrite (sh_gate _ _ S). by apply (w_stop _ I x).
  Qed.

  Lemma winv_spawn s i parent :
    WInv s -> (forall p, parent = Some p -> depth p < depth i) -> WInv (spawn s i parent).
  Proof.
    intros I Hp. split.
    - apply kdepth_spawn; [apply I|done].
    - unfold spawn. destruct (is_live s i); apply (w_gate _ I).
    - unfold spawn. destruct (is_live s i) eqn:Hl; simpl; [apply (w_inc _ I)|].
      intros j r. unfold fupd. destruct (Nat.eqb_spec j i) as [->|?]; [by intros [= <-]|apply (w_inc _ I)].
    - unfold spawn. destruct (is_live s i) eqn:Hl; simpl; [apply (w_queue _ I)|].
      intros j r. unfold fupd. destruct (Nat.eqb_spec j i) as [->|?]; [by intros [= <-]|apply (w_queue _ I)].
    - unfold spawn. destruct (is_live s i) eqn:Hl; simpl; [apply (w_stop _ I)|].
      intros j r. unfold fupd. destruct (Nat.eqb_spec j i) as [->|?]; [by intros [= <-]|apply (w_stop _ I)].
  Qed.

  Lemma winv_upd s i r r' rc :
    WInv s -> procs s i = Some r -> p_inc r' = p_inc r ->
    (p_blocked r' = false -> p_queue r' = []) ->
    (p_stopping r' = true -> p_stopping r = true /\ p_blocked r' = false) ->
    WInv (upd_proc s i r' rc).
  Proof.
    intros I Hi Hinc Hq Hs. split; simpl; try apply I.
    - intros j r0. unfold fupd. destruct (Nat.eqb_spec j i) as [->|?]; [|apply (w_inc _ I)].
      intros [= <-]. rewrite Hinc. by apply (w_inc _ I).
    - intros j r0. unfold fupd. destruct (Nat.eqb_spec j i) as [->|?]; [|apply (w_queue _ I)]. by intros [= <-].
    - intros j r0. unfold fupd. destruct (Nat.eqb_spec j i) as [->|?]; [|apply (w_stop _ I)].
      intros [= <-] H. destruct (Hs H) as [H1 H2]. split; [done|]. by apply (w_stop _ I _ _ Hi H1).
  Qed.

  Lemma winv_step s o : WInv s -> op_wf o -> bad (sstep s o) = false -> WInv (sstep s o).
  Proof.
    intros I W Hb. destruct o as [i|p i|i|i m|i|i|i|i g|i g|i k]; simpl in W; cbn [sstep] in *.
    - by apply winv_spawn.
    - destruct W as (_ & _ & Hd). destruct (is_live s p && negb (busy s p)); [|done].
      apply winv_spawn; [done|by intros ? [= <-]].
    - destruct (busy s i); [done|]. eapply winv_shrinks; [apply shrinks_stop_tree|done].
    - destruct (procs s i) as [r|] eqn:Hi; [|done]. destruct (p_stopping r) eqn:Hs; [done|].
      destruct (p_blocked r) eqn:Hbl.
      + by apply (winv_upd s i r).
      + apply (winv_upd s i r); first [done | by intros _; apply (w_queue _ I _ _ Hi) | by rewrite Hs].
    - destruct (procs s i) as [r|] eqn:Hi; [|done]. destruct (p_blocked r || p_stopping r); [done|].
      by apply (winv_upd s i r).
    - destruct (procs s i) as [r|] eqn:Hi; [|done]. destruct (p_blocked r) eqn:Hbl; [|done].
      by apply (winv_upd s i r).
    - done.
    - (* StopBegin *)
      destruct (gate s) eqn:Hgate; [done|]. destruct (line FUEL s i g) as [l|] eqn:Hl; [|done].
      destruct (negb (is_live s i) || existsb (busy s) l) eqn:Hc; [done|].
      apply orb_false_iff in Hc as [_ Hbusy].
      pose proof (shrinks_foldl (stop_tree FUEL) (kids s g) (shrinks_stop_tree FUEL) s) as S.
      set (s1 := foldl (stop_tree FUEL) s (kids s g)) in *. pose proof (winv_shrinks _ _ S I) as I1.
      destruct (line_facts FUEL s i g l (w_kdepth _ I) Hl) as (Hil & Hgl & _).
      split; simpl.
      + apply (w_kdepth _ I1).
      + intros i0 g0 l0 [= <- <- <-]. done.
      + intros j r. destruct (procs s1 j) as [r1|] eqn:H1; [|done]. destruct (mem j l); intros [= <-]; simpl; by apply (w_inc _ I1 j).
      + intros j r. destruct (procs s1 j) as [r1|] eqn:H1; [|done]. destruct (mem j l); intros [= <-]; simpl; by apply (w_queue _ I1 j).
      + intros j r. destruct (procs s1 j) as [r1|] eqn:H1; [|done]. destruct (mem j l) eqn:Hm; intros [= <-]; simpl.
        * intros _. apply mem_true in Hm. split; [|eauto].
          destruct (sh_procs _ _ S j) as [E|[E _]]; [|congruence]. rewrite H1 in E.
          assert (Hbj : busy s j = false).
          { destruct (busy s j) eqn:E'; [|done]. rewrite <- Hbusy. symmetry. apply existsb_exists. exists j.
            split; [by apply elem_of_list_In|done]. }
          unfold busy in Hbj. rewrite <- E in Hbj. by apply orb_false_iff in Hbj as [? _].
        * intros Hs. destruct (w_stop _ I1 _ _ H1 Hs) as (_ & i0 & g0 & l0 & Hg0 & _).
          rewrite (sh_gate _ _ S), Hgate in Hg0. done.
    - (* StopEnd *)
      destruct (gate s) as [[[i' g'] l]|] eqn:Hgate; [|done].
      destruct (Nat.eqb i i' && Nat.eqb g g' && negb (existsb (blocked_at s) l)) eqn:Hc; [|done].
      set (s0 := set_gate (set_stopping s l false) None) in *.
      destruct (foldl_remove_proc_facts (rev l) s0) as (A1 & A2 & A3 & A4 & A5 & A6 & A7).
      assert (Hkeep : forall j r, procs (foldl remove_proc s0 (rev l)) j = Some r ->
                                  j ∉ l /\ procs s j = Some r).
      { intros j r H. destruct (A5 j) as [E|[_ E]]; [|congruence]. rewrite E in H.
        assert (Hjl : j ∉ l).
        { intros Hj. rewrite A6 in E; [congruence|]. apply elem_of_list_In, in_rev. rewrite rev_involutive. by apply elem_of_list_In. }
        split; [done|]. simpl in H. destruct (procs s j) as [r0|]; [|done].
        apply mem_false in Hjl. by rewrite Hjl in H. }
      split.
      + intros p y Hy. by apply (w_kdepth _ I), A7.
      + intros i0 g0 l0 H.
        by rewrite gate_foldl_remove in H.
      + intros j r H. destruct (Hkeep _ _ H) as [_ H']. rewrite A1. by apply (w_inc _ I j).
      + intros j r H. destruct (Hkeep _ _ H) as [_ H']. by apply (w_queue _ I j).
      + intros j r H Hs. destruct (Hkeep _ _ H) as [Hjl H'].
        destruct (w_stop _ I _ _ H' Hs) as (_ & i0 & g0 & l0 & Hg0 & Hin). rewrite Hgate in Hg0. by injection Hg0 as <- <- <-.
    - (* Race *)
      clear Hb. induction k as [|k IH]; [done|]. simpl. by apply winv_spawn.
  Qed.

  (** ** deliveries: what has been handled plus what is queued, per actor *)
  Definition onj (j : id) (l : list rcv) : list rcv := filter (fun x : rcv => x.1.1 = j) l.
  Definition pend (s : sst) (j : id) : list rcv :=
    match procs s j with Some r => map (fun m => (j, p_inc r, m)) (p_queue r) | None => [] end.
  Definition D (s : sst) (j : id) : list rcv := onj j (recvd s) ++ pend s j.
  (* the delivery an operation adds to that stream *)
  Definition appended (s : sst) (o : sop) : list rcv :=
    match o with
    | OSend i m => match procs s i with
                   | Some r => if p_stopping r then [] else [(i, p_inc r, m)]
                   | None => [] end
    | _ => []
    end.

  Lemma onj_app j l k : onj j (l ++ k) = onj j l ++ onj j k.
  Proof. apply filter_app. Qed.

  Lemma onj_tagged j i inc (q : list msg) :
    onj j (map (fun m => (i, inc, m)) q) = if decide (i = j) then map (fun m => (i, inc, m)) q else [].
  Proof.
    unfold onj. induction q as [|m q IH]; simpl; [by destruct (decide (i = j))|].
    rewrite filter_cons. simpl. destruct (decide (i = j)); by rewrite IH.
  Qed.

  Lemma D_shrinks s s' j : shrinks s s' -> WInv s -> bad s' = false -> D s' j = D s j.
  Proof.
    intros S I Hb. unfold D, pend. rewrite (sh_recvd _ _ S). f_equal.
    destruct (sh_procs _ _ S j) as [->|[-> H]]; [done|]. destruct (H Hb) as (r & Hr0 & Hr).
    rewrite Hr0. by rewrite (w_queue _ I j r Hr0 Hr).
  Qed.
  Lemma D_spawn s i parent j : D (spawn s i parent) j = D s j.
  Proof.
    unfold spawn. destruct (is_live s i) eqn:Hl; [done|]. unfold D, pend. simpl. f_equal. unfold fupd.
    destruct (Nat.eqb_spec j i) as [->|?]; [|done]. unfold is_live in Hl. by destruct (procs s i).
  Qed.

  Lemma D_upd_same s i r r' j :
    procs s i = Some r -> p_inc r' = p_inc r -> p_queue r' = p_queue r -> D (upd_proc s i r' (recvd s)) j = D s j.
  Proof.
    intros Hi E1 E2. unfold D, pend. simpl. f_equal. unfold fupd. destruct (Nat.eqb_spec j i) as [->|?]; [|done].
    by rewrite Hi, E1, E2.
  Qed.

  Lemma D_step s o j :
    WInv s -> bad (sstep s o) = false -> D (sstep s o) j = D s j ++ onj j (appended s o).
  Proof.
    intros I Hb. destruct o as [i|p i|i|i m|i|i|i|i g|i g|i k]; cbn [sstep appended] in *;
      try rewrite app_nil_r.
    - apply D_spawn.
    - destruct (is_live s p && negb (busy s p)); [apply D_spawn|done].
    - destruct (busy s i); [done|]. by apply D_shrinks; [apply shrinks_stop_tree| |].
    - (* Send *)
      destruct (procs s i) as [r|] eqn:Hi; [|by rewrite app_nil_r].
      destruct (p_stopping r) eqn:Hs; [by rewrite app_nil_r|]. destruct (p_blocked r) eqn:Hbl.
      + unfold D, pend. simpl. unfold onj at 3. rewrite filter_cons. simpl. unfold fupd.
        destruct (Nat.eqb_spec j i) as [->|Hne].
        * rewrite decide_True by done. cbn [p_inc p_queue]. rewrite Hi, map_app. simpl. by rewrite filter_nil, app_assoc.
        * rewrite decide_False by done. by rewrite filter_nil, app_nil_r.
      + unfold D, pend. simpl. rewrite onj_app. unfold onj at 2 4. rewrite !filter_cons. simpl. unfold fupd.
        destruct (Nat.eqb_spec j i) as [->|Hne].
        * rewrite decide_True by done. cbn [p_inc p_queue]. rewrite Hi, (w_queue _ I _ _ Hi Hbl). simpl. by rewrite !filter_nil, !app_nil_r.
        * rewrite decide_False by done. by rewrite !filter_nil, !app_nil_r.
    - destruct (procs s i) as [r|] eqn:Hi; [|done]. destruct (p_blocked r || p_stopping r); [done|].
      by apply (D_upd_same s i r).
    - (* Release *)
      destruct (procs s i) as [r|] eqn:Hi; [|done]. destruct (p_blocked r); [|done].
      unfold D, pend. simpl. rewrite onj_app, onj_tagged. unfold fupd.
      destruct (Nat.eqb_spec j i) as [->|Hne].
      + rewrite decide_True by done. rewrite Hi. simpl. by rewrite app_nil_r.
      + rewrite decide_False by done. by rewrite app_nil_r.
    - done.
    - (* StopBegin *)
      destruct (gate s); [done|]. destruct (line FUEL s i g) as [l|]; [|done].
      destruct (negb (is_live s i) || existsb (busy s) l); [done|].
      pose proof (shrinks_foldl (stop_tree FUEL) (kids s g) (shrinks_stop_tree FUEL) s) as S.
      set (s1 := foldl (stop_tree FUEL) s (kids s g)) in *.
      rewrite <- (D_shrinks s s1 j S I Hb). unfold D, pend. simpl.
      destruct (procs s1 j) as [r|]; [|done]. by destruct (mem j l).
    - (* StopEnd *)
      destruct (gate s) as [[[i' g'] l]|] eqn:Hgate; [|done].
      destruct (Nat.eqb i i' && Nat.eqb g g' && negb (existsb (blocked_at s) l)) eqn:Hc; [|done].
      apply andb_true_iff in Hc as [_ Hnb]. apply negb_true_iff in Hnb.
      set (s0 := set_gate (set_stopping s l false) None) in *.
      destruct (foldl_remove_proc_facts (rev l) s0) as (A1 & A2 & A3 & A4 & A5 & A6 & A7).
      unfold D. rewrite A3. simpl. f_equal. unfold pend.
      destruct (A5 j) as [E|[Hj E]]; rewrite E.
      + simpl. destruct (procs s j) as [r|]; [|done]. by destruct (mem j l).
      + destruct (procs s j) as [r|] eqn:Hr; [|done].
        assert (Hbj : blocked_at s j = false).
        { destruct (blocked_at s j) eqn:E'; [|done]. rewrite <- Hnb. symmetry. apply existsb_exists. exists j.
          split; [|done]. apply in_rev. by apply elem_of_list_In. }
        unfold blocked_at in Hbj. rewrite Hr in Hbj. by rewrite (w_queue _ I _ _ Hr Hbj).
    - (* Race *)
      clear Hb. induction k as [|k IH]; [done|]. simpl. by rewrite D_spawn.
  Qed.

  Lemma first_step_not_bad s o h : bad (srun s (o :: h)) = false -> bad (sstep s o) = false.
  Proof. simpl. intros Hb. destruct (bad (sstep s o)) eqn:E; [|done]. by rewrite (bad_sticky_run h _ E) in Hb. Qed.

  Lemma steps_sound h : forall s,
    WInv s -> Forall op_wf h -> bad (srun s h) = false ->
    steps_ok n h (mobs n s) (map (mobs n) (strace s h)) = true.
  Proof.
    induction h as [|o h IH]; intros s I W Hb; [done|]. pose proof (first_step_not_bad _ _ _ Hb) as Hbo. simpl in *.
    apply Forall_cons in W as [Wo W].
    destruct (step_sound s o (w_kdepth _ I) (w_gate _ I) Wo Hbo) as [Hs _]. rewrite Hs. simpl.
    apply IH; [by apply winv_step|done|done].
  Qed.

  Fixpoint A_run (s : sst) (h : list sop) : list rcv :=
    match h with [] => [] | o :: h' => appended s o ++ A_run (sstep s o) h' end.

  Lemma D_run h : forall s, WInv s -> Forall op_wf h -> bad (srun s h) = false ->
    forall j, D (srun s h) j = D s j ++ onj j (A_run s h).
  Proof.
    induction h as [|o h IH]; intros s I W Hb j; [by rewrite app_nil_r|].
    pose proof (first_step_not_bad _ _ _ Hb) as Hbo. apply Forall_cons in W as [Wo W]. simpl.
    rewrite IH; [|by apply winv_step|done|done]. by rewrite (D_step s o j I Hbo), onj_app, app_assoc.
  Qed.

  Definition held_next (o : sop) (held : bool) : bool :=
    match o with OStopBegin _ _ => true | OStopEnd _ _ => false | _ => held end.

  Lemma gate_track s o : bad (sstep s o) = false -> gate_open (sstep s o) = held_next o (gate_open s).
  Proof.
    intros Hb. unfold gate_open. destruct o as [i|p i|i|i m|i|i|i|i g|i g|i k]; cbn [sstep held_next] in *.
    - unfold spawn. by destruct (is_live s i).
    - destruct (is_live s p && negb (busy s p)); [|done]. unfold spawn. by destruct (is_live s i).
    - destruct (busy s i); [done|]. by rewrite (sh_gate _ _ (shrinks_stop_tree FUEL s i)).
    - destruct (procs s i) as [r|]; [|done]. destruct (p_stopping r); [done|]. by destruct (p_blocked r).
    - destruct (procs s i) as [r|]; [|done]. by destruct (p_blocked r || p_stopping r).
    - destruct (procs s i) as [r|]; [|done]. by destruct (p_blocked r).
    - done.
    - destruct (gate s); [done|]. destruct (line FUEL s i g) as [l|]; [|done].
      by destruct (negb (is_live s i) || existsb (busy s) l).
    - destruct (gate s) as [[[i' g'] l]|]; [|done].
      destruct (Nat.eqb i i' && Nat.eqb g g' && negb (existsb (blocked_at s) l)); [|done].
      by rewrite gate_foldl_remove.
    - destruct (race_facts s i k) as (_ & _ & -> & _). done.
  Qed.

  Lemma nn_runs s i : i < n -> nn (so_runs (mobs n s)) i = runs s i.
  Proof. intros Hi. unfold nn. cbn [so_runs mobs]. by rewrite nth_map_seq. Qed.

  Lemma expected_sublist h : forall s, WInv s -> Forall op_wf h -> bad (srun s h) = false ->
    sublist (expected h (mobs n s) (map (mobs n) (strace s h)) (gate_open s)) (A_run s h).
  Proof.
    induction h as [|o h IH]; intros s I W Hb; [done|].
    pose proof (first_step_not_bad _ _ _ Hb) as Hbo. apply Forall_cons in W as [Wo W].
    cbn [expected strace map A_run]. simpl in Hb.
    apply sublist_app.
    - destruct o as [i|p i|i|i m|i|i|i|i g|i g|i k]; try apply sublist_nil_l. simpl in Wo. cbn [appended].
      rewrite nb_reg, nn_runs by done. unfold is_live.
      destruct (procs s i) as [r|] eqn:Hi; [|rewrite andb_false_r; apply sublist_nil_l].
      destruct (gate_open s) eqn:Hg; [apply sublist_nil_l|]. simpl.
      destruct (p_stopping r) eqn:Hs.
      + destruct (w_stop _ I _ _ Hi Hs) as (_ & i0 & g0 & l0 & Hg0 & _). unfold gate_open in Hg. by rewrite Hg0 in Hg.
      + by rewrite (w_inc _ I _ _ Hi).
    - change (match o with OStopBegin _ _ => true | OStopEnd _ _ => false | _ => gate_open s end) with (held_next o (gate_open s)).
      rewrite <- (gate_track s o Hbo). apply IH; [by apply winv_step|done|done].
  Qed.

  Definition op_msgs (o : sop) : list msg := match o with OSend _ m => [m] | _ => [] end.

  Lemma A_run_msgs h : forall s, sublist (map snd (A_run s h)) (flat_map op_msgs h).
  Proof.
    induction h as [|o h IH]; intros s; [done|]. simpl. rewrite map_app. apply sublist_app; [|apply IH].
    destruct o as [i|p i|i|i m|i|i|i|i g|i g|i k]; try apply sublist_nil_l. simpl.
    destruct (procs s i) as [r|]; [|apply sublist_nil_l]. destruct (p_stopping r); [apply sublist_nil_l|reflexivity].
  Qed.

  Lemma last_cons_default {A} (l : list A) : forall x d, List.last (x :: l) d = List.last l x.
  Proof. induction l as [|y l IH]; intros x d; [done|]. change (List.last (x :: y :: l) d) with (List.last (y :: l) d). by rewrite !IH. Qed.

  Lemma last_strace (f : sst -> sobs) h : forall s, List.last (map f (strace s h)) (f s) = f (srun s h).
  Proof.
    induction h as [|o h IH]; intros s; [done|]. simpl strace. simpl srun. rewrite <- IH. simpl map.
    apply last_cons_default.
  Qed.

  Lemma init_obs_model : init_obs n = mobs n sinit.
  Proof.
    unfold init_obs, mobs.
    rewrite (map_seq_ext (runs sinit) (fun _ => 0) 0 n), (map_seq_ext (dups sinit) (fun _ => 0) 0 n),
            (map_seq_ext (is_live sinit) (fun _ => false) 0 n) by done.
    by rewrite (map_const_seq 0 0 n), (map_const_seq false 0 n).
  Qed.

  Lemma kdepth_init : kdepth sinit.
  Proof. intros p i H. by apply elem_of_nil in H. Qed.

  Lemma rcv_eqb_eq x y : rcv_eqb x y = true <-> x = y.
  Proof.
    destruct x as [[a b] c], y as [[a' b'] c']. unfold rcv_eqb. simpl.
    rewrite !andb_true_iff, !Nat.eqb_eq. split; [intros [[-> ->] ->]; done|by intros [= -> -> ->]].
  Qed.

  Lemma existsb_rcv x l : existsb (rcv_eqb x) l = true <-> x ∈ l.
  Proof.
    rewrite existsb_exists. split.
    - intros (y & Hy & He). apply rcv_eqb_eq in He. subst. by apply elem_of_list_In.
    - intros H. exists x. split; [by apply elem_of_list_In|by apply rcv_eqb_eq].
  Qed.

  Lemma filter_iff_in (P Q : rcv -> Prop) `{forall x, Decision (P x)} `{forall x, Decision (Q x)} (l : list rcv) :
    (forall y, y ∈ l -> (P y <-> Q y)) -> filter P l = filter Q l.
  Proof.
    induction l as [|x l IH]; intros Hl; [done|]. rewrite !filter_cons.
    assert (Hx : P x <-> Q x) by (apply Hl; left).
    rewrite IH by (intros y Hy; apply Hl; by right).
    destruct (decide (P x)), (decide (Q x)); tauto || done.
  Qed.

  Lemma sublist_NoDup' {A} (k l : list A) : sublist k l -> NoDup l -> NoDup k.
  Proof.
    intros Hs Hnd. apply sublist_submseteq, submseteq_Permutation in Hs as [k' Hp].
    rewrite Hp in Hnd. by apply NoDup_app in Hnd as [? _].
  Qed.

  Lemma sublist_elem {A} (k l : list A) x : sublist k l -> x ∈ k -> x ∈ l.
  Proof. intros Hs Hx. eapply elem_of_submseteq; [done|by apply sublist_submseteq]. Qed.

  Lemma sublist_filter_mem (k l : list rcv) : NoDup l -> sublist k l -> filter (fun x => x ∈ k) l = k.
  Proof.
    intros Hnd Hs. induction Hs as [|x k l Hs IH|x k l Hs IH].
    - done.
    - apply NoDup_cons in Hnd as [Hx Hnd]. rewrite filter_cons, decide_True by left. f_equal.
      transitivity (filter (fun y => y ∈ k) l); [|by apply IH].
      apply filter_iff_in. intros y Hy. rewrite elem_of_cons. split; [|by right].
      intros [->|?]; [done|done].
    - apply NoDup_cons in Hnd as [Hx Hnd]. rewrite filter_cons, decide_False; [by apply IH|].
      intros Hk. apply Hx. by eapply sublist_elem.
  Qed.

  (** ** the domain of the generators, and the theorem *)
  (* every id below n; SpawnChild only from an actor to an id deeper in the tree of
     paths; distinct message values; the history stays inside the modelled domain
     (Registry.bad) and ends with nobody held inside a handler *)
  Definition wf_hist (h : list sop) : Prop :=
    Forall op_wf h /\ NoDup (flat_map op_msgs h) /\ bad (srun sinit h) = false /\
    (forall j r, procs (srun sinit h) j = Some r -> p_blocked r = false).

  Theorem respawn_oracle_holds_of_model h : wf_hist h -> RespawnExec.oracle (RespawnExec.model_case n h) = true.
  Proof.
    intros (W & Hnd & Hb & Hfin). unfold RespawnExec.oracle, RespawnExec.model_case. cbn [c_n c_hist c_obs].
    apply andb_true_intro. split.
    - rewrite init_obs_model. apply steps_sound; [apply winv_init|done|done].
    - unfold deliveries_ok. cbn [c_n c_hist c_obs]. apply forallb_forall. intros i _.
      set (ex := expected h (init_obs n) (map (mobs n) (strace sinit h)) false).
      set (A := A_run sinit h).
      assert (Hsub : sublist ex A).
      { unfold ex. rewrite init_obs_model. apply (expected_sublist h sinit winv_init W Hb). }
      assert (HndA : NoDup A).
      { apply (NoDup_fmap_1 snd). eapply sublist_NoDup'; [apply A_run_msgs|done]. }
      assert (Hfinal : forall j, onj j (recvd (srun sinit h)) = onj j A).
      { intros j. pose proof (D_run h sinit winv_init W Hb j) as HD. unfold D in HD. simpl in HD.
        assert (Hp : pend (srun sinit h) j = []).
        { unfold pend. destruct (procs (srun sinit h) j) as [r|] eqn:Hr; [|done].
          assert (I : WInv (srun sinit h)).
          { clear -W Hb. revert W Hb. generalize winv_init. generalize sinit. induction h as [|o h IH]; intros s I W Hb; [done|].
            apply Forall_cons in W as [Wo W]. simpl. apply IH; [|done|done]. apply winv_step; [done|done|]. by eapply first_step_not_bad. }
          by rewrite (w_queue _ I _ _ Hr (Hfin _ _ Hr)). }
        by rewrite Hp, app_nil_r in HD. }
      unfold last_obs. rewrite init_obs_model, (last_strace (mobs n) h sinit). cbn [so_recv mobs].
      match goal with |- list_eqb rcv_eqb ?L ?R = true => assert (E1 : L = onj i ex); [|assert (E2 : R = onj i ex)] end.
      { transitivity (filter (fun x : rcv => x ∈ ex) (onj i (recvd (srun sinit h)))).
        - unfold onj. rewrite list_filter_filter. apply list_filter_iff. intros x.
          rewrite andb_true_iff, Nat.eqb_eq, existsb_rcv. tauto.
        - rewrite Hfinal. transitivity (onj i (filter (fun x : rcv => x ∈ ex) A)); [|by rewrite sublist_filter_mem].
          unfold onj. rewrite !list_filter_filter. apply list_filter_iff. intros x. tauto. }
      { apply list_filter_iff. intros x. apply Nat.eqb_eq. }
      rewrite E1, E2. apply list_eqb_refl, rcv_eqb_refl.
  Qed.
End sound.

(* non-vacuity: a history of the generated domain (ids 0 and 2, 2 a child of 0)
   with queued messages, duplicates, a held shutdown and a respawn *)
Example wf_hist_example :
  wf_hist 3 (fun i => i)
    [OSpawn 0; OSpawnChild 0 2; OBlock 0; OSend 0 11; OSpawn 0; OSend 0 12; ORelease 0; ORace 2 3;
     OStopBegin 0 2; OSpawn 0; OSend 2 13; OStopEnd 0 2; OSpawn 0; OSend 0 14].
Proof.
  split_and!.
  - repeat constructor; simpl; lia.
  - simpl. repeat (apply NoDup_cons; split; [set_solver|]). apply NoDup_nil_2.
  - by vm_compute.
  - intros j r. vm_compute. repeat case_match; try done; by intros [= <-].
Qed.
