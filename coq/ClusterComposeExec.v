(** Executable side of the composed check (real provider + real agent of one
    node): a case is the node itself, a history of provider messages and what
    the agent showed at start-up and after each message. *)
From stdpp Require Import gmap list sorting.
From Coq Require Import Bool.
From HV Require Export ClusterCompose.

Record case := { c_self : member; c_hist : list pmsg; c_obs : list obs }.

(* correspondence: provider model ∘ agent model computes what the node showed *)
Definition corr (c : case) : bool :=
  all2 (obs_eqb true) (node_model_run (c_self c) (c_hist c)) (c_obs c).

(* oracle: what the node showed is what the composed theorem predicts from
   the provider's member list alone ([noracle_holds_of_model]: true of every
   model run) *)
Definition oracle (c : case) : bool := noracle_on (c_self c) (c_hist c) (c_obs c).

(* situations reached: 1 message that sends the agent nothing, 2 snapshot
   with a join, 3 snapshot with a leave, 4 snapshot that changes nothing,
   5 a kind disappears, 6 a kind appears *)
Definition branches_step (r : node * node * list event) (msg : pmsg) : list nat :=
  let '(pre, post, ev) := r in
  let sent := snapshots_of (pstep (n_prov pre) msg).2 in
  (if decide (sent = []) then [1] else []) ++
  (if decide (join_ids ev = []) then [] else [2]) ++
  (if decide (leave_ids ev = []) then [] else [3]) ++
  (if decide (sent ≠ [] ∧ ev = []) then [4] else []) ++
  (if decide (Forall (λ k, has_kind k (n_agent pre) = true → has_kind k (n_agent post) = true) kuniv) then [] else [5]) ++
  (if decide (Forall (λ k, has_kind k (n_agent post) = true → has_kind k (n_agent pre) = true) kuniv) then [] else [6]).

Fixpoint branches_run (rs : list (node * node * list event)) (hist : list pmsg) : list nat :=
  match rs, hist with
  | r :: rs', msg :: hist' => branches_step r msg ++ branches_run rs' hist'
  | _, _ => []
  end.

Definition branches (c : case) : list nat :=
  remove_dups (branches_run (nrun (nstart (c_self c)).1 (c_hist c)) (c_hist c)).

Fixpoint failing {A} (f : A → bool) (i : nat) (l : list A) : list nat :=
  match l with [] => [] | a :: l' => (if f a then [] else [i]) ++ failing f (S i) l' end.

Definition report (cs : list case) : list nat * list nat * list (list nat) :=
  (failing corr 0 cs, failing oracle 0 cs, map branches cs).

Example report_smoke :
  let self := {| mid := 0; mhost := 0; mkinds := [0] |} in
  let peer := {| mid := 1; mhost := 1; mkinds := [1] |} in
  let o i j l k := {| o_ids := i; o_joins := j; o_leaves := l; o_kinds := k |} in
  report [ {| c_self := self; c_hist := [Handshake peer 1; LeaveAddr 9; LeaveAddr 1];
              c_obs := [o [0] [0] [] [true; false; false]; o [0; 1] [1] [] [true; true; false];
                        o [0; 1] [] [] [true; true; false]; o [0] [] [1] [true; false; false]] |};
           (* the agent not told about the departure *)
           {| c_self := self; c_hist := [Handshake peer 1; LeaveAddr 1];
              c_obs := [o [0] [0] [] [true; false; false]; o [0; 1] [1] [] [true; true; false];
                        o [0; 1] [] [] [true; true; false]] |} ]
  = ([1], [1], [[2; 6; 1; 3; 5]; [2; 6; 3; 5]]).
Proof. by vm_compute. Qed.
