(** The property theorems of the wire layer (C15, C16).  Nothing else lives
    here: each is closed by [exact <lemma>] and followed by [Print Assumptions].
    They are about the repaired writer/reader pair (fixes/D8.diff, fixes/D9.diff);
    the witnesses refuting them on the pinned pair are the [pinned_…_refuted]
    examples of WireProofs.v. *)
From Coq Require Import List ZArith.
From HV Require Import Wire WireProofs.
Import ListNotations.

(** * C15 — batched wire encoding round-trips every message to its own target and sender *)

(* For every codec in which a serialised message decodes to itself, and every
   batch: reading the envelope the writer builds makes exactly the [expected]
   SendLocal calls, in order, and ends cleanly — no error, no panic. *)
Theorem C15_roundtrip :
  forall (value data : Type) (tyname_of : value -> option tyname) (ser : value -> option data)
         (deser : tyname -> data -> option value),
    (forall v t d, tyname_of v = Some t -> ser v = Some d -> deser t d = Some v) ->
    forall b : list (deliver value),
      decode deser (encode tyname_of ser b) = {| delivered := expected tyname_of ser b; out := Ok |}.
Proof. exact @roundtrip. Qed.
Print Assumptions C15_roundtrip.

(* [expected] is one delivery per serialisable message of the batch, in batch
   order, with the same target, the same sender (none stays none), the same
   payload, under the message's own type name: same count, same order. *)
Theorem C15_same_count_order_target_sender_payload :
  forall (value data : Type) (tyname_of : value -> option tyname) (ser : value -> option data)
         (b : list (deliver value)),
    Forall2 (fun (d : deliver value) (x : delivery value) =>
               d_target x = s_target d /\ d_sender x = s_sender d /\ d_msg x = s_msg d /\
               tyname_of (s_msg d) = Some (d_ty x))
            (filter (fun d => serialisable tyname_of ser (s_msg d)) b) (expected tyname_of ser b).
Proof. exact @expected_is_filter. Qed.
Print Assumptions C15_same_count_order_target_sender_payload.

(* A message that cannot be serialised (not a protobuf message, or Marshal
   fails) is dropped on its own: the envelope sent is the one of the batch
   without it, so the others are unaffected and nothing takes its place. *)
Theorem C15_unserialisable_dropped_alone :
  forall (value data : Type) (tyname_of : value -> option tyname) (ser : value -> option data)
         (b1 b2 : list (deliver value)) (d : deliver value),
    serialisable tyname_of ser (s_msg d) = false ->
    encode tyname_of ser (b1 ++ d :: b2) = encode tyname_of ser (b1 ++ b2).
Proof. exact @unserialisable_dropped_alone. Qed.
Print Assumptions C15_unserialisable_dropped_alone.

(** * C16 — no inbound envelope can crash a node or reach an unaddressed actor *)

(* Whatever envelopes arrive (tables of any length, indices any integers, any
   type names, any bytes, any decoder), no slice access of the reader panics. *)
Theorem C16_reader_total :
  forall (value data : Type) (deser : tyname -> data -> option value) (es : list (envelope data)),
    out (decode_stream deser es) <> Panic.
Proof. exact @reader_total. Qed.
Print Assumptions C16_reader_total.

(* Every delivery the reader makes is the one a message of the stream names
   with its own in-range indices: target = Targets[ti], type = TypeNames[tyi],
   payload = the bytes decoded under that type, sender = Senders[si], or none
   when si is negative or the sender table is empty. *)
Theorem C16_deliveries_addressed :
  forall (value data : Type) (deser : tyname -> data -> option value) (es : list (envelope data))
         (d : delivery value),
    In d (delivered (decode_stream deser es)) ->
    exists e m, In e es /\ In m (e_msgs e) /\ addressed deser e m d.
Proof. exact @deliveries_addressed. Qed.
Print Assumptions C16_deliveries_addressed.

(* The first message that does not resolve ends the stream with an error: the
   messages before it were delivered, in order; nothing from it on is. *)
Theorem C16_first_bad_ends_stream :
  forall (value data : Type) (deser : tyname -> data -> option value) (e : envelope data)
         (pre : list (wmsg data)) (m : wmsg data) (post : list (wmsg data)),
    e_msgs e = pre ++ m :: post ->
    (forall x, In x pre -> resolve_in deser e x <> None) -> resolve_in deser e m = None ->
    exists ds, Forall2 (fun x d => resolve_in deser e x = Some d) pre ds /\
               decode deser e = {| delivered := ds; out := Err |}.
Proof. exact @first_bad_ends_stream. Qed.
Print Assumptions C16_first_bad_ends_stream.

(* what [resolve_in] returns is addressed by the message's own valid indices *)
Theorem C16_resolved_is_addressed :
  forall (value data : Type) (deser : tyname -> data -> option value) (e : envelope data)
         (m : wmsg data) (d : delivery value),
    resolve_in deser e m = Some d -> addressed deser e m d.
Proof. exact @resolve_addressed. Qed.
Print Assumptions C16_resolved_is_addressed.

(* an envelope all of whose messages resolve is delivered completely and the stream goes on *)
Theorem C16_all_good_all_delivered :
  forall (value data : Type) (deser : tyname -> data -> option value) (e : envelope data),
    (forall x, In x (e_msgs e) -> resolve_in deser e x <> None) ->
    exists ds, Forall2 (fun x d => resolve_in deser e x = Some d) (e_msgs e) ds /\
               decode deser e = {| delivered := ds; out := Ok |}.
Proof. exact @all_good_all_delivered. Qed.
Print Assumptions C16_all_good_all_delivered.

(* bad input ends that one stream: no later envelope of it is looked at *)
Theorem C16_stream_ends_at_first_error :
  forall (value data : Type) (deser : tyname -> data -> option value)
         (es1 : list (envelope data)) (e : envelope data) (es2 : list (envelope data)),
    Forall (fun e => out (decode deser e) = Ok) es1 -> out (decode deser e) <> Ok ->
    decode_stream deser (es1 ++ e :: es2) =
    {| delivered := flat_map (fun e => delivered (decode deser e)) es1 ++ delivered (decode deser e);
       out := out (decode deser e) |}.
Proof. exact @stream_ends_at_first_error. Qed.
Print Assumptions C16_stream_ends_at_first_error.
