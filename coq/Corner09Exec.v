(** Oracle for unusual inputs of C09 that lie outside the modelled domain of
    Events.v (a nil message; the event stream actor itself stopped; a response
    mailbox or the event stream's own PID subscribed to the event stream):
    sending never panics or blocks, and a finite number of sends produces a
    finite number of events.  There is no model run to compare with. *)
From Coq Require Import List Arith Bool.
Import ListNotations.

(* kind: 1 nil message, 2 event stream gone, 3 response mailbox subscribed, 4 event stream subscribed to itself, 5 a dead subscriber on an engine with a remote,
   6 twelve rounds of k actors stopped at the same moment, then one message to each,
   7 nil PIDs handed to Send, SendWithSender, SendLocal, Poison, Stop, Request,
   8 k messages sent to an actor that is held inside its Stopped handler;
   outcome: 0 ok, 1 panic, 2 diverged (no rest / too many events), 3 the sender blocked, 4 an actor still registered after its stop context was done *)
Record case := { c_kind : nat; c_k : nat; c_outcome : nat; c_dead : nat; c_events : nat }.

Definition oracle (c : case) : bool :=
  Nat.eqb (c_outcome c) 0 &&
  (* a nil message for an unregistered PID is one dead letter like any other *)
  (if Nat.eqb (c_kind c) 1 then Nat.eqb (c_dead c) 1 else true) &&
  (* SendLocal(nil) and the pills of Poison(nil) / Stop(nil) are one dead letter each *)
  (if Nat.eqb (c_kind c) 7 then Nat.eqb (c_dead c) 3 else true) &&
  (* a message accepted while the actor handles Stopped is reported when it has stopped: none is lost *)
  (if Nat.eqb (c_kind c) 8 then Nat.eqb (c_dead c) (c_k c) else true) &&
  (* every message sent to an actor whose stop context was done is one dead letter *)
  (if Nat.eqb (c_kind c) 6 then Nat.eqb (c_dead c) (12 * c_k c) else
  (* bounded: nowhere near the divergence guard of 20000 *)
  Nat.leb (c_events c) (50 + 20 * c_k c)).

Definition corr (c : case) : bool := true.
Definition branches (c : case) : list nat := [c_kind c].

Fixpoint failing {A} (f : A -> bool) (i : nat) (l : list A) : list nat :=
  match l with [] => [] | a :: l' => (if f a then [] else [i]) ++ failing f (S i) l' end.

Definition report (cs : list case) : list nat * list nat * list (list nat) :=
  (failing corr 0 cs, failing oracle 0 cs, map branches cs).
