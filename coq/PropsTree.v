(** The property theorems of the supervision-tree layer (C08).  Nothing else
    lives here: each is closed by [exact <lemma>] and followed by
    [Print Assumptions]. *)
From Coq Require Import List Arith.
Import ListNotations.
From HV Require Import Tree TreeProofs TreeConc TreeConcProofs TreeRace TreeRaceProofs TreeExec TreeModel TreeModelProofs.

(** * C08 — a stopping parent takes all descendants down first *)

(* Sequential clause, any depth and fan-out.  [t] is the subtree of the actor
   that is stopped while all its descendants are idle, [stop_tree t] the global
   order of events of [process.cleanup]'s recursion; [s] is any actor of [t]
   (the stopped one included) and [d] any proper descendant of [s]: [d] has
   handled Stopped, is unregistered, is out of its parent's map and its own
   stop context is done before [s] handles Stopped and before the stop context
   of [s] is done. *)
Theorem C08_children_first :
  forall (t s : tree) (d : nat),
    subtree s t -> In d (desc s) ->
    let p := root s in let l := stop_tree t in
    before (X d) (X p) l /\ before (Unreg d) (X p) l /\
    before (X d) (Cancel p) l /\ before (Unreg d) (Cancel p) l /\
    before (DelParent d) (X p) l /\ before (Cancel d) (X p) l.
Proof. exact children_first. Qed.
Print Assumptions C08_children_first.

(* with distinct ids every event occurs exactly once, so "before" has one reading *)
Theorem C08_events_once : forall t, NoDup (ids t) -> NoDup (stop_tree t).
Proof. exact stop_tree_NoDup. Qed.
Print Assumptions C08_events_once.

(* inside one actor: Stopped is handled while the actor is still registered, the
   parent's map is updated after that, the caller is signalled last *)
Theorem C08_own_order :
  forall t s, subtree s t ->
    let p := root s in let l := stop_tree t in
    before (IStop p) (X p) l /\ before (X p) (Unreg p) l /\ before (Unreg p) (DelParent p) l /\
    before (DelParent p) (Cancel p) l.
Proof. exact own_order. Qed.
Print Assumptions C08_own_order.

(* Children() inside a Receive of a live actor [p] lists exactly the ids [c] that
   [p] spawned as children and that have not stopped since (nor has [p]), each
   once — for every history in which ids are free when they are spawned *)
Theorem C08_children_listing :
  forall h, hist_fresh s_init h ->
  forall p, In p (s_alive (srun h)) ->
    NoDup (children (brun h) p) /\
    forall c, In c (children (brun h) p) <->
              exists h1 h2, h = h1 ++ BSpawnChild p c :: h2 /\ ~ In (BStopped c) h2 /\ ~ In (BStopped p) h2.
Proof. exact children_listing. Qed.
Print Assumptions C08_children_listing.

(* Parent() of a live actor names the actor whose SpawnChild created it *)
Theorem C08_parent :
  forall h, hist_fresh s_init h ->
  forall c, In c (s_alive (srun h)) ->
  forall p, parent (brun h) c = Some p <->
            exists h1 h2, h = h1 ++ BSpawnChild p c :: h2 /\ ~ In (BStopped c) h2.
Proof. exact parent_names_spawner. Qed.
Print Assumptions C08_parent.

(* a restarted actor keeps its children: a restart keeps process and Context, it
   is not an event of the children-map machine; wherever restart markers stand
   in a history, Children() and Parent() are what they are without them *)
Theorem C08_restart_keeps_children :
  forall (h1 : list hop) (n : nat) (h2 : list hop),
    hist_fresh s_init (ops_of (h1 ++ h2)) ->
    forall p, In p (s_alive (srun (ops_of (h1 ++ h2)))) ->
      NoDup (children (hrun (h1 ++ HRestart n :: h2)) p) /\
      (forall c, In c (children (hrun (h1 ++ HRestart n :: h2)) p) <->
                 exists o1 o2, ops_of (h1 ++ h2) = o1 ++ BSpawnChild p c :: o2 /\
                               ~ In (BStopped c) o2 /\ ~ In (BStopped p) o2) /\
      parent (hrun (h1 ++ HRestart n :: h2)) p = parent (hrun (h1 ++ h2)) p.
Proof. exact restart_keeps_children. Qed.
Print Assumptions C08_restart_keeps_children.

(* outside the premise: SpawnChild under an id that is taken.  With the repair
   D21 nothing is recorded ... *)
Theorem C08_duplicate_spawn_noop :
  let h := [BSpawnTop 1; BSpawnTop 5; BSpawnChild 1 5] in
  ~ hist_fresh s_init h /\
  children (brun h) 1 = [] /\ parent (brun h) 5 = None /\
  children (brun (h ++ [BStopped 5])) 1 = [].
Proof. exact duplicate_spawn_noop. Qed.
Print Assumptions C08_duplicate_spawn_noop.

(* ... before it the incumbent was recorded in the caller's map; it is not the
   caller's child, and it stayed listed after it had stopped *)
Theorem C08_adoption_corner :
  let h := [BSpawnTop 1; BSpawnTop 5; BSpawnChild 1 5] in
  children (brun_pinned h) 1 = [5] /\ parent (brun_pinned h) 5 = None /\
  children (brun_pinned (h ++ [BStopped 5])) 1 = [5] /\ b_reg (brun_pinned (h ++ [BStopped 5])) 5 = None.
Proof. exact adoption_witness. Qed.
Print Assumptions C08_adoption_corner.

(* the order predicate evaluated on the implementation's observation is true of
   every run of the model *)
Theorem C08_order_oracle_holds_of_model :
  forall t, NoDup (ids t) -> order_ok t (xevents (stop_tree t)) = true.
Proof. exact order_ok_of_model. Qed.
Print Assumptions C08_order_oracle_holds_of_model.

(** * The same under interleaving (TreeConc.v): every cleanup cut into its
      atomic steps, third-party Stop/Poison threads (lookup, lookup, push,
      re-check) aimed at arbitrary actors at arbitrary moments, actors that
      crash for good at arbitrary moments *)

(* in every reachable state, an actor that has handled Stopped has every
   descendant through Stopped and unregistered *)
Theorem C08_children_first_conc :
  forall (t : tree) (tgts : list nat) (s : state) (p d : nat),
    NoDup (ids t) -> reachable (cfg_of t tgts) s ->
    xdone s p = true -> In d (desc_of t p) -> xdone s d = true /\ reg s d = false.
Proof. exact children_first_conc_tree. Qed.
Print Assumptions C08_children_first_conc.

(* a stop context — a third party's or a stopping parent's — is done only after
   its target and the whole subtree below it handled Stopped and were unregistered *)
Theorem C08_signal_after_subtree_conc :
  forall (t : tree) (tgts : list nat) (s : state) (j : pill),
    NoDup (ids t) -> reachable (cfg_of t tgts) s -> cancelled s j = true ->
    forall d, In d (closure t (tgt (cfg_of t tgts) j)) -> xdone s d = true /\ reg s d = false.
Proof. exact signal_after_subtree_conc_tree. Qed.
Print Assumptions C08_signal_after_subtree_conc.

(* no hang: every step decreases a natural number, so every run is finite; and
   a run that cannot go on has cancelled every pill ever created (third-party
   pills, pills of stopping parents) and left every actor untouched or dead *)
Theorem C08_no_hang :
  forall (t : tree) (tgts : list nat),
    NoDup (ids t) -> (forall x, In x tgts -> In x (ids t)) ->
    forall s, reachable (cfg_of t tgts) s ->
      (forall l s', step (cfg_of t tgts) s l = Some s' ->
                    measure (cfg_of t tgts) s' < measure (cfg_of t tgts) s) /\
      (terminal (cfg_of t tgts) s ->
         (forall j, created s j = true -> cancelled s j = true) /\
         (forall n, In n (ids t) -> (pcs s n = NIdle /\ que s n = []) \/ pcs s n = NDead)).
Proof. exact no_hang_tree. Qed.
Print Assumptions C08_no_hang.

(* with the pinned order of steps the parent handles Stopped and signals its
   caller while its child, already shutting down, is still running (D11) *)
Theorem C08_pinned_refuted :
  exists s, run_pinned cf3 (init cf3) d11_pinned = Some s /\
            xdone s 0 = true /\ cancelled s (PThr 1) = true /\
            xdone s 1 = false /\ reg s 1 = true /\ xdone s 2 = false.
Proof. exact pinned_refuted. Qed.
Print Assumptions C08_pinned_refuted.

(* in the same window the repaired order makes the parent wait *)
Theorem C08_repaired_parent_waits :
  exists s, run cf3 (init cf3) d11_window = Some s /\
            step cf3 s (LNode 0) = None /\ step cf3 s (LNode 1) = None /\
            pcs s 0 = NAwait (Some (PThr 1)) 1 [] /\ xdone s 0 = false /\ xdone s 1 = false /\
            que s 1 = [PKid 0 1].
Proof. exact repaired_parent_waits. Qed.
Print Assumptions C08_repaired_parent_waits.

(* and so is the "caller signalled last" predicate *)
Theorem C08_done_oracle_holds_of_model :
  forall t k, NoDup (ids t) -> done_ok t (root t) k (xevents (stop_tree t) ++ [EDone k]) = true.
Proof. exact done_ok_of_model. Qed.
Print Assumptions C08_done_oracle_holds_of_model.

(** * The child's delete from its parent's map racing with a re-spawn under the
      same id (D21), decided on the model TreeRace.v by exhaustive exploration *)

(* before the repair: the old child's delete removes the entry of the child the
   parent spawned between that child's Registry.Remove and its children.Delete
   (an orphan: registered, not listed, not stopped with its parent) ... *)
Theorem C08_respawn_race_orphan_refuted :
  exists s, rrun pinned 1 (rinit 1 1)
              [LStopper; LProc 0; LProc 0; LParent; LParent; LProc 0] = Some s /\
            r_reg s = Some 1 /\ r_map s = None /\ succs pinned 1 s = [].
Proof. exact pinned_orphan. Qed.
Print Assumptions C08_respawn_race_orphan_refuted.

(* ... and a duplicate SpawnChild whose Set comes after the child's delete
   leaves a dead child listed *)
Theorem C08_respawn_race_stale_refuted :
  exists s, rrun pinned 1 (rinit 1 1)
              [LStopper; LParent; LProc 0; LProc 0; LProc 0; LParent] = Some s /\
            r_reg s = None /\ r_map s = Some 1 /\ succs pinned 1 s = [].
Proof. exact pinned_stale. Qed.
Print Assumptions C08_respawn_race_stale_refuted.

(* a Get followed by a Delete (check-then-act) does not close it *)
Theorem C08_respawn_race_check_then_act_refuted :
  exists s, rrun check_then_act 1 (rinit 1 1)
              [LStopper; LProc 0; LProc 0; LProc 0; LParent; LParent; LParent; LProc 0] = Some s /\
            r_reg s = Some 1 /\ r_map s = None /\ succs check_then_act 1 s = [].
Proof. exact check_then_act_orphan. Qed.
Print Assumptions C08_respawn_race_check_then_act_refuted.

(* the repair (insert, Set only if inserted, then Start; atomic delete of one's
   own entry): in every terminal state of every interleaving, for up to 3
   requests and 3 stoppers, a child is registered iff it is listed *)
Theorem C08_respawn_race_repaired :
  forallb (fun rk => all_agree repaired (fst rk) (snd rk))
          [(1, 1); (1, 2); (2, 1); (2, 2); (3, 1); (1, 3); (3, 2); (2, 3); (3, 3)] = true.
Proof. exact repaired_agrees. Qed.
Print Assumptions C08_respawn_race_repaired.

(** * The predicate evaluated on the implementation holds of the model *)

(* For every well-formed scenario ([wfb], TreeExec.v: what the generators
   guarantee — distinct ids; a child spawned on demand is new, its parent alive
   and not stopping; nothing is awaited behind a closed gate; probes, restarts,
   self-stops and crashes address actors that serve their inbox; a crash comes
   with the budget used up), the whole predicate [oracle] — every context done;
   descendants through Stopped before the ancestor enters it and before its
   context is done, nobody of the subtree alive then; inside Stopped: registered
   oneself, no descendant registered, no child listed, Parent() the spawner;
   Parent() at every Started; Children()/Parent() at every probe exactly the
   children that exist and have not stopped — is true of the observation the
   model produces ([model_obs], TreeModel.v: every stop carried out when the
   scenario waits for it, wind-down at the end), and the model's count of
   Stopped deliveries to replaced incarnations is the number of restarts. *)
Theorem C08_oracle_holds_of_model :
  forall c : case,
    wfb c = true ->
    oracle (with_obs c (model_obs c)) = true /\ o_rstops (model_obs c) = nrestarts (c_steps c).
Proof. exact oracle_holds_of_model. Qed.
Print Assumptions C08_oracle_holds_of_model.
