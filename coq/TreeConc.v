(** L3 — the supervision tree under interleaving (C08, and the race part of C07).

    Every actor is a little machine.  It begins its cleanup when it pops a
    poison pill from its queue (or when it crashes for good: [cleanup(nil)]),
    and its cleanup is cut into the steps of actor/process.go (repaired order):

      NSnap     children := Children()                 (one snapshot of the map)
      NLoop     for each child c: create the pill PKid self c, then
      NSend       sendPoisonPill, itself four steps (engine.go):
                    SGet1   Registry.get      miss: cancel at once, done
                    SLook   SendLocal's own Registry.get   miss: dead letter, nothing is pushed
                    SPush   inbox push
                    SGet2   Registry.get again   miss: cancel
      NAwait      <-Done()                             (enabled when the pill is cancelled)
      NX        inbox.Stop; deliver Stopped
      NUnreg    Registry.Remove(self)
      NDel      parentCtx.children.Delete(self)
      NFlush    pop everything that is queued and cancel it, until an empty pop
      NCancel   the deferred cancel of the own pill
      NDead

    Third parties are threads that run sendPoisonPill (the same four steps)
    for arbitrary targets at arbitrary moments.  Queues hold pills only; a
    stopping actor's queue is not served (it is flushed at the end).

    Restarts are not steps of this model: a restart keeps the process, its
    registration, its queue and its Context (children map, parentCtx), i.e.
    every component of [state]; the harness covers it on the real engine
    (steps "restart" and "spawn" of family tree08).

    Pills are named by who sends them: [PThr i] the pill of thread i,
    [PKid p c] the pill parent p sends to its child c while it cleans up.

    Definitions only; proofs in TreeConcProofs.v. *)
From Coq Require Import List Arith Lia Bool.
Import ListNotations.
From HV Require Import Tree.

Inductive pill := PThr (i : nat) | PKid (p c : nat).

Definition pill_eqb (a b : pill) : bool :=
  match a, b with
  | PThr i, PThr j => Nat.eqb i j
  | PKid p c, PKid q d => Nat.eqb p q && Nat.eqb c d
  | _, _ => false
  end.

(* sendPoisonPill *)
Inductive spc := SGet1 | SLook | SPush | SGet2 | SSent.

Inductive npc :=
| NIdle
| NSnap (k : option pill)
| NLoop (k : option pill) (todo : list nat)
| NSend (k : option pill) (c : nat) (sp : spc) (todo : list nat)   (* the pill is PKid self c *)
| NAwait (k : option pill) (c : nat) (todo : list nat)
| NX (k : option pill) | NUnreg (k : option pill) | NDel (k : option pill)
| NFlush (k : option pill) | NCancel (k : option pill)
| NDead.

(** the static part: who may move, the tree, the third parties *)
Record cfg := {
  nodes : list nat;            (* the actors *)
  kids0 : nat -> list nat;     (* children at the start (the tree) *)
  par : nat -> option nat;     (* parentCtx *)
  targets : list nat }.        (* thread i poisons [nth i targets 0] *)

Definition tgt (cf : cfg) (j : pill) : nat :=
  match j with PThr i => nth i (targets cf) 0 | PKid _ c => c end.

Record state := {
  reg : nat -> bool;           (* registered *)
  xdone : nat -> bool;         (* has handled Stopped *)
  kmap : nat -> list nat;      (* the children maps *)
  que : nat -> list pill;      (* inbox *)
  pcs : nat -> npc;
  thr : nat -> spc;            (* thread i sends PThr i *)
  cancelled : pill -> bool;
  created : pill -> bool }.    (* ghost: the pill exists *)

Definition updp {A} (f : pill -> A) (k : pill) (v : A) : pill -> A :=
  fun x => if pill_eqb x k then v else f x.

Definition init (cf : cfg) : state :=
  {| reg := fun _ => true; xdone := fun _ => false; kmap := kids0 cf; que := fun _ => [];
     pcs := fun _ => NIdle;
     thr := fun i => if Nat.ltb i (length (targets cf)) then SGet1 else SSent;
     cancelled := fun _ => false;
     created := fun j => match j with PThr i => Nat.ltb i (length (targets cf)) | _ => false end |}.

Definition cancel_all (c : pill -> bool) (ks : list pill) : pill -> bool :=
  fold_left (fun f k => updp f k true) ks c.

(* one step of the sendPoisonPill of pill j, at pc sp, in state s: the new pc and the new state *)
Definition send_step (cf : cfg) (s : state) (j : pill) (sp : spc) : spc * state :=
  let c := tgt cf j in
  match sp with
  | SGet1 => if reg s c then (SLook, s)
             else (SSent, {| reg := reg s; xdone := xdone s; kmap := kmap s; que := que s; pcs := pcs s;
                             thr := thr s; cancelled := updp (cancelled s) j true; created := created s |})
  | SLook => if reg s c then (SPush, s) else (SGet2, s)
  | SPush => (SGet2, {| reg := reg s; xdone := xdone s; kmap := kmap s; que := upd (que s) c (que s c ++ [j]);
                        pcs := pcs s; thr := thr s; cancelled := cancelled s; created := created s |})
  | SGet2 => if reg s c then (SSent, s)
             else (SSent, {| reg := reg s; xdone := xdone s; kmap := kmap s; que := que s; pcs := pcs s;
                             thr := thr s; cancelled := updp (cancelled s) j true; created := created s |})
  | SSent => (SSent, s)
  end.

Definition set_pc (s : state) (n : nat) (p : npc) : state :=
  {| reg := reg s; xdone := xdone s; kmap := kmap s; que := que s; pcs := upd (pcs s) n p;
     thr := thr s; cancelled := cancelled s; created := created s |}.

Definition set_thr (s : state) (i : nat) (sp : spc) : state :=
  {| reg := reg s; xdone := xdone s; kmap := kmap s; que := que s; pcs := pcs s;
     thr := upd (thr s) i sp; cancelled := cancelled s; created := created s |}.

Inductive label := LNode (n : nat) | LCrash (n : nat) | LThr (i : nat).

Definition node_step (cf : cfg) (s : state) (n : nat) : option state :=
  match pcs s n with
  | NIdle =>
      match que s n with
      | [] => None
      | j :: rest =>
          Some {| reg := reg s; xdone := xdone s; kmap := kmap s; que := upd (que s) n rest;
                  pcs := upd (pcs s) n (NSnap (Some j)); thr := thr s; cancelled := cancelled s;
                  created := created s |}
      end
  | NSnap k => Some (set_pc s n (NLoop k (kmap s n)))
  | NLoop k [] => Some (set_pc s n (NX k))
  | NLoop k (c :: todo) =>
      Some {| reg := reg s; xdone := xdone s; kmap := kmap s; que := que s;
              pcs := upd (pcs s) n (NSend k c SGet1 todo);
              thr := thr s; cancelled := cancelled s; created := updp (created s) (PKid n c) true |}
  | NSend k c sp todo =>
      let '(p', s') := send_step cf s (PKid n c) sp in
      Some (set_pc s' n (match p' with
                         | SSent => NAwait k c todo
                         | _ => NSend k c p' todo end))
  | NAwait k c todo => if cancelled s (PKid n c) then Some (set_pc s n (NLoop k todo)) else None
  | NX k =>
      Some {| reg := reg s; xdone := upd (xdone s) n true; kmap := kmap s; que := que s;
              pcs := upd (pcs s) n (NUnreg k); thr := thr s; cancelled := cancelled s; created := created s |}
  | NUnreg k =>
      Some {| reg := upd (reg s) n false; xdone := xdone s; kmap := kmap s; que := que s;
              pcs := upd (pcs s) n (NDel k); thr := thr s; cancelled := cancelled s; created := created s |}
  | NDel k =>
      Some {| reg := reg s; xdone := xdone s;
              kmap := match par cf n with
                      | Some p => upd (kmap s) p (set_del n (kmap s p))
                      | None => kmap s end;
              que := que s; pcs := upd (pcs s) n (NFlush k); thr := thr s; cancelled := cancelled s;
              created := created s |}
  | NFlush k =>
      Some {| reg := reg s; xdone := xdone s; kmap := kmap s; que := upd (que s) n [];
              pcs := upd (pcs s) n (match que s n with [] => NCancel k | _ => NFlush k end);
              thr := thr s; cancelled := cancel_all (cancelled s) (que s n); created := created s |}
  | NCancel k =>
      Some {| reg := reg s; xdone := xdone s; kmap := kmap s; que := que s;
              pcs := upd (pcs s) n NDead; thr := thr s;
              cancelled := match k with Some j => updp (cancelled s) j true | None => cancelled s end;
              created := created s |}
  | NDead => None
  end.

Definition step (cf : cfg) (s : state) (l : label) : option state :=
  match l with
  | LNode n => if memb n (nodes cf) then node_step cf s n else None
  | LCrash n =>
      if memb n (nodes cf) then
        match pcs s n with NIdle => Some (set_pc s n (NSnap None)) | _ => None end
      else None
  | LThr i =>
      match thr s i with
      | SSent => None
      | sp => let '(p', s') := send_step cf s (PThr i) sp in Some (set_thr s' i p')
      end
  end.

Inductive reachable (cf : cfg) : state -> Prop :=
| reach_init : reachable cf (init cf)
| reach_step s l s' : reachable cf s -> step cf s l = Some s' -> reachable cf s'.

Definition terminal (cf : cfg) (s : state) : Prop := forall l, step cf s l = None.

(* d is a proper descendant of p in the (static) tree *)
Inductive descendant (cf : cfg) : nat -> nat -> Prop :=
| desc_kid p c : In c (kids0 cf p) -> descendant cf c p
| desc_trans p c d : In c (kids0 cf p) -> descendant cf d c -> descendant cf d p.

Definition stopped (s : state) (n : nat) : Prop := xdone s n = true /\ reg s n = false.

Fixpoint run (cf : cfg) (s : state) (ls : list label) : option state :=
  match ls with
  | [] => Some s
  | l :: ls' => match step cf s l with Some s' => run cf s' ls' | None => None end
  end.

(** the configuration of a tree and a list of third-party targets *)
Definition cfg_of (t : tree) (tgts : list nat) : cfg :=
  {| nodes := ids t; kids0 := kids_of t; par := parent_in t; targets := tgts |}.

(** termination measure *)
Definition ws (p : spc) : nat :=
  match p with SGet1 => 5 | SLook => 4 | SPush => 3 | SGet2 => 1 | SSent => 0 end.
Definition wn (s : state) (n : nat) : nat :=
  match pcs s n with
  | NIdle => 8 * length (kmap s n) + 20
  | NSnap _ => 8 * length (kmap s n) + 18
  | NLoop _ todo => 8 * length todo + 16
  | NSend _ _ sp todo => 8 * length todo + ws sp + 18
  | NAwait _ _ todo => 8 * length todo + 17
  | NX _ => 6 | NUnreg _ => 5 | NDel _ => 4 | NFlush _ => 3 | NCancel _ => 1 | NDead => 0
  end.
Definition measure (cf : cfg) (s : state) : nat :=
  list_sum (map (fun n => wn s n + length (que s n)) (nodes cf)) +
  list_sum (map (fun i => ws (thr s i)) (seq 0 (length (targets cf)))).

(** * The pinned order (c85c093), for the refutation only:
      DelParent first; Unreg before X; no flush; no re-check after the push. *)
Definition send_step_pinned (cf : cfg) (s : state) (j : pill) (sp : spc) : spc * state :=
  match sp with
  | SPush => let '(_, s') := send_step cf s j sp in (SSent, s')
  | _ => send_step cf s j sp
  end.

Definition node_step_pinned (cf : cfg) (s : state) (n : nat) : option state :=
  match pcs s n with
  | NSnap k =>     (* first: delete self from the parent's map; then snapshot *)
      Some {| reg := reg s; xdone := xdone s;
              kmap := match par cf n with
                      | Some p => upd (kmap s) p (set_del n (kmap s p))
                      | None => kmap s end;
              que := que s; pcs := upd (pcs s) n (NLoop k (kmap s n)); thr := thr s;
              cancelled := cancelled s; created := created s |}
  | NLoop k [] => Some (set_pc s n (NUnreg k))
  | NSend k c sp todo =>
      let '(p', s') := send_step_pinned cf s (PKid n c) sp in
      Some (set_pc s' n (match p' with
                         | SSent => NAwait k c todo
                         | _ => NSend k c p' todo end))
  | NUnreg k =>
      Some {| reg := upd (reg s) n false; xdone := xdone s; kmap := kmap s; que := que s;
              pcs := upd (pcs s) n (NX k); thr := thr s; cancelled := cancelled s; created := created s |}
  | NX k =>
      Some {| reg := reg s; xdone := upd (xdone s) n true; kmap := kmap s; que := que s;
              pcs := upd (pcs s) n (NCancel k); thr := thr s; cancelled := cancelled s; created := created s |}
  | _ => node_step cf s n
  end.

Definition step_pinned (cf : cfg) (s : state) (l : label) : option state :=
  match l with
  | LNode n => if memb n (nodes cf) then node_step_pinned cf s n else None
  | LThr i =>
      match thr s i with
      | SSent => None
      | sp => let '(p', s') := send_step_pinned cf s (PThr i) sp in Some (set_thr s' i p')
      end
  | _ => step cf s l
  end.

Fixpoint run_pinned (cf : cfg) (s : state) (ls : list label) : option state :=
  match ls with
  | [] => Some s
  | l :: ls' => match step_pinned cf s l with Some s' => run_pinned cf s' ls' | None => None end
  end.

(** * Executable helpers for the examples *)
Definition all_labels (cf : cfg) : list label :=
  map LNode (nodes cf) ++ map LThr (seq 0 (length (targets cf))) ++ map LCrash (nodes cf).
Definition enabledb (cf : cfg) (s : state) (l : label) : bool :=
  match step cf s l with Some _ => true | None => false end.
(* nothing can move (crashes of idle actors apart) *)
Definition quietb (cf : cfg) (s : state) : bool :=
  forallb (fun l => negb (enabledb cf s l))
          (map LNode (nodes cf) ++ map LThr (seq 0 (length (targets cf)))).
(* run to completion, always taking the first enabled actor or thread *)
Fixpoint greedy (cf : cfg) (fuel : nat) (s : state) : list label :=
  match fuel with
  | 0 => []
  | S f =>
    match find (enabledb cf s) (map LNode (nodes cf) ++ map LThr (seq 0 (length (targets cf)))) with
    | None => []
    | Some l => match step cf s l with Some s' => l :: greedy cf f s' | None => [] end
    end
  end.
