(** Proofs about JoinSpread.v: whatever the order and grouping in which the
    agents learn of the joiner, and wherever the activations fall in between,
    once every old member has been told, every member — the joiner included —
    resolves every activated key to the PID its Activate returned. *)
From Coq Require Import List Arith Bool Lia.
Import ListNotations.
From HV Require Import JoinSpread.
Arguments Nat.ltb : simpl never.
Arguments Nat.eqb : simpl never.

Lemma memb_In x l : memb x l = true <-> In x l.
Proof.
  induction l as [|y l IH]; cbn; [split; [discriminate|tauto]|].
  rewrite orb_true_iff, IH, Nat.eqb_eq. split; intros [H|H]; auto.
Qed.

Lemma all_told_spec m s : all_told m s = true <-> forall i, i < m -> memb i (told s) = true.
Proof.
  unfold all_told. rewrite forallb_forall. split.
  - intros H i Hi. apply H. apply in_seq. lia.
  - intros H i Hi. apply in_seq in Hi. apply H. lia.
Qed.

(* the invariant *)
Record Inv (m : nat) (s : st) : Prop := {
  inv_olds : forall i i' k, i < m -> i' < m -> omaps s i k = omaps s i' k;
  inv_j : forall k h, jmap s k = Some h -> forall i, i < m -> omaps s i k = Some h;
  inv_all : (forall i, i < m -> memb i (told s) = true) -> forall i k, i < m -> omaps s i k = jmap s k;
  inv_told : forall r, In r (told s) -> r < m }.

Lemma Inv_init m : Inv m init.
Proof.
  constructor; cbn.
  - reflexivity.
  - discriminate.
  - reflexivity.
  - intros r [].
Qed.

(* merging the maps of old members into the joiner's *)
Lemma fold_union_some (f : nat -> amap) news a k h :
  a k = Some h -> fold_left (fun acc r => aunion acc (f r)) news a k = Some h.
Proof.
  revert a; induction news as [|r news IH]; intros a Ha; cbn; [exact Ha|].
  apply IH. unfold aunion. rewrite Ha. reflexivity.
Qed.

Lemma fold_union_none (f : nat -> amap) news a k v :
  a k = None -> (forall r, In r news -> f r k = v) -> news <> [] ->
  fold_left (fun acc r => aunion acc (f r)) news a k = v.
Proof.
  intros Ha Hf Hne. destruct news as [|r news]; [congruence|]. cbn.
  assert (H1 : aunion a (f r) k = v) by (unfold aunion; rewrite Ha; apply Hf; left; reflexivity).
  destruct v as [h|].
  - apply fold_union_some. exact H1.
  - clear Hne. revert H1. generalize (aunion a (f r)). induction news as [|r' news IH]; intros b Hb; cbn; [exact Hb|].
    apply IH.
    + intros r0 Hr0. apply Hf. destruct Hr0 as [->|Hr0]; [left; reflexivity|right; right; exact Hr0].
    + unfold aunion. rewrite Hb. apply Hf. right; left; reflexivity.
Qed.

Lemma fold_union_empty (f : nat -> amap) a k : fold_left (fun acc r => aunion acc (f r)) [] a k = a k.
Proof. reflexivity. Qed.

(* what the joiner holds after a Tell, under the invariant: its old entry, or — if some
   old member learns of it now — what the old members hold *)
Lemma jm_spec m s rs k i :
  Inv m s -> i < m ->
  let news := fresh_told m s rs in
  let jm := fold_left (fun acc r => aunion acc (omaps s r)) news (jmap s) in
  jm k = match jmap s k with Some h => Some h | None => match news with [] => None | _ => omaps s i k end end.
Proof.
  intros I Hi news jm. destruct (jmap s k) as [h|] eqn:Hj.
  - apply fold_union_some. exact Hj.
  - destruct news as [|r news'] eqn:Hn; [cbn; exact Hj|].
    apply fold_union_none; [exact Hj| |discriminate].
    intros r0 Hr0. apply (inv_olds m s I); [|exact Hi].
    assert (Hin : In r0 (fresh_told m s rs)) by (fold news; rewrite Hn; exact Hr0).
    unfold fresh_told in Hin. apply filter_In in Hin. destruct Hin as [_ Hc].
    apply andb_prop in Hc. destruct Hc as [Hc _]. apply Nat.ltb_lt in Hc. exact Hc.
Qed.

Lemma fresh_told_lt m s rs r : In r (fresh_told m s rs) -> r < m /\ memb r (told s) = false.
Proof.
  unfold fresh_told. rewrite filter_In. intros [_ Hc]. apply andb_prop in Hc. destruct Hc as [H1 H2].
  apply Nat.ltb_lt in H1. apply negb_true_iff in H2. auto.
Qed.

(* the joiner's map sent to the old members adds nothing they do not have *)
Lemma jm_below m s rs k i h :
  Inv m s -> i < m ->
  fold_left (fun acc r => aunion acc (omaps s r)) (fresh_told m s rs) (jmap s) k = Some h ->
  omaps s i k = Some h.
Proof.
  intros I Hi H. rewrite (jm_spec m s rs k i I Hi) in H.
  destruct (jmap s k) as [h'|] eqn:Hj.
  - inversion H; subst. apply (inv_j m s I k h Hj i Hi).
  - destruct (fresh_told m s rs); [discriminate|exact H].
Qed.

Lemma step_omaps_tell m s rs j i k :
  Inv m s -> i < m -> omaps (fst (step m s (Tell rs j))) i k = omaps s i k.
Proof.
  intros I Hi. cbn. destruct (j && negb (jtold s)); [|reflexivity].
  apply Nat.ltb_lt in Hi as Hb. rewrite Hb.
  set (jm := fold_left (fun acc r => aunion acc (omaps s r)) (fresh_told m s rs) (jmap s)).
  unfold aunion at 1.
  destruct (omaps s i k) as [h|] eqn:Ho; [reflexivity|].
  destruct (jm k) as [h|] eqn:Hf; [|reflexivity].
  unfold jm in Hf. rewrite (jm_below m s rs k i h I Hi Hf) in Ho. discriminate.
Qed.

(* a successful activation: the key enters at every old member, and at the joiner unless the
   activating member does not know it yet *)
Lemma Inv_add m s k sel jm' :
  Inv m s -> (forall i, i < m -> omaps s i k = None) -> jmap s k = None ->
  (jm' = aadd k sel (jmap s) \/ (jm' = jmap s /\ exists r, r < m /\ memb r (told s) = false)) ->
  Inv m {| told := told s; jtold := jtold s;
           omaps := fun i => if Nat.ltb i m then aadd k sel (omaps s i) else omaps s i; jmap := jm' |}.
Proof.
  intros I Hnone Hjn Hjm. constructor; cbn.
  - intros i i' x Hi Hi'. apply Nat.ltb_lt in Hi as Hb. apply Nat.ltb_lt in Hi' as Hb'. rewrite Hb, Hb'.
    unfold aadd. destruct (Nat.eqb x k) eqn:E.
    + rewrite (Hnone i Hi), (Hnone i' Hi'). reflexivity.
    + apply (inv_olds m s I); assumption.
  - intros x h Hj i Hi. apply Nat.ltb_lt in Hi as Hb. rewrite Hb. unfold aadd.
    destruct Hjm as [->|[-> _]].
    + unfold aadd in Hj. destruct (Nat.eqb x k) eqn:E.
      * rewrite Hjn in Hj. rewrite (Hnone i Hi). exact Hj.
      * apply (inv_j m s I x h Hj i Hi).
    + destruct (Nat.eqb x k) eqn:E.
      * apply Nat.eqb_eq in E. subst x. rewrite Hjn in Hj. discriminate.
      * apply (inv_j m s I x h Hj i Hi).
  - intros Hall i x Hi. apply Nat.ltb_lt in Hi as Hb. rewrite Hb.
    destruct Hjm as [->|[-> (r & Hr & Hnt)]].
    + unfold aadd. destruct (Nat.eqb x k) eqn:E.
      * rewrite (Hnone i Hi), Hjn. reflexivity.
      * apply (inv_all m s I Hall i x Hi).
    + rewrite (Hall r Hr) in Hnt. discriminate.
  - apply (inv_told m s I).
Qed.

Lemma Inv_step m s o : Inv m s -> Inv m (fst (step m s o)).
Proof.
  intros I. destruct o as [rs j|who k sel].
  - (* Tell *)
    constructor.
    + intros i i' k Hi Hi'. rewrite !step_omaps_tell by assumption. apply (inv_olds m s I); assumption.
    + intros k h Hj i Hi. rewrite step_omaps_tell by assumption. cbn in Hj. apply (jm_below m s rs k i h I Hi Hj).
    + intros Hall i k Hi. rewrite step_omaps_tell by assumption. cbn.
      rewrite (jm_spec m s rs k i I Hi). destruct (jmap s k) as [h|] eqn:Hj.
      * apply (inv_j m s I k h Hj i Hi).
      * destruct (fresh_told m s rs) as [|r news] eqn:Hn; [|reflexivity].
        (* nobody new: everybody had been told before *)
        rewrite <- Hj. apply (inv_all m s I); [|exact Hi].
        intros i0 Hi0. specialize (Hall i0 Hi0). cbn in Hall. rewrite Hn, app_nil_r in Hall. exact Hall.
    + intros r Hr. cbn in Hr. apply in_app_or in Hr. destruct Hr as [Hr|Hr]; [apply (inv_told m s I r Hr)|].
      apply (fresh_told_lt m s rs r Hr).
  - (* Act *)
    unfold step, step_gen. cbn [andb].
    destruct (Nat.ltb who m) eqn:Hw.
    + apply Nat.ltb_lt in Hw.
      destruct (omaps s who k) as [h0|] eqn:Hk; [exact I|].
      destruct (Nat.ltb sel m) eqn:Hs; cbn [negb]; [|exact I].
      destruct (is_some (omaps s sel k)); [exact I|]. cbn [fst].
      assert (Hnone : forall i, i < m -> omaps s i k = None).
      { intros i Hi. rewrite (inv_olds m s I i who k Hi Hw). exact Hk. }
      assert (Hjn : jmap s k = None).
      { destruct (jmap s k) as [h|] eqn:Hj; [|reflexivity]. rewrite (inv_j m s I k h Hj who Hw) in Hk. discriminate. }
      apply Inv_add; try assumption.
      destruct (memb who (told s)) eqn:Ht; [left; reflexivity|right]. split; [reflexivity|]. exists who. auto.
    + destruct (Nat.eqb who m) eqn:Hwm; [|exact I].
      destruct (jmap s k) as [h0|] eqn:Hjn; [exact I|].
      destruct (negb (jtold s)); [exact I|].
      destruct (Nat.ltb sel m) eqn:Hs; cbn [negb]; [|exact I]. apply Nat.ltb_lt in Hs.
      destruct (omaps s sel k) as [h1|] eqn:Hsel; cbn [is_some]; [exact I|]. cbn [fst].
      assert (Hnone : forall i, i < m -> omaps s i k = None).
      { intros i Hi. rewrite (inv_olds m s I i sel k Hi Hs). exact Hsel. }
      apply Inv_add; try assumption. left; reflexivity.
Qed.

(* entries never change, members once told stay told *)
Lemma step_mono m s o i k h :
  Inv m s -> i < m -> omaps s i k = Some h -> omaps (fst (step m s o)) i k = Some h.
Proof.
  intros I Hi H. destruct o as [rs j|who x sel].
  - rewrite step_omaps_tell by assumption. exact H.
  - assert (Hadd : (if Nat.ltb i m then aadd x sel (omaps s i) else omaps s i) k = Some h).
    { apply Nat.ltb_lt in Hi as Hb. rewrite Hb. unfold aadd. destruct (Nat.eqb k x) eqn:E; [|exact H].
      apply Nat.eqb_eq in E. subst x. rewrite H. reflexivity. }
    unfold step, step_gen. cbn [andb].
    destruct (Nat.ltb who m).
    + destruct (omaps s who x); [exact H|]. destruct (Nat.ltb sel m); cbn [negb]; [|exact H].
      destruct (is_some (omaps s sel x)); [exact H|]. exact Hadd.
    + destruct (Nat.eqb who m); [|exact H]. destruct (jmap s x); [exact H|].
      destruct (jtold s); cbn [negb]; [|exact H]. destruct (Nat.ltb sel m); cbn [negb]; [|exact H].
      destruct (is_some (omaps s sel x)); [exact H|]. exact Hadd.
Qed.

Lemma run_Inv m ops s : Inv m s -> Inv m (fst (run m s ops)).
Proof.
  revert s; induction ops as [|o ops IH]; intros s I; cbn; [exact I|].
  pose proof (Inv_step m s o I) as I1. destruct (step m s o) as [s1 x]. cbn in I1.
  specialize (IH s1 I1). destruct (run m s1 ops) as [s2 xs]. exact IH.
Qed.

Lemma run_mono m ops s i k h :
  Inv m s -> i < m -> omaps s i k = Some h -> omaps (fst (run m s ops)) i k = Some h.
Proof.
  revert s; induction ops as [|o ops IH]; intros s I Hi H; cbn; [exact H|].
  pose proof (Inv_step m s o I) as I1. pose proof (step_mono m s o i k h I Hi H) as H1.
  destruct (step m s o) as [s1 x]. cbn in I1, H1.
  specialize (IH s1 I1 Hi H1). destruct (run m s1 ops) as [s2 xs]. exact IH.
Qed.

(* an activation that returns a PID enters it in every old member's map *)
Lemma act_enters m s who k sel h i :
  Inv m s -> snd (step m s (Act who k sel)) = RPid h -> i < m ->
  omaps (fst (step m s (Act who k sel))) i k = Some h.
Proof.
  intros I. unfold step, step_gen. cbn [andb].
  destruct (Nat.ltb who m) eqn:Hw.
  - apply Nat.ltb_lt in Hw.
    destruct (omaps s who k) eqn:Hk; [discriminate|].
    destruct (Nat.ltb sel m); cbn [negb]; [|discriminate].
    destruct (is_some (omaps s sel k)); [discriminate|]. cbn [fst snd].
    intros [= <-] Hi. apply Nat.ltb_lt in Hi as Hb. cbn [omaps]. rewrite Hb.
    unfold aadd. rewrite Nat.eqb_refl. rewrite (inv_olds m s I i who k Hi Hw), Hk. reflexivity.
  - destruct (Nat.eqb who m); [|discriminate]. destruct (jmap s k); [discriminate|].
    destruct (jtold s); cbn [negb]; [|discriminate].
    destruct (Nat.ltb sel m) eqn:Hs; cbn [negb]; [|discriminate]. apply Nat.ltb_lt in Hs.
    destruct (omaps s sel k) eqn:Hsel; cbn [is_some]; [discriminate|]. cbn [fst snd].
    intros [= <-] Hi. apply Nat.ltb_lt in Hi as Hb. cbn [omaps]. rewrite Hb.
    unfold aadd. rewrite Nat.eqb_refl. rewrite (inv_olds m s I i sel k Hi Hs), Hsel. reflexivity.
Qed.

(* the theorem, from any state satisfying the invariant *)
Lemma learns_from m ops s n who k sel h :
  Inv m s ->
  nth_error ops n = Some (Act who k sel) -> nth_error (snd (run m s ops)) n = Some (RPid h) ->
  let s' := fst (run m s ops) in
  all_told m s' = true ->
  (forall i, i < m -> omaps s' i k = Some h) /\ jmap s' k = Some h.
Proof.
  revert s n; induction ops as [|o ops IH]; intros s n I Hn Hr; [destruct n; discriminate|].
  cbn in Hr |- *. pose proof (Inv_step m s o I) as I1.
  destruct (step m s o) as [s1 x] eqn:Hs. cbn in I1.
  destruct (run m s1 ops) as [s2 xs] eqn:Hrun. cbn in Hr |- *.
  destruct n as [|n].
  - cbn in Hn, Hr. inversion Hn; subst o. inversion Hr; subst x.
    intros Hall.
    assert (Hold : forall i, i < m -> omaps s2 i k = Some h).
    { intros i Hi. replace s2 with (fst (run m s1 ops)) by (rewrite Hrun; reflexivity).
      apply run_mono; [exact I1|exact Hi|].
      replace s1 with (fst (step m s (Act who k sel))) by (rewrite Hs; reflexivity).
      apply act_enters; [exact I| rewrite Hs; reflexivity|exact Hi]. }
    split; [exact Hold|].
    pose proof (run_Inv m ops s1 I1) as I2. rewrite Hrun in I2. cbn in I2.
    destruct m as [|m'].
    { (* no old member: no activation can succeed *)
      exfalso. revert Hs. unfold step, step_gen. cbn [andb Nat.ltb Nat.leb].
      replace (Nat.ltb who 0) with false by (symmetry; apply Nat.ltb_ge; lia).
      replace (Nat.ltb sel 0) with false by (symmetry; apply Nat.ltb_ge; lia). cbn [negb].
      destruct (Nat.eqb who 0); [|discriminate]. destruct (jmap s k); [discriminate|].
      destruct (jtold s); discriminate. }
    rewrite <- (inv_all (S m') s2 I2 (proj1 (all_told_spec (S m') s2) Hall) 0 k (Nat.lt_0_succ m')).
    apply Hold. lia.
  - cbn in Hn, Hr. specialize (IH s1 n I1 Hn). rewrite Hrun in IH. cbn in IH. exact (IH Hr).
Qed.

Theorem join_spread_everyone_learns m ops n who k sel h :
  nth_error ops n = Some (Act who k sel) -> nth_error (snd (run m init ops)) n = Some (RPid h) ->
  let s := fst (run m init ops) in
  all_told m s = true ->
  (forall i, i < m -> omaps s i k = Some h) /\ jmap s k = Some h.
Proof. apply learns_from. apply Inv_init. Qed.

(* and in the vocabulary of the observation: every member's GetActiveByID view shows host + 1
   at that key *)
Theorem join_spread_views m nk ops n who k sel h :
  nth_error ops n = Some (Act who k sel) -> nth_error (snd (run m init ops)) n = Some (RPid h) ->
  k < nk -> all_told m (fst (run m init ops)) = true ->
  forall v, In v (views m nk (fst (run m init ops))) -> nth_error v k = Some (S h).
Proof.
  intros Hn Hr Hk Hall v Hv.
  destruct (join_spread_everyone_learns m ops n who k sel h Hn Hr Hall) as [Ho Hj].
  assert (Hview : forall a, a k = Some h -> nth_error (view_of a nk) k = Some (S h)).
  { intros a Ha. unfold view_of. rewrite nth_error_map.
    assert (Hs : nth_error (seq 0 nk) k = Some k).
    { rewrite (nth_error_nth' _ 0) by (rewrite seq_length; exact Hk). rewrite seq_nth by exact Hk. reflexivity. }
    rewrite Hs. cbn. rewrite Ha. reflexivity. }
  unfold views in Hv. apply in_app_or in Hv. destruct Hv as [Hv|[<-|[]]].
  - apply in_map_iff in Hv. destruct Hv as (i & <- & Hi). apply in_seq in Hi. apply Hview. apply Ho. lia.
  - apply Hview. exact Hj.
Qed.

(* non-vacuity: three old members; the joiner's agent and member 0 are told; member 1, which
   does not know the joiner yet, activates key 0 on member 0; then 1 and 2 are told *)
Example spread_example :
  let ops := [Tell [0] true; Act 1 0 0; Tell [1] false; Tell [2] false] in
  snd (run 3 init ops) = [RNil; RPid 0; RNil; RNil] /\ all_told 3 (fst (run 3 init ops)) = true /\
  views 3 1 (fst (run 3 init ops)) = [[1]; [1]; [1]; [1]] /\
  (* before member 1 has been told the joiner does not know the actor *)
  views 3 1 (fst (run 3 init [Tell [0] true; Act 1 0 0])) = [[1]; [1]; [1]; [0]].
Proof. vm_compute. repeat split; reflexivity. Qed.

(** ** The oracle of StaggerExec.v holds of every model run *)
From HV Require Import StaggerExec.

Lemma list_eqb_refl l : list_eqb l l = true.
Proof. induction l as [|x l IH]; cbn; [reflexivity|]. rewrite Nat.eqb_refl, IH. reflexivity. Qed.

Lemma view_of_ext a b nk : (forall k, a k = b k) -> view_of a nk = view_of b nk.
Proof. intros H. unfold view_of. apply map_ext. intros k. rewrite H. reflexivity. Qed.

(* the old members' maps ARE the map of returned PIDs *)
Lemma olds_are_expect m ops s e :
  Inv m s -> (forall i k, i < m -> omaps s i k = e k) ->
  forall i k, i < m -> omaps (fst (run m s ops)) i k = expect_from e ops (snd (run m s ops)) k.
Proof.
  revert s e; induction ops as [|o ops IH]; intros s e I He i k Hi; cbn; [apply He; exact Hi|].
  pose proof (Inv_step m s o I) as I1.
  destruct (step m s o) as [s1 x] eqn:Hs. cbn in I1.
  destruct (run m s1 ops) as [s2 xs] eqn:Hr. cbn.
  replace s2 with (fst (run m s1 ops)) by (rewrite Hr; reflexivity).
  replace xs with (snd (run m s1 ops)) by (rewrite Hr; reflexivity).
  apply IH; [exact I1| |exact Hi].
  intros i0 k0 Hi0. replace s1 with (fst (step m s o)) by (rewrite Hs; reflexivity).
  replace x with (snd (step m s o)) by (rewrite Hs; reflexivity).
  destruct o as [rs j|who kk sel].
  - rewrite step_omaps_tell by assumption. cbn. apply He; exact Hi0.
  - assert (Hadd : (if Nat.ltb i0 m then aadd kk sel (omaps s i0) else omaps s i0) k0 = aadd kk sel e k0).
    { apply Nat.ltb_lt in Hi0 as Hb. rewrite Hb. unfold aadd.
      destruct (Nat.eqb k0 kk); [|apply He; exact Hi0]. rewrite (He i0 kk Hi0). reflexivity. }
    unfold step, step_gen. cbn [andb].
    destruct (Nat.ltb who m).
    + destruct (omaps s who kk); [apply He; exact Hi0|]. destruct (Nat.ltb sel m); cbn [negb]; [|apply He; exact Hi0].
      destruct (is_some (omaps s sel kk)); [apply He; exact Hi0|]. exact Hadd.
    + destruct (Nat.eqb who m); [|apply He; exact Hi0]. destruct (jmap s kk); [apply He; exact Hi0|].
      destruct (jtold s); cbn [negb]; [|apply He; exact Hi0]. destruct (Nat.ltb sel m); cbn [negb]; [|apply He; exact Hi0].
      destruct (is_some (omaps s sel kk)); [apply He; exact Hi0|]. exact Hadd.
Qed.

Theorem stagger_oracle_sound m nk ops :
  0 < m -> all_told m (fst (run m init ops)) = true -> oracle (model_case m nk ops) = true.
Proof.
  intros Hm Hall. unfold oracle, model_case. cbn [c_views c_expect].
  set (s := fst (run m init ops)) in *. set (e := expect_from aempty ops (snd (run m init ops))).
  assert (Ho : forall i k, i < m -> omaps s i k = e k).
  { intros i k Hi. unfold s, e. apply olds_are_expect; [apply Inv_init| |exact Hi]. reflexivity. }
  pose proof (run_Inv m ops init (Inv_init m)) as I. fold s in I.
  assert (Hj : forall k, jmap s k = e k).
  { intros k. rewrite <- (Ho 0 k Hm). symmetry.
    apply (inv_all m s I (proj1 (all_told_spec m s) Hall) 0 k Hm). }
  unfold views. destruct (map (fun i => view_of (omaps s i) nk) (seq 0 m) ++ [view_of (jmap s) nk]) eqn:Hv.
  { destruct (map (fun i => view_of (omaps s i) nk) (seq 0 m)); discriminate. }
  rewrite <- Hv. apply forallb_forall. intros v Hin. apply in_app_or in Hin. destruct Hin as [Hin|[<-|[]]].
  - apply in_map_iff in Hin. destruct Hin as (i & <- & Hi). apply in_seq in Hi.
    rewrite (view_of_ext (omaps s i) e nk) by (intros k; apply Ho; lia). apply list_eqb_refl.
  - rewrite (view_of_ext (jmap s) e nk Hj). apply list_eqb_refl.
Qed.

(* and, trivially, a model run corresponds to itself *)
Lemma lists_eqb_refl l : lists_eqb l l = true.
Proof. induction l as [|x l IH]; cbn; [reflexivity|]. rewrite list_eqb_refl, IH. reflexivity. Qed.
Theorem stagger_corr_refl m nk ops : corr (model_case m nk ops) = true.
Proof. unfold corr, model_case. cbn. rewrite list_eqb_refl, lists_eqb_refl. reflexivity. Qed.

(** ** The code before the repair D26 (no check on the asked member): a joiner whose agent has
    been told, while the old members have not yet sent it their maps, activates an id that every
    old member knows — the asked member spawns a second actor, Activate returns its PID, and the
    views disagree for good. *)
Fixpoint run_pinned (m : nat) (s : st) (ops : list op) : st * list res :=
  match ops with
  | [] => (s, [])
  | o :: r => let '(s1, x) := step_gen false m s o in let '(s2, xs) := run_pinned m s1 r in (s2, x :: xs)
  end.

Example joiner_duplicate_before_D26 :
  let ops := [Act 0 0 0; Tell [] true; Act 2 0 1; Tell [0; 1] false] in
  snd (run_pinned 2 init ops) = [RPid 0; RNil; RPid 1; RNil] /\
  all_told 2 (fst (run_pinned 2 init ops)) = true /\
  views 2 1 (fst (run_pinned 2 init ops)) = [[1]; [1]; [2]] /\
  (* the repaired code refuses, and everybody ends up with the one actor *)
  snd (run 2 init ops) = [RPid 0; RNil; RNil; RNil] /\ views 2 1 (fst (run 2 init ops)) = [[1]; [1]; [1]].
Proof. vm_compute. repeat split; reflexivity. Qed.

(** ** No second actor under a known id, also while the join is spreading (uses the asked
    member's check of the repair D26) *)
Lemma act_refused_if_known m s who k sel h :
  Inv m s -> (forall i, i < m -> omaps s i k = Some h) -> snd (step m s (Act who k sel)) = RNil.
Proof.
  intros I Hk. unfold step, step_gen. cbn [andb].
  destruct (Nat.ltb who m) eqn:Hw.
  - apply Nat.ltb_lt in Hw. rewrite (Hk who Hw). reflexivity.
  - destruct (Nat.eqb who m); [|reflexivity]. destruct (jmap s k); [reflexivity|].
    destruct (jtold s); cbn [negb]; [|reflexivity].
    destruct (Nat.ltb sel m) eqn:Hs; cbn [negb]; [|reflexivity]. apply Nat.ltb_lt in Hs.
    rewrite (Hk sel Hs). reflexivity.
Qed.

Lemma run_refuses_known m ops s k h n who sel :
  Inv m s -> (forall i, i < m -> omaps s i k = Some h) ->
  nth_error ops n = Some (Act who k sel) -> nth_error (snd (run m s ops)) n = Some RNil.
Proof.
  revert s n; induction ops as [|o ops IH]; intros s n I Hk Hn; [destruct n; discriminate|].
  cbn. pose proof (Inv_step m s o I) as I1.
  assert (Hk1 : forall i, i < m -> omaps (fst (step m s o)) i k = Some h).
  { intros i Hi. apply step_mono; [exact I|exact Hi|apply Hk; exact Hi]. }
  destruct (step m s o) as [s1 x] eqn:Hs. cbn in I1, Hk1.
  destruct (run m s1 ops) as [s2 xs] eqn:Hr. cbn.
  destruct n as [|n].
  - cbn in Hn |- *. inversion Hn; subst o.
    pose proof (act_refused_if_known m s who k sel h I Hk) as Hx. rewrite Hs in Hx. cbn in Hx. rewrite Hx. reflexivity.
  - cbn in Hn |- *. specialize (IH s1 n I1 Hk1 Hn). rewrite Hr in IH. exact IH.
Qed.

Theorem join_spread_no_second_activation m ops n1 n2 who1 who2 k sel1 sel2 h :
  n1 < n2 ->
  nth_error ops n1 = Some (Act who1 k sel1) -> nth_error (snd (run m init ops)) n1 = Some (RPid h) ->
  nth_error ops n2 = Some (Act who2 k sel2) -> nth_error (snd (run m init ops)) n2 = Some RNil.
Proof.
  generalize (Inv_init m). generalize init as s. revert n1 n2.
  induction ops as [|o ops IH]; intros n1 n2 s I Hlt H1 R1 H2; [destruct n1; discriminate|].
  cbn in R1 |- *. pose proof (Inv_step m s o I) as I1.
  destruct (step m s o) as [s1 x] eqn:Hs. cbn in I1.
  destruct (run m s1 ops) as [s2 xs] eqn:Hr. cbn in R1 |- *.
  destruct n2 as [|n2]; [lia|]. cbn in H2 |- *.
  destruct n1 as [|n1].
  - cbn in H1, R1. inversion H1; subst o. inversion R1; subst x.
    assert (Hk : forall i, i < m -> omaps s1 i k = Some h).
    { intros i Hi. replace s1 with (fst (step m s (Act who1 k sel1))) by (rewrite Hs; reflexivity).
      apply act_enters; [exact I|rewrite Hs; reflexivity|exact Hi]. }
    pose proof (run_refuses_known m ops s1 k h n2 who2 sel2 I1 Hk H2) as Hx. rewrite Hr in Hx. exact Hx.
  - cbn in H1, R1. assert (Hlt' : n1 < n2) by lia.
    specialize (IH n1 n2 s1 I1 Hlt' H1). rewrite Hr in IH. cbn in IH. exact (IH R1 H2).
Qed.
