(** Executable side of the C17 correspondence check.

    Four kinds of case, one per harness scenario:
    - [KUp]: engines over loopback TCP, peers up; k senders x n numbered
      messages over several targets (family remote17, scenario "up");
    - [KDown]: messages for an address nobody listens on, then the peer is
      started there and more messages are sent (scenario "down");
    - [KStop]: a sequence of Start / Stop calls on one Remote, the listener
      probed after each (scenario "stop");
    - [KRace]: the terminal observations of the schedules of the real router
      and stream writers explored under the deterministic scheduler (family
      remote17race), compared with the terminal observations of the
      interleaving machine of Remote.v, enumerated here.

    The deterministic machine is run on a canonical schedule (all sends, then
    the router, then each writer, then each reader); by
    [RemoteProofs.up_exactly_once_in_order] any other schedule delivers the
    same per-target sequences. *)
From Coq Require Import List Arith Bool Lia.
From HV Require Export Wire Remote.
Import ListNotations.

(** * the codec instance: a message is (sender index, sequence number) *)
Definition xv := (nat * nat)%type.
Definition x_ty (v : xv) : option tyname := Some 0.
Definition x_ser (v : xv) : option xv := Some v.
Definition x_deser (t : tyname) (d : xv) : option xv := Some d.

Lemma x_codec v t d : x_ty v = Some t -> x_ser v = Some d -> x_deser t d = Some v.
Proof. unfold x_ser, x_deser. now intros _ [= ->]. Qed.

Notation xdlv := (deliver xv).
Notation xstate := (dstate xv xv).
Notation xop := (op xv).
Definition xrun : list xop -> xstate -> xstate := run x_ty x_ser x_deser.
Definition xstate0 : xstate := dstate0.

Definition node (p : nat) : str := [p].
Definition self_node : str := [0].
Definition actor_pid (p t : nat) : pid := (node p, [t]).
Definition sender_pid (i : nat) : pid := (self_node, [100 + i]).

Fixpoint all2 {A B} (f : A -> B -> bool) (l1 : list A) (l2 : list B) : bool :=
  match l1, l2 with
  | [], [] => true
  | a :: l1', b :: l2' => f a b && all2 f l1' l2'
  | _, _ => false
  end.

Definition nat_list_eqb : list nat -> list nat -> bool := all2 Nat.eqb.
Definition pid_opt_eqb (a b : option pid) : bool :=
  match a, b with
  | None, None => true
  | Some x, Some y => pid_eqb x y
  | _, _ => false
  end.

(** * scenario "up" *)

(* one line of what a recording actor saw: sender index, sequence number,
   whether Context.Sender() was what it had to be *)
Definition seen := (nat * nat * bool)%type.

Record up_case := {
  u_peers : list nat;                   (* peer nodes (>= 1) *)
  u_targets : list (nat * nat);         (* recording actors: (peer, actor) *)
  u_senders : list bool;                (* per sender: does it send with its own PID as sender *)
  u_per : nat;                          (* messages per sender; message j of sender i goes to target (i+j) mod T *)
  u_batch : nat;                        (* the model's writers send batches of u_batch+1 *)
  u_got : list (list seen);             (* per target, in arrival order *)
  u_requests : nat;                     (* requests made across nodes *)
  u_replies : nat                       (* of which came back with the right answer *)
}.

Definition target_of (ts : list (nat * nat)) (i j : nat) : nat * nat :=
  nth ((i + j) mod (length ts)) ts (0, 0).

(* the sends, interleaved: message 0 of every sender, message 1 of every sender, ... *)
Definition up_sends (ts : list (nat * nat)) (senders : list bool) (from per : nat) : list xdlv :=
  flat_map (fun j =>
    map (fun ib : nat * bool =>
           let (i, withpid) := ib in
           let (p, t) := target_of ts i j in
           {| s_target := actor_pid p t;
              s_sender := if withpid then Some (sender_pid i) else None;
              s_msg := (i, j) |})
        (combine (seq 0 (length senders)) senders))
    (seq from per).

Definition drain_ops (peers : list nat) (nmsgs batch : nat) : list xop :=
  repeat ORouter (S nmsgs) ++
  flat_map (fun p => repeat (OWriter (node p) batch) (S (nmsgs / S batch)) ++
                     repeat (OReader (node p)) (S (nmsgs / S batch))) peers.

(* the canonical schedule works through the sends in chunks (send a chunk, let
   router, writers and readers drain it), so that no queue of the machine grows
   with the length of the run: by [up_exactly_once_in_order] every schedule
   delivers the same per-target sequences *)
Fixpoint chunks {A} (fuel n : nat) (l : list A) : list (list A) :=
  match fuel, l with
  | 0, _ | _, [] => []
  | S fuel', _ => firstn (S n) l :: chunks fuel' n (skipn (S n) l)
  end.

Definition chunked_ops (peers : list nat) (batch : nat) (sends : list xdlv) : list xop :=
  flat_map (fun ch => map OSend ch ++ drain_ops peers (length ch) batch) (chunks (length sends) 255 sends).

Definition up_ops (c : up_case) : list xop :=
  let sends := up_sends (u_targets c) (u_senders c) 0 (u_per c) in
  map (fun p => OPeer (node p) true) (u_peers c) ++ chunked_ops (u_peers c) (u_batch c) sends.

(* the harness reports what a recording actor saw projected per sender and
   run-length encoded: (sender, first seq, count, Sender() ok), consecutive
   sequence numbers stepping by [stride] (the number of targets) *)
Definition expand_runs (stride : nat) (runs : list (nat * nat * nat * bool)) : list seen :=
  flat_map (fun r : nat * nat * nat * bool =>
              let '(i, j0, n, ok) := r in map (fun k => (i, j0 + k * stride, ok)) (seq 0 n)) runs.

(* what the actor (p, t) received according to the machine's state *)
Definition seen_at (senders : list bool) (s : xstate) (pt : nat * nat) : list seen :=
  let (p, t) := pt in
  flat_map (fun d : delivery xv =>
              if pid_eqb (d_target d) (actor_pid p t) then
                let (i, j) := d_msg d in
                [(i, j, pid_opt_eqb (d_sender d)
                          (if nth i senders false then Some (sender_pid i) else None))]
              else [])
           (a_got (tab s (node p))).

Definition from_sender (i : nat) (l : list seen) : list (nat * bool) :=
  flat_map (fun x : seen => let '(i', j, ok) := x in if Nat.eqb i i' then [(j, ok)] else []) l.

Definition seqs_eqb (a b : list (nat * bool)) : bool :=
  all2 (fun x y : nat * bool => Nat.eqb (fst x) (fst y) && Bool.eqb (snd x) (snd y)) a b.

(* per (target, sender): the same sequence *)
Definition same_per_sender (nsenders : nat) (a b : list (list seen)) : bool :=
  all2 (fun la lb => forallb (fun i => seqs_eqb (from_sender i la) (from_sender i lb)) (seq 0 nsenders)) a b.

Definition up_model (c : up_case) : list (list seen) :=
  let s := xrun (up_ops c) xstate0 in map (seen_at (u_senders c) s) (u_targets c).

Definition corr_up (c : up_case) : bool :=
  same_per_sender (length (u_senders c)) (up_model c) (u_got c).

(* the property itself, on the implementation's observation: per target and
   sender, exactly the sequence numbers that sender addressed to that target,
   once each, ascending, each with the right Sender(); every request answered *)
Definition due (ts : list (nat * nat)) (i per k : nat) : list (nat * bool) :=
  flat_map (fun j => if Nat.eqb ((i + j) mod (length ts)) k then [(j, true)] else []) (seq 0 per).

Definition exactly_once_in_order (ts : list (nat * nat)) (nsenders from per : nat) (got : list (list seen)) : bool :=
  Nat.eqb (length got) (length ts) &&
  forallb (fun kg : nat * list seen =>
             let (k, g) := kg in
             forallb (fun i => seqs_eqb (from_sender i g)
                                 (flat_map (fun j => if Nat.eqb ((i + j) mod (length ts)) k then [(j, true)] else [])
                                           (seq from per)))
                     (seq 0 nsenders) &&
             forallb (fun x : seen => Nat.ltb (fst (fst x)) nsenders) g)
          (combine (seq 0 (length got)) got).

Definition oracle_up (c : up_case) : bool :=
  exactly_once_in_order (u_targets c) (length (u_senders c)) 0 (u_per c) (u_got c) &&
  Nat.eqb (u_replies c) (u_requests c).

(** * scenario "down" *)

Record down_case := {
  d_targets : nat;                      (* recording actors 0 .. d_targets-1 on the (single) peer, node 1 *)
  d_senders : list bool;
  d_m : nat;                            (* messages per sender while the peer is absent *)
  d_n : nat;                            (* messages per sender after the peer has been started *)
  d_unreach1 : nat;                     (* RemoteUnreachableEvent{peer} seen by the monitor in phase 1 *)
  d_dead1 : list (nat * nat * nat);     (* dead letters in phase 1, in order: (target, sender, seq) *)
  d_got1 : nat;                         (* deliveries at the peer's actors attributable to phase 1 *)
  d_unreach2 : nat;
  d_dead2 : nat;
  d_got2 : list (list seen)
}.

Definition d_ts (c : down_case) : list (nat * nat) := map (fun t => (1, t)) (seq 0 (d_targets c)).

Definition down_state1 (c : down_case) : xstate :=
  let sends := up_sends (d_ts c) (d_senders c) 0 (d_m c) in
  xrun (map OSend sends ++ repeat ORouter (S (S (length sends)))) xstate0.

Definition down_state2 (c : down_case) : xstate :=
  let sends := up_sends (d_ts c) (d_senders c) (d_m c) (d_n c) in
  xrun (OPeer (node 1) true :: chunked_ops [1] 63 sends) (down_state1 c).

Definition dead_view (l : list xdlv) : list (nat * nat * nat) :=
  map (fun d : xdlv => (hd 0 (snd (s_target d)), fst (s_msg d), snd (s_msg d))) l.

Definition dead_from (i : nat) (l : list (nat * nat * nat)) : list (nat * nat) :=
  flat_map (fun x : nat * nat * nat => let '(t, i', j) := x in if Nat.eqb i i' then [(t, j)] else []) l.

Definition pairs_eqb (a b : list (nat * nat)) : bool :=
  all2 (fun x y : nat * nat => Nat.eqb (fst x) (fst y) && Nat.eqb (snd x) (snd y)) a b.

Definition corr_down (c : down_case) : bool :=
  let s1 := down_state1 c in
  let s2 := down_state2 c in
  let ns := length (d_senders c) in
  Nat.eqb (d_unreach1 c) (length (evs s1)) &&
  forallb (fun i => pairs_eqb (dead_from i (d_dead1 c)) (dead_from i (dead_view (dead s1)))) (seq 0 ns) &&
  Nat.eqb (length (d_dead1 c)) (length (dead s1)) &&
  Nat.eqb (d_got1 c) (length (a_got (tab s1 (node 1)))) &&
  Nat.eqb (d_unreach2 c) (length (evs s2) - length (evs s1)) &&
  Nat.eqb (d_dead2 c) (length (dead s2) - length (dead s1)) &&
  same_per_sender ns (map (seen_at (d_senders c) s2) (d_ts c)) (d_got2 c).

(* the property on the implementation's observation: the event was published;
   every message of phase 1 surfaced as a dead letter, once, in each sender's
   order, and none was delivered; after the peer came up every message of
   phase 2 was delivered once and in order and nothing was reported dead *)
Definition oracle_down (c : down_case) : bool :=
  let ns := length (d_senders c) in
  (Nat.eqb (ns * d_m c) 0 || Nat.leb 1 (d_unreach1 c)) &&
  forallb (fun i => pairs_eqb (dead_from i (d_dead1 c))
                      (map (fun j => (snd (target_of (d_ts c) i j), j)) (seq 0 (d_m c)))) (seq 0 ns) &&
  Nat.eqb (length (d_dead1 c)) (ns * d_m c) &&
  Nat.eqb (d_got1 c) 0 &&
  exactly_once_in_order (d_ts c) ns (d_m c) (d_n c) (d_got2 c) &&
  Nat.eqb (d_dead2 c) 0 && Nat.eqb (d_unreach2 c) 0.

(** * scenario "reconnect": the peer is restarted on its address while senders
    keep sending bursts.  Which messages a lost connection swallows is a
    matter of timing (the machine drops what sits in the dead writer's inbox,
    the code also what was on the wire); what can be demanded of what does
    arrive, over all incarnations of the peer in turn: per sender no message
    twice and none before an earlier one.  A message is (burst, number in
    burst); the observation is per sender the run-length encoding of its
    arrivals: (burst, first number, count). *)

Record reconnect_case := {
  k_bursts : nat;                       (* bursts per sender *)
  k_per : nat;                          (* messages per burst *)
  k_got : list (list (nat * nat * nat)) (* per sender *)
}.

(* strictly increasing in (burst, number), everything within the programme *)
Fixpoint runs_increasing (bursts per : nat) (last : option (nat * nat)) (runs : list (nat * nat * nat)) : bool :=
  match runs with
  | [] => true
  | (b, j0, n) :: rest =>
      Nat.ltb 0 n && Nat.ltb b bursts && Nat.leb (j0 + n) per &&
      match last with
      | None => true
      | Some (b', j') => Nat.ltb b' b || (Nat.eqb b' b && Nat.ltb j' j0)
      end &&
      runs_increasing bursts per (Some (b, j0 + n - 1)) rest
  end.

Definition oracle_reconnect (c : reconnect_case) : bool :=
  forallb (runs_increasing (k_bursts c) (k_per c) None) (k_got c).

(** * scenario "stop" *)

(* per call: did it report an error (Start: "remote already started"), and is
   the node listening afterwards *)
Record stop_case := {
  s_calls : list rcall;
  s_obs : list (bool * bool);
  s_probe : list bool      (* optional engine-level probe after the calls: did a message from another node get through *)
}.

Definition res_err (r : rres) : bool := match r with ResAlreadyStarted => true | _ => false end.

Definition stop_model (cs : list rcall) : list (bool * bool) :=
  map (fun p : rres * bool => (res_err (fst p), snd p)) (snd (rcalls rmach0 cs)).

Definition corr_stop (c : stop_case) : bool :=
  all2 (fun a b : bool * bool => Bool.eqb (fst a) (fst b) && Bool.eqb (snd a) (snd b)) (stop_model (s_calls c)) (s_obs c) &&
  forallb (Bool.eqb (r_listening (fst (rcalls rmach0 (s_calls c))))) (s_probe c).

(* the first Start listens; a later Start fails and changes nothing; the first
   Stop after it ends the listening, for good; other Stops change nothing *)
Fixpoint stop_spec (started stopped listening : bool) (cs : list rcall) (obs : list (bool * bool)) : bool :=
  match cs, obs with
  | [], [] => true
  | CStart :: cs', (err, l) :: obs' =>
      if started then err && Bool.eqb l listening && stop_spec started stopped listening cs' obs'
      else negb err && l && stop_spec true stopped true cs' obs'
  | CStop :: cs', (err, l) :: obs' =>
      negb err &&
      (if started && negb stopped then negb l && stop_spec started true false cs' obs'
       else Bool.eqb l listening && stop_spec started stopped listening cs' obs')
  | _, _ => false
  end.

(* another node reaches this one exactly if it is listening *)
Definition oracle_stop (c : stop_case) : bool :=
  stop_spec false false false (s_calls c) (s_obs c) &&
  forallb (Bool.eqb (snd (last (s_obs c) (false, false)))) (s_probe c).

(** * the race: terminal observations *)

Record robs := {
  o_has : bool;
  o_reg : option nat;                   (* which writer is registered (0 = the first) *)
  o_dead : list nat;
  o_wire : list (list nat);             (* per started writer *)
  o_stuck : list nat;                   (* per started writer: messages left in its inbox *)
  o_dups : nat
}.

Definition opt_nat_eqb (a b : option nat) : bool :=
  match a, b with None, None => true | Some x, Some y => Nat.eqb x y | _, _ => false end.

Definition robs_eqb (a b : robs) : bool :=
  Bool.eqb (o_has a) (o_has b) && opt_nat_eqb (o_reg a) (o_reg b) && nat_list_eqb (o_dead a) (o_dead b) &&
  all2 nat_list_eqb (o_wire a) (o_wire b) && nat_list_eqb (o_stuck a) (o_stuck b) && Nat.eqb (o_dups a) (o_dups b).

Definition obs_of (s : rstate) : robs :=
  {| o_has := has s; o_reg := reg s; o_dead := rdead s;
     o_wire := map (fun w => w_wire (ws s w)) (seq 0 (nw s));
     o_stuck := map (fun w => length (w_inbox (ws s w))) (seq 0 (nw s));
     o_dups := rdups s |}.

(* at rest: an entry in the router's table iff a writer is registered; no
   writer was ever spawned onto a taken id *)
Definition no_blackhole_obs (o : robs) : bool :=
  Bool.eqb (o_has o) (match o_reg o with Some _ => true | None => false end) && Nat.eqb (o_dups o) 0.

(** ** enumeration of the interleaving machine for one configuration *)

Record xst := { x_s : rstate; x_pool : list (list nat); x_drop : bool }.

Definition qmsg_eqb (a b : qmsg) : bool :=
  match a, b with QEvt, QEvt => true | QDlv x, QDlv y => Nat.eqb x y | _, _ => false end.
Definition rpc_eqb (a b : rpc) : bool :=
  match a, b with
  | RIdle, RIdle => true
  | RAdd x, RAdd y | RSet x, RSet y | RGet x, RGet y => Nat.eqb x y
  | RDial x1 x2, RDial y1 y2 | RShut x1 x2, RShut y1 y2 | RPush x1 x2, RPush y1 y2 => Nat.eqb x1 y1 && Nat.eqb x2 y2
  | _, _ => false
  end.
Definition wpc_eqb (a b : wpc) : bool :=
  match a, b with
  | WIdle, WIdle | WLoaded, WLoaded => true
  | WHave x, WHave y => nat_list_eqb x y
  | _, _ => false
  end.
Definition todo_eqb (a b : option (list sstep)) : bool :=
  match a, b with
  | None, None => true
  | Some x, Some y => all2 sstep_eqb x y
  | _, _ => false
  end.
Definition writer_eqb (a b : writer) : bool :=
  Bool.eqb (w_conn a) (w_conn b) && todo_eqb (w_todo a) (w_todo b) && nat_list_eqb (w_inbox a) (w_inbox b) &&
  wpc_eqb (w_pc a) (w_pc b) && Bool.eqb (w_stopped a) (w_stopped b) && Bool.eqb (w_closed a) (w_closed b) &&
  nat_list_eqb (w_wire a) (w_wire b) && nat_list_eqb (w_failed a) (w_failed b).
Definition rstate_eqb (a b : rstate) : bool :=
  all2 qmsg_eqb (q a) (q b) && rpc_eqb (pc a) (pc b) && Bool.eqb (has a) (has b) && opt_nat_eqb (reg a) (reg b) &&
  Nat.eqb (nw a) (nw b) && forallb (fun w => writer_eqb (ws a w) (ws b w)) (seq 0 (nw a)) &&
  nat_list_eqb (rdead a) (rdead b) && Nat.eqb (bcast a) (bcast b) && Nat.eqb (rdups a) (rdups b).
Definition xst_eqb (a b : xst) : bool :=
  rstate_eqb (x_s a) (x_s b) && all2 nat_list_eqb (x_pool a) (x_pool b) && Bool.eqb (x_drop a) (x_drop b).

(* the moves of a configuration: a sender's next message, a statement of the
   router, the loss of the first writer's connection, a statement of a
   Shutdown goroutine, a step of a writer's worker *)
Definition pool_moves (o : order) (x : xst) : list xst :=
  flat_map (fun k =>
    match nth k (x_pool x) [] with
    | [] => []
    | n :: rest =>
        [{| x_s := rstep o (x_s x) (LSend n);
            x_pool := firstn k (x_pool x) ++ rest :: skipn (S k) (x_pool x);
            x_drop := x_drop x |}]
    end) (seq 0 (length (x_pool x))).

Definition router_can_move (s : rstate) : bool :=
  match pc s, q s with RIdle, [] => false | _, _ => true end.

Definition moves (o : order) (x : xst) : list xst :=
  let s := x_s x in
  let keep s' := {| x_s := s'; x_pool := x_pool x; x_drop := x_drop x |} in
  pool_moves o x ++
  (if router_can_move s then [keep (rstep o s (LRouter true))] else []) ++
  (if x_drop x then [{| x_s := rstep o s (LDrop 0); x_pool := x_pool x; x_drop := false |}] else []) ++
  flat_map (fun w =>
    (match w_todo (ws s w) with
     | Some (_ :: _) => if router_runs_shutdown s w then [] else [keep (rstep o s (LShut w))]
     | _ => []
     end) ++
    (let s' := rstep o s (LWork w) in if rstate_eqb s s' then [] else [keep s'])) (seq 0 (nw s)).

Definition mem_xst (x : xst) (l : list xst) : bool := existsb (xst_eqb x) l.
Definition mem_obs (o : robs) (l : list robs) : bool := existsb (robs_eqb o) l.

(* depth-first search with a visited list; [None]: out of fuel *)
Fixpoint explore (o : order) (fuel : nat) (stack seen : list xst) (terms : list robs) : option (list robs) :=
  match fuel with
  | 0 => match stack with [] => Some terms | _ => None end
  | S fuel' =>
    match stack with
    | [] => Some terms
    | x :: stack' =>
      if mem_xst x seen then explore o fuel' stack' seen terms
      else
        match moves o x with
        | [] => let ob := obs_of (x_s x) in
                explore o fuel' stack' (x :: seen) (if mem_obs ob terms then terms else ob :: terms)
        | ms => explore o fuel' (ms ++ stack') (x :: seen) terms
        end
    end
  end.

(* the node as the harness prepares it: message 1 brought writer 0 up and is on the wire *)
Definition race_prefix : list lbl :=
  [LSend 1; LRouter true; LRouter true; LRouter true; LRouter true; LRouter true; LRouter true;
   LWork 0; LWork 0; LWork 0].

Definition race_init (o : order) (senders : list (list nat)) (drop : bool) : xst :=
  {| x_s := rrun o race_prefix rstate0; x_pool := senders; x_drop := drop |}.

Definition race_fuel : nat := 200 * 200.

Definition model_terminals (o : order) (senders : list (list nat)) (drop : bool) : option (list robs) :=
  explore o race_fuel [race_init o senders drop] [] [].

Record race_case := {
  r_order : order;                      (* the order of Shutdown's statements the harness observed *)
  r_senders : list (list nat);
  r_drop : bool;
  r_exhaustive : bool;                  (* the harness enumerated every schedule *)
  r_terms : list robs                   (* distinct terminal observations of the implementation *)
}.

Definition subset_obs (a b : list robs) : bool := forallb (fun o => mem_obs o b) a.

(* every terminal observation of the implementation is one of the machine's *)
Definition corr_race (c : race_case) : bool :=
  match model_terminals (r_order c) (r_senders c) (r_drop c) with
  | Some mt => subset_obs (r_terms c) mt
  | None => false
  end.

Definition oracle_race (c : race_case) : bool := forallb no_blackhole_obs (r_terms c).

(** * cases, report *)

Inductive case := KUp (c : up_case) | KDown (c : down_case) | KStop (c : stop_case) | KRace (c : race_case)
                | KReconnect (c : reconnect_case).

Definition corr (c : case) : bool :=
  match c with
  | KUp c => corr_up c | KDown c => corr_down c | KStop c => corr_stop c | KRace c => corr_race c
  | KReconnect c => oracle_reconnect c   (* the machine does not predict what a lost connection swallows: the tie is the predicate *)
  end.

Definition oracle (c : case) : bool :=
  match c with
  | KUp c => oracle_up c | KDown c => oracle_down c | KStop c => oracle_stop c | KRace c => oracle_race c
  | KReconnect c => oracle_reconnect c
  end.

(* known finding class 12 (D12): the tree has the pinned order of statements
   and a black-holed terminal state was reached *)
Definition known (c : case) : list nat :=
  match c with
  | KRace c => match r_order c with Pinned => if oracle_race c then [] else [12] | Repaired => [] end
  | _ => []
  end.

Definition tag (b : bool) (n : nat) : list nat := if b then [n] else [].

Fixpoint has_sub (l : list rcall) (a b : rcall) (seen_a : bool) : bool :=
  match l with
  | [] => false
  | c :: l' =>
    (seen_a && match c, b with CStart, CStart | CStop, CStop => true | _, _ => false end) ||
    has_sub l' a b (seen_a || match c, a with CStart, CStart | CStop, CStop => true | _, _ => false end)
  end.

Definition branches (c : case) : list nat :=
  match c with
  | KUp c =>
      tag (Nat.ltb 1 (length (u_senders c))) 1 ++ tag (Nat.ltb (length (u_peers c)) (length (u_targets c))) 2 ++
      tag (Nat.ltb 1 (length (u_peers c))) 3 ++ tag (existsb (fun b => b) (u_senders c)) 4 ++
      tag (Nat.ltb 0 (u_requests c)) 5 ++ tag (Nat.ltb 1000 (u_per c * length (u_senders c))) 6 ++
      tag (existsb negb (u_senders c)) 7
  | KDown c =>
      tag (Nat.ltb 0 (d_unreach1 c)) 10 ++ tag (Nat.ltb 1 (length (d_senders c))) 11 ++
      tag (Nat.ltb 0 (length (concat (d_got2 c)))) 12 ++ tag (Nat.ltb 1 (length (d_dead1 c))) 13
  | KStop c =>
      tag (has_sub (s_calls c) CStart CStart false) 20 ++ tag (has_sub (s_calls c) CStop CStop false) 21 ++
      tag (has_sub (s_calls c) CStop CStart false) 22 ++
      tag (match s_calls c with CStop :: _ => true | _ => false end) 23
  | KReconnect c =>
      tag (existsb (fun g => Nat.ltb 1 (length g)) (k_got c)) 40 ++
      tag (existsb (fun g => Nat.ltb 0 (length g)) (k_got c)) 41
  | KRace c =>
      tag (negb (oracle_race c)) 30 ++
      tag (match model_terminals (r_order c) (r_senders c) (r_drop c) with
           | Some mt => subset_obs mt (r_terms c) | None => false end) 31 ++
      tag (existsb (fun o => Nat.ltb 0 (length (o_dead o))) (r_terms c)) 32 ++
      tag (existsb (fun o => existsb (Nat.ltb 0) (o_stuck o)) (r_terms c)) 33 ++
      tag (existsb (fun o => Nat.ltb 1 (length (o_wire o))) (r_terms c)) 34 ++
      tag (r_exhaustive c) 35
  end.

(* everything the report needs about one case, the machine's terminal
   observations being enumerated once *)
Definition eval (c : case) : bool * bool * list nat * list nat :=
  match c with
  | KRace r =>
      let mt := model_terminals (r_order r) (r_senders r) (r_drop r) in
      let ok := oracle_race r in
      (match mt with Some l => subset_obs (r_terms r) l | None => false end, ok,
       match r_order r with Pinned => if ok then [] else [12] | Repaired => [] end,
       tag (negb ok) 30 ++
       tag (match mt with Some l => subset_obs l (r_terms r) | None => false end) 31 ++
       tag (existsb (fun o => Nat.ltb 0 (length (o_dead o))) (r_terms r)) 32 ++
       tag (existsb (fun o => existsb (Nat.ltb 0) (o_stuck o)) (r_terms r)) 33 ++
       tag (existsb (fun o => Nat.ltb 1 (length (o_wire o))) (r_terms r)) 34 ++
       tag (r_exhaustive r) 35)
  | _ => (corr c, oracle c, known c, branches c)
  end.

Lemma eval_spec c : eval c = (corr c, oracle c, known c, branches c).
Proof.
  destruct c as [u|d|st|r|k]; [reflexivity|reflexivity|reflexivity| |reflexivity].
  unfold eval, corr, oracle, known, branches, corr_race.
  generalize (model_terminals (r_order r) (r_senders r) (r_drop r)) as mt.
  generalize (oracle_race r) as ok. intros ok mt. reflexivity.
Qed.

Fixpoint failing (f : bool * bool * list nat * list nat -> bool) (i : nat)
                 (l : list (bool * bool * list nat * list nat)) : list nat :=
  match l with [] => [] | a :: l' => (if f a then [] else [i]) ++ failing f (S i) l' end.

Fixpoint known_hits (i : nat) (l : list (bool * bool * list nat * list nat)) : list (nat * nat) :=
  match l with [] => [] | a :: l' => map (fun k => (i, k)) (snd (fst a)) ++ known_hits (S i) l' end.

(* (cases failing corr, cases failing oracle, known-finding hits, branches per case) *)
Definition report (cs : list case) : list nat * list nat * list (nat * nat) * list (list nat) :=
  let es := map eval cs in
  (failing (fun e => fst (fst (fst e))) 0 es, failing (fun e => snd (fst (fst e))) 0 es,
   known_hits 0 es, map snd es).
