(** Proofs about Remote.v: the Start/Stop machine, the deterministic machine
    (exactly once and in order while the connection is up; unreachable peers
    are reported and nothing vanishes; a fresh attempt after an unreachable
    episode), and the interleaving machine of the Shutdown / router race
    (D12): no black hole for the repaired order of statements, a witness
    schedule for the pinned order. *)
From Coq Require Import List Arith Bool Lia.
From HV Require Import Wire WireProofs Remote RemoteExec.
Import ListNotations.

(** * 1. Remote.Start / Remote.Stop *)

Definition rm_inv (m : rmach) : Prop :=
  (r_listening m = true <-> r_state m = StRunning) /\
  (r_state m = StInitialized -> r_routers m = 0) /\ r_routers m <= 1.

Lemma rm_inv0 : rm_inv rmach0.
Proof. unfold rm_inv, rmach0; cbn. repeat split; try discriminate; auto. Qed.

Lemma rm_inv_step m c : rm_inv m -> rm_inv (fst (rcall_step m c)).
Proof.
  intros (Hl & H0 & H1). unfold rcall_step. destruct c, (r_state m) eqn:E; cbn; unfold rm_inv; cbn;
    try rewrite E; try (repeat split; try assumption; try apply Hl; fail).
  - rewrite (H0 eq_refl). split; [tauto|]. split; [discriminate|lia].
  - split; [split; discriminate|]. split; [discriminate|assumption].
Qed.

Lemma rcalls_fst_app m cs1 cs2 :
  fst (rcalls m (cs1 ++ cs2)) = fst (rcalls (fst (rcalls m cs1)) cs2).
Proof.
  revert m; induction cs1 as [|c cs1 IH]; intros m; cbn; [reflexivity|].
  destruct (rcall_step m c) as [m1 r] eqn:E1. specialize (IH m1).
  destruct (rcalls m1 (cs1 ++ cs2)) eqn:E2, (rcalls m1 cs1) eqn:E3. cbn in *. exact IH.
Qed.

Lemma rm_inv_calls cs : forall m, rm_inv m -> rm_inv (fst (rcalls m cs)).
Proof.
  induction cs as [|c cs IH]; intros m Hm; cbn; [assumption|].
  pose proof (rm_inv_step m c Hm) as H1. destruct (rcall_step m c) as [m1 r]; cbn in H1.
  specialize (IH m1 H1). destruct (rcalls m1 cs); cbn in *; assumption.
Qed.

(* whatever was called before: the node listens exactly while Running, at most
   one router was ever spawned, a second Start (Stop) right after a Start
   (Stop) changes nothing and says so *)
Theorem start_stop_idempotent (cs : list rcall) :
  let m := fst (rcalls rmach0 cs) in
  (r_listening m = true <-> r_state m = StRunning) /\ r_routers m <= 1 /\
  (let m1 := fst (rcall_step m CStart) in
   rcall_step m1 CStart = (m1, ResAlreadyStarted)) /\
  (let m1 := fst (rcall_step m CStop) in
   rcall_step m1 CStop = (m1, ResNotRunning)).
Proof.
  intros m. destruct (rm_inv_calls cs rmach0 rm_inv0) as (Hl & _ & H1). fold m in Hl, H1.
  repeat split; try apply Hl; try assumption.
  - unfold rcall_step. destruct (r_state m) eqn:E; cbn; try rewrite E; reflexivity.
  - unfold rcall_step. destruct (r_state m) eqn:E; cbn; try rewrite E; reflexivity.
Qed.

(* once stopped the node never listens again, whatever is called *)
Theorem stopped_never_listens (m : rmach) (cs : list rcall) :
  r_state m = StStopped -> r_listening m = false ->
  r_state (fst (rcalls m cs)) = StStopped /\ r_listening (fst (rcalls m cs)) = false /\
  Forall (fun p => snd p = false /\ fst p <> ResOk) (snd (rcalls m cs)).
Proof.
  revert m; induction cs as [|c cs IH]; intros m Hs Hl; cbn; [auto|].
  assert (E : rcall_step m c = (m, match c with CStart => ResAlreadyStarted | CStop => ResNotRunning end))
    by (unfold rcall_step; rewrite Hs; destruct c; reflexivity).
  rewrite E. destruct (IH m Hs Hl) as (H1 & H2 & H3). destruct (rcalls m cs) as [m2 rs]; cbn in *.
  repeat split; auto. constructor; [|assumption]. cbn. split; [assumption|destruct c; discriminate].
Qed.

(* Stop takes effect exactly on a running node, and then the listener is gone *)
Lemma stop_running m : r_state m = StRunning ->
  rcall_step m CStop = ({| r_state := StStopped; r_listening := false; r_routers := r_routers m |}, ResOk).
Proof. intros H; unfold rcall_step; rewrite H; reflexivity. Qed.

(** * 2. The deterministic machine *)

Section det.
Context {value data : Type}.
Context (tyname_of : value -> option tyname) (ser : value -> option data)
        (deser : tyname -> data -> option value).
Hypothesis codec : forall v t d, tyname_of v = Some t -> ser v = Some d -> deser t d = Some v.

Notation dlv := (deliver value).
Notation dstate := (dstate value data).
Notation op := (op value).
Notation ast := (ast value data).
Notation exec := (exec tyname_of ser deser).
Notation run := (run tyname_of ser deser).
Notation flow := (flow tyname_of ser deser).
Notation expected := (expected tyname_of ser).
Notation in_link := (in_link deser).
Notation router_step := (@router_step value data).

Local Arguments Wire.encode : simpl never.
Local Arguments Wire.decode : simpl never.
Local Arguments firstn : simpl never.
Local Arguments skipn : simpl never.
Local Arguments Remote.only : simpl never.

Lemma expected_app (b1 b2 : list dlv) : expected (b1 ++ b2) = expected b1 ++ expected b2.
Proof.
  induction b1 as [|d b1 IH]; cbn; [reflexivity|].
  destruct (tyname_of (s_msg d)); [|assumption].
  destruct (serialisable tyname_of ser (s_msg d)); cbn; [f_equal|]; assumption.
Qed.

Lemma decode_encode (b : list dlv) :
  delivered (decode deser (encode tyname_of ser b)) = expected b.
Proof. rewrite (roundtrip tyname_of ser deser codec b). reflexivity. Qed.

Lemma upd_same (t : str -> ast) a x : upd t a x a = x.
Proof. unfold upd. destruct (str_dec a a); [reflexivity|congruence]. Qed.

Lemma upd_other (t : str -> ast) a b x : b <> a -> upd t a x b = t b.
Proof. unfold upd. intros H. destruct (str_dec b a); [congruence|reflexivity]. Qed.

Lemma rq_for_app a (q1 q2 : list (rmsg value)) : rq_for a (q1 ++ q2) = rq_for a q1 ++ rq_for a q2.
Proof.
  induction q1 as [|[d|b] q1 IH]; cbn; [reflexivity| |assumption].
  destruct (str_dec (addr_of d) a); cbn; [f_equal|]; assumption.
Qed.

Lemma run_app ops1 ops2 (s : dstate) : run (ops1 ++ ops2) s = run ops2 (run ops1 s).
Proof. unfold Remote.run. apply fold_left_app. Qed.

Lemma sent_to_app a (o1 o2 : list op) : sent_to a (o1 ++ o2) = sent_to a o1 ++ sent_to a o2.
Proof.
  induction o1 as [|o o1 IH]; cbn; [reflexivity|].
  destruct o; try assumption. destruct (str_dec (addr_of d) a); cbn; [f_equal|]; assumption.
Qed.

(** ** effect of one router step on a message for another address *)

Lemma spawn_other (s : dstate) a b : b <> a -> tab (spawn s a) b = tab s b.
Proof.
  intros H. unfold spawn. destruct (a_w (tab s a)); [|cbn; now rewrite upd_other].
  destruct (a_peer (tab s a)); cbn; rewrite !upd_other by assumption; reflexivity.
Qed.

Lemma spawn_rq (s : dstate) a :
  rq (spawn s a) = rq s \/ rq (spawn s a) = rq s ++ [RUnreach a].
Proof.
  unfold spawn. destruct (a_w (tab s a)); [|left; reflexivity].
  destruct (a_peer (tab s a)); cbn; auto.
Qed.

Lemma hand_other (s : dstate) a b d : b <> a -> tab (hand s a d) b = tab s b.
Proof.
  intros H. unfold hand. destruct (a_w (tab s a)); cbn; [reflexivity|now rewrite upd_other].
Qed.

Lemma hand_rq (s : dstate) a d : rq (hand s a d) = rq s.
Proof. unfold hand. destruct (a_w (tab s a)); reflexivity. Qed.

Lemma flow_ext (s s' : dstate) a :
  tab s' a = tab s a -> rq_for a (rq s') = rq_for a (rq s) -> flow s' a = flow s a.
Proof. unfold Remote.flow. intros -> ->. reflexivity. Qed.

(* an operation that has nothing to do with [a] leaves [a]'s row, the
   deliveries for [a] queued at the router and the events for [a] queued at the
   router alone *)
Definition concerns (a : str) (o : op) (s : dstate) : Prop :=
  match o with
  | OSend d => addr_of d = a
  | ORouter => match rq s with
               | RDeliver d :: _ => addr_of d = a
               | RUnreach b :: _ => b = a
               | [] => False
               end
  | OWriter b _ | OReader b | ODrop b | OPeer b _ => b = a
  end.

Lemma concerns_dec a o s : {concerns a o s} + {~ concerns a o s}.
Proof.
  destruct o; cbn; try apply str_dec.
  destruct (rq s) as [|[d|b] q]; [right; tauto|apply str_dec|apply str_dec].
Qed.

Lemma frame (s : dstate) a o : ~ concerns a o s ->
  tab (exec s o) a = tab s a /\ rq_for a (rq (exec s o)) = rq_for a (rq s) /\
  (In (RUnreach a) (rq (exec s o)) <-> In (RUnreach a) (rq s)) /\
  only a (dead (exec s o)) = only a (dead s) /\
  filter (fun b => if str_dec b a then true else false) (evs (exec s o)) =
  filter (fun b => if str_dec b a then true else false) (evs s).
Proof.
  intros Hc. destruct o as [d| |b n|b|b|b v]; cbn in Hc |- *.
  - (* OSend *)
    rewrite rq_for_app; cbn. destruct (str_dec (addr_of d) a); [contradiction|].
    rewrite app_nil_r. repeat split; auto.
    + intros H; apply in_app_or in H as [H|[H|[]]]; [assumption|discriminate].
    + intros H; apply in_or_app; auto.
  - (* ORouter *)
    unfold Remote.router_step. destruct (rq s) as [|[d|b] q] eqn:Eq; [rewrite Eq; repeat split; auto| |].
    + set (b := addr_of d) in *.
      assert (Hs2 : forall s2 : dstate, tab s2 a = tab s a ->
                (rq s2 = q \/ rq s2 = q ++ [RUnreach b]) ->
                dead s2 = dead s -> (evs s2 = evs s \/ evs s2 = evs s ++ [b]) ->
                tab (hand s2 b d) a = tab s a /\
                rq_for a (rq (hand s2 b d)) = rq_for a (RDeliver d :: q) /\
                (In (RUnreach a) (rq (hand s2 b d)) <-> In (RUnreach a) (RDeliver d :: q)) /\
                only a (dead (hand s2 b d)) = only a (dead s) /\
                filter (fun b => if str_dec b a then true else false) (evs (hand s2 b d)) =
                filter (fun b => if str_dec b a then true else false) (evs s)).
      { intros s2 Ht Hq Hd He. rewrite hand_other by (intro; apply Hc; congruence). rewrite hand_rq.
        cbn [rq_for]. fold b. destruct (str_dec b a) as [E|_]; [contradiction|].
        split; [assumption|]. split.
        { destruct Hq as [->| ->]; [reflexivity|]. rewrite rq_for_app; cbn. now rewrite app_nil_r. }
        split.
        { destruct Hq as [->| ->]; cbn.
          - split; [auto|intros [H|H]; [discriminate|assumption]].
          - split.
            + intros H; apply in_app_or in H as [H|[H|[]]]; [auto|]. injection H as H. contradiction.
            + intros [H|H]; [discriminate|]. apply in_or_app; auto. }
        assert (Hev : filter (fun b => if str_dec b a then true else false) (evs s2) =
                      filter (fun b => if str_dec b a then true else false) (evs s)).
        { destruct He as [->| ->]; [reflexivity|]. rewrite filter_app; cbn.
          destruct (str_dec b a); [contradiction|]. now rewrite app_nil_r. }
        unfold hand. destruct (a_w (tab s2 b)); cbn.
        - rewrite Hd. unfold only. rewrite filter_app; cbn. fold b.
          destruct (str_dec b a); [contradiction|]. rewrite app_nil_r. auto.
        - rewrite Hd. auto. }
      destruct (a_streams (tab (with_rq s q) b)).
      * apply Hs2; cbn; auto.
      * apply Hs2.
        -- rewrite spawn_other by (intro; apply Hc; congruence). reflexivity.
        -- apply (spawn_rq (with_rq s q) b).
        -- unfold spawn; cbn. destruct (a_w (tab s b)); [|reflexivity]. destruct (a_peer (tab s b)); reflexivity.
        -- unfold spawn; cbn. destruct (a_w (tab s b)); [|auto]. destruct (a_peer (tab s b)); cbn; auto.
    + cbn. rewrite upd_other by (intro; apply Hc; congruence). repeat split; auto.
      intros [H|H]; [injection H as H; contradiction|assumption].
  - (* OWriter *)
    unfold writer_step. destruct (a_w (tab s b)) as [|[|d ib]]; try (repeat split; auto; fail).
    cbn. rewrite upd_other by congruence. repeat split; auto.
  - unfold reader_step. destruct (a_link (tab s b)); [repeat split; auto|].
    cbn. rewrite upd_other by congruence. repeat split; auto.
  - unfold drop_step. destruct (a_w (tab s b)); [repeat split; auto|]. cbn.
    rewrite upd_other by congruence. rewrite rq_for_app; cbn. rewrite app_nil_r.
    rewrite !filter_app; cbn. destruct (str_dec b a); [contradiction|]. rewrite app_nil_r.
    repeat split; auto.
    + intros H; apply in_app_or in H as [H|[H|[]]]; [auto|]. injection H as H; contradiction.
    + intros H; apply in_or_app; auto.
  - cbn. rewrite upd_other by congruence. repeat split; auto.
Qed.

Lemma sent_to_unconcerned a (o : op) (s : dstate) : ~ concerns a o s -> sent_to a [o] = [].
Proof.
  destruct o; cbn; try reflexivity. intros H. destruct (str_dec (addr_of d) a); [contradiction|reflexivity].
Qed.

(** ** while the connection is up: the pipe from Remote.Send to the peer's actors *)

Definition pipe (a : str) (g0 : list (delivery value)) (sent : list dlv) (s : dstate) : Prop :=
  a_peer (tab s a) = true /\
  (a_streams (tab s a) = false -> a_w (tab s a) = WAbsent) /\
  (a_streams (tab s a) = true -> exists ib, a_w (tab s a) = WUp ib) /\
  ~ In (RUnreach a) (rq s) /\
  flow s a = g0 ++ expected sent.

Lemma in_link_snoc (x : ast) l e :
  a_link x = l ++ [e] -> in_link x = flat_map (fun e => delivered (decode deser e)) l ++ delivered (decode deser e).
Proof. unfold Remote.in_link. intros ->. rewrite flat_map_app. cbn. now rewrite app_nil_r. Qed.

Lemma pipe_step a g0 sent (s : dstate) (o : op) :
  pipe a g0 sent s -> up_op a o -> pipe a g0 (sent ++ sent_to a [o]) (exec s o).
Proof.
  intros HP [Hnd Hnp]. pose proof HP as (Hp & Hf & Ht & Hu & Hfl).
  destruct (concerns_dec a o s) as [Hc|Hc].
  2:{ destruct (frame s a o Hc) as (E1 & E2 & E3 & _).
      rewrite (sent_to_unconcerned a o s Hc), app_nil_r. unfold pipe. rewrite E1.
      repeat split; auto; [tauto|]. rewrite (flow_ext s (exec s o) a E1 E2). assumption. }
  destruct o as [d| |b n|b|b|b v]; cbn in Hc.
  - (* OSend *)
    cbn. destruct (str_dec (addr_of d) a); [|contradiction]. unfold pipe; cbn.
    repeat split; auto.
    + intros H; apply in_app_or in H as [H|[H|[]]]; [auto|discriminate].
    + unfold Remote.flow in *; cbn. rewrite rq_for_app, !expected_app; cbn.
      destruct (str_dec (addr_of d) a); [|contradiction].
      rewrite !app_assoc in *. rewrite Hfl. reflexivity.
  - (* ORouter *)
    cbn [sent_to]; rewrite app_nil_r. cbn [Remote.exec]. unfold Remote.router_step.
    destruct (rq s) as [|[d|b] q] eqn:Eq; [contradiction| |].
    2:{ subst b. exfalso; apply Hu; left; reflexivity. }
    rewrite Hc.
    assert (Hu' : ~ In (RUnreach a) q) by (intro; apply Hu; right; assumption).
    unfold Remote.flow in Hfl. rewrite Eq in Hfl. cbn [rq_for] in Hfl.
    destruct (str_dec (addr_of d) a) as [_|]; [|contradiction].
    cbn [tab with_rq]. destruct (a_streams (tab s a)) eqn:Es.
    + destruct (Ht eq_refl) as [ib Ew]. unfold hand; cbn [tab with_rq]. rewrite Ew.
      unfold pipe, Remote.flow; cbn. rewrite upd_same; cbn.
      split; [assumption|]. split; [intros; congruence|]. split; [eauto|]. split; [assumption|].
      unfold Remote.in_link, inbox_of in *; cbn. rewrite Ew in Hfl. rewrite expected_app.
      cbn [Wire.expected] in *. rewrite <- Hfl. rewrite <- !app_assoc.
      do 2 f_equal. f_equal.
      destruct (tyname_of (s_msg d)); [|reflexivity].
      destruct (serialisable tyname_of ser (s_msg d)); reflexivity.
    + specialize (Hf eq_refl). unfold spawn; cbn [tab with_rq]. rewrite Hf, Hp.
      unfold hand, at_addr; cbn [tab with_tab with_rq]. rewrite upd_same; cbn.
      unfold pipe, Remote.flow; cbn. rewrite !upd_same; cbn.
      repeat split; auto; [discriminate|eauto|].
      unfold Remote.in_link, inbox_of in *; cbn. rewrite Hf in Hfl. cbn in Hfl.
      rewrite <- Hfl. do 2 f_equal.
      destruct (tyname_of (s_msg d)); [|reflexivity].
      destruct (serialisable tyname_of ser (s_msg d)); reflexivity.
  - (* OWriter *)
    subst b. cbn [sent_to]; rewrite app_nil_r. cbn. unfold writer_step.
    destruct (a_w (tab s a)) as [|[|d ib]] eqn:Ew in |- *; try exact HP.
    unfold pipe, Remote.flow; cbn [tab at_addr with_tab rq]. rewrite upd_same; cbn.
    split; [assumption|]. split; [intros H; specialize (Hf H); congruence|]. split; [eauto|]. split; [assumption|].
    unfold Remote.flow, Remote.in_link, inbox_of in *; cbn. rewrite Ew in Hfl.
    rewrite flat_map_app; cbn. rewrite app_nil_r, decode_encode.
    rewrite <- Hfl. rewrite <- !app_assoc. do 2 f_equal.
    rewrite !app_assoc. f_equal. rewrite <- expected_app.
    now rewrite firstn_skipn.
  - (* OReader *)
    subst b. cbn [sent_to]; rewrite app_nil_r. cbn. unfold reader_step.
    destruct (a_link (tab s a)) as [|e l] eqn:El in |- *; [exact HP|].
    unfold pipe, Remote.flow; cbn [tab at_addr with_tab rq]. rewrite upd_same; cbn.
    repeat split; auto.
    unfold Remote.flow, Remote.in_link, inbox_of in *; cbn. rewrite El in Hfl. cbn in Hfl.
    rewrite <- Hfl. rewrite <- !app_assoc. reflexivity.
  - subst b. exfalso; apply Hnd; reflexivity.
  - subst b. destruct v; [|exfalso; apply Hnp; reflexivity].
    cbn [sent_to]; rewrite app_nil_r. unfold pipe, Remote.flow; cbn. rewrite upd_same; cbn.
    repeat split; auto.
Qed.

Lemma pipe_run a g0 ops : forall sent (s : dstate),
  pipe a g0 sent s -> Forall (up_op a) ops -> pipe a g0 (sent ++ sent_to a ops) (run ops s).
Proof.
  induction ops as [|o ops IH]; intros sent s HP HF.
  - cbn. now rewrite app_nil_r.
  - inversion HF as [|? ? Ho HF']; subst.
    rewrite (sent_to_app a [o] ops : sent_to a (o :: ops) = _), app_assoc.
    change (run (o :: ops) s) with (run ops (exec s o)).
    apply IH; [|assumption]. apply pipe_step; assumption.
Qed.

(* while the pipe is up nothing for [a] becomes a dead letter or is dropped *)
Lemma pipe_no_loss a g0 sent (s : dstate) (o : op) :
  pipe a g0 sent s -> up_op a o ->
  only a (dead (exec s o)) = only a (dead s) /\ a_lost (tab (exec s o) a) = a_lost (tab s a).
Proof.
  intros (Hp & Hf & Ht & Hu & Hfl) [Hnd Hnp].
  destruct (concerns_dec a o s) as [Hc|Hc].
  2:{ destruct (frame s a o Hc) as (E1 & _ & _ & E4 & _). now rewrite E1, E4. }
  destruct o as [d| |b n|b|b|b v]; cbn in Hc.
  - cbn. auto.
  - cbn [Remote.exec]. unfold Remote.router_step.
    destruct (rq s) as [|[d|b] q] eqn:Eq; [contradiction| |].
    2:{ subst b. exfalso; apply Hu; left; reflexivity. }
    rewrite Hc. cbn [tab with_rq]. destruct (a_streams (tab s a)) eqn:Es.
    + destruct (Ht eq_refl) as [ib Ew]. unfold hand; cbn [tab with_rq]. rewrite Ew. cbn. now rewrite upd_same.
    + specialize (Hf eq_refl). unfold spawn; cbn [tab with_rq]. rewrite Hf, Hp.
      unfold hand, at_addr; cbn [tab with_tab with_rq]. rewrite upd_same; cbn. now rewrite upd_same.
  - subst b. cbn. unfold writer_step. destruct (a_w (tab s a)) as [|[|d ib]]; auto. cbn. now rewrite upd_same.
  - subst b. cbn. unfold reader_step. destruct (a_link (tab s a)); auto. cbn. now rewrite upd_same.
  - subst b. exfalso; apply Hnd; reflexivity.
  - subst b. cbn. now rewrite upd_same.
Qed.

Lemma pipe_run_no_loss a g0 ops : forall sent (s : dstate),
  pipe a g0 sent s -> Forall (up_op a) ops ->
  only a (dead (run ops s)) = only a (dead s) /\ a_lost (tab (run ops s) a) = a_lost (tab s a).
Proof.
  induction ops as [|o ops IH]; intros sent s HP HF; [cbn; auto|].
  change (run (o :: ops) s) with (run ops (exec s o)).
  inversion HF as [|? ? Ho HF']; subst.
  destruct (pipe_no_loss a g0 sent s o HP Ho) as [E1 E2].
  destruct (IH _ _ (pipe_step a g0 sent s o HP Ho) HF') as [E3 E4]. split; congruence.
Qed.

(* the router has nothing in hand for [a], has no entry for it, no writer is
   registered for it and nothing is in flight: the state before a first send
   to [a], and the state after an unreachable episode is over *)
Definition fresh (a : str) (s : dstate) : Prop :=
  a_streams (tab s a) = false /\ a_w (tab s a) = WAbsent /\
  router_quiet s a /\ a_link (tab s a) = [].

Lemma fresh_pipe a (s : dstate) : fresh a s -> pipe a (a_got (tab s a)) [] (exec s (OPeer a true)).
Proof.
  intros (Hs & Hw & [Hq Hu] & Hl). unfold pipe, Remote.flow; cbn. rewrite upd_same; cbn.
  unfold Remote.in_link, inbox_of; cbn. rewrite Hs, Hw, Hq, Hl. cbn.
  repeat split; auto; discriminate.
Qed.

(* C17, first clause.  From a state in which nothing is under way for node [a]
   (in particular the initial one), once [a] is reachable and for as long as the
   connection stays up: however senders, router, writer and reader interleave
   and however the writer's batches form, what the reader at [a] has delivered
   followed by what the pipe still holds is exactly one delivery per
   (serialisable) message handed to Remote.Send for [a], in the order of the
   sends, each with its own target, sender and payload ([expected], C15); none
   of them became a dead letter or was dropped. *)
Theorem up_exactly_once_in_order (s0 : dstate) (a : str) (ops : list op) :
  fresh a s0 -> Forall (up_op a) ops ->
  let s := run ops (exec s0 (OPeer a true)) in
  flow s a = a_got (tab s0 a) ++ expected (sent_to a ops) /\
  (drained s a -> a_got (tab s a) = a_got (tab s0 a) ++ expected (sent_to a ops)) /\
  only a (dead s) = only a (dead s0) /\ a_lost (tab s a) = a_lost (tab s0 a).
Proof.
  intros Hf HF s. pose proof (fresh_pipe a s0 Hf) as HP.
  destruct (pipe_run a _ ops [] _ HP HF) as (_ & _ & _ & _ & Hfl).
  change ([] ++ sent_to a ops) with (sent_to a ops) in Hfl. fold s in Hfl.
  destruct (pipe_run_no_loss a _ ops [] _ HP HF) as [E1 E2]. fold s in E1, E2.
  split; [assumption|]. split.
  - intros (Hq & Hi & Hl). unfold Remote.flow, Remote.in_link in Hfl. rewrite Hq, Hi, Hl in Hfl. cbn in Hfl.
    now rewrite !app_nil_r in Hfl.
  - split; [rewrite E1; reflexivity|]. rewrite E2. cbn. now rewrite upd_same.
Qed.

(* the same from a state in which [a] is already reachable *)
Lemma ready_pipe a (s : dstate) : fresh a s -> a_peer (tab s a) = true -> pipe a (a_got (tab s a)) [] s.
Proof.
  intros (Hs & Hw & [Hq Hu] & Hl) Hp. unfold pipe, Remote.flow.
  unfold Remote.in_link, inbox_of. rewrite Hs, Hw, Hq, Hl, Hp. cbn.
  repeat split; auto; discriminate.
Qed.

Lemma up_from_ready (s0 : dstate) (a : str) (ops : list op) :
  fresh a s0 -> a_peer (tab s0 a) = true -> Forall (up_op a) ops ->
  let s := run ops s0 in
  drained s a -> a_got (tab s a) = a_got (tab s0 a) ++ expected (sent_to a ops).
Proof.
  intros Hf Hp HF s (Hq & Hi & Hl).
  destruct (pipe_run a _ ops [] _ (ready_pipe a s0 Hf Hp) HF) as (_ & _ & _ & _ & Hfl).
  change ([] ++ sent_to a ops) with (sent_to a ops) in Hfl. fold s in Hfl.
  unfold Remote.flow, Remote.in_link in Hfl. rewrite Hq, Hi, Hl in Hfl. cbn in Hfl.
  now rewrite !app_nil_r in Hfl.
Qed.

Lemma fresh0 a : fresh a (dstate0 : dstate).
Proof. unfold fresh, router_quiet, unreach_in; cbn. repeat split; auto. Qed.

(** ** what holds of every reachable state: the router's table, the registry
    and the events on their way to the router agree (Shutdown being one step
    here, there is no black hole in this machine; the interleaving machine
    below asks the question again with Shutdown cut into its statements) *)

Definition is_unreach (a : str) (m : rmsg value) : bool :=
  match m with RUnreach b => if str_dec b a then true else false | RDeliver _ => false end.
Definition nun (a : str) (q : list (rmsg value)) : nat := length (filter (is_unreach a) q).
Local Arguments nun : simpl never.

Lemma nun_app a q1 q2 : nun a (q1 ++ q2) = nun a q1 + nun a q2.
Proof. unfold nun. now rewrite filter_app, app_length. Qed.

Lemma nun_In a q : In (RUnreach a) q <-> 0 < nun a q.
Proof.
  unfold nun. induction q as [|m q IH]; cbn; [split; [tauto|lia]|].
  destruct m as [d|b]; cbn.
  - rewrite <- IH. split; [intros [H|H]; [discriminate|assumption]|auto].
  - destruct (str_dec b a) as [->|Hn]; cbn.
    + split; [lia|auto].
    + rewrite <- IH. split; [intros [H|H]; [congruence|assumption]|auto].
Qed.

Lemma nun_unreach_self a : nun a [RUnreach a] = 1.
Proof. unfold nun; cbn. destruct (str_dec a a); [reflexivity|congruence]. Qed.

Lemma nun_unreach_other a b : b <> a -> nun a [RUnreach b] = 0.
Proof. intros H. unfold nun; cbn. destruct (str_dec b a); [congruence|reflexivity]. Qed.

Lemma frame_nun (s : dstate) a o : ~ concerns a o s -> nun a (rq (exec s o)) = nun a (rq s).
Proof.
  intros Hc. destruct o as [d| |b n|b|b|b v]; cbn in Hc |- *.
  - rewrite nun_app. unfold nun at 2; cbn. lia.
  - unfold Remote.router_step. destruct (rq s) as [|[d|b] q] eqn:Eq; [now rewrite Eq| |].
    + rewrite hand_rq. change (nun a (RDeliver d :: q)) with (nun a q).
      destruct (a_streams (tab (with_rq s q) (addr_of d))); [reflexivity|].
      destruct (spawn_rq (with_rq s q) (addr_of d)) as [->| ->]; [reflexivity|].
      cbn. rewrite nun_app, nun_unreach_other by assumption. lia.
    + cbn. unfold nun; cbn. destruct (str_dec b a); [contradiction|reflexivity].
  - unfold writer_step. destruct (a_w (tab s b)) as [|[|d ib]]; reflexivity.
  - unfold reader_step. destruct (a_link (tab s b)); reflexivity.
  - unfold drop_step. destruct (a_w (tab s b)); [reflexivity|]. cbn.
    rewrite nun_app, nun_unreach_other by assumption. lia.
  - reflexivity.
Qed.

Definition ginv_at (a : str) (s : dstate) : Prop :=
  (a_streams (tab s a) = false -> a_w (tab s a) = WAbsent) /\
  (In (RUnreach a) (rq s) -> a_streams (tab s a) = true /\ a_w (tab s a) = WAbsent) /\
  (a_streams (tab s a) = true -> a_w (tab s a) = WAbsent -> In (RUnreach a) (rq s)) /\
  nun a (rq s) <= 1.
Definition ginv (s : dstate) : Prop := forall a, ginv_at a s.

Lemma ginv0 : ginv dstate0.
Proof. intros a. unfold ginv_at; cbn. repeat split; auto; try tauto; try discriminate. Qed.

Lemma ginv_step (s : dstate) (o : op) : ginv s -> ginv (exec s o).
Proof.
  intros G a. pose proof (G a) as (G1 & G3 & G4 & G2).
  destruct (concerns_dec a o s) as [Hc|Hc].
  2:{ destruct (frame s a o Hc) as (E1 & _ & E3 & _). unfold ginv_at.
      rewrite E1, (frame_nun s a o Hc). rewrite !E3. auto. }
  destruct o as [d| |b n|b|b|b v]; cbn in Hc.
  - (* OSend *)
    unfold ginv_at; cbn. rewrite nun_app. unfold nun at 2; cbn.
    assert (Hi : In (RUnreach a) (rq s ++ [RDeliver d]) <-> In (RUnreach a) (rq s)).
    { split; [intros H; apply in_app_or in H as [H|[H|[]]]; [assumption|discriminate]|intros; apply in_or_app; auto]. }
    rewrite !Hi. repeat split; auto; try apply G3; auto; lia.
  - (* ORouter *)
    cbn [Remote.exec]. unfold Remote.router_step.
    destruct (rq s) as [|[d|b] q] eqn:Eq; [contradiction| |].
    + (* a streamDeliver for a *)
      rewrite Hc. cbn [tab with_rq].
      change (nun a (RDeliver d :: q)) with (nun a q) in G2.
      assert (Hq : In (RUnreach a) q -> In (RUnreach a) (RDeliver d :: q)) by (intros; right; assumption).
      assert (Hq' : In (RUnreach a) (RDeliver d :: q) -> In (RUnreach a) q) by (intros [H|H]; [discriminate|assumption]).
      destruct (a_streams (tab s a)) eqn:Es.
      * unfold hand; cbn [tab with_rq]. destruct (a_w (tab s a)) as [|ib] eqn:Ew.
        -- unfold ginv_at; cbn. rewrite Es, Ew. repeat split; auto.
        -- unfold ginv_at; cbn. rewrite upd_same; cbn. rewrite Es.
           split; [discriminate|]. split; [intros H; destruct (G3 (Hq H)); discriminate|].
           split; [discriminate|assumption].
      * pose proof (G1 eq_refl) as Ew.
        assert (Hn : ~ In (RUnreach a) q) by (intros H; destruct (G3 (Hq H)); discriminate).
        unfold spawn; cbn [tab with_rq]. rewrite Ew.
        destruct (a_peer (tab s a)) eqn:Ep.
        -- unfold hand, at_addr; cbn [tab with_tab with_rq]. rewrite upd_same; cbn.
           unfold ginv_at; cbn. rewrite upd_same; cbn.
           split; [discriminate|]. split; [tauto|]. split; [discriminate|assumption].
        -- unfold hand, at_addr, shutdown_now; cbn [tab with_tab with_rq rq dead evs dups].
           rewrite !upd_same; cbn. unfold ginv_at; cbn. rewrite !upd_same; cbn.
           split; [discriminate|]. split; [auto|]. split; [intros; apply in_or_app; right; left; reflexivity|].
           rewrite nun_app, nun_unreach_self. apply nun_In in Hn || idtac.
           assert (nun a q = 0) by (destruct (nun a q) eqn:E; [reflexivity|exfalso; apply Hn, nun_In; lia]). lia.
    + (* the event for a *)
      subst b. destruct (G3 (or_introl eq_refl)) as [Es Ew].
      unfold ginv_at; cbn. rewrite upd_same; cbn.
      assert (Hn : nun a q = 0).
      { unfold nun in G2; cbn in G2. destruct (str_dec a a); [|congruence]. cbn in G2. unfold nun. lia. }
      split; [auto|]. split; [intros H; apply nun_In in H; lia|]. split; [discriminate|lia].
  - (* OWriter *)
    subst b. cbn. unfold writer_step. destruct (a_w (tab s a)) as [|[|d ib]] eqn:Ew; try exact (G a).
    unfold ginv_at; cbn. rewrite upd_same; cbn.
    split; [intros H; specialize (G1 H); discriminate|].
    split; [intros H; destruct (G3 H); discriminate|]. split; [discriminate|assumption].
  - (* OReader *)
    subst b. cbn. unfold reader_step. destruct (a_link (tab s a)); [exact (G a)|].
    unfold ginv_at; cbn. rewrite upd_same; cbn. auto.
  - (* ODrop *)
    subst b. cbn. unfold drop_step. destruct (a_w (tab s a)) as [|ib] eqn:Ew; [exact (G a)|].
    assert (Es : a_streams (tab s a) = true) by (destruct (a_streams (tab s a)); [reflexivity|specialize (G1 eq_refl); discriminate]).
    assert (Hn : ~ In (RUnreach a) (rq s)) by (intros H; destruct (G3 H); discriminate).
    unfold ginv_at, shutdown_now; cbn. rewrite upd_same; cbn.
    split; [auto|]. split; [auto|]. split; [intros; apply in_or_app; right; left; reflexivity|].
    rewrite nun_app, nun_unreach_self.
    assert (nun a (rq s) = 0) by (destruct (nun a (rq s)) eqn:E; [reflexivity|exfalso; apply Hn, nun_In; lia]). lia.
  - (* OPeer *)
    subst b. unfold ginv_at; cbn. rewrite upd_same; cbn. auto.
Qed.

Lemma ginv_run ops : forall (s : dstate), ginv s -> ginv (run ops s).
Proof.
  induction ops as [|o ops IH]; intros s G; [assumption|].
  change (run (o :: ops) s) with (run ops (exec s o)). apply IH, ginv_step, G.
Qed.

(* in every reachable state: when the router has nothing in hand for [a], its
   table has an entry for [a] exactly if a connected writer is registered *)
Theorem det_no_blackhole (ops : list op) (a : str) :
  let s := run ops dstate0 in
  router_quiet s a ->
  (a_streams (tab s a) = true -> exists ib, a_w (tab s a) = WUp ib) /\
  (a_streams (tab s a) = false -> a_w (tab s a) = WAbsent).
Proof.
  intros s [_ Hu]. destruct (ginv_run ops dstate0 ginv0 a) as (G1 & G3 & G4 & _). fold s in G1, G3, G4.
  split; [|assumption]. intros Es. destruct (a_w (tab s a)) as [|ib] eqn:Ew; [|eauto].
  exfalso. apply Hu. apply G4; auto.
Qed.

(** ** the peer cannot be reached *)

(* the step in which the router handles the first message for an unreachable
   node: the writer's three dials fail, Shutdown runs on the spot *)
Lemma unreachable_step (s : dstate) a d q :
  rq s = RDeliver d :: q -> addr_of d = a ->
  a_streams (tab s a) = false -> a_w (tab s a) = WAbsent -> a_peer (tab s a) = false ->
  let s1 := exec s ORouter in
  evs s1 = evs s ++ [a] /\ rq s1 = q ++ [RUnreach a] /\ dead s1 = dead s ++ [d] /\
  a_streams (tab s1 a) = true /\ a_w (tab s1 a) = WAbsent /\ a_peer (tab s1 a) = false /\
  a_lost (tab s1 a) = a_lost (tab s a) /\ dups s1 = dups s.
Proof.
  intros Eq Ha Es Ew Ep. cbn. unfold Remote.router_step. rewrite Eq, Ha. cbn [tab with_rq]. rewrite Es.
  unfold spawn; cbn [tab with_rq]. rewrite Ew, Ep.
  unfold hand, at_addr, shutdown_now; cbn [tab with_tab with_rq rq dead evs dups]. rewrite !upd_same; cbn.
  rewrite ?upd_same; cbn. rewrite ?Ep, ?app_nil_r. repeat split; auto.
Qed.

Lemma only_app a (l1 l2 : list dlv) : only a (l1 ++ l2) = only a l1 ++ only a l2.
Proof. unfold only. apply filter_app. Qed.

Lemma only_one a (d : dlv) : addr_of d = a -> only a [d] = [d].
Proof. intros H. unfold only; cbn. destruct (str_dec (addr_of d) a); [reflexivity|contradiction]. Qed.

(* while the peer stays unreachable: every message for it is either still
   queued at the router or has become a dead letter, in order; none is dropped
   silently, no writer stays registered *)
Definition down (a : str) (acc : list dlv) (s : dstate) : Prop :=
  a_peer (tab s a) = false /\ a_w (tab s a) = WAbsent /\
  only a (dead s) ++ rq_for a (rq s) = acc.

Lemma down_step a acc (s : dstate) (o : op) :
  down a acc s -> down_op a o ->
  down a (acc ++ sent_to a [o]) (exec s o) /\ a_lost (tab (exec s o) a) = a_lost (tab s a).
Proof.
  intros (Hp & Hw & Hacc) Hd.
  destruct (concerns_dec a o s) as [Hc|Hc].
  2:{ destruct (frame s a o Hc) as (E1 & E2 & _ & E4 & _).
      rewrite (sent_to_unconcerned a o s Hc), app_nil_r. unfold down. rewrite E1, E2, E4. auto. }
  destruct o as [d| |b n|b|b|b v]; cbn in Hc.
  - cbn. destruct (str_dec (addr_of d) a); [|contradiction]. unfold down; cbn.
    rewrite rq_for_app; cbn. destruct (str_dec (addr_of d) a); [|contradiction].
    rewrite app_assoc, Hacc. auto.
  - cbn [sent_to]; rewrite app_nil_r. cbn [Remote.exec]. unfold Remote.router_step.
    destruct (rq s) as [|[d|b] q] eqn:Eq; [contradiction| |].
    + rewrite Hc. cbn [tab with_rq]. cbn [rq_for] in Hacc.
      destruct (str_dec (addr_of d) a); [|contradiction].
      destruct (a_streams (tab s a)) eqn:Es.
      * unfold hand; cbn [tab with_rq]. rewrite Hw. unfold down; cbn. rewrite only_app, only_one by assumption.
        rewrite <- app_assoc. auto.
      * unfold spawn; cbn [tab with_rq]. rewrite Hw, Hp.
        unfold hand, at_addr, shutdown_now; cbn [tab with_tab with_rq rq dead evs dups]. rewrite !upd_same; cbn.
        unfold down; cbn. rewrite !upd_same; cbn. rewrite only_app, only_one by assumption.
        rewrite rq_for_app; cbn. rewrite !app_nil_r, <- app_assoc. auto.
    + subst b. unfold down; cbn. rewrite upd_same; cbn. auto.
  - subst b. cbn. unfold writer_step. rewrite Hw. cbn [sent_to]. rewrite app_nil_r. unfold down; auto.
  - subst b. cbn [sent_to]; rewrite app_nil_r. cbn. unfold reader_step.
    destruct (a_link (tab s a)); [unfold down; auto|]. unfold down; cbn. rewrite upd_same; cbn. auto.
  - subst b. cbn [sent_to]; rewrite app_nil_r. cbn. unfold drop_step. rewrite Hw. unfold down; auto.
  - subst b. destruct v; [exfalso; apply Hd; reflexivity|].
    cbn [sent_to]; rewrite app_nil_r. unfold down; cbn. rewrite upd_same; cbn. auto.
Qed.

Lemma down_run a ops : forall acc (s : dstate),
  down a acc s -> Forall (down_op a) ops ->
  down a (acc ++ sent_to a ops) (run ops s) /\ a_lost (tab (run ops s) a) = a_lost (tab s a).
Proof.
  induction ops as [|o ops IH]; intros acc s HD HF.
  - cbn. now rewrite app_nil_r.
  - inversion HF as [|? ? Ho HF']; subst.
    rewrite (sent_to_app a [o] ops : sent_to a (o :: ops) = _), app_assoc.
    change (run (o :: ops) s) with (run ops (exec s o)).
    destruct (down_step a acc s o HD Ho) as [HD1 E1].
    destruct (IH _ _ HD1 HF') as [HD2 E2]. split; [assumption|congruence].
Qed.

(* C17, second clause.  The router takes up a message [d] for a node [a] that
   it has no stream for and that cannot be reached.  In that very step the
   RemoteUnreachableEvent is broadcast and queued for the router itself
   (behind what was already waiting) and [d] becomes a dead letter.  From then
   on, for as long as the node stays unreachable and whatever else happens:
   the dead letters for [a], in order, followed by the messages for [a] still
   waiting at the router are exactly [d], the messages that were queued behind
   it and the messages handed to Remote.Send since — each surfaces once, none
   is dropped silently. *)
Theorem unreachable_reported (s : dstate) a d q (ops : list op) :
  rq s = RDeliver d :: q -> addr_of d = a ->
  a_streams (tab s a) = false -> a_w (tab s a) = WAbsent -> a_peer (tab s a) = false ->
  Forall (down_op a) ops ->
  let s1 := exec s ORouter in
  let s' := run ops s1 in
  evs s1 = evs s ++ [a] /\ rq s1 = q ++ [RUnreach a] /\
  only a (dead s') ++ rq_for a (rq s') = only a (dead s) ++ d :: rq_for a q ++ sent_to a ops /\
  a_lost (tab s' a) = a_lost (tab s a) /\ a_w (tab s' a) = WAbsent.
Proof.
  intros Eq Ha Es Ew Ep HF s1 s'.
  destruct (unreachable_step s a d q Eq Ha Es Ew Ep) as (E1 & E2 & E3 & E4 & E5 & E6 & E7 & _).
  fold s1 in E1, E2, E3, E4, E5, E6, E7.
  assert (HD : down a (only a (dead s) ++ d :: rq_for a q) s1).
  { unfold down. rewrite E6, E5, E3, E2, only_app, only_one, rq_for_app by assumption. cbn.
    rewrite app_nil_r, <- app_assoc. auto. }
  destruct (down_run a ops _ s1 HD HF) as [(H1 & H2 & H3) H4]. fold s' in H1, H2, H3, H4.
  repeat split; auto.
  - rewrite H3, <- app_assoc. reflexivity.
  - congruence.
Qed.

(* C17, third clause.  In any reachable state in which the router is done with
   [a] and has no entry for it (which is the state it is in after it handled
   the RemoteUnreachableEvent), the registry holds no writer for [a]; so once
   [a] is reachable the next message spawns a new writer, which dials, and from
   then on everything for [a] is delivered exactly once and in order. *)
Theorem fresh_attempt_after_unreachable (ops1 : list op) (a : str) (ops2 : list op) :
  let s := run ops1 dstate0 in
  router_quiet s a -> a_streams (tab s a) = false -> a_link (tab s a) = [] ->
  Forall (up_op a) ops2 ->
  let s' := run ops2 (exec s (OPeer a true)) in
  fresh a s /\
  flow s' a = a_got (tab s a) ++ expected (sent_to a ops2) /\
  (drained s' a -> a_got (tab s' a) = a_got (tab s a) ++ expected (sent_to a ops2)) /\
  only a (dead s') = only a (dead s) /\ a_lost (tab s' a) = a_lost (tab s a).
Proof.
  intros s Hq Hs Hl HF s'.
  assert (Hf : fresh a s).
  { unfold fresh. destruct (det_no_blackhole ops1 a Hq) as [_ Hw]. fold s in Hw. auto. }
  split; [assumption|]. exact (up_exactly_once_in_order s a ops2 Hf HF).
Qed.

(* the router does reach that state: the event is in its queue, handling it
   deletes the entry *)
Lemma unreach_handled (s : dstate) a q :
  rq s = RUnreach a :: q -> a_streams (tab (exec s ORouter) a) = false /\ rq (exec s ORouter) = q.
Proof. intros Eq. cbn. unfold Remote.router_step. rewrite Eq. cbn. now rewrite upd_same. Qed.

End det.

(** * 3. The interleaving machine: Shutdown against the router (D12) *)

Definition code : list sstep := shutdown_code Repaired.
Definition tailN : list sstep := [SNotify; SBroadcast; SClose; SStop].

Definition todo (s : rstate) (w : nat) : option (list sstep) := w_todo (ws s w).

(* statements that touch neither the registry nor the router *)
Definition safe (l : list sstep) : bool :=
  forallb (fun st => negb (sstep_eqb st SRemove) && negb (sstep_eqb st SNotify)) l.

(* writer [w] has told the router (and, before that, has unregistered) *)
Definition done_w (s : rstate) (w : nat) : Prop := exists l, todo s w = Some l /\ safe l = true.

Definition is_evt (m : qmsg) : bool := match m with QEvt => true | QDlv _ => false end.
Definition nevt (l : list qmsg) : nat := length (filter is_evt l).

(* Where the "token" is: the one thing that will make the router forget its
   entry for the address.  Nowhere (no entry, nothing registered), with a
   writer that has not notified the router yet (registered, or between its
   Remove and its notification), or in the router's inbox (the event). *)
Inductive tok := TNone | TW (w : nat) | TQ.

Definition tok_ok (s : rstate) (t : tok) : Prop :=
  match t with
  | TNone =>
      (forall w, w < nw s -> done_w s w) /\ nevt (q s) = 0 /\ reg s = None /\ has s = false /\
      (pc s = RIdle \/ exists n, pc s = RAdd n)
  | TW w =>
      w < nw s /\ (forall w', w' < nw s -> w' <> w -> done_w s w') /\ nevt (q s) = 0 /\
      ((reg s = Some w /\ (todo s w = None \/ todo s w = Some code)) \/
       (reg s = None /\ todo s w = Some tailN)) /\
      (todo s w = None -> (exists n, pc s = RDial n w) \/ w_conn (ws s w) = true) /\
      match pc s with
      | RIdle | RGet _ | RPush _ _ => has s = true
      | RAdd _ => False
      | RDial _ w' => w' = w /\ has s = false /\ reg s = Some w /\ todo s w = None /\ w_conn (ws s w) = false
      | RShut _ w' => w' = w /\ has s = false /\ todo s w <> None
      | RSet _ => has s = false
      end
  | TQ =>
      (forall w, w < nw s -> done_w s w) /\ nevt (q s) = 1 /\ reg s = None /\
      match pc s with
      | RIdle | RGet _ | RPush _ _ => has s = true
      | RAdd _ | RDial _ _ => False
      | RShut _ w => has s = false /\ w < nw s
      | RSet _ => has s = false
      end
  end.

Definition rinv (s : rstate) : Prop := rdups s = 0 /\ exists t, tok_ok s t.

Lemma rinv0 : rinv rstate0.
Proof. split; [reflexivity|]. exists TNone. cbn. repeat split; auto. intros w H; lia. Qed.

Lemma nevt_app l1 l2 : nevt (l1 ++ l2) = nevt l1 + nevt l2.
Proof. unfold nevt. now rewrite filter_app, app_length. Qed.

Lemma nevt_In l : In QEvt l <-> 0 < nevt l.
Proof.
  unfold nevt. induction l as [|[n|] l IH]; cbn.
  - split; [tauto|lia].
  - rewrite <- IH. split; [intros [H|H]; [discriminate|assumption]|auto].
  - split; [lia|auto].
Qed.

Lemma todo_st_w s w x v : todo (st_w s w x) v = if Nat.eqb v w then w_todo x else todo s v.
Proof. unfold todo, st_w, wupd; cbn. destruct (Nat.eqb v w); reflexivity. Qed.

Lemma conn_st_w s w x v : w_conn (ws (st_w s w x) v) = if Nat.eqb v w then w_conn x else w_conn (ws s v).
Proof. unfold st_w, wupd; cbn. destruct (Nat.eqb v w); reflexivity. Qed.

(* two states that differ only in what the invariant does not look at *)
Definition same_view (s s' : rstate) : Prop :=
  q s' = q s /\ pc s' = pc s /\ has s' = has s /\ reg s' = reg s /\ nw s' = nw s /\ rdups s' = rdups s /\
  forall v, todo s' v = todo s v /\ w_conn (ws s' v) = w_conn (ws s v).

Lemma same_view_ok s s' t : same_view s s' -> tok_ok s t -> tok_ok s' t.
Proof.
  intros (Eq & Epc & Eh & Er & En & _ & Ev) H.
  assert (Hd : forall w, done_w s w -> done_w s' w).
  { intros w [l [H1 H2]]. exists l. split; [|assumption]. now rewrite (proj1 (Ev w)). }
  destruct t as [|w|]; cbn in *; rewrite ?Eq, ?Epc, ?Eh, ?Er, ?En.
  - destruct H as (H1 & H2 & H3 & H4 & H5). repeat split; auto.
  - destruct H as (H1 & H2 & H3 & H4 & H5 & H6).
    rewrite !(proj1 (Ev w)), !(proj2 (Ev w)). repeat split; auto.
  - destruct H as (H1 & H2 & H3 & H4). repeat split; auto.
Qed.

Lemma same_view_inv s s' : same_view s s' -> rinv s -> rinv s'.
Proof.
  intros V [Hd [t Ht]]. split; [destruct V as (_ & _ & _ & _ & _ & E & _); congruence|].
  exists t. eapply same_view_ok; eassumption.
Qed.

Lemma same_view_refl s : same_view s s.
Proof. unfold same_view. repeat split; reflexivity. Qed.

Lemma st_w_same_view s w x :
  w_todo x = w_todo (ws s w) -> w_conn x = w_conn (ws s w) -> same_view s (st_w s w x).
Proof.
  intros E1 E2. unfold same_view. repeat split; try reflexivity.
  - rewrite todo_st_w. destruct (Nat.eqb_spec v w); subst; [assumption|reflexivity].
  - rewrite conn_st_w. destruct (Nat.eqb_spec v w); subst; [assumption|reflexivity].
Qed.

(* a worker step changes neither the queue, the router, the registry nor any
   writer's Shutdown progress *)
Lemma work_same_view s w : same_view s (work_step s w).
Proof.
  unfold work_step. destruct (w_pc (ws s w)) eqn:Ep.
  - destruct (w_inbox (ws s w)); [apply same_view_refl|].
    destruct (w_stopped (ws s w)); [apply same_view_refl|]. apply st_w_same_view; reflexivity.
  - apply st_w_same_view; reflexivity.
  - apply st_w_same_view; unfold w_sent; destruct (w_closed (ws s w)); reflexivity.
Qed.

Lemma do_sstep_fields s w st rest :
  let s' := do_sstep s w st rest in
  pc s' = pc s /\ has s' = has s /\ nw s' = nw s /\ rdups s' = rdups s /\
  q s' = (if sstep_eqb st SNotify then q s ++ [QEvt] else q s) /\
  reg s' = (if sstep_eqb st SRemove then None else reg s) /\
  (forall v, todo s' v = if Nat.eqb v w then Some rest else todo s v) /\
  (forall v, w_conn (ws s' v) = w_conn (ws s v)).
Proof.
  destruct st; cbn; repeat split; auto.
  all: intros v; unfold todo, st_q, st_reg, st_w, wupd; cbn.
  all: destruct (Nat.eqb_spec v w); subst; cbn; rewrite ?Nat.eqb_refl; cbn; reflexivity.
Qed.

Lemma safe_cons st rest : safe (st :: rest) = true ->
  sstep_eqb st SRemove = false /\ sstep_eqb st SNotify = false /\ safe rest = true.
Proof.
  unfold safe; cbn. rewrite !andb_true_iff, !negb_true_iff. tauto.
Qed.

Lemma code_not_safe : safe code = false. Proof. reflexivity. Qed.
Lemma tailN_not_safe : safe tailN = false. Proof. reflexivity. Qed.

(* a statement after the notification changes nothing the invariant looks at *)
Lemma safe_step_ok s t w st rest :
  todo s w = Some (st :: rest) -> safe (st :: rest) = true -> tok_ok s t -> tok_ok (do_sstep s w st rest) t.
Proof.
  intros Et Hs H. destruct (safe_cons _ _ Hs) as (N1 & N2 & Hr).
  destruct (do_sstep_fields s w st rest) as (Epc & Eh & En & _ & Eq & Er & Etd & Ec).
  rewrite N2 in Eq. rewrite N1 in Er.
  assert (Hd : forall v, done_w s v -> done_w (do_sstep s w st rest) v).
  { intros v [l [H1 H2]]. unfold done_w. rewrite Etd. destruct (Nat.eqb v w); eauto. }
  destruct t as [|w0|]; cbn in *; rewrite ?Eq, ?Epc, ?Eh, ?Er, ?En.
  - destruct H as (H1 & H2 & H3 & H4 & H5). repeat split; auto.
  - destruct H as (H1 & H2 & H3 & H4 & H5 & H6).
    assert (Hne : w <> w0).
    { intros ->. destruct H4 as [[_ [E|E]]|[_ E]]; rewrite E in Et; try discriminate;
        injection Et as Et; rewrite <- Et in Hs; discriminate. }
    rewrite !Etd, !Ec. destruct (Nat.eqb_spec w0 w) as [E|_]; [congruence|].
    repeat split; auto.
  - destruct H as (H1 & H2 & H3 & H4). repeat split; auto.
Qed.

(* one statement of Shutdown of writer [w], run by its own goroutine or by the
   router (dial failure), keeps the invariant *)
Lemma shut_step_inv s w :
  w < nw s -> rinv s -> rinv (shut_step s w).
Proof.
  intros Hw [Hdup [t Ht]]. unfold shut_step.
  destruct (todo s w) as [[|st rest]|] eqn:Et; unfold todo in Et; rewrite Et; try (split; eauto; fail).
  fold (todo s w) in Et.
  pose proof (do_sstep_fields s w st rest) as F. cbv zeta in F.
  remember (do_sstep s w st rest) as s' eqn:Es'.
  destruct F as (Epc & Eh & En & Edup & Eq & Er & Etd & Ec).
  split; [congruence|].
  destruct t as [|w0|].
  - (* no token: every writer is done *)
    pose proof Ht as (H1 & _). destruct (H1 w Hw) as [l [E1 E2]]. rewrite Et in E1; injection E1 as <-.
    exists TNone. subst s'. apply safe_step_ok; auto.
  - destruct (Nat.eq_dec w w0) as [->|Hne].
    + (* the writer holding the token *)
      pose proof Ht as (H1 & H2 & H3 & H4 & H5 & H6).
      destruct H4 as [[Hr [E|E]]|[Hr E]]; rewrite E in Et; try discriminate; injection Et as <- <-.
      * (* Remove *)
        exists (TW w0). cbn in Eq, Er. cbn [tok_ok]. rewrite Epc, Eh, En, Eq, Er, !Etd, !Ec, Nat.eqb_refl.
        split; [assumption|]. split.
        { intros w' Hw' Hn. destruct (H2 w' Hw' Hn) as [l [E1 E2]]. exists l. rewrite Etd.
          destruct (Nat.eqb_spec w' w0); [contradiction|auto]. }
        split; [assumption|]. split; [right; auto|]. split; [discriminate|].
        destruct (pc s); auto.
        -- destruct H6 as (-> & _ & _ & E' & _). unfold code in E; cbn in E. congruence.
        -- destruct H6 as (-> & Hh & _). repeat split; auto. discriminate.
      * (* the notification *)
        exists TQ. cbn in Eq, Er. cbn [tok_ok]. rewrite Epc, Eh, En, Eq, Er.
        split.
        { intros w' Hw'. unfold done_w. rewrite Etd. destruct (Nat.eqb_spec w' w0) as [->|Hn]; [eexists; split; reflexivity|].
          apply H2; assumption. }
        split; [rewrite nevt_app, H3; reflexivity|]. split; [assumption|].
        destruct (pc s); auto.
        -- destruct H6 as (-> & _ & _ & E' & _). unfold tailN in E. congruence.
        -- destruct H6 as (-> & Hh & _). auto.
    + (* another writer: it is done *)
      pose proof Ht as (H1 & H2 & _). destruct (H2 w Hw Hne) as [l [E1 E2]]. rewrite Et in E1; injection E1 as <-.
      exists (TW w0). subst s'. apply safe_step_ok; auto.
  - pose proof Ht as (H1 & _). destruct (H1 w Hw) as [l [E1 E2]]. rewrite Et in E1; injection E1 as <-.
    exists TQ. subst s'. apply safe_step_ok; auto.
Qed.

Lemma nevt_cons_dlv n l : nevt (QDlv n :: l) = nevt l. Proof. reflexivity. Qed.
Lemma nevt_cons_evt l : nevt (QEvt :: l) = S (nevt l). Proof. reflexivity. Qed.

Lemma done_w_st_pc s p w : done_w (st_pc s p) w <-> done_w s w. Proof. reflexivity. Qed.

(* one statement of the router keeps the invariant (repaired Shutdown) *)
Lemma router_inv s ok : rinv s -> rinv (router Repaired s ok).
Proof.
  intros I. pose proof I as [Hdup [t Ht]]. unfold router.
  destruct (pc s) eqn:Epc.
  - (* RIdle *)
    destruct (q s) as [|[n|] q'] eqn:Eq; [assumption| |].
    + (* a streamDeliver *)
      split; [assumption|]. exists t. destruct t as [|w|]; cbn in Ht |- *; rewrite Epc, Eq in Ht; rewrite ?nevt_cons_dlv in Ht.
      * destruct Ht as (H1 & H2 & H3 & H4 & H5). rewrite H4. repeat split; eauto.
      * destruct Ht as (H1 & H2 & H3 & H4 & H5 & H6). rewrite H6. repeat split; auto.
        intros E. destruct (H5 E) as [[m Hm]|]; [discriminate|auto].
      * destruct Ht as (H1 & H2 & H3 & H4). rewrite H4. repeat split; auto.
    + (* the event *)
      split; [assumption|]. exists TNone. destruct t as [|w|]; cbn in Ht |- *; rewrite Epc, Eq in Ht; rewrite ?nevt_cons_evt in Ht.
      * destruct Ht as (_ & H2 & _). discriminate.
      * destruct Ht as (_ & _ & H3 & _). discriminate.
      * destruct Ht as (H1 & H2 & H3 & H4). repeat split; auto.
  - (* RAdd *)
    destruct t as [|w|]; cbn in Ht; rewrite Epc in Ht; try (destruct Ht as (_ & _ & _ & _ & _ & []); fail);
      try (destruct Ht as (_ & _ & _ & []); fail).
    destruct Ht as (H1 & H2 & H3 & H4 & H5). rewrite H3.
    split; [assumption|]. exists (TW (nw s)). cbn. unfold todo, wupd; cbn. rewrite Nat.eqb_refl. cbn.
    split; [lia|]. split.
    { intros w' Hw' Hn. assert (Hlt : w' < nw s) by lia. destruct (H1 w' Hlt) as [l [E1 E2]].
      exists l. unfold todo; cbn. destruct (Nat.eqb_spec w' (nw s)); [contradiction|]. auto. }
    repeat split; eauto.
  - (* RDial *)
    destruct t as [|w0|]; cbn in Ht; rewrite Epc in Ht;
      try (destruct Ht as (_ & _ & _ & _ & [E|[m E]]); discriminate);
      try (destruct Ht as (_ & _ & _ & []); fail).
    destruct Ht as (H1 & H2 & H3 & H4 & H5 & (-> & Hh & Hr & Etd & Ec)).
    split; [destruct ok; assumption|]. exists (TW w0).
    assert (Hd : forall x w', w' <> w0 -> done_w s w' -> done_w (st_w s w0 x) w').
    { intros x w' Hn [l [E1 E2]]. exists l. rewrite todo_st_w. destruct (Nat.eqb_spec w' w0); [contradiction|auto]. }
    destruct ok; cbn [tok_ok]; cbn [q pc has reg nw st_pc st_w]; fold (todo s w0).
    + change (todo (st_pc (st_w s w0 (w_set_conn (ws s w0) true)) (RSet n)) w0) with
        (todo (st_w s w0 (w_set_conn (ws s w0) true)) w0).
      rewrite todo_st_w, Nat.eqb_refl. cbn [w_todo w_set_conn]. fold (todo s w0).
      split; [assumption|]. split; [intros w' Hw' Hn; apply Hd; auto|]. split; [assumption|].
      split; [left; auto|]. split; [|assumption].
      intros _. right. cbn. unfold wupd. now rewrite Nat.eqb_refl.
    + change (todo (st_pc (st_w s w0 (w_set_todo (ws s w0) (Some (shutdown_code Repaired)))) (RShut n w0)) w0) with
        (todo (st_w s w0 (w_set_todo (ws s w0) (Some code))) w0).
      rewrite todo_st_w, Nat.eqb_refl. cbn [w_todo w_set_todo].
      split; [assumption|]. split; [intros w' Hw' Hn; apply Hd; auto|]. split; [assumption|].
      split; [left; auto|]. split; [discriminate|]. repeat split; auto. discriminate.
  - (* RShut *)
    destruct (w_todo (ws s w)) as [[|st rest]|] eqn:Etd.
    + (* Shutdown has returned *)
      destruct t as [|w0|]; cbn in Ht; rewrite Epc in Ht.
      * destruct Ht as (_ & _ & _ & _ & [E|[m E]]); discriminate.
      * destruct Ht as (_ & _ & _ & H4 & _ & (-> & _ & _)). exfalso.
        unfold todo in H4. rewrite Etd in H4. destruct H4 as [[_ [E|E]]|[_ E]]; discriminate.
      * destruct Ht as (H1 & H2 & H3 & (Hh & Hw)). split; [assumption|]. exists TQ. cbn. auto.
    + (* its next statement *)
      assert (Hw : w < nw s).
      { destruct t as [|w0|]; cbn in Ht; rewrite Epc in Ht.
        - destruct Ht as (_ & _ & _ & _ & [E|[m E]]); discriminate.
        - destruct Ht as (H1 & _ & _ & _ & _ & (-> & _)). assumption.
        - destruct Ht as (_ & _ & _ & (_ & Hw)). assumption. }
      apply shut_step_inv; assumption.
    + destruct t as [|w0|]; cbn in Ht; rewrite Epc in Ht.
      * destruct Ht as (_ & _ & _ & _ & [E|[m E]]); discriminate.
      * destruct Ht as (_ & _ & _ & _ & _ & (-> & _ & E)). unfold todo in E. contradiction.
      * destruct Ht as (H1 & _ & _ & (_ & Hw)). destruct (H1 w Hw) as [l [E _]]. unfold todo in E. congruence.
  - (* RSet *)
    split; [assumption|]. exists t. destruct t as [|w0|]; cbn in Ht |- *; rewrite Epc in Ht.
    + destruct Ht as (_ & _ & _ & _ & [E|[m E]]); discriminate.
    + destruct Ht as (H1 & H2 & H3 & H4 & H5 & H6). repeat split; auto.
      intros E. destruct (H5 E) as [[m Hm]|]; [discriminate|auto].
    + destruct Ht as (H1 & H2 & H3 & H4). repeat split; auto.
  - (* RGet *)
    destruct (reg s) as [w|] eqn:Er.
    + split; [assumption|]. exists t. destruct t as [|w0|]; cbn in Ht |- *; rewrite Epc in Ht; rewrite ?Er in *.
      * destruct Ht as (_ & _ & _ & _ & [E|[m E]]); discriminate.
      * destruct Ht as (H1 & H2 & H3 & H4 & H5 & H6). repeat split; auto.
        intros E. destruct (H5 E) as [[m Hm]|]; [discriminate|auto].
      * destruct Ht as (H1 & H2 & H3 & H4). repeat split; auto.
    + split; [assumption|]. exists t. destruct t as [|w0|]; cbn in Ht |- *; rewrite Epc in Ht; rewrite ?Er in *.
      * destruct Ht as (_ & _ & _ & _ & [E|[m E]]); discriminate.
      * destruct Ht as (H1 & H2 & H3 & H4 & H5 & H6). repeat split; auto.
        intros E. destruct (H5 E) as [[m Hm]|]; [discriminate|auto].
      * destruct Ht as (H1 & H2 & H3 & H4). repeat split; auto.
  - (* RPush *)
    split; [assumption|]. exists t.
    assert (V : same_view s (st_w s w (w_set_inbox (ws s w) (w_inbox (ws s w) ++ [n])))) by (apply st_w_same_view; reflexivity).
    pose proof (same_view_ok _ _ t V Ht) as Ht'.
    set (s1 := st_w s w (w_set_inbox (ws s w) (w_inbox (ws s w) ++ [n]))) in *.
    destruct t as [|w0|]; cbn in Ht' |- *; cbn in Ht; rewrite Epc in Ht, Ht'.
    + destruct Ht as (_ & _ & _ & _ & [E|[m E]]); discriminate.
    + destruct Ht' as (H1 & H2 & H3 & H4 & H5 & H6). repeat split; auto.
      intros E. destruct (H5 E) as [[m Hm]|]; [discriminate|auto].
    + destruct Ht' as (H1 & H2 & H3 & H4). repeat split; auto.
Qed.

Lemma rstep_inv s l : rinv s -> rinv (rstep Repaired s l).
Proof.
  intros I. destruct l as [n|ok|w|w|w]; cbn [rstep].
  - (* LSend *)
    destruct I as [Hdup [t Ht]]. split; [assumption|]. exists t.
    assert (E : nevt (q s ++ [QDlv n]) = nevt (q s)) by (rewrite nevt_app; cbn; lia).
    destruct t as [|w0|]; cbn in Ht |- *; unfold nevt in *; rewrite E; exact Ht.
  - apply router_inv, I.
  - (* LDrop *)
    destruct (Nat.ltb_spec w (nw s)) as [Hw|]; [|exact I]. cbn [andb].
    destruct (w_conn (ws s w)) eqn:Ec; [|exact I]. cbn [andb].
    destruct (w_todo (ws s w)) as [l|] eqn:Etd; [exact I|].
    destruct I as [Hdup [t Ht]]. split; [assumption|].
    assert (Hnd : ~ done_w s w) by (intros [l [E _]]; unfold todo in E; congruence).
    destruct t as [|w0|].
    + exfalso. apply Hnd. apply Ht. assumption.
    + destruct (Nat.eq_dec w w0) as [->|Hne].
      2:{ exfalso. apply Hnd. apply Ht; assumption. }
      exists (TW w0). destruct Ht as (H1 & H2 & H3 & H4 & H5 & H6).
      cbn [tok_ok]. cbn [q pc has reg nw st_w]. rewrite todo_st_w, Nat.eqb_refl. cbn [w_todo w_set_todo].
      fold code.
      split; [assumption|]. split.
      { intros w' Hw' Hn. destruct (H2 w' Hw' Hn) as [l [E1 E2]]. exists l. rewrite todo_st_w.
        destruct (Nat.eqb_spec w' w0); [contradiction|auto]. }
      split; [assumption|]. split.
      { left. destruct H4 as [[Hr _]|[_ E]]; [auto|]. unfold todo in E. congruence. }
      split; [discriminate|].
      destruct (pc s); auto.
      * destruct H6 as (-> & _ & _ & _ & E). congruence.
      * destruct H6 as (-> & _ & E). unfold todo in E. contradiction.
    + exfalso. apply Hnd. apply Ht. assumption.
  - (* LShut *)
    destruct (Nat.ltb_spec w (nw s)) as [Hw|]; [|exact I]. cbn [andb].
    destruct (negb (router_runs_shutdown s w)); [|exact I]. apply shut_step_inv; assumption.
  - (* LWork *)
    destruct (Nat.ltb w (nw s)); [|exact I]. eapply same_view_inv; [apply work_same_view|exact I].
Qed.

Lemma rrun_inv sched : forall s, rinv s -> rinv (rrun Repaired sched s).
Proof.
  induction sched as [|l sched IH]; intros s I; [exact I|].
  change (rrun Repaired (l :: sched) s) with (rrun Repaired sched (rstep Repaired s l)).
  apply IH, rstep_inv, I.
Qed.

(* D12 cannot happen with the repaired Shutdown.  For every interleaving of
   senders, the router's statements, connection losses, the statements of any
   number of Shutdowns and the writers' workers:
   - no writer is ever spawned onto a taken id;
   - whenever the router's table has an entry for the address and nothing is
     registered under the writer's id, an event that will delete the entry is
     in the router's inbox or about to be sent;
   - when the router is about to register a new writer the id is free;
   - at rest, an entry means a registered, connected writer that is not
     shutting down, and no entry means nothing registered: the next message
     reaches a live writer or spawns a fresh one, which dials. *)
Theorem no_blackhole (sched : list lbl) :
  let s := rrun Repaired sched rstate0 in
  rdups s = 0 /\
  (has s = true -> reg s = None -> evt_pending s) /\
  (forall n, pc s = RAdd n -> reg s = None) /\
  (at_rest s ->
   (has s = true -> exists w, reg s = Some w /\ w < nw s /\ w_conn (ws s w) = true /\ w_todo (ws s w) = None) /\
   (has s = false -> reg s = None)).
Proof.
  intros s. destruct (rrun_inv sched rstate0 rinv0) as [Hdup [t Ht]]. fold s in Hdup, Ht.
  split; [assumption|]. split; [|split].
  - intros Hh Hr. destruct t as [|w|]; cbn in Ht.
    + destruct Ht as (_ & _ & _ & E & _). congruence.
    + destruct Ht as (H1 & _ & _ & H4 & _). right. exists w, tailN.
      destruct H4 as [[E _]|[_ E]]; [congruence|]. auto.
    + destruct Ht as (_ & H2 & _). left. apply nevt_In. lia.
  - intros n Epc. destruct t as [|w|]; cbn in Ht; rewrite Epc in Ht.
    + apply Ht.
    + destruct Ht as (_ & _ & _ & _ & _ & []).
    + destruct Ht as (_ & _ & _ & []).
  - intros (Eq & Epc & Hw). destruct t as [|w|]; cbn in Ht; rewrite Epc, Eq in Ht.
    + destruct Ht as (_ & _ & Hr & Hh & _). split; [congruence|auto].
    + destruct Ht as (H1 & _ & _ & H4 & H5 & Hh). split; [|congruence]. intros _.
      destruct (Hw w H1) as [E|E]; unfold todo in *; rewrite E in *.
      * destruct H4 as [[Hr _]|[_ E']]; [|discriminate]. exists w. repeat split; auto.
        destruct (H5 eq_refl) as [[m Hm]|]; [discriminate|assumption].
      * destruct H4 as [[_ [E'|E']]|[_ E']]; discriminate.
    + destruct Ht as (_ & H2 & _). discriminate.
Qed.

(** ** the pinned order of statements: the black hole *)

(* message 1 brings writer 0 up and goes out on its connection; the
   connection is lost; Shutdown notifies the router; the router handles the
   event and then message 2: the id is still taken, the new writer is a
   duplicate that is never started, message 2 goes into the inbox of the
   dying writer; Shutdown finishes (Remove comes last); message 3 becomes a
   dead letter — and so will every later one *)
Definition d12_witness : list lbl :=
  [LSend 1; LRouter true; LRouter true; LRouter true; LRouter true; LRouter true; LRouter true;
   LWork 0; LWork 0; LWork 0;
   LDrop 0; LShut 0;
   LSend 2; LRouter true; LRouter true; LRouter true; LRouter true; LRouter true; LRouter true;
   LShut 0; LShut 0; LShut 0; LShut 0;
   LSend 3; LRouter true; LRouter true].

Lemma d12_witness_state :
  let s := rrun Pinned d12_witness rstate0 in
  q s = [] /\ pc s = RIdle /\ has s = true /\ reg s = None /\ nw s = 1 /\ rdups s = 1 /\
  w_todo (ws s 0) = Some [] /\ w_wire (ws s 0) = [1] /\ w_inbox (ws s 0) = [2] /\ w_stopped (ws s 0) = true /\
  rdead s = [3] /\ bcast s = 1.
Proof. vm_compute. repeat split; reflexivity. Qed.

Theorem blackhole_pinned_refuted :
  exists sched, let s := rrun Pinned sched rstate0 in
    at_rest s /\ blackholed s /\ rdups s = 1 /\ rdead s = [3] /\ w_inbox (ws s 0) = [2].
Proof.
  exists d12_witness. intros s.
  destruct d12_witness_state as (Eq & Epc & Hh & Hr & En & Hd & Et & _ & Ei & _ & Edead & _). fold s in Eq, Epc, Hh, Hr, En, Hd, Et, Ei, Edead.
  split; [|split; [|auto]].
  - split; [assumption|]. split; [assumption|]. intros w Hw. rewrite En in Hw.
    assert (w = 0) by lia. subst w. auto.
  - split; [assumption|]. split; [assumption|]. split; [rewrite Eq; tauto|]. split; [auto|].
    intros w Hw. rewrite En in Hw. assert (w = 0) by lia. subst w. unfold unnotified. now rewrite Et.
Qed.

(* the same schedule with the repaired order (the first statement of Shutdown
   is now Remove): message 2 finds nothing registered and becomes a dead
   letter, which is visible; message 3 spawns a fresh writer, which dials *)
Example d12_witness_repaired :
  let s := rrun Repaired (d12_witness ++ repeat (LRouter true) 5) rstate0 in
  has s = true /\ reg s = Some 1 /\ rdups s = 0 /\ rdead s = [2] /\ w_inbox (ws s 1) = [3] /\ w_conn (ws s 1) = true.
Proof. vm_compute. repeat split; reflexivity. Qed.

Lemma has_notify_tail st l : has_notify (st :: l) = false -> sstep_eqb SNotify st = false /\ has_notify l = false.
Proof. unfold has_notify; cbn. rewrite orb_false_iff. tauto. Qed.

(* a black hole is for ever, whichever order Shutdown has: no step of anybody
   undoes it, no writer is ever started or given a message again, and every
   message the router takes up becomes a dead letter *)
Theorem blackhole_is_permanent (o : order) (s : rstate) (l : lbl) :
  blackholed s ->
  blackholed (rstep o s l) /\ nw (rstep o s l) = nw s /\ pushed (rstep o s l) = pushed s /\
  (forall n ok, l = LRouter ok -> pc s = RGet n -> rdead (rstep o s l) = rdead s ++ [n]).
Proof.
  intros B. pose proof B as (Hh & Hr & Hq & Hpc & Hu).
  destruct l as [n|ok|w|w|w]; cbn [rstep].
  - (* LSend *)
    split; [|split; [reflexivity|split; [reflexivity|intros; discriminate]]].
    unfold blackholed; cbn. repeat split; auto.
    intros H; apply in_app_or in H as [H|[H|[]]]; [auto|discriminate].
  - (* LRouter *)
    unfold router. destruct Hpc as [Epc|[n Epc]]; rewrite Epc.
    + destruct (q s) as [|[n|] q'] eqn:Eq.
      * split; [unfold blackholed; rewrite Eq, Epc; repeat split; auto|].
        split; [reflexivity|split; [reflexivity|intros; congruence]].
      * rewrite Hh. split; [|split; [reflexivity|split; [reflexivity|intros; congruence]]].
        unfold blackholed; cbn. repeat split; eauto. intros H; apply Hq; right; assumption.
      * exfalso. apply Hq. left; reflexivity.
    + rewrite Hr. split; [|split; [reflexivity|split; [reflexivity|]]].
      * unfold blackholed; cbn. repeat split; auto.
      * intros m ok' _ E. injection E as <-. reflexivity.
  - (* LDrop *)
    destruct (Nat.ltb_spec w (nw s)) as [Hw|].
    2:{ cbn. split; [exact B|]. repeat split; auto; intros; discriminate. }
    cbn [andb]. pose proof (Hu w Hw) as Huw. unfold unnotified in Huw.
    destruct (w_todo (ws s w)); [|discriminate]. rewrite andb_false_r.
    split; [exact B|]. repeat split; auto; intros; discriminate.
  - (* LShut *)
    destruct (Nat.ltb_spec w (nw s)) as [Hw|].
    2:{ cbn. split; [exact B|]. repeat split; auto; intros; discriminate. }
    cbn [andb]. destruct (negb (router_runs_shutdown s w)).
    2:{ split; [exact B|]. repeat split; auto; intros; discriminate. }
    unfold shut_step. destruct (w_todo (ws s w)) as [[|st rest]|] eqn:Et;
      try (split; [exact B|]; repeat split; auto; intros; discriminate).
    pose proof (Hu w Hw) as Huw. unfold unnotified in Huw. rewrite Et in Huw.
    destruct (has_notify_tail _ _ Huw) as [N1 N2].
    pose proof (do_sstep_fields s w st rest) as F. cbv zeta in F.
    destruct F as (Epc & Eh & En & _ & Eq & Er & Etd & _).
    assert (N1' : sstep_eqb st SNotify = false) by (destruct st; cbn in *; auto).
    rewrite N1' in Eq.
    split; [|split; [assumption|split; [|intros; discriminate]]].
    + unfold blackholed. rewrite Eh, Er, Eq, Epc, En. repeat split; auto.
      * destruct (sstep_eqb st SRemove); auto.
      * intros v Hv. unfold unnotified. fold (todo (do_sstep s w st rest) v). rewrite Etd.
        destruct (Nat.eqb v w); [assumption|]. apply (Hu v Hv).
    + destruct st; reflexivity.
  - (* LWork *)
    destruct (Nat.ltb w (nw s)).
    2:{ split; [exact B|]. repeat split; auto; intros; discriminate. }
    destruct (work_same_view s w) as (Eq & Epc & Eh & Er & En & _ & Ev).
    split; [|split; [assumption|split; [|intros; discriminate]]].
    + unfold blackholed. rewrite Eq, Epc, Eh, Er, En. repeat split; auto.
      intros v Hv. unfold unnotified. fold (todo (work_step s w) v). rewrite (proj1 (Ev v)). apply (Hu v Hv).
    + unfold work_step. destruct (w_pc (ws s w)); [destruct (w_inbox (ws s w)); [|destruct (w_stopped (ws s w))]| |]; reflexivity.
Qed.

(** * 4. Non-vacuity and witnesses on the concrete codec of RemoteExec.v *)

Definition ex_t0 : pid := actor_pid 1 0.
Definition ex_t1 : pid := actor_pid 1 1.
Definition ex_d (t : pid) (i j : nat) : xdlv := {| s_target := t; s_sender := Some (sender_pid i); s_msg := (i, j) |}.

(* the hypotheses of [up_exactly_once_in_order] are met by a run that ends
   drained, with two targets, two senders and two batches *)
Example up_nonvacuous :
  let ops := [OSend (ex_d ex_t0 0 0); OSend (ex_d ex_t1 1 0); ORouter; OSend (ex_d ex_t0 0 1); ORouter;
              OWriter (node 1) 0; ORouter; OReader (node 1); OWriter (node 1) 5; OReader (node 1)] in
  let s := xrun ops (Remote.exec x_ty x_ser x_deser xstate0 (OPeer (node 1) true)) in
  Forall (up_op (node 1)) ops /\ drained s (node 1) /\
  map (@d_msg xv) (a_got (tab s (node 1))) = [(0, 0); (1, 0); (0, 1)].
Proof.
  cbv zeta. split; [|split; [|reflexivity]].
  - repeat constructor; discriminate.
  - vm_compute. auto.
Qed.

(* the unreachable episode: three messages queued, the peer is down *)
Example down_nonvacuous :
  let s := xrun [OSend (ex_d ex_t0 0 0); OSend (ex_d ex_t1 0 1); OSend (ex_d ex_t0 0 2)] xstate0 in
  let s' := xrun [ORouter; ORouter; ORouter; ORouter] s in
  evs s' = [node 1] /\ dead_view (dead s') = [(0, 0, 0); (1, 0, 1); (0, 0, 2)] /\
  rq s' = [] /\ a_streams (tab s' (node 1)) = false /\ a_w (tab s' (node 1)) = WAbsent.
Proof. vm_compute. repeat split; reflexivity. Qed.

(* what the code does with messages that sit in a writer's inbox when its
   connection is lost: Shutdown stops the inbox and nobody ever looks at them
   again — no delivery, no dead letter, no event that names them.  (C17 only
   promises dead letters for a connection attempt that failed.) *)
Theorem connection_loss_drops_silently :
  let s := xrun [OPeer (node 1) true; OSend (ex_d ex_t0 0 0); ORouter; ODrop (node 1); ORouter] xstate0 in
  a_lost (tab s (node 1)) = [ex_d ex_t0 0 0] /\ dead s = [] /\ a_got (tab s (node 1)) = [] /\
  a_link (tab s (node 1)) = [] /\ rq s = [] /\ evs s = [node 1].
Proof. vm_compute. repeat split; reflexivity. Qed.

(** * 5. The oracles hold of the models *)

(** ** Start / Stop *)
Definition m_started (m : rmach) : bool := match r_state m with StInitialized => false | _ => true end.
Definition m_stopped (m : rmach) : bool := match r_state m with StStopped => true | _ => false end.

Lemma stop_spec_of_model cs : forall m, rm_inv m ->
  stop_spec (m_started m) (m_stopped m) (r_listening m) cs
            (map (fun p : rres * bool => (res_err (fst p), snd p)) (snd (rcalls m cs))) = true.
Proof.
  induction cs as [|c cs IH]; intros m Hm; [reflexivity|].
  pose proof (rm_inv_step m c Hm) as Hm1. cbn [rcalls].
  destruct (rcall_step m c) as [m1 r] eqn:E. cbn [fst] in Hm1. specialize (IH m1 Hm1).
  destruct (rcalls m1 cs) as [m2 rs] eqn:E2. cbn [snd map fst] in *.
  destruct Hm as (Hl & _).
  unfold rcall_step in E. unfold m_started, m_stopped in *.
  destruct c, (r_state m) eqn:Es; injection E as <- <-; cbn [stop_spec res_err r_listening r_state andb negb] in *;
    rewrite ?Es in *; cbn [andb negb]; rewrite ?Bool.eqb_reflx; cbn [andb]; try exact IH.
Qed.

Lemma last_cons {A} (x : A) l d : last (x :: l) d = last l x.
Proof.
  revert x d; induction l as [|y l IH]; intros x d; [reflexivity|].
  change (last (x :: y :: l) d) with (last (y :: l) d). rewrite !IH. reflexivity.
Qed.

Lemma snd_last_default {A B} (l : list (A * B)) a a' b : snd (last l (a, b)) = snd (last l (a', b)).
Proof. destruct l as [|x l]; [reflexivity|]. now rewrite !last_cons. Qed.

Lemma last_listening cs : forall m,
  snd (last (map (fun p : rres * bool => (res_err (fst p), snd p)) (snd (rcalls m cs))) (false, r_listening m)) =
  r_listening (fst (rcalls m cs)).
Proof.
  induction cs as [|c cs IH]; intros m; [reflexivity|].
  cbn [rcalls]. destruct (rcall_step m c) as [m1 r] eqn:E. specialize (IH m1).
  destruct (rcalls m1 cs) as [m2 rs] eqn:E2. cbn [snd fst map] in *.
  rewrite last_cons. rewrite <- IH. apply snd_last_default.
Qed.

Theorem oracle_stop_holds_of_model (cs : list rcall) :
  oracle_stop {| s_calls := cs; s_obs := stop_model cs; s_probe := [r_listening (fst (rcalls rmach0 cs))] |} = true.
Proof.
  unfold oracle_stop, stop_model; cbn [s_calls s_obs s_probe forallb].
  rewrite (stop_spec_of_model cs rmach0 rm_inv0 : stop_spec false false false cs _ = true).
  rewrite (last_listening cs rmach0 : snd (last _ (false, false)) = _), Bool.eqb_reflx. reflexivity.
Qed.


(** ** the deliveries: for *every* schedule that ends drained, whatever the
    interleaving of the senders, the oracle of scenario "up" is true of what
    the machine delivered *)

Definition program (ts : list (nat * nat)) (withpid : bool) (i from per : nat) : list xdlv :=
  map (fun j => let (p, t) := target_of ts i j in
                {| s_target := actor_pid p t;
                   s_sender := if withpid then Some (sender_pid i) else None;
                   s_msg := (i, j) |}) (seq from per).

Definition sends_of (ops : list xop) : list xdlv :=
  flat_map (fun o => match o with OSend d => [d] | _ => [] end) ops.

Definition from_i (i : nat) (d : xdlv) : bool := Nat.eqb (fst (s_msg d)) i.

(* the Remote.Send calls in [ops] are some interleaving of the senders' programmes *)
Definition interleaved (ts : list (nat * nat)) (senders : list bool) (from per : nat) (ops : list xop) : Prop :=
  (forall i, i < length senders ->
     filter (from_i i) (sends_of ops) = program ts (nth i senders false) i from per) /\
  Forall (fun d : xdlv => fst (s_msg d) < length senders) (sends_of ops).

Lemma x_expected (l : list xdlv) : expected x_ty x_ser l = map (to_delivery 0) l.
Proof. induction l as [|d l IH]; cbn; [reflexivity|]. now rewrite IH. Qed.

Lemma sent_to_sends a (ops : list xop) :
  sent_to a ops = filter (fun d => if str_dec (addr_of d) a then true else false) (sends_of ops).
Proof.
  induction ops as [|o ops IH]; [reflexivity|]. destruct o; cbn; try exact IH.
  destruct (str_dec (addr_of d) a); cbn; [f_equal|]; exact IH.
Qed.

Lemma str_eqb_refl' a : str_eqb a a = true.
Proof. induction a as [|x a IH]; cbn; [reflexivity|]. now rewrite Nat.eqb_refl, IH. Qed.

Lemma pid_eqb_actor p t p' t' : pid_eqb (actor_pid p' t') (actor_pid p t) = Nat.eqb p' p && Nat.eqb t' t.
Proof. unfold pid_eqb, actor_pid, node; cbn. now rewrite !andb_true_r. Qed.

Lemma flat_map_filter {A B} (f : A -> list B) (g : A -> bool) l :
  (forall a, g a = false -> f a = []) -> flat_map f (filter g l) = flat_map f l.
Proof.
  intros H. induction l as [|a l IH]; cbn; [reflexivity|].
  destruct (g a) eqn:E; cbn; [now rewrite IH|]. now rewrite (H a E), IH.
Qed.

Lemma flat_map_map {A B C} (f : A -> B) (g : B -> list C) l : flat_map g (map f l) = flat_map (fun a => g (f a)) l.
Proof. induction l as [|a l IH]; cbn; [reflexivity|]. now rewrite IH. Qed.

Lemma flat_map_flat_map {A B C} (f : A -> list B) (g : B -> list C) l :
  flat_map g (flat_map f l) = flat_map (fun a => flat_map g (f a)) l.
Proof. induction l as [|a l IH]; cbn; [reflexivity|]. now rewrite flat_map_app, IH. Qed.

Lemma flat_map_ext' {A B} (f g : A -> list B) l : (forall a, In a l -> f a = g a) -> flat_map f l = flat_map g l.
Proof.
  induction l as [|a l IH]; intros H; cbn; [reflexivity|].
  rewrite (H a (or_introl eq_refl)), IH; [reflexivity|]. intros b Hb. apply H. now right.
Qed.

Lemma seqs_eqb_refl l : seqs_eqb l l = true.
Proof.
  unfold seqs_eqb. induction l as [|[j b] l IH]; cbn; [reflexivity|].
  rewrite Nat.eqb_refl, Bool.eqb_reflx. exact IH.
Qed.

Lemma pid_opt_eqb_refl o : pid_opt_eqb o o = true.
Proof. destruct o as [[a b]|]; cbn; [|reflexivity]. unfold pid_eqb; cbn. now rewrite !str_eqb_refl'. Qed.

(* what the recording actor (p, t) saw from sender i, as a function of the Remote.Send calls *)
Definition seen_from (senders : list bool) (p t i : nat) (d : xdlv) : list (nat * bool) :=
  if pid_eqb (s_target d) (actor_pid p t) then
    if Nat.eqb i (fst (s_msg d)) then
      [(snd (s_msg d), pid_opt_eqb (s_sender d) (if nth (fst (s_msg d)) senders false then Some (sender_pid (fst (s_msg d))) else None))]
    else []
  else [].

Lemma from_sender_seen_at senders (s : xstate) p t i (ops : list xop) :
  a_got (tab s (node p)) = expected x_ty x_ser (sent_to (node p) ops) ->
  from_sender i (seen_at senders s (p, t)) = flat_map (seen_from senders p t i) (filter (from_i i) (sends_of ops)).
Proof.
  intros E. unfold seen_at. rewrite E, x_expected, sent_to_sends.
  unfold from_sender. rewrite flat_map_flat_map, flat_map_map.
  rewrite flat_map_filter.
  2:{ intros d Hd. unfold to_delivery; cbn. destruct (pid_eqb (s_target d) (actor_pid p t)) eqn:Ep; [|reflexivity].
      exfalso. apply pid_eqb_eq in Ep. unfold addr_of in Hd. rewrite Ep in Hd. cbn [fst actor_pid] in Hd.
      destruct (str_dec (node p) (node p)); [discriminate|congruence]. }
  rewrite flat_map_filter.
  2:{ intros d Hd. unfold seen_from, from_i in *. rewrite Nat.eqb_sym, Hd. now destruct (pid_eqb _ _). }
  apply flat_map_ext'. intros d _. unfold seen_from, to_delivery; cbn.
  destruct (pid_eqb (s_target d) (actor_pid p t)); [|reflexivity].
  destruct (s_msg d) as [i' j]; cbn. destruct (Nat.eqb i i'); reflexivity.
Qed.

Lemma NoDup_nth_inj {A} (l : list A) d i j : NoDup l -> i < length l -> j < length l -> nth i l d = nth j l d -> i = j.
Proof. intros H Hi Hj E. apply (proj1 (NoDup_nth l d) H i j Hi Hj E). Qed.

Lemma seen_from_program ts senders p t k i from per :
  NoDup ts -> k < length ts -> nth k ts (0, 0) = (p, t) ->
  flat_map (seen_from senders p t i) (program ts (nth i senders false) i from per) =
  flat_map (fun j => if Nat.eqb ((i + j) mod length ts) k then [(j, true)] else []) (seq from per).
Proof.
  intros Hnd Hk Ek. unfold program. rewrite flat_map_map. apply flat_map_ext'. intros j _.
  unfold target_of. set (k' := (i + j) mod length ts).
  assert (Hk' : k' < length ts) by (apply Nat.mod_upper_bound; lia).
  destruct (nth k' ts (0, 0)) as [p' t'] eqn:Ek'. unfold seen_from; cbn [s_target s_msg s_sender fst snd].
  rewrite pid_eqb_actor, Nat.eqb_refl, pid_opt_eqb_refl.
  destruct (Nat.eqb_spec k' k) as [->|Hne].
  - rewrite Ek in Ek'. injection Ek' as <- <-. now rewrite !Nat.eqb_refl.
  - destruct (Nat.eqb_spec p' p) as [->|]; [|reflexivity]. destruct (Nat.eqb_spec t' t) as [->|]; [|reflexivity].
    exfalso. apply Hne. apply (NoDup_nth_inj ts (0, 0)); auto. congruence.
Qed.

Lemma In_combine_seq {A} (l : list A) d k x : In (k, x) (combine (seq 0 (length l)) l) -> k < length l /\ x = nth k l d.
Proof.
  assert (G : forall n, In (k, x) (combine (seq n (length l)) l) -> n <= k < n + length l /\ x = nth (k - n) l d).
  { induction l as [|a l IH]; intros n; cbn; [tauto|]. intros [H|H].
    - injection H as <- <-. rewrite Nat.sub_diag. split; [lia|reflexivity].
    - destruct (IH (S n) H) as [H1 H2]. split; [lia|]. replace (k - n) with (S (k - S n)) by lia. exact H2. }
  intros H. destruct (G 0 H) as [H1 H2]. rewrite Nat.sub_0_r in H2. split; [lia|assumption].
Qed.

(* For every list of operations whose Remote.Send calls are an interleaving of
   the senders' programmes, in any state that has delivered, at every peer
   that hosts a target, exactly [expected] of what was sent to that peer (which
   is what [up_exactly_once_in_order] establishes for every schedule, once
   drained): the oracle of the scenario is true of what the recording actors
   saw. *)
Theorem oracle_up_holds_of_deliveries ts senders from per (ops : list xop) (s : xstate) :
  NoDup ts -> interleaved ts senders from per ops ->
  (forall p t, In (p, t) ts -> a_got (tab s (node p)) = expected x_ty x_ser (sent_to (node p) ops)) ->
  exactly_once_in_order ts (length senders) from per (map (seen_at senders s) ts) = true.
Proof.
  intros Hnd [Hprog Hlt] Hgot. unfold exactly_once_in_order.
  apply andb_true_iff; split; [rewrite map_length; apply Nat.eqb_refl|].
  apply forallb_forall. intros [k g] Hin.
  apply (In_combine_seq _ [] k g) in Hin as [Hk ->]. rewrite map_length in Hk.
  rewrite (nth_indep _ [] (seen_at senders s (0, 0))) by (rewrite map_length; assumption).
  rewrite map_nth. destruct (nth k ts (0, 0)) as [p t] eqn:Ek.
  assert (Hpt : In (p, t) ts) by (rewrite <- Ek; apply nth_In; assumption).
  apply andb_true_iff; split.
  - apply forallb_forall. intros i Hi. apply in_seq in Hi.
    rewrite (from_sender_seen_at senders s p t i ops (Hgot p t Hpt)), Hprog by lia.
    rewrite (seen_from_program ts senders p t k i from per Hnd Hk Ek). apply seqs_eqb_refl.
  - apply forallb_forall. intros [[i j] b] Hx. cbn. apply Nat.ltb_lt.
    unfold seen_at in Hx. rewrite (Hgot p t Hpt), x_expected, flat_map_map in Hx.
    apply in_flat_map in Hx as [d [Hd Hx]]. cbn in Hx.
    destruct (pid_eqb (s_target d) (actor_pid p t)); [|destruct Hx].
    destruct (s_msg d) as [i' j'] eqn:Em. destruct Hx as [Hx|[]]. injection Hx as <- <- _.
    rewrite sent_to_sends in Hd. apply filter_In in Hd as [Hd _].
    rewrite Forall_forall in Hlt. specialize (Hlt d Hd). now rewrite Em in Hlt.
Qed.

(* ... hence for every schedule: the target peers reachable and untouched at
   the start, no connection lost, the senders' programmes interleaved in any
   way, router / writers / readers scheduled in any way with batches of any
   size; whenever the pipes of the target peers are drained, the oracle is
   true of what the recording actors saw *)
Theorem oracle_up_holds_for_every_drained_schedule ts senders per (ops : list xop) (s0 : xstate) :
  NoDup ts -> interleaved ts senders 0 per ops ->
  (forall p t, In (p, t) ts ->
     fresh (node p) s0 /\ a_peer (tab s0 (node p)) = true /\ a_got (tab s0 (node p)) = [] /\
     Forall (up_op (node p)) ops /\ drained (xrun ops s0) (node p)) ->
  exactly_once_in_order ts (length senders) 0 per (map (seen_at senders (xrun ops s0)) ts) = true.
Proof.
  intros Hnd Hint H. apply (oracle_up_holds_of_deliveries ts senders 0 per ops); auto.
  intros p t Hpt. destruct (H p t Hpt) as (Hf & Hp & Hg & HF & Hd). unfold xrun in *.
  rewrite (up_from_ready x_ty x_ser x_deser x_codec s0 (node p) ops Hf Hp HF Hd), Hg. reflexivity.
Qed.

(* the hypotheses are met by the canonical schedule of the model run *)
Example oracle_up_nonvacuous :
  let ts := [(1, 0); (1, 1)] in
  let senders := [true; false] in
  let ops := map OSend (up_sends ts senders 0 3) ++ drain_ops [1] 6 1 in
  let s0 := Remote.exec x_ty x_ser x_deser xstate0 (OPeer (node 1) true) in
  fresh (node 1) s0 /\ a_peer (tab s0 (node 1)) = true /\ a_got (tab s0 (node 1)) = [] /\
  Forall (up_op (node 1)) ops /\ drained (xrun ops s0) (node 1) /\
  length (a_got (tab (xrun ops s0) (node 1))) = 6.
Proof.
  cbv zeta. split; [|split; [|split; [|split; [|split]]]].
  - unfold fresh, router_quiet, unreach_in; cbn. repeat split; auto.
  - reflexivity.
  - reflexivity.
  - vm_compute. repeat constructor; discriminate.
  - vm_compute. auto.
  - reflexivity.
Qed.

(* the canonical interleaving used by the model run is one *)
Lemma filter_flat_map {A B} (f : A -> list B) (g : B -> bool) l :
  filter g (flat_map f l) = flat_map (fun a => filter g (f a)) l.
Proof. induction l as [|a l IH]; cbn; [reflexivity|]. now rewrite filter_app, IH. Qed.

Lemma sends_of_map_send (l : list xdlv) : sends_of (map OSend l) = l.
Proof. induction l as [|d l IH]; cbn; [reflexivity|]. f_equal. exact IH. Qed.

Example interleaved_nonvacuous :
  interleaved [(1, 0); (1, 1)] [true; false] 0 3 (map OSend (up_sends [(1, 0); (1, 1)] [true; false] 0 3)).
Proof.
  unfold interleaved. rewrite sends_of_map_send. split.
  - intros i Hi. cbn in Hi. destruct i as [|[|i]]; [reflexivity|reflexivity|lia].
  - repeat constructor.
Qed.

(** ** the race: every terminal observation of the machine (repaired order) is free of black holes *)

Lemma rrun_prefix_inv o : o = Repaired -> rinv (rrun o race_prefix rstate0).
Proof. intros ->. apply rrun_inv, rinv0. Qed.

Lemma moves_inv x : rinv (x_s x) -> Forall (fun y => rinv (x_s y)) (moves Repaired x).
Proof.
  intros I. unfold moves. repeat (apply Forall_app; split).
  - unfold pool_moves. apply Forall_forall. intros y Hy. apply in_flat_map in Hy as [k [_ Hk]].
    destruct (nth k (x_pool x) []); [destruct Hk|]. destruct Hk as [<-|[]]. cbn [x_s]. apply rstep_inv, I.
  - destruct (router_can_move (x_s x)); [|constructor]. constructor; [|constructor]. cbn [x_s]. apply rstep_inv, I.
  - destruct (x_drop x); [|constructor]. constructor; [|constructor]. cbn [x_s]. apply rstep_inv, I.
  - apply Forall_forall. intros y Hy. apply in_flat_map in Hy as [w [_ Hw]].
    apply in_app_or in Hw as [Hw|Hw].
    + destruct (w_todo (ws (x_s x) w)) as [[|? ?]|]; try destruct Hw.
      destruct (router_runs_shutdown (x_s x) w); [destruct Hw|]. destruct Hw as [<-|[]]. cbn [x_s]. apply rstep_inv, I.
    + destruct (rstate_eqb (x_s x) (rstep Repaired (x_s x) (LWork w))); [destruct Hw|].
      destruct Hw as [<-|[]]. cbn [x_s]. apply rstep_inv, I.
Qed.

Lemma flat_map_nil {A B} (f : A -> list B) l : flat_map f l = [] -> forall a, In a l -> f a = [].
Proof.
  induction l as [|x l IH]; cbn; [intros _ a []|]. intros H a [<-|Ha].
  - now apply app_eq_nil in H.
  - apply IH; [now apply app_eq_nil in H|assumption].
Qed.

Lemma terminal_ok x : rinv (x_s x) -> moves Repaired x = [] -> no_blackhole_obs (obs_of (x_s x)) = true.
Proof.
  intros [Hdup [t Ht]] Hm. unfold moves in Hm.
  apply app_eq_nil in Hm as [_ Hm]. apply app_eq_nil in Hm as [Hr Hm]. apply app_eq_nil in Hm as [_ Hw].
  set (s := x_s x) in *.
  assert (Hpc : pc s = RIdle /\ q s = []).
  { unfold router_can_move in Hr. destruct (pc s), (q s); try discriminate; auto. }
  destruct Hpc as [Epc Eq].
  assert (Htodo : forall w, w < nw s -> w_todo (ws s w) = None \/ w_todo (ws s w) = Some []).
  { intros w Hlt. pose proof (flat_map_nil _ _ Hw w) as H. rewrite in_seq in H. specialize (H ltac:(lia)).
    apply app_eq_nil in H as [H _]. destruct (w_todo (ws s w)) as [[|? ?]|]; auto.
    unfold router_runs_shutdown in H. rewrite Epc in H. discriminate. }
  unfold no_blackhole_obs, obs_of; cbn. rewrite Hdup. cbn. rewrite andb_true_r.
  destruct t as [|w|]; cbn in Ht; rewrite Epc, Eq in Ht.
  - destruct Ht as (_ & _ & -> & -> & _). reflexivity.
  - destruct Ht as (H1 & _ & _ & H4 & _ & ->).
    destruct (Htodo w H1) as [E|E]; unfold todo in H4; rewrite E in H4.
    + destruct H4 as [[-> _]|[_ E']]; [reflexivity|discriminate].
    + destruct H4 as [[_ [E'|E']]|[_ E']]; discriminate.
  - destruct Ht as (_ & H2 & _). discriminate.
Qed.

Lemma explore_ok fuel : forall stack seen terms res,
  Forall (fun y => rinv (x_s y)) stack -> Forall (fun o => no_blackhole_obs o = true) terms ->
  explore Repaired fuel stack seen terms = Some res -> Forall (fun o => no_blackhole_obs o = true) res.
Proof.
  induction fuel as [|fuel IH]; intros stack seen terms res Hs Ht; cbn.
  - destruct stack; [intros [= <-]; assumption|discriminate].
  - destruct stack as [|x stack]; [intros [= <-]; assumption|].
    inversion Hs as [|? ? Hx Hs']; subst.
    destruct (mem_xst x seen); [apply IH; assumption|].
    destruct (moves Repaired x) as [|y ms] eqn:Em.
    + apply IH; [assumption|]. destruct (mem_obs (obs_of (x_s x)) terms); [assumption|].
      constructor; [apply terminal_ok; assumption|assumption].
    + apply IH; [|assumption]. change (y :: ms ++ stack) with ((y :: ms) ++ stack).
      apply Forall_app; split; [|assumption].
      rewrite <- Em. apply moves_inv, Hx.
Qed.

Theorem oracle_race_holds_of_model senders drop terms :
  model_terminals Repaired senders drop = Some terms -> forallb no_blackhole_obs terms = true.
Proof.
  unfold model_terminals. intros H. apply forallb_forall. apply Forall_forall.
  eapply explore_ok; [| |exact H]; [|constructor].
  constructor; [|constructor]. cbn [x_s race_init]. apply (rrun_prefix_inv Repaired eq_refl).
Qed.

(* ... and for the pinned order it is not: the machine itself reaches a black-holed terminal state *)
Example oracle_race_pinned_refuted :
  exists terms, model_terminals Pinned [[2]] true = Some terms /\ forallb no_blackhole_obs terms = false.
Proof. eexists. split; [vm_compute; reflexivity|reflexivity]. Qed.
