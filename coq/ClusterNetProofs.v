(** Proofs about ClusterNet.v (C19). *)
From stdpp Require Import gmap list sorting.
From Coq Require Import Lia.
From HV Require Import Agent AgentProofs ClusterNet.

(** * Sorting *)
Lemma nsort_perm l1 l2 : l1 ≡ₚ l2 → nsort l1 = nsort l2.
Proof.
  intros Hp. unfold nsort.
  apply (Sorted_unique Nat.le); try apply (Sorted_merge_sort Nat.le).
  by rewrite !merge_sort_Permutation.
Qed.

Lemma elem_of_nsort l x : x ∈ nsort l ↔ x ∈ l.
Proof. unfold nsort. by rewrite merge_sort_Permutation. Qed.

Lemma NoDup_nsort l : NoDup (nsort l) ↔ NoDup l.
Proof. unfold nsort. by rewrite merge_sort_Permutation. Qed.

(** * addActivated, topologies *)
Lemma add_activated_None act k h : act !! k = None → add_activated act (k, h) = <[k := h]> act.
Proof. unfold add_activated. simpl. by intros ->. Qed.
Lemma add_activated_Some act k h h' : act !! k = Some h' → add_activated act (k, h) = act.
Proof. unfold add_activated. simpl. by intros ->. Qed.

(* a topology adds what is not known yet, the first entry of an id counts *)
Lemma foldl_add_activated act l : foldl add_activated act l = act ∪ list_to_map l.
Proof.
  revert act. induction l as [|[k h] l IH]; intros act; simpl.
  - by rewrite map_union_empty.
  - rewrite IH. apply map_eq. intros k'. unfold add_activated. simpl.
    destruct (act !! k) as [h'|] eqn:E; rewrite !lookup_union.
    + destruct (decide (k' = k)) as [->|]; [|by rewrite lookup_insert_ne].
      rewrite E, lookup_insert. by destruct (list_to_map l !! k).
    + destruct (decide (k' = k)) as [->|]; [|by rewrite !lookup_insert_ne].
      rewrite E, !lookup_insert. by destruct (list_to_map l !! k).
Qed.

Lemma topology_known (G : gmap key nat) : foldl add_activated G (map_to_list G) = G.
Proof. by rewrite foldl_add_activated, list_to_map_to_list, map_union_idemp. Qed.
Lemma topology_fresh (G : gmap key nat) : foldl add_activated ∅ (map_to_list G) = G.
Proof. by rewrite foldl_add_activated, list_to_map_to_list, map_empty_union. Qed.

Lemma purge_host_lookup act h k : purge_host act h !! k = (match act !! k with Some h' => if decide (h' = h) then None else Some h' | None => None end).
Proof.
  unfold purge_host. destruct (act !! k) as [h'|] eqn:E.
  - destruct (decide (h' = h)) as [->|Hne].
    + apply map_filter_lookup_None. right. intros x Hx. simpl. naive_solver.
    + by apply map_filter_lookup_Some.
  - apply map_filter_lookup_None. by left.
Qed.

(** * Views *)
(* the view of a node that has processed the snapshot of the member set M *)
Definition view_is (cfg : config) (M : gset nat) (v : gmap nat member) : Prop :=
  ∀ i, v !! i = if decide (i ∈ M) then Some (mk_member cfg i) else None.

Lemma view_is_keyed cfg M v : view_is cfg M v → keyed v.
Proof. intros Hv i m. rewrite Hv. case_decide; [|done]. by intros [= <-]. Qed.

Lemma view_is_empty cfg : view_is cfg ∅ ∅.
Proof. intros i. rewrite lookup_empty. by rewrite decide_False by set_solver. Qed.

Lemma view_is_dom cfg M v : view_is cfg M v → dom v = M.
Proof.
  intros Hv. apply set_eq. intros i. rewrite elem_of_dom, Hv. case_decide; [|by rewrite <- not_eq_None_Some].
  split; eauto.
Qed.

Lemma view_is_excl cfg M M' v : view_is cfg M v → view_is cfg M' v → M = M'.
Proof. intros H1 H2. by rewrite <- (view_is_dom _ _ _ H1), <- (view_is_dom _ _ _ H2). Qed.

Lemma mk_member_inj cfg : Inj (=) (=) (mk_member cfg).
Proof. intros i j. unfold mk_member. by intros [= ->]. Qed.

Definition snap_of (cfg : config) (ids : list nat) : list member := mk_member cfg <$> ids.

Lemma snap_of_mids cfg ids : mid <$> snap_of cfg ids = ids.
Proof. unfold snap_of. rewrite <- list_fmap_compose. apply list_fmap_id. Qed.

Lemma member_set_snap cfg ids i :
  member_set (snap_of cfg ids) !! i = if decide (i ∈ ids) then Some (mk_member cfg i) else None.
Proof.
  case_decide as Hi.
  - assert (is_Some (member_set (snap_of cfg ids) !! i)) as [m Hm].
    { apply member_set_is_Some. by rewrite snap_of_mids. }
    rewrite Hm. apply member_set_elem in Hm as [(j & -> & _)%elem_of_list_fmap <-]. done.
  - apply member_set_None. by rewrite snap_of_mids.
Qed.

Lemma spec_joined_snap cfg M v ids i :
  view_is cfg M v →
  spec_joined v (snap_of cfg ids) !! i = if decide (i ∈ ids ∧ i ∉ M) then Some (mk_member cfg i) else None.
Proof.
  intros Hv. unfold spec_joined. case_decide as Hi.
  - apply map_filter_lookup_Some. simpl. rewrite member_set_snap, Hv.
    destruct Hi. by rewrite decide_True, decide_False.
  - apply map_filter_lookup_None. rewrite member_set_snap. case_decide; [|by left].
    right. intros x _. simpl. rewrite Hv. rewrite decide_True by (apply dec_stable; naive_solver). done.
Qed.

Lemma spec_left_snap cfg M v ids i :
  view_is cfg M v →
  spec_left v (snap_of cfg ids) !! i = if decide (i ∈ M ∧ i ∉ ids) then Some (mk_member cfg i) else None.
Proof.
  intros Hv. unfold spec_left. case_decide as Hi.
  - apply map_filter_lookup_Some. simpl. rewrite member_set_snap, Hv.
    destruct Hi. by rewrite decide_True, decide_False.
  - apply map_filter_lookup_None. rewrite Hv. case_decide; [|by left].
    right. intros x _. simpl. rewrite member_set_snap. rewrite decide_True by (apply dec_stable; naive_solver). done.
Qed.

(* the joined / left members of a snapshot, for a node whose view is M *)
Lemma joined_snap cfg M a ids :
  view_is cfg M (members a) → NoDup ids →
  joined a (snap_of cfg ids) ≡ₚ mk_member cfg <$> filter (λ i, i ∉ M) ids.
Proof.
  intros Hv Hnd. pose proof (view_is_keyed _ _ _ Hv) as Hk.
  rewrite joined_eq by done. apply NoDup_Permutation.
  - eapply NoDup_fmap_1. apply slice_NoDup_ids, spec_joined_keyed.
  - apply NoDup_fmap_2; [apply mk_member_inj|]. by apply NoDup_filter.
  - intros m. rewrite elem_of_slice, elem_of_list_fmap. setoid_rewrite elem_of_list_filter.
    setoid_rewrite (spec_joined_snap cfg M _ ids _ Hv). split.
    + intros (k & Hm). case_decide; naive_solver.
    + intros (i & -> & ? & ?). exists i. by rewrite decide_True.
Qed.

Lemma left_snap cfg M a ids :
  view_is cfg M (members a) →
  left_ a (snap_of cfg ids) ≡ₚ mk_member cfg <$> filter (λ i, i ∉ ids) (elements M).
Proof.
  intros Hv. pose proof (view_is_keyed _ _ _ Hv) as Hk.
  rewrite left_eq by done. apply NoDup_Permutation.
  - eapply NoDup_fmap_1. by apply slice_NoDup_ids, spec_left_keyed.
  - apply NoDup_fmap_2; [apply mk_member_inj|]. apply NoDup_filter, NoDup_elements.
  - intros m. rewrite elem_of_slice, elem_of_list_fmap. setoid_rewrite elem_of_list_filter.
    setoid_rewrite (spec_left_snap cfg M _ ids _ Hv). setoid_rewrite elem_of_elements. split.
    + intros (k & Hm). case_decide; naive_solver.
    + intros (i & -> & ? & ?). exists i. by rewrite decide_True.
Qed.

Lemma handle_members_snap_view cfg M a ids :
  view_is cfg M (members a) →
  view_is cfg (list_to_set ids) (members (handle_members a (snap_of cfg ids)).1).
Proof.
  intros Hv i. rewrite handle_members_members by by eapply view_is_keyed.
  rewrite spec_view_lookup, member_set_snap, Hv.
  destruct (decide (i ∈ ids)).
  - rewrite (decide_True (P := i ∈ list_to_set ids)) by by apply elem_of_list_to_set. by case_decide.
  - by rewrite (decide_False (P := i ∈ list_to_set ids)) by by rewrite elem_of_list_to_set.
Qed.

Lemma fresh_kinds_exact cfg j ids :
  j ∈ ids → kinds_exact (handle_members (init (list_to_set (nkinds cfg j))) (snap_of cfg ids)).1.
Proof.
  intros Hj. apply (kinds_exact_first _ j). split.
  - exists (mk_member cfg j). split; [|done]. by apply elem_of_list_fmap_1.
  - intros m (i & -> & _)%elem_of_list_fmap. simpl. by intros ->.
Qed.

(** * Delivery *)
Lemma net_weight_cons d m l : net_weight ((d, m) :: l) = weight m + net_weight l.
Proof. done. Qed.
Lemma weight_pos m : 1 ≤ weight m.
Proof. destruct m; simpl; lia. Qed.

Lemma length_le_weight l : length l ≤ net_weight l.
Proof.
  induction l as [|[d m] l IH]; [done|]. rewrite net_weight_cons. pose proof (weight_pos m). simpl. lia.
Qed.

Lemma net_weight_app l1 l2 : net_weight (l1 ++ l2) = net_weight l1 + net_weight l2.
Proof. unfold net_weight. by rewrite !fmap_app, sum_list_with_app. Qed.

Lemma net_weight_delete l i d m :
  l !! i = Some (d, m) → net_weight l = net_weight (delete i l) + weight m.
Proof.
  intros Hi. rewrite <- (take_drop_middle l i (d, m)) at 1 by done.
  rewrite delete_take_drop, !net_weight_app, net_weight_cons. lia.
Qed.

Lemma member_set_size l : size (member_set l) ≤ length l.
Proof.
  induction l as [|m l IH] using rev_ind; [by rewrite member_set_nil, map_size_empty|].
  rewrite member_set_snoc, map_size_insert, app_length. simpl.
  destruct (member_set l !! mid m); simpl; lia.
Qed.

Lemma joined_length a snap : length (joined a snap) ≤ length snap.
Proof.
  unfold joined, except, slice. rewrite fmap_length.
  etrans; [|apply member_set_size].
  change (length (map_to_list ?m)) with (size m).
  rewrite <- !size_dom. apply subseteq_size, subseteq_dom, map_filter_subseteq.
Qed.

Lemma handle_out_weight nd m : net_weight (handle nd m).2 < weight m.
Proof.
  destruct m; simpl; try (change (net_weight []) with 0; lia).
  case_decide; [change (net_weight []) with 0; lia|].
  pose proof (joined_length (ag nd) snap) as Hl.
  enough (net_weight ((λ m, (mid m, MTopology (map_to_list (activated nd)))) <$> joined (ag nd) snap)
          = length (joined (ag nd) snap)) by lia.
  generalize (joined (ag nd) snap). intros l.
  induction l as [|x l IH]; [done|]. rewrite fmap_cons, net_weight_cons, IH. done.
Qed.

Lemma deliver1_weight i s :
  i < length (net s) → net_weight (net (deliver1 i s)) < net_weight (net s).
Proof.
  intros Hi. unfold deliver1. destruct (net s !! i) as [[d m]|] eqn:E.
  2: { apply lookup_ge_None in E. lia. }
  rewrite (net_weight_delete _ _ _ _ E).
  destruct (nodes s !! d) as [nd|]; simpl.
  - rewrite net_weight_app. pose proof (handle_out_weight nd m). lia.
  - pose proof (weight_pos m). lia.
Qed.

(* invariant principle: whatever the choice list *)
Lemma deliver_fuel_inv (P : state → Prop) f o s :
  (∀ s i, P s → i < length (net s) → P (deliver1 i s)) → P s → P (deliver_fuel f o s).
Proof.
  intros Hstep. revert o s. induction f as [|f IH]; intros o s Hs; simpl; [done|].
  destruct (net s) as [|x l] eqn:E; [done|].
  apply IH, Hstep; [done|]. rewrite E. apply Nat.mod_upper_bound. simpl. lia.
Qed.

Lemma deliver_fuel_drains f o s : net_weight (net s) ≤ f → net (deliver_fuel f o s) = [].
Proof.
  revert o s. induction f as [|f IH]; intros o s Hw; simpl.
  - pose proof (length_le_weight (net s)). destruct (net s); [done|simpl in *; lia].
  - destruct (net s) as [|x l] eqn:E; [done|].
    apply IH. rewrite <- E in Hw |- *.
    assert (default 0 (head o) `mod` length (net s) < length (net s)) as Hlt.
    { apply Nat.mod_upper_bound. rewrite E. simpl. lia. }
    pose proof (deliver1_weight _ s Hlt). lia.
Qed.

Theorem deliver_all_inv (P : state → Prop) o s :
  (∀ s i, P s → i < length (net s) → P (deliver1 i s)) → P s →
  P (deliver_all o s) ∧ net (deliver_all o s) = [].
Proof. intros. unfold deliver_all. split; [by apply deliver_fuel_inv|by apply deliver_fuel_drains]. Qed.

Lemma deliver_fuel_nil f o s : net s = [] → deliver_fuel f o s = s.
Proof. intros E. destruct f; simpl; [done|]. by rewrite E. Qed.
Lemma deliver_all_nil o s : net s = [] → deliver_all o s = s.
Proof. apply deliver_fuel_nil. Qed.

Lemma deliver1_started i s : started (deliver1 i s) = started s.
Proof. unfold deliver1. destruct (net s !! i) as [[d m]|]; [|done]. by destruct (nodes s !! d). Qed.

(** ** Messages that cause no further messages, one per destination: each
       destination ends up having handled its message, in every order *)
Lemma elem_of_delete_ne {A} (l : list A) i x y :
  l !! i = Some y → x ∈ l → x ≠ y → x ∈ delete i l.
Proof.
  intros Hi Hx Hne. rewrite <- (take_drop_middle l i y) in Hx by done.
  rewrite delete_take_drop. set_solver.
Qed.
Lemma elem_of_delete_sub {A} (l : list A) i x : x ∈ delete i l → x ∈ l.
Proof. intros H. eapply elem_of_submseteq; [done|]. apply sublist_submseteq, sublist_delete. Qed.
Lemma NoDup_fst_delete {A B} (l : list (A * B)) i : NoDup l.*1 → NoDup (delete i l).*1.
Proof.
  intros Hnd. destruct (l !! i) as [x|] eqn:E.
  - rewrite <- (take_drop_middle _ _ _ E) in Hnd. rewrite delete_take_drop.
    rewrite fmap_app in *. rewrite fmap_cons in Hnd.
    apply NoDup_app in Hnd as (H1 & H2 & [H3 H4]%NoDup_cons).
    apply NoDup_app. split_and!; [done| |done]. intros y Hy Hy'. eapply H2; [done|by right].
  - rewrite delete_take_drop, (drop_ge l (S i)), app_nil_r by (apply lookup_ge_None in E; lia).
    rewrite take_ge by (apply lookup_ge_None in E; lia). done.
Qed.

Lemma deliver_silent f o s :
  NoDup (net s).*1 →
  (∀ n m nd, (n, m) ∈ net s → nodes s !! n = Some nd → (handle nd m).2 = []) →
  length (net s) ≤ f →
  let s' := deliver_fuel f o s in
  net s' = [] ∧ started s' = started s ∧
  ∀ n, nodes s' !! n = match (list_to_map (net s) : gmap nat msg) !! n with
                       | Some m => (λ nd, (handle nd m).1) <$> nodes s !! n
                       | None => nodes s !! n
                       end.
Proof.
  revert o s. induction f as [|f IH]; intros o s Hnd Hsil Hlen; simpl.
  { destruct (net s); [|simpl in *; lia]. done. }
  destruct (net s) as [|x l] eqn:E; [done|]. rewrite <- E in *.
  set (i := default 0 (head o) `mod` length (net s)).
  assert (i < length (net s)) as Hi.
  { apply Nat.mod_upper_bound. rewrite E. simpl. lia. }
  destruct (lookup_lt_is_Some_2 _ _ Hi) as [[d m] Hdm].
  assert ((d, m) ∈ net s) as Hin by by eapply elem_of_list_lookup_2.
  (* the state after this delivery *)
  assert (net (deliver1 i s) = delete i (net s) ∧
          nodes (deliver1 i s) = match nodes s !! d with
                                 | Some nd => <[d := (handle nd m).1]> (nodes s) | None => nodes s end ∧
          started (deliver1 i s) = started s) as (Hn1 & Hs1 & Hst1).
  { unfold deliver1. rewrite Hdm. destruct (nodes s !! d) as [nd|] eqn:End; simpl; [|done].
    rewrite (Hsil _ _ _ Hin End). by rewrite app_nil_r. }
  (* the other messages go elsewhere *)
  assert (∀ n m', (n, m') ∈ delete i (net s) ↔ (n, m') ∈ net s ∧ n ≠ d) as Hrest.
  { intros n m'. rewrite delete_take_drop.
    rewrite <- (take_drop_middle _ _ _ Hdm) in Hnd. rewrite <- (take_drop_middle _ _ _ Hdm) at 3.
    rewrite fmap_app, fmap_cons in Hnd. simpl in Hnd.
    apply NoDup_app in Hnd as (_ & Hd1 & [Hd2 _]%NoDup_cons).
    rewrite !elem_of_app, elem_of_cons. split.
    - intros [H|H]; (split; [tauto|]); intros ->.
      + eapply Hd1; [by apply (elem_of_list_fmap_1 fst _ _ H)|left].
      + apply Hd2. by apply (elem_of_list_fmap_1 fst _ _ H).
    - intros [[H|[H|H]] Hne]; [tauto|naive_solver|tauto]. }
  assert (NoDup (delete i (net s)).*1) as Hnd'.
  { by apply NoDup_fst_delete. }
  destruct (IH (tail o) (deliver1 i s)) as (Hf1 & Hf2 & Hf3).
  - by rewrite Hn1.
  - intros n m' nd. rewrite Hn1, Hs1. intros [Hm' Hne]%Hrest Hnode.
    eapply Hsil; [done|]. destruct (nodes s !! d); [by rewrite lookup_insert_ne in Hnode|done].
  - rewrite Hn1, length_delete by done. lia.
  - split; [done|]. split; [by rewrite Hf2|].
    intros n. rewrite Hf3, Hn1, Hs1.
    destruct (decide (n = d)) as [->|Hne].
    + rewrite (proj1 (elem_of_list_to_map (net s) d m Hnd) Hin).
      rewrite (proj1 (not_elem_of_list_to_map _ d)).
      2: { intros (p & Hp1 & Hp2)%elem_of_list_fmap. destruct p as [n' m']. simpl in *. subst.
           apply Hrest in Hp2. naive_solver. }
      destruct (nodes s !! d) as [nd|] eqn:End; [by rewrite lookup_insert|by rewrite End].
    + assert ((list_to_map (delete i (net s)) : gmap nat msg) !! n = (list_to_map (net s) : gmap nat msg) !! n) as ->.
      { apply option_eq. intros m'. rewrite <- !elem_of_list_to_map by done. rewrite Hrest. naive_solver. }
      destruct (nodes s !! d); [by rewrite lookup_insert_ne|done].
Qed.

(** * The quiescent invariant: every node's view is the member set, every
      node's activation map is the one map G, the registries hold exactly
      what G places on their node *)
Record node_ok (cfg : config) (G : gmap key nat) (M : gset nat) (n : nat) (nd : node) : Prop := {
  ok_view : view_is cfg M (members (ag nd));
  ok_kinds : kinds_exact (ag nd);
  ok_act : activated nd = G;
  ok_lk : local_kinds nd = nkinds cfg n;
  ok_reg : ∀ k, k ∈ registry nd ↔ G !! k = Some (host cfg n);
}.

Definition Inv (cfg : config) (st : sstate) (s : state) : Prop :=
  net s = [] ∧ dom (nodes s) = sM st ∧
  (∀ n nd, nodes s !! n = Some nd → node_ok cfg (sG st) (sM st) n nd) ∧
  (∀ k h, sG st !! k = Some h → ∃ i, i ∈ sM st ∧ host cfg i = h).

(* ghost logs empty (start of an operation) *)
Definition clean (s : state) : Prop :=
  started s = [] ∧ ∀ n nd, nodes s !! n = Some nd → evs nd = [] ∧ stops nd = [].

(* what an operation must establish *)
Definition Post (cfg : config) (pre : sstate) (so : sout) (s' : state) : Prop :=
  Inv cfg (so_st so) s' ∧ started s' = so_started so ∧
  ∀ n nd, nodes s' !! n = Some nd →
    evs nd = so_events so ∧ stops nd = spec_stops cfg (sG pre) (so_dk so) n.

Lemma Inv_init cfg : Inv cfg sinit init_state.
Proof.
  split_and!; simpl; try done. by rewrite dom_empty_L.
Qed.

Lemma reset_Inv cfg st s : Inv cfg st s → Inv cfg st (reset s) ∧ clean (reset s).
Proof.
  intros (Hnet & Hdom & Hok & Hh). split; [split_and!|split]; simpl; try done.
  - by rewrite dom_fmap_L.
  - intros n nd. rewrite lookup_fmap. destruct (nodes s !! n) as [nd0|] eqn:E; [|done].
    simpl. intros [= <-]. destruct (Hok _ _ E). by split.
  - intros n nd. rewrite lookup_fmap. destruct (nodes s !! n) as [nd0|] eqn:E; [|done].
    simpl. by intros [= <-].
Qed.

Lemma Inv_member cfg st s n : Inv cfg st s → n ∈ sM st → ∃ nd, nodes s !! n = Some nd ∧ node_ok cfg (sG st) (sM st) n nd.
Proof.
  intros (Hnet & Hdom & Hok & Hh) Hn. rewrite <- Hdom in Hn. apply elem_of_dom in Hn as [nd E]. eauto.
Qed.

Lemma quiet_Post cfg st s order : Inv cfg st s → clean s → Post cfg st (quiet st) (deliver_all order s).
Proof.
  intros HI [Hs Hc]. rewrite deliver_all_nil by apply HI. split_and!; [done|done|].
  intros n nd E. by destruct (Hc _ _ E).
Qed.

(** ** Views, sorted *)
Lemma ids_of_view cfg M (v : gmap nat member) : view_is cfg M v → (map_to_list v).*1 ≡ₚ elements M.
Proof.
  intros Hv. apply NoDup_Permutation; [apply NoDup_fst_map_to_list|apply NoDup_elements|].
  intros i. rewrite elem_of_elements, <- (view_is_dom _ _ _ Hv), elem_of_dom. split.
  - intros ([i' m] & -> & Hm%elem_of_map_to_list)%elem_of_list_fmap. eauto.
  - intros [m Hm]. apply elem_of_list_fmap. exists (i, m). split; [done|]. by apply elem_of_map_to_list.
Qed.

Lemma nsortm_view cfg M v : view_is cfg M v → nsortm v = mk_member cfg <$> nsort (elements M).
Proof.
  intros Hv. unfold nsortm. rewrite (nsort_perm _ _ (ids_of_view _ _ _ Hv)).
  assert (Forall (λ i, i ∈ M) (nsort (elements M))) as Hall.
  { apply Forall_forall. intros i. by rewrite elem_of_nsort, elem_of_elements. }
  revert Hall. generalize (nsort (elements M)). intros l Hall.
  induction Hall as [|i l Hi _ IH]; [done|]. simpl. rewrite Hv, decide_True by done. simpl. f_equal. apply IH.
Qed.

Lemma filter_fmap_mk cfg kind (l : list nat) :
  filter (λ m, kind ∈ mkinds m) (mk_member cfg <$> l) = mk_member cfg <$> filter (λ i, kind ∈ nkinds cfg i) l.
Proof.
  induction l as [|i l IH]; [done|]. rewrite fmap_cons, !filter_cons. simpl.
  destruct (decide (kind ∈ nkinds cfg i)); by rewrite IH.
Qed.

Lemma offered_view cfg M v kind :
  view_is cfg M v →
  filter (λ m, kind ∈ mkinds m) (nsortm v) = mk_member cfg <$> offered_ids cfg M kind.
Proof. intros Hv. by rewrite (nsortm_view _ _ _ Hv), filter_fmap_mk. Qed.

Lemma elem_of_offered cfg M kind t : t ∈ offered_ids cfg M kind ↔ t ∈ M ∧ kind ∈ nkinds cfg t.
Proof. unfold offered_ids. rewrite elem_of_list_filter, elem_of_nsort, elem_of_elements. tauto. Qed.

(** ** Broadcasts *)
Lemma elem_of_bcast cfg M v m n m' : view_is cfg M v → (n, m') ∈ bcast v m ↔ n ∈ M ∧ m' = m.
Proof.
  intros Hv. unfold bcast. rewrite elem_of_list_fmap. setoid_rewrite elem_of_slice. split.
  - intros (x & [= -> ->] & k & Hk). rewrite Hv in Hk. case_decide; [|done]. by injection Hk as <-.
  - intros [Hn ->]. exists (mk_member cfg n). split; [done|]. exists n. by rewrite Hv, decide_True.
Qed.

Lemma bcast_NoDup cfg M v m : view_is cfg M v → NoDup (bcast v m).*1.
Proof.
  intros Hv. unfold bcast. rewrite <- list_fmap_compose.
  change (NoDup (mid <$> slice v)). apply slice_NoDup_ids. by eapply view_is_keyed.
Qed.

Lemma bcast_lookup cfg M v m n :
  view_is cfg M v → (list_to_map (bcast v m) : gmap nat msg) !! n = if decide (n ∈ M) then Some m else None.
Proof.
  intros Hv. case_decide as Hn.
  - apply elem_of_list_to_map; [by eapply bcast_NoDup|]. by apply (elem_of_bcast cfg M).
  - apply not_elem_of_list_to_map. intros ([n' m'] & -> & Hin)%elem_of_list_fmap.
    apply (elem_of_bcast cfg M) in Hin; naive_solver.
Qed.

(* a broadcast of a message that causes no further messages: every node of
   the cluster handles it once, whatever the order *)
Lemma deliver_bcast cfg M s v m order :
  net s = [] → view_is cfg M v → dom (nodes s) = M → (∀ nd, (handle nd m).2 = []) →
  let s' := deliver_all order (send (bcast v m) s) in
  net s' = [] ∧ started s' = started s ∧
  ∀ n, nodes s' !! n = (λ nd, (handle nd m).1) <$> nodes s !! n.
Proof.
  intros Hnet Hv Hdom Hsil. unfold deliver_all.
  set (s1 := send (bcast v m) s).
  assert (net s1 = bcast v m) as Hn1 by (unfold s1, send; simpl; by rewrite Hnet).
  destruct (deliver_silent (net_weight (net s1)) order s1) as (H1 & H2 & H3).
  - rewrite Hn1. by eapply bcast_NoDup.
  - rewrite Hn1. intros n m' nd [_ ->]%(elem_of_bcast cfg M) _; [|done]. apply Hsil.
  - apply length_le_weight.
  - split; [done|]. split; [done|]. intros n. rewrite H3, Hn1, (bcast_lookup cfg M) by done.
    simpl. case_decide as Hn; [done|].
    rewrite <- Hdom in Hn. apply not_elem_of_dom in Hn. by rewrite Hn.
Qed.

(** ** Activation (Activate and cluster-Spawn share the second half) *)
Lemma activation_Post cfg st s t k v order :
  host_inj cfg → Inv cfg st s → clean s → t ∈ sM st → sG st !! k = None → view_is cfg (sM st) v →
  Post cfg st
    {| so_st := {| sG := <[k := host cfg t]> (sG st); sM := sM st |}; so_res := RPid (host cfg t) k;
       so_started := [(t, k)]; so_dk := None; so_events := [EvA k (host cfg t)] |}
    (deliver_all order (send (bcast v (MActivation k (host cfg t))) (spawn_on t k s))).
Proof.
  intros Hinj HI [Hst Hcl] Ht HG Hv.
  destruct (Inv_member _ _ _ _ HI Ht) as (nt & Et & Hokt).
  destruct HI as (Hnet & Hdom & Hok & Hh).
  assert (k ∉ registry nt) as Hkr by (rewrite (ok_reg _ _ _ _ _ Hokt), HG; done).
  unfold spawn_on. rewrite Et, decide_False by done.
  match goal with |- Post _ _ _ (deliver_all _ (send _ ?s1x)) => set (s1 := s1x) end.
  destruct (deliver_bcast cfg (sM st) s1 v (MActivation k (host cfg t)) order) as (H1 & H2 & H3); try done.
  { unfold s1. simpl. rewrite dom_insert_L. apply elem_of_dom_2 in Et. set_solver. }
  (* the node states at the end *)
  assert (∀ n nd', nodes (deliver_all order (send (bcast v (MActivation k (host cfg t))) s1)) !! n = Some nd' →
            ∃ nd, nodes s !! n = Some nd ∧
              ag nd' = ag nd ∧ activated nd' = <[k := host cfg t]> (sG st) ∧ local_kinds nd' = local_kinds nd ∧
              registry nd' = (if decide (n = t) then {[k]} ∪ registry nd else registry nd) ∧
              evs nd' = [EvA k (host cfg t)] ∧ stops nd' = []) as Hend.
  { intros n nd'. rewrite H3. unfold s1. simpl.
    destruct (decide (n = t)) as [->|Hne].
    - rewrite lookup_insert. simpl. intros [= <-]. exists nt. split; [done|]. simpl.
      destruct (Hcl _ _ Et) as [-> ->]. rewrite (ok_act _ _ _ _ _ Hokt), add_activated_None by done. done.
    - rewrite lookup_insert_ne by done. destruct (nodes s !! n) as [nd|] eqn:E; [|done].
      simpl. intros [= <-]. exists nd. split; [done|]. simpl.
      destruct (Hcl _ _ E) as [-> ->]. rewrite (ok_act _ _ _ _ _ (Hok _ _ E)), add_activated_None by done. done. }
  split_and!; simpl.
  - split_and!; simpl; [done| | |].
    + apply set_eq. intros n. rewrite <- Hdom, !elem_of_dom, H3. unfold s1. simpl.
      destruct (decide (n = t)) as [->|]; [rewrite lookup_insert, Et|rewrite lookup_insert_ne by done].
      * split; intros _; eauto.
      * by rewrite fmap_is_Some.
    + intros n nd' (nd & E & Hag & Hact & Hlk & Hreg & _)%Hend. destruct (Hok _ _ E) as [? ? ? ? Hr].
      split; [by rewrite Hag|by rewrite Hag|done|by rewrite Hlk|].
      intros k'. rewrite Hreg. destruct (decide (n = t)) as [->|Hne].
      * rewrite elem_of_union, elem_of_singleton, Hr. destruct (decide (k' = k)) as [->|].
        -- rewrite lookup_insert. naive_solver.
        -- rewrite lookup_insert_ne by done. naive_solver.
      * rewrite Hr. destruct (decide (k' = k)) as [->|].
        -- rewrite lookup_insert, HG. split; [done|]. intros [= Heq]. by apply Hinj in Heq.
        -- by rewrite lookup_insert_ne.
    + intros k' h. destruct (decide (k' = k)) as [->|].
      * rewrite lookup_insert. intros [= <-]. eauto.
      * rewrite lookup_insert_ne by done. apply Hh.
  - rewrite H2. unfold s1. simpl. by rewrite Hst.
  - intros n nd' (nd & E & _ & _ & _ & _ & -> & ->)%Hend. done.
Qed.

Lemma activate_refines cfg st s a kind id sel order :
  host_inj cfg → Inv cfg st s → clean s → a ∈ sM st →
  let r := activate cfg a kind id sel s in
  let so := spec_step cfg st (Activate a kind id sel) in
  r.2 = so_res so ∧ Post cfg st so (deliver_all order r.1).
Proof.
  intros Hinj HI Hcl Ha. simpl.
  destruct (Inv_member _ _ _ _ HI Ha) as (na & Ea & Hoka).
  unfold activate. rewrite Ea, (ok_act _ _ _ _ _ Hoka).
  destruct (sG st !! akey cfg kind id) as [h|] eqn:EG.
  { split; [done|]. by apply quiet_Post. }
  rewrite (offered_view _ _ _ _ (ok_view _ _ _ _ _ Hoka)).
  destruct (offered_ids cfg (sM st) kind !! sel) as [t|] eqn:Esel; simpl.
  2: { destruct (mk_member cfg <$> offered_ids cfg (sM st) kind) as [|m0 l0] eqn:El;
         [|rewrite <- El, list_lookup_fmap, Esel]; simpl; (split; [done|]); by apply quiet_Post. }
  destruct (mk_member cfg <$> offered_ids cfg (sM st) kind) as [|m0 l0] eqn:El.
  { apply fmap_nil_inv in El. by rewrite El in Esel. }
  rewrite <- El, list_lookup_fmap, Esel. simpl.
  assert (t ∈ sM st ∧ kind ∈ nkinds cfg t) as [Ht Hkt].
  { apply elem_of_offered. by eapply elem_of_list_lookup_2. }
  destruct (decide (host cfg t = host cfg a)) as [Heq|Hne].
  - apply Hinj in Heq as ->.
    rewrite (ok_lk _ _ _ _ _ Hoka), decide_True by done. simpl. split; [done|].
    apply activation_Post; try done. apply Hoka.
  - destruct (Inv_member _ _ _ _ HI Ht) as (nt & Et & Hokt).
    rewrite Et, (ok_lk _ _ _ _ _ Hokt), decide_True by done.
    rewrite (ok_act _ _ _ _ _ Hokt), EG. simpl. split; [done|].
    apply activation_Post; try done. apply Hoka.
Qed.

Lemma spawn_refines cfg st s a kind id order :
  host_inj cfg → Inv cfg st s → clean s → a ∈ sM st → sG st !! akey cfg kind id = None →
  let r := issue cfg (Spawn a kind id) s in
  let so := spec_step cfg st (Spawn a kind id) in
  r.2 = so_res so ∧ Post cfg st so (deliver_all order r.1).
Proof.
  intros Hinj HI Hcl Ha HG. simpl.
  destruct (Inv_member _ _ _ _ HI Ha) as (na & Ea & Hoka).
  rewrite Ea. simpl. split; [done|]. apply activation_Post; try done. apply Hoka.
Qed.

(** ** Deactivation *)
Lemma deactivate_refines cfg st s a ph kind id order :
  Inv cfg st s → clean s → a ∈ sM st →
  let r := issue cfg (Deactivate a ph kind id) s in
  let so := spec_step cfg st (Deactivate a ph kind id) in
  r.2 = so_res so ∧ Post cfg st so (deliver_all order r.1).
Proof.
  intros HI [Hst Hcl] Ha. simpl.
  destruct (Inv_member _ _ _ _ HI Ha) as (na & Ea & Hoka).
  rewrite Ea, (ok_act _ _ _ _ _ Hoka).
  set (k := akey cfg kind id).
  destruct (match ph with Some h => Some h | None => sG st !! k end) as [h|] eqn:Eh; simpl.
  2: { split; [done|]. by apply quiet_Post. }
  split; [done|].
  destruct HI as (Hnet & Hdom & Hok & Hh).
  destruct (deliver_bcast cfg (sM st) s (members (ag na)) (MDeactivation k h) order) as (H1 & H2 & H3);
    try done; [apply Hoka|].
  assert (∀ n nd', nodes (deliver_all order (send (bcast (members (ag na)) (MDeactivation k h)) s)) !! n = Some nd' →
            ∃ nd, nodes s !! n = Some nd ∧
              ag nd' = ag nd ∧ activated nd' = delete k (sG st) ∧ local_kinds nd' = local_kinds nd ∧
              registry nd' = registry nd ∖ {[k]} ∧
              evs nd' = [EvD k h] ∧ stops nd' = (if decide (k ∈ registry nd) then [k] else [])) as Hend.
  { intros n nd'. rewrite H3. destruct (nodes s !! n) as [nd|] eqn:E; [|done].
    simpl. intros [= <-]. exists nd. split; [done|]. simpl.
    destruct (Hcl _ _ E) as [-> ->]. by rewrite (ok_act _ _ _ _ _ (Hok _ _ E)). }
  split_and!; simpl.
  - split_and!; simpl; [done| | |].
    + apply set_eq. intros n. rewrite <- Hdom, !elem_of_dom, H3. by rewrite fmap_is_Some.
    + intros n nd' (nd & E & Hag & Hact & Hlk & Hreg & _)%Hend. destruct (Hok _ _ E) as [? ? ? ? Hr].
      split; [by rewrite Hag|by rewrite Hag|done|by rewrite Hlk|].
      intros k'. rewrite Hreg, elem_of_difference, elem_of_singleton, Hr, lookup_delete_Some. naive_solver.
    + intros k' h'. rewrite lookup_delete_Some. intros [_ ?]. by eapply Hh.
  - by rewrite H2.
  - intros n nd' (nd & E & _ & _ & _ & _ & -> & ->)%Hend. split; [done|].
    destruct (Hok _ _ E) as [_ _ _ _ Hr]. fold k. destruct (decide (k ∈ registry nd)) as [Hin|Hnin].
    + by rewrite decide_True by by apply Hr.
    + by rewrite decide_False by by rewrite <- Hr.
Qed.

(** ** Snapshots *)
Lemma filter_none {A} (P : A → Prop) `{!∀ x, Decision (P x)} (l : list A) :
  (∀ x, x ∈ l → ¬ P x) → filter P l = [].
Proof.
  induction l as [|x l IH]; intros Hall; [done|]. rewrite filter_cons, decide_False by (apply Hall; left).
  apply IH. intros y Hy. apply Hall. by right.
Qed.
Lemma filter_all {A} (P : A → Prop) `{!∀ x, Decision (P x)} (l : list A) :
  (∀ x, x ∈ l → P x) → filter P l = l.
Proof.
  induction l as [|x l IH]; intros Hall; [done|]. rewrite filter_cons, decide_True by (apply Hall; left).
  f_equal. apply IH. intros y Hy. apply Hall. by right.
Qed.
Lemma filter_singleton_inv {A} (P : A → Prop) `{!∀ x, Decision (P x)} (l : list A) x :
  filter P l = [x] → x ∈ l ∧ P x ∧ ∀ y, y ∈ l → P y → y = x.
Proof.
  intros Hf. assert (∀ y, y ∈ filter P l ↔ y = x) as Hy by (intros y; rewrite Hf; apply elem_of_list_singleton).
  setoid_rewrite elem_of_list_filter in Hy. split_and!; [by apply Hy|by apply Hy|]. intros y ? ?. by apply Hy.
Qed.
Lemma filter_nil_inv {A} (P : A → Prop) `{!∀ x, Decision (P x)} (l : list A) :
  filter P l = [] → ∀ y, y ∈ l → ¬ P y.
Proof.
  intros Hf y Hy HP. assert (y ∈ filter P l) as Hin by by apply elem_of_list_filter.
  rewrite Hf in Hin. by apply elem_of_nil in Hin.
Qed.

Lemma fst_fmap_pair {B} (g : nat → B) (ids : list nat) : ((λ i, (i, g i)) <$> ids).*1 = ids.
Proof. induction ids as [|i ids IH]; [done|]. rewrite !fmap_cons. simpl. by rewrite IH. Qed.

Lemma snap_nodes_lookup cfg (ns : gmap nat node) ids i :
  NoDup ids →
  (list_to_map ((λ i, (i, default (fresh cfg i) (ns !! i))) <$> ids) : gmap nat node) !! i =
  if decide (i ∈ ids) then Some (default (fresh cfg i) (ns !! i)) else None.
Proof.
  intros Hnd. case_decide as Hi.
  - apply elem_of_list_to_map.
    + by rewrite fst_fmap_pair.
    + apply elem_of_list_fmap. eauto.
  - apply not_elem_of_list_to_map. by rewrite fst_fmap_pair.
Qed.

Lemma snap_msgs_lookup ids (m : msg) i :
  NoDup ids →
  (list_to_map ((λ i, (i, m)) <$> ids) : gmap nat msg) !! i = if decide (i ∈ ids) then Some m else None.
Proof.
  intros Hnd. case_decide as Hi.
  - apply elem_of_list_to_map.
    + by rewrite fst_fmap_pair.
    + apply elem_of_list_fmap. eauto.
  - apply not_elem_of_list_to_map. by rewrite fst_fmap_pair.
Qed.

Lemma handle_mm nd snap :
  left_ (ag nd) snap = [] →
  handle nd (MMembers snap) =
  ({| ag := (handle_members (ag nd) snap).1; activated := activated nd; local_kinds := local_kinds nd;
      registry := registry nd; evs := evs nd; stops := stops nd |},
   if decide (activated nd = ∅) then []
   else (λ m, (mid m, MTopology (map_to_list (activated nd)))) <$> joined (ag nd) snap).
Proof. intros Hl. simpl. by rewrite Hl. Qed.

Lemma handle_mm_leave nd snap m :
  joined (ag nd) snap = [] → left_ (ag nd) snap = [m] →
  handle nd (MMembers snap) =
  ({| ag := (handle_members (ag nd) snap).1; activated := purge_host (activated nd) (mhost m);
      local_kinds := local_kinds nd; registry := registry nd; evs := evs nd; stops := stops nd |}, []).
Proof. intros Hj Hl. simpl. rewrite Hj, Hl. simpl. by case_decide. Qed.

(** *** a member leaves *)
Lemma leave_refines cfg st s ids l order :
  host_inj cfg → Inv cfg st s → clean s → NoDup ids →
  filter (λ i, i ∉ sM st) ids = [] → filter (λ i, i ∉ ids) (elements (sM st)) = [l] →
  Post cfg st (spec_step cfg st (Snap ids)) (deliver_all order (issue cfg (Snap ids) s).1).
Proof.
  intros Hinj (Hnet & Hdom & Hok & Hh) [Hst Hcl] Hnd Hf1 Hf2.
  pose proof (filter_nil_inv _ _ Hf1) as Hsub.
  destruct (filter_singleton_inv _ _ _ Hf2) as (Hl & Hl' & Hrest).
  apply elem_of_elements in Hl.
  assert (∀ i, i ∈ ids → i ∈ sM st) as Hsub' by (intros i Hi; apply dec_stable; by apply Hsub).
  set (snap := snap_of cfg ids).
  simpl. rewrite Hf2. simpl. fold (snap_of cfg ids). fold snap.
  match goal with |- Post _ _ _ (deliver_all _ ?s1x) => set (s1 := s1x) end.
  assert (net s1 = (λ i, (i, MMembers snap)) <$> ids) as Hn1 by (unfold s1; simpl; by rewrite Hnet).
  (* the nodes that stay, and what each of them does with the snapshot *)
  assert (∀ n nd, nodes s1 !! n = Some nd → n ∈ ids ∧ nodes s !! n = Some nd) as Hs1.
  { intros n nd. unfold s1. simpl. rewrite snap_nodes_lookup by done. case_decide as Hn; [|done].
    destruct (nodes s !! n) as [nd0|] eqn:E; [by intros [= <-]|].
    apply Hsub' in Hn. rewrite <- Hdom in Hn. apply not_elem_of_dom in E. done. }
  assert (∀ n nd, nodes s !! n = Some nd →
            handle nd (MMembers snap) =
            ({| ag := (handle_members (ag nd) snap).1; activated := purge_host (sG st) (host cfg l);
                local_kinds := local_kinds nd; registry := registry nd; evs := evs nd; stops := stops nd |}, [])) as Hhandle.
  { intros n nd E. destruct (Hok _ _ E) as [Hv _ Hact _ _].
    rewrite <- Hact. apply (handle_mm_leave nd snap (mk_member cfg l)).
    - apply Permutation_nil_r. unfold snap. rewrite (joined_snap cfg (sM st)) by done. by rewrite Hf1.
    - apply Permutation_singleton_r. unfold snap. rewrite (left_snap cfg (sM st)) by done. by rewrite Hf2. }
  unfold deliver_all.
  destruct (deliver_silent (net_weight (net s1)) order s1) as (H1 & H2 & H3).
  { by rewrite Hn1, fst_fmap_pair. }
  { rewrite Hn1. intros n m nd (i & [= -> ->] & Hi)%elem_of_list_fmap [_ E]%Hs1. by rewrite (Hhandle _ _ E). }
  { apply length_le_weight. }
  assert (∀ n nd', nodes (deliver_fuel (net_weight (net s1)) order s1) !! n = Some nd' →
            n ∈ ids ∧ ∃ nd, nodes s !! n = Some nd ∧ nd' = (handle nd (MMembers snap)).1) as Hend.
  { intros n nd'. rewrite H3, Hn1, snap_msgs_lookup by done. case_decide as Hn.
    - destruct (nodes s1 !! n) as [nd|] eqn:E; [|done]. simpl. intros [= <-].
      apply Hs1 in E as [_ E]. eauto.
    - intros [? _]%Hs1. done. }
  split_and!; simpl.
  - split_and!; simpl; [done| | |].
    + apply set_eq. intros n. rewrite elem_of_dom, elem_of_list_to_set. split.
      * intros [nd' [? _]%Hend]. done.
      * intros Hn. rewrite H3, Hn1, snap_msgs_lookup, decide_True by done.
        unfold s1. simpl. rewrite snap_nodes_lookup, decide_True by done. eauto.
    + intros n nd' (Hn & nd & E & ->)%Hend. rewrite (Hhandle _ _ E). simpl.
      destruct (Hok _ _ E) as [Hv Hk Hact Hlk Hr].
      split; simpl; [by apply (handle_members_snap_view cfg (sM st))|apply kinds_exact_step; [by eapply view_is_keyed|done]|done|done|].
      intros k. rewrite Hr, purge_host_lookup. destruct (sG st !! k) as [h'|]; [|done].
      case_decide as Hh'; [|done]. subst h'. split; [|done]. intros [= Heq]. apply Hinj in Heq as <-. done.
    + intros k h. rewrite purge_host_lookup. destruct (sG st !! k) as [h'|] eqn:E; [|done].
      case_decide as Hh'; [done|]. intros [= <-]. destruct (Hh _ _ E) as (i & Hi & <-).
      exists i. split; [|done]. apply elem_of_list_to_set. apply dec_stable. intros Hni.
      apply Hh'. f_equal. apply Hrest; [by apply elem_of_elements|done].
  - etrans; [exact H2|done].
  - intros n nd' (Hn & nd & E & ->)%Hend. rewrite (Hhandle _ _ E). simpl. by apply Hcl in E.
Qed.

Lemma dom_insert_same {A} (m : gmap nat A) d x (X : gset nat) : dom m = X → d ∈ X → dom (<[d:=x]> m) = X.
Proof. intros <- Hd. rewrite dom_insert_L. set_solver. Qed.

(** *** a new node joins: the invariant of the delivery phase.
    Old nodes move from the view M to M' = M ∪ {j} when they handle the member
    list (and then send their topology — always the whole of G — to j); j
    starts with nothing and has G as soon as one topology reached it; at least
    one is on its way as long as j knows nothing and G is not empty. *)
Section join.
  Context (cfg : config) (G : gmap key nat) (M : gset nat) (j : nat) (ids : list nat).
  Context (Hnd : NoDup ids) (HjM : j ∉ M).
  Context (Hf1 : filter (λ i, i ∉ M) ids = [j]) (Hf2 : filter (λ i, i ∉ ids) (elements M) = []).

  Let M' : gset nat := M ∪ {[j]}.
  Let mm : msg := MMembers (snap_of cfg ids).
  Let tt : msg := MTopology (map_to_list G).

  Lemma join_ids i : i ∈ ids ↔ i ∈ M'.
  Proof.
    destruct (filter_singleton_inv _ _ _ Hf1) as (Hj & _ & Hrest).
    pose proof (filter_nil_inv _ _ Hf2) as Hsub. unfold M'. rewrite elem_of_union, elem_of_singleton. split.
    - intros Hi. destruct (decide (i ∈ M)); [by left|right; by apply Hrest].
    - intros [Hi| ->]; [|done]. apply dec_stable. intros Hni. by apply (Hsub i); [apply elem_of_elements|].
  Qed.
  Lemma join_set : list_to_set ids = M'.
  Proof. apply set_eq. intros i. by rewrite elem_of_list_to_set, join_ids. Qed.

  (* what the member list does to a node, by the view the node has *)
  Lemma handle_mm_old nd :
    view_is cfg M (members (ag nd)) →
    handle nd mm =
    ({| ag := (handle_members (ag nd) (snap_of cfg ids)).1; activated := activated nd; local_kinds := local_kinds nd;
        registry := registry nd; evs := evs nd; stops := stops nd |},
     if decide (activated nd = ∅) then [] else [(j, MTopology (map_to_list (activated nd)))]).
  Proof.
    intros Hv. unfold mm. rewrite handle_mm.
    - assert (joined (ag nd) (snap_of cfg ids) = [mk_member cfg j]) as ->; [|done].
      apply Permutation_singleton_r. rewrite (joined_snap cfg M) by done. by rewrite Hf1.
    - apply Permutation_nil_r. rewrite (left_snap cfg M) by done. by rewrite Hf2.
  Qed.

  Lemma handle_mm_new nd :
    view_is cfg M' (members (ag nd)) →
    handle nd mm =
    ({| ag := (handle_members (ag nd) (snap_of cfg ids)).1; activated := activated nd; local_kinds := local_kinds nd;
        registry := registry nd; evs := evs nd; stops := stops nd |}, []).
  Proof.
    intros Hv. unfold mm. rewrite handle_mm.
    - assert (joined (ag nd) (snap_of cfg ids) = []) as ->; [|by case_decide].
      apply Permutation_nil_r. rewrite (joined_snap cfg M') by done.
      rewrite filter_none; [done|]. intros i Hi. rewrite <- join_ids. naive_solver.
    - apply Permutation_nil_r. rewrite (left_snap cfg M') by done.
      rewrite filter_none; [done|]. intros i Hi%elem_of_elements. rewrite join_ids. naive_solver.
  Qed.

  Lemma handle_mm_fresh nd :
    ag nd = init (list_to_set (nkinds cfg j)) →
    ∃ out,
    handle nd mm =
    ({| ag := (handle_members (ag nd) (snap_of cfg ids)).1; activated := activated nd; local_kinds := local_kinds nd;
        registry := registry nd; evs := evs nd; stops := stops nd |}, out) ∧
    (activated nd = ∅ → out = []) ∧
    (∀ d m, (d, m) ∈ out → d ∈ M' ∧ m = MTopology (map_to_list (activated nd))).
  Proof.
    intros Hag. assert (view_is cfg ∅ (members (ag nd))) as Hv by (rewrite Hag; apply view_is_empty).
    eexists. split; [|split].
    - unfold mm. apply handle_mm.
      apply Permutation_nil_r. rewrite (left_snap cfg ∅) by done. by rewrite elements_empty.
    - intros ->. by rewrite decide_True.
    - intros d m. case_decide; [by intros ?%elem_of_nil|].
      intros (x & [= -> ->] & Hx)%elem_of_list_fmap. split; [|done].
      rewrite (joined_snap cfg ∅) in Hx by done. apply elem_of_list_fmap in Hx as (i & -> & Hi%elem_of_list_filter).
      simpl. apply join_ids, Hi.
  Qed.

  Definition MidJoin (s : state) : Prop :=
    dom (nodes s) = M' ∧ started s = [] ∧
    (∀ d m, (d, m) ∈ net s → d ∈ M' ∧ (m = mm ∨ m = tt)) ∧
    (∀ n nd, nodes s !! n = Some nd → n ≠ j →
       kinds_exact (ag nd) ∧ activated nd = G ∧ local_kinds nd = nkinds cfg n ∧
       (∀ k, k ∈ registry nd ↔ G !! k = Some (host cfg n)) ∧ evs nd = [] ∧ stops nd = [] ∧
       ((view_is cfg M (members (ag nd)) ∧ (n, mm) ∈ net s) ∨ view_is cfg M' (members (ag nd)))) ∧
    (∀ nd, nodes s !! j = Some nd →
       local_kinds nd = nkinds cfg j ∧ registry nd = ∅ ∧ evs nd = [] ∧ stops nd = [] ∧
       ((ag nd = init (list_to_set (nkinds cfg j)) ∧ (j, mm) ∈ net s) ∨
        (view_is cfg M' (members (ag nd)) ∧ kinds_exact (ag nd))) ∧
       (activated nd = G ∨
        (activated nd = ∅ ∧
         ((j, tt) ∈ net s ∨ ∃ n nd', n ≠ j ∧ nodes s !! n = Some nd' ∧ view_is cfg M (members (ag nd')))))).

  Lemma M_ne_M' : M ≠ M'.
  Proof. unfold M'. intros Heq. apply HjM. rewrite Heq. set_solver. Qed.

  Lemma mm_ne_tt : mm ≠ tt.
  Proof. done. Qed.

  Lemma MidJoin_step s i : MidJoin s → i < length (net s) → MidJoin (deliver1 i s).
  Proof.
    intros (Hdom & Hst & Hnet & Hold & Hj) Hi.
    destruct (lookup_lt_is_Some_2 _ _ Hi) as [[d m] Hdm].
    assert ((d, m) ∈ net s) as Hin by by eapply elem_of_list_lookup_2.
    destruct (Hnet _ _ Hin) as [Hd Hm].
    assert (is_Some (nodes s !! d)) as [nd End] by (apply elem_of_dom; by rewrite Hdom).
    (* messages that stay in flight *)
    assert (∀ x out, x ∈ net s → x ≠ (d, m) → x ∈ delete i (net s) ++ out) as Hstay.
    { intros x out Hx Hne. apply elem_of_app. left. by eapply elem_of_delete_ne. }
    assert (∀ x out, x ∈ delete i (net s) ++ out → x ∈ net s ∨ x ∈ out) as Hfrom.
    { intros x out [Hx|Hx]%elem_of_app; [left; by eapply elem_of_delete_sub|by right]. }
    unfold deliver1. rewrite Hdm, End.
    destruct Hm as [->| ->].
    - (* the member list *)
      destruct (decide (d = j)) as [->|Hdj].
      + (* at the joiner *)
        destruct (Hj _ End) as (Hlk & Hreg & Hev & Hsp & Hag & Hact).
        destruct Hag as [[Hag Hpend]|[Hv Hke]].
        * destruct (handle_mm_fresh nd Hag) as (out & -> & Hout0 & Hout).
          assert (j ∈ ids) as Hjids by (apply join_ids; unfold M'; set_solver).
          split_and!; simpl.
          -- by apply dom_insert_same.
          -- done.
          -- intros d' m' [Hx|Hx]%Hfrom; [by apply Hnet|]. destruct (Hout _ _ Hx) as [? ->].
             split; [done|]. right. destruct Hact as [->|[Ha _]]; [done|]. by rewrite (Hout0 Ha) in Hx; apply elem_of_nil in Hx.
          -- intros n nd' Hn Hnj. rewrite lookup_insert_ne in Hn by done.
             destruct (Hold _ _ Hn Hnj) as (? & ? & ? & ? & ? & ? & Hvw). split_and!; try done.
             destruct Hvw as [[? Hp]|?]; [left|by right]. split; [done|]. apply Hstay; [done|]. naive_solver.
          -- intros nd'. rewrite lookup_insert. intros [= <-]. simpl. split_and!; try done.
             ++ right. split.
                ** rewrite <- join_set. apply (handle_members_snap_view cfg ∅). rewrite Hag. apply view_is_empty.
                ** rewrite Hag. by apply fresh_kinds_exact.
             ++ destruct Hact as [?|(Ha & Hw)]; [by left|right]. split; [done|].
                destruct Hw as [Hw|(n & nd' & Hnj & Hn & Hvn)].
                ** left. apply Hstay; [done|]. by intros [=].
                ** right. exists n, nd'. by rewrite lookup_insert_ne.
        * rewrite (handle_mm_new nd Hv). rewrite app_nil_r.
          split_and!; simpl.
          -- by apply dom_insert_same.
          -- done.
          -- intros d' m' Hx%elem_of_delete_sub. by apply Hnet.
          -- intros n nd' Hn Hnj. rewrite lookup_insert_ne in Hn by done.
             destruct (Hold _ _ Hn Hnj) as (? & ? & ? & ? & ? & ? & Hvw). split_and!; try done.
             destruct Hvw as [[? Hp]|?]; [left|by right]. split; [done|].
             eapply elem_of_delete_ne; [done|done|]. naive_solver.
          -- intros nd'. rewrite lookup_insert. intros [= <-]. simpl. split_and!; try done.
             ++ right. split.
                ** rewrite <- join_set. by apply (handle_members_snap_view cfg M').
                ** apply kinds_exact_step; [by eapply view_is_keyed|done].
             ++ destruct Hact as [?|(Ha & Hw)]; [by left|right]. split; [done|].
                destruct Hw as [Hw|(n & nd' & Hnj & Hn & Hvn)].
                ** left. eapply elem_of_delete_ne; [done|done|]. by intros [=].
                ** right. exists n, nd'. by rewrite lookup_insert_ne.
      + (* at an old node *)
        destruct (Hold _ _ End Hdj) as (Hke & Hact & Hlk & Hreg & Hev & Hsp & Hvw).
        destruct Hvw as [[Hv Hpend]|Hv].
        * rewrite (handle_mm_old nd Hv). simpl. rewrite Hact.
          split_and!; simpl.
          -- by apply dom_insert_same.
          -- done.
          -- intros d' m' [Hx|Hx]%Hfrom; [by apply Hnet|]. case_decide; [by apply elem_of_nil in Hx|].
             apply elem_of_list_singleton in Hx as [= -> ->]. split; [unfold M'; set_solver|by right].
          -- intros n nd' Hn Hnj. destruct (decide (n = d)) as [->|Hnd'].
             ++ rewrite lookup_insert in Hn. injection Hn as <-. simpl. split_and!; try done.
                ** apply kinds_exact_step; [by eapply view_is_keyed|done].
                ** right. rewrite <- join_set. by apply (handle_members_snap_view cfg M).
             ++ rewrite lookup_insert_ne in Hn by done.
                destruct (Hold _ _ Hn Hnj) as (? & ? & ? & ? & ? & ? & Hvw). split_and!; try done.
                destruct Hvw as [[? Hp]|?]; [left|by right]. split; [done|]. apply Hstay; [done|]. naive_solver.
          -- intros nd'. rewrite lookup_insert_ne by done. intros Hn.
             destruct (Hj _ Hn) as (? & ? & ? & ? & Hag & Hact'). split_and!; try done.
             ++ destruct Hag as [[? Hp]|?]; [left|by right]. split; [done|]. apply Hstay; [done|]. naive_solver.
             ++ destruct Hact' as [?|(Ha & Hw)]; [by left|].
                destruct (decide (G = ∅)) as [HG|HG]; [left; by rewrite Ha, HG|right]. split; [done|].
                destruct Hw as [Hw|(n & nd'' & Hnj & Hn' & Hvn)].
                ** left. apply Hstay; [done|]. naive_solver.
                ** destruct (decide (n = d)) as [->|Hnd'].
                   --- left. apply elem_of_app. right. by apply elem_of_list_singleton.
                   --- right. exists n, nd''. by rewrite lookup_insert_ne.
        * rewrite (handle_mm_new nd Hv). rewrite app_nil_r.
          split_and!; simpl.
          -- by apply dom_insert_same.
          -- done.
          -- intros d' m' Hx%elem_of_delete_sub. by apply Hnet.
          -- intros n nd' Hn Hnj. destruct (decide (n = d)) as [->|Hnd'].
             ++ rewrite lookup_insert in Hn. injection Hn as <-. simpl. split_and!; try done.
                ** apply kinds_exact_step; [by eapply view_is_keyed|done].
                ** right. rewrite <- join_set. by apply (handle_members_snap_view cfg M').
             ++ rewrite lookup_insert_ne in Hn by done.
                destruct (Hold _ _ Hn Hnj) as (? & ? & ? & ? & ? & ? & Hvw). split_and!; try done.
                destruct Hvw as [[? Hp]|?]; [left|by right]. split; [done|].
                eapply elem_of_delete_ne; [done|done|]. naive_solver.
          -- intros nd'. rewrite lookup_insert_ne by done. intros Hn.
             destruct (Hj _ Hn) as (? & ? & ? & ? & Hag & Hact'). split_and!; try done.
             ++ destruct Hag as [[? Hp]|?]; [left|by right]. split; [done|].
                eapply elem_of_delete_ne; [done|done|]. naive_solver.
             ++ destruct Hact' as [?|(Ha & Hw)]; [by left|right]. split; [done|].
                destruct Hw as [Hw|(n & nd'' & Hnj & Hn' & Hvn)].
                ** left. eapply elem_of_delete_ne; [done|done|]. naive_solver.
                ** right. exists n, nd''. split; [done|]. split; [|done].
                   rewrite lookup_insert_ne; [done|]. intros <-. rewrite End in Hn'. injection Hn' as <-.
                   by apply M_ne_M', (view_is_excl cfg M M' (members (ag nd))).
    - (* a topology: it always carries G *)
      rewrite app_nil_r. simpl.
      assert (foldl add_activated (activated nd) (map_to_list G) = G) as HactG.
      { destruct (decide (d = j)) as [->|Hdj].
        - destruct (Hj _ End) as (_ & _ & _ & _ & _ & [->|[-> _]]); [apply topology_known|apply topology_fresh].
        - destruct (Hold _ _ End Hdj) as (_ & -> & _). apply topology_known. }
      rewrite HactG.
      split_and!; simpl.
      + by apply dom_insert_same.
      + done.
      + intros d' m' Hx%elem_of_delete_sub. by apply Hnet.
      + intros n nd' Hn Hnj. destruct (decide (n = d)) as [->|Hnd'].
        * rewrite lookup_insert in Hn. injection Hn as <-. simpl.
          destruct (Hold _ _ End Hnj) as (? & ? & ? & ? & ? & ? & Hvw). split_and!; try done.
          destruct Hvw as [[? Hp]|?]; [left|by right]. split; [done|].
          eapply elem_of_delete_ne; [done|done|]. by intros [=].
        * rewrite lookup_insert_ne in Hn by done.
          destruct (Hold _ _ Hn Hnj) as (? & ? & ? & ? & ? & ? & Hvw). split_and!; try done.
          destruct Hvw as [[? Hp]|?]; [left|by right]. split; [done|].
          eapply elem_of_delete_ne; [done|done|]. by intros [=].
      + intros nd'. destruct (decide (d = j)) as [->|Hdj].
        * rewrite lookup_insert. intros [= <-]. simpl.
          destruct (Hj _ End) as (? & ? & ? & ? & Hag & _). split_and!; try done; [|by left].
          destruct Hag as [[? Hp]|?]; [left|by right]. split; [done|].
          eapply elem_of_delete_ne; [done|done|]. by intros [=].
        * rewrite lookup_insert_ne by done. intros Hn.
          destruct (Hj _ Hn) as (? & ? & ? & ? & Hag & Hact'). split_and!; try done.
          -- destruct Hag as [[? Hp]|?]; [left|by right]. split; [done|].
             eapply elem_of_delete_ne; [done|done|]. by intros [=].
          -- destruct Hact' as [?|(Ha & Hw)]; [by left|right]. split; [done|].
             destruct Hw as [Hw|(n & nd'' & Hnj & Hn' & Hvn)].
             ++ left. eapply elem_of_delete_ne; [done|done|]. naive_solver.
             ++ right. destruct (decide (n = d)) as [->|Hnd'].
                ** exists d. eexists. rewrite lookup_insert. split; [done|]. split; [done|]. simpl.
                   rewrite End in Hn'. by injection Hn' as <-.
                ** exists n, nd''. by rewrite lookup_insert_ne.
  Qed.
End join.

Lemma join_refines cfg st s ids j order :
  host_inj cfg → Inv cfg st s → clean s → NoDup ids →
  filter (λ i, i ∉ sM st) ids = [j] → filter (λ i, i ∉ ids) (elements (sM st)) = [] →
  Post cfg st (spec_step cfg st (Snap ids)) (deliver_all order (issue cfg (Snap ids) s).1).
Proof.
  intros Hinj (Hnet & Hdom & Hok & Hh) [Hst Hcl] Hnd Hf1 Hf2.
  destruct (filter_singleton_inv _ _ _ Hf1) as (Hjids & HjM & _).
  pose proof (join_ids (sM st) j ids Hf1 Hf2) as Hids.
  pose proof (join_set (sM st) j ids Hf1 Hf2) as Hset.
  simpl. rewrite Hf2. simpl. fold (snap_of cfg ids).
  match goal with |- Post _ _ _ (deliver_all _ ?s1x) => set (s1 := s1x) end.
  assert (net s1 = (λ i, (i, MMembers (snap_of cfg ids))) <$> ids) as Hn1 by (unfold s1; simpl; by rewrite Hnet).
  assert (nodes s !! j = None) as Ej by (apply not_elem_of_dom; by rewrite Hdom).
  (* the invariant holds when the member lists have been sent *)
  assert (MidJoin cfg (sG st) (sM st) j ids s1) as Hmid.
  { split_and!.
    - unfold s1. simpl. rewrite dom_list_to_map_L, fst_fmap_pair. done.
    - done.
    - intros d m. rewrite Hn1. intros (i & [= -> ->] & Hi)%elem_of_list_fmap. split; [by apply Hids|by left].
    - intros n nd. unfold s1. simpl. rewrite snap_nodes_lookup by done. case_decide as Hn; [|done].
      intros [= <-] Hnj. apply Hids in Hn. assert (n ∈ sM st) as HnM by set_solver.
      rewrite <- Hdom in HnM. apply elem_of_dom in HnM as [nd E]. rewrite E. simpl.
      destruct (Hok _ _ E) as [? ? ? ? ?]. destruct (Hcl _ _ E). split_and!; try done.
      left. split; [done|]. rewrite Hnet, app_nil_l. apply elem_of_list_fmap. exists n. split; [done|]. apply Hids. set_solver.
    - intros nd. unfold s1. simpl. rewrite snap_nodes_lookup, decide_True, Ej by done. simpl.
      intros [= <-]. simpl. split_and!; try done.
      + left. split; [done|]. rewrite Hnet, app_nil_l. apply elem_of_list_fmap. eauto.
      + destruct (decide (sG st = ∅)) as [HG|HG]; [by left|right]. split; [done|]. right.
        apply map_choose in HG as (k & h & Hk). destruct (Hh _ _ Hk) as (i & Hi & _).
        assert (i ≠ j) by (intros ->; done).
        rewrite <- Hdom in Hi. apply elem_of_dom in Hi as [nd E].
        exists i, nd. split; [done|]. split; [|by destruct (Hok _ _ E)].
        assert (i ∈ ids) as Hiids by (apply Hids; apply elem_of_dom_2 in E; set_solver).
        rewrite snap_nodes_lookup by done. rewrite decide_True by done. by rewrite E. }
  destruct (deliver_all_inv (MidJoin cfg (sG st) (sM st) j ids) order s1) as [Hend Hnil]; [|done|].
  { intros s2 i. by apply MidJoin_step. }
  destruct Hend as (Hd' & Hst' & _ & Hold & Hj).
  rewrite Hnil in Hold, Hj.
  split_and!; simpl.
  - split_and!; simpl; [done|by rewrite Hset| |].
    + intros n nd E. destruct (decide (n = j)) as [->|Hnj].
      * destruct (Hj _ E) as (Hlk & Hreg & _ & _ & Hag & Hact).
        destruct Hag as [[_ Habs%elem_of_nil]|[Hv Hke]]; [done|].
        split; [by rewrite Hset|done| |done|].
        -- destruct Hact as [?|[_ [Habs%elem_of_nil|(n & nd' & Hnj & E' & Hvn)]]]; [done|done|].
           destruct (Hold _ _ E' Hnj) as (_ & _ & _ & _ & _ & _ & [[_ Habs%elem_of_nil]|Hv']); [done|].
           exfalso. assert (sM st = sM st ∪ {[j]}) as Heq by by apply (view_is_excl cfg _ _ (members (ag nd'))).
           apply HjM. rewrite Heq. set_solver.
        -- intros k. rewrite Hreg. split; [set_solver|]. intros Hk. destruct (Hh _ _ Hk) as (i & Hi & Heq).
           apply Hinj in Heq as ->. done.
      * destruct (Hold _ _ E Hnj) as (? & ? & ? & ? & _ & _ & [[_ Habs%elem_of_nil]|Hv']); [done|].
        split; [by rewrite Hset|done..].
    + intros k h Hk. destruct (Hh _ _ Hk) as (i & Hi & Heq). exists i. split; [|done].
      apply elem_of_list_to_set, Hids. set_solver.
  - done.
  - intros n nd E. destruct (decide (n = j)) as [->|Hnj].
    + by destruct (Hj _ E) as (_ & _ & -> & -> & _).
    + by destruct (Hold _ _ E Hnj) as (_ & _ & _ & _ & -> & -> & _).
Qed.

(** * One operation refines the specification, for every delivery order *)
Theorem run_op_refines cfg st s o order :
  host_inj cfg → Inv cfg st s → wf_op cfg st o = true →
  let r := run_op cfg o order s in
  r.2 = so_res (spec_step cfg st o) ∧ Post cfg st (spec_step cfg st o) r.1.
Proof.
  intros Hinj HI Hwf. unfold run_op.
  destruct (reset_Inv _ _ _ HI) as [HI0 Hcl]. simpl.
  destruct o as [a kind id sel|a ph kind id|a kind id|ids]; simpl in Hwf.
  - apply bool_decide_eq_true in Hwf. by apply activate_refines.
  - apply bool_decide_eq_true in Hwf. by apply deactivate_refines.
  - apply andb_true_iff in Hwf as [Ha%bool_decide_eq_true HG%bool_decide_eq_true]. by apply spawn_refines.
  - apply andb_true_iff in Hwf as [Hnd%bool_decide_eq_true Hcase]. split; [done|].
    destruct (filter (λ i, i ∉ sM st) ids) as [|j [|? ?]] eqn:Hf1;
      destruct (filter (λ i, i ∉ ids) (elements (sM st))) as [|l' [|? ?]] eqn:Hf2; try done.
    + by eapply leave_refines.
    + by eapply join_refines.
Qed.

(** * What the harness observes is what the specification predicts *)
Lemma map_ids_perm {A} (m : gmap nat A) : (map_to_list m).*1 ≡ₚ elements (dom m).
Proof.
  apply NoDup_Permutation; [apply NoDup_fst_map_to_list|apply NoDup_elements|].
  intros i. rewrite elem_of_elements, elem_of_dom. split.
  - intros ([i' x] & -> & Hm%elem_of_map_to_list)%elem_of_list_fmap. eauto.
  - intros [x Hm]. apply elem_of_list_fmap. exists (i, x). split; [done|]. by apply elem_of_map_to_list.
Qed.

Lemma node_obs_spec cfg keys G M n nd ev :
  node_ok cfg G M n nd → evs nd = ev →
  node_obs cfg keys n nd = spec_node_obs cfg keys {| sG := G; sM := M |} ev n.
Proof.
  intros [Hv Hk Hact Hlk Hreg] Hev. unfold node_obs, spec_node_obs. cbn [sG sM]. f_equal.
  - apply list_fmap_ext. intros _ k _. unfold get_by_id. by rewrite Hact.
  - apply list_fmap_ext. intros _ k _. unfold get_by_kind. by rewrite Hact.
  - apply list_fmap_ext. intros _ k _. unfold has_kind. apply bool_decide_ext.
    rewrite Hk, elem_of_kinds_of, Exists_exists. setoid_rewrite elem_of_elements. split.
    + intros (i & m & Hm & Hkm). rewrite Hv in Hm. case_decide; [|done]. injection Hm as <-. eauto.
    + intros (i & Hi & Hki). exists i, (mk_member cfg i). by rewrite Hv, decide_True.
  - apply list_fmap_ext. intros _ k _. apply bool_decide_ext, Hreg.
  - done.
Qed.

Lemma Post_obs cfg keys pre so s' r :
  Post cfg pre so s' → r = so_res so →
  state_obs cfg keys (s', r) = cspec_obs cfg keys pre so.
Proof.
  intros ((Hnet & Hdom & Hok & Hh) & Hst & Hlog) ->.
  unfold state_obs, cspec_obs. simpl.
  assert (node_ids s' = nsort (elements (sM (so_st so)))) as ->.
  { unfold node_ids. rewrite <- Hdom. apply nsort_perm, map_ids_perm. }
  assert (Forall (λ n, n ∈ dom (nodes s')) (nsort (elements (sM (so_st so))))) as Hall.
  { apply Forall_forall. intros n. rewrite elem_of_nsort, elem_of_elements. by rewrite Hdom. }
  revert Hall. generalize (nsort (elements (sM (so_st so)))). intros l Hall.
  f_equal; [done| |].
  - induction Hall as [|n l [nd E]%elem_of_dom _ IH]; [done|].
    cbn [omap list_omap]. rewrite E. cbn [fmap option_fmap option_map]. rewrite !bind_cons.
    cbn [fst snd]. rewrite IH. f_equal.
    destruct (Hlog _ _ E) as [_ ->]. done.
  - induction Hall as [|n l [nd E]%elem_of_dom _ IH]; [done|].
    cbn [omap list_omap]. rewrite E. cbn [fmap option_fmap option_map]. rewrite !fmap_cons.
    cbn [fst snd]. rewrite IH. f_equal.
    destruct (Hlog _ _ E) as [Hev _]. destruct (so_st so) as [G' M'] eqn:Est.
    by apply node_obs_spec; [apply (Hok _ _ E)|].
Qed.

(** * Histories *)
Lemma cafter_snoc cfg s h o order :
  cafter cfg s (h ++ [(o, order)]) = (run_op cfg o order (cafter cfg s h)).1.
Proof. unfold cafter. by rewrite foldl_app. Qed.
Lemma spec_after_snoc cfg st ops o :
  spec_after cfg st (ops ++ [o]) = so_st (spec_step cfg (spec_after cfg st ops) o).
Proof. unfold spec_after. by rewrite foldl_app. Qed.

Lemma wf_hist_app cfg st ops1 ops2 :
  wf_hist cfg st (ops1 ++ ops2) = wf_hist cfg st ops1 && wf_hist cfg (spec_after cfg st ops1) ops2.
Proof.
  revert st. induction ops1 as [|o ops1 IH]; intros st; [done|].
  simpl. rewrite IH. by rewrite andb_assoc.
Qed.

(* the invariant holds after every quiescent history, whatever the orders *)
Theorem history_Inv cfg (h : list (op * list nat)) :
  host_inj cfg → wf_hist cfg sinit h.*1 = true →
  Inv cfg (spec_after cfg sinit h.*1) (cafter cfg init_state h).
Proof.
  intros Hinj. induction h as [|[o order] h IH] using rev_ind; intros Hwf; [apply Inv_init|].
  rewrite fmap_app, wf_hist_app in Hwf. apply andb_true_iff in Hwf as [Hwf1 Hwf2].
  simpl in Hwf2. rewrite andb_true_r in Hwf2.
  rewrite fmap_app. change ([(o, order)].*1) with [o]. rewrite cafter_snoc, spec_after_snoc.
  apply (run_op_refines cfg _ _ o order Hinj (IH Hwf1) Hwf2).
Qed.

(* and the observations of the whole run are those of the specification *)
Lemma crun_refines cfg keys st s (h : list (op * list nat)) :
  host_inj cfg → Inv cfg st s → wf_hist cfg st h.*1 = true →
  state_obs cfg keys <$> crun cfg s h = cspec_run cfg keys st h.*1.
Proof.
  intros Hinj. revert st s. induction h as [|[o order] h IH]; intros st s HI Hwf; [done|].
  simpl in *. apply andb_true_iff in Hwf as [Hwf1 Hwf2].
  destruct (run_op_refines cfg st s o order Hinj HI Hwf1) as [Hres HP].
  f_equal.
  - destruct (run_op cfg o order s) as [s' r] eqn:E. simpl in *. by apply Post_obs.
  - apply IH; [apply HP|done].
Qed.

Theorem quiescent_history_refines_spec cfg (h : list (op * list nat)) :
  host_inj cfg → wf_hist cfg sinit h.*1 = true →
  cmodel_run cfg h = cspec_run cfg (case_keys cfg h.*1) sinit h.*1.
Proof. intros. unfold cmodel_run. apply crun_refines; [done|apply Inv_init|done]. Qed.

Theorem oracle_holds_of_model cfg (h : list (op * list nat)) :
  host_inj cfg → coracle_on cfg h.*1 (cmodel_run cfg h) = true.
Proof.
  intros Hinj. unfold coracle_on. destruct (wf_hist cfg sinit h.*1) eqn:Hwf; [|done].
  simpl. apply bool_decide_eq_true. symmetry. by apply quiescent_history_refines_spec.
Qed.

(** * The clauses of C19
    [h] is any quiescent history the property speaks about (with the delivery
    order of each of its operations), [s] the cluster it leads to, [st] the
    one-map description of it; the clause is about one more operation,
    delivered in any order. *)
Section clauses.
  Context (cfg : config) (Hinj : host_inj cfg).
  Context (h : list (op * list nat)) (Hwf : wf_hist cfg sinit h.*1 = true).
  Let s := cafter cfg init_state h.
  Let st := spec_after cfg sinit h.*1.

  Lemma HI : Inv cfg st s.
  Proof. by apply history_Inv. Qed.

  (* at quiescence all views are the one map: nothing in flight, and every
     member answers GetActiveByID / GetActiveByKind from the same map *)
  Theorem views_agree_after_delivery :
    net s = [] ∧ dom (nodes s) = sM st ∧
    (∀ n nd, nodes s !! n = Some nd →
       (∀ k, get_by_id nd k = sG st !! k) ∧
       (∀ kind, get_by_kind cfg nd kind = by_kind_of (sG st) (spell cfg kind)) ∧
       (∀ k, k ∈ registry nd ↔ sG st !! k = Some (host cfg n))) ∧
    (∀ n n' nd nd', nodes s !! n = Some nd → nodes s !! n' = Some nd' →
       (∀ k, get_by_id nd k = get_by_id nd' k) ∧ (∀ kind, get_by_kind cfg nd kind = get_by_kind cfg nd' kind)).
  Proof.
    destruct HI as (Hnet & Hdom & Hok & Hh). split_and!; [done|done| |].
    - intros n nd E. destruct (Hok _ _ E) as [_ _ Hact _ Hreg]. unfold get_by_id, get_by_kind. by rewrite Hact.
    - intros n n' nd nd' E E'. destruct (Hok _ _ E) as [_ _ Hact _ _]. destruct (Hok _ _ E') as [_ _ Hact' _ _].
      unfold get_by_id, get_by_kind. by rewrite Hact, Hact'.
  Qed.

  Lemma same_registry (n : nat) (nd nd' : node) (G : gmap key nat) :
    (∀ k, k ∈ registry nd ↔ G !! k = Some (host cfg n)) →
    (∀ k, k ∈ registry nd' ↔ G !! k = Some (host cfg n)) → registry nd' = registry nd.
  Proof. intros H1 H2. apply set_eq. intros k. by rewrite H1, H2. Qed.

  (* Activate returns nil, starts nothing and changes nothing if some member
     already resolves kind/id, or if no member advertises the kind *)
  Theorem activate_refuses_known_or_unhostable a kind id sel order :
    a ∈ sM st →
    (∃ n nd, nodes s !! n = Some nd ∧ get_by_id nd (akey cfg kind id) ≠ None) ∨
    (∀ i, i ∈ sM st → kind ∉ nkinds cfg i) →
    let r := run_op cfg (Activate a kind id sel) order s in
    r.2 = RNil ∧ started r.1 = [] ∧ dom (nodes r.1) = dom (nodes s) ∧
    ∀ n nd nd', nodes s !! n = Some nd → nodes r.1 !! n = Some nd' →
      activated nd' = activated nd ∧ registry nd' = registry nd ∧ stops nd' = [].
  Proof.
    intros Ha Hcase r.
    destruct (run_op_refines cfg st s (Activate a kind id sel) order Hinj HI) as [Hres HP].
    { simpl. by apply bool_decide_eq_true. }
    fold r in Hres, HP. clearbody r.
    assert (spec_step cfg st (Activate a kind id sel) = quiet st) as Hq.
    { simpl. destruct Hcase as [(n & nd & E & Hk)|Hno].
      - destruct HI as (_ & _ & Hok & _). destruct (Hok _ _ E) as [_ _ Hact _ _].
        unfold get_by_id in Hk. rewrite Hact in Hk. by destruct (sG st !! akey cfg kind id).
      - destruct (sG st !! akey cfg kind id); [done|].
        assert (offered_ids cfg (sM st) kind = []) as ->; [|done].
        apply filter_none. intros i Hi%elem_of_nsort%elem_of_elements. by apply Hno. }
    rewrite Hq in Hres, HP. destruct HP as ((_ & Hdom' & Hok' & _) & Hst' & Hlog).
    destruct HI as (_ & Hdom & Hok & _). simpl in *.
    split_and!; [done|done|by rewrite Hdom, Hdom'|].
    intros n nd nd' E E'. destruct (Hok _ _ E) as [_ _ Hact _ Hreg]. destruct (Hok' _ _ E') as [_ _ Hact' _ Hreg'].
    split_and!; [by rewrite Hact, Hact'|by eapply same_registry|by destruct (Hlog _ _ E')].
  Qed.

  (* otherwise exactly one actor is started, on the member the select function
     chose among those that registered the kind; its PID is returned, every
     member resolves kind/id to it (and lists it under the kind, for kind names
     without '/'), and it sits in the registry of that member only *)
  Theorem activate_spawns_one_on_selected a kind id sel t order :
    a ∈ sM st →
    (∀ n nd, nodes s !! n = Some nd → get_by_id nd (akey cfg kind id) = None) →
    offered_ids cfg (sM st) kind !! sel = Some t →
    let k := akey cfg kind id in
    let r := run_op cfg (Activate a kind id sel) order s in
    t ∈ sM st ∧ kind ∈ nkinds cfg t ∧
    r.2 = RPid (host cfg t) k ∧ started r.1 = [(t, k)] ∧ net r.1 = [] ∧ dom (nodes r.1) = sM st ∧
    ∀ n nd', nodes r.1 !! n = Some nd' →
      get_by_id nd' k = Some (host cfg t) ∧
      (∀ k', k' ≠ k → get_by_id nd' k' = sG st !! k') ∧
      (k ∈ registry nd' ↔ n = t) ∧ stops nd' = [] ∧
      (slash ∉ spell cfg kind → (k, host cfg t) ∈ get_by_kind cfg nd' kind).
  Proof.
    intros Ha Hnone Hsel k r.
    destruct (run_op_refines cfg st s (Activate a kind id sel) order Hinj HI) as [Hres HP].
    { simpl. by apply bool_decide_eq_true. }
    fold r in Hres, HP. clearbody r. subst k.
    assert (sG st !! akey cfg kind id = None) as HG.
    { destruct (Inv_member _ _ _ _ HI Ha) as (na & Ea & Hoka).
      specialize (Hnone _ _ Ea). unfold get_by_id in Hnone. by rewrite (ok_act _ _ _ _ _ Hoka) in Hnone. }
    simpl in Hres, HP. rewrite HG, Hsel in Hres, HP.
    destruct HP as ((Hnet' & Hdom' & Hok' & _) & Hst' & Hlog). simpl in *.
    assert (t ∈ sM st ∧ kind ∈ nkinds cfg t) as [Ht Hkt] by (apply elem_of_offered; by eapply elem_of_list_lookup_2).
    split_and!; try done.
    intros n nd' E'. destruct (Hok' _ _ E') as [_ _ Hact' _ Hreg']. unfold get_by_id, get_by_kind. rewrite Hact'.
    split_and!.
    - by rewrite lookup_insert.
    - intros k' Hk'. by rewrite lookup_insert_ne.
    - rewrite Hreg', lookup_insert. split; [intros [= Heq]; by apply Hinj in Heq|by intros ->].
    - by destruct (Hlog _ _ E').
    - intros Hsl. unfold by_kind_of, psort. rewrite merge_sort_Permutation, elem_of_list_filter. split.
      + simpl. unfold akey. clear -Hsl. induction (spell cfg kind) as [|c l IH]; simpl.
        * done.
        * rewrite decide_False by (intros ->; apply Hsl; left). f_equal. apply IH. intros ?. apply Hsl. by right.
      + apply elem_of_map_to_list. by rewrite lookup_insert.
  Qed.

  (* a node that joins learns every active actor: after the delivery it
     resolves every id as the members did before it joined (and so do they) *)
  Theorem joiner_learns_all ids j order :
    NoDup ids → filter (λ i, i ∉ sM st) ids = [j] → filter (λ i, i ∉ ids) (elements (sM st)) = [] →
    let r := run_op cfg (Snap ids) order s in
    net r.1 = [] ∧ dom (nodes r.1) = sM st ∪ {[j]} ∧ nodes s !! j = None ∧
    (∃ ndj, nodes r.1 !! j = Some ndj ∧ registry ndj = ∅) ∧
    ∀ n nd', nodes r.1 !! n = Some nd' →
      (∀ k, get_by_id nd' k = sG st !! k) ∧ (∀ kind, get_by_kind cfg nd' kind = by_kind_of (sG st) (spell cfg kind)).
  Proof.
    intros Hnd Hf1 Hf2 r.
    destruct (run_op_refines cfg st s (Snap ids) order Hinj HI) as [Hres HP].
    { simpl. rewrite Hf1, Hf2. by rewrite bool_decide_eq_true_2. }
    fold r in Hres, HP. clearbody r.
    simpl in HP. rewrite Hf2 in HP. simpl in HP.
    destruct HP as ((Hnet' & Hdom' & Hok' & _) & Hst' & Hlog). simpl in *.
    pose proof (join_set (sM st) j ids Hf1 Hf2) as Hset. rewrite Hset in Hdom'.
    destruct (filter_singleton_inv _ _ _ Hf1) as (_ & HjM & _).
    destruct HI as (_ & Hdom & _ & Hh).
    split_and!; [done|done|apply not_elem_of_dom; by rewrite Hdom| |].
    - assert (j ∈ dom (nodes r.1)) as [ndj Ej]%elem_of_dom by (rewrite Hdom'; set_solver).
      exists ndj. split; [done|]. destruct (Hok' _ _ Ej) as [_ _ _ _ Hreg]. apply set_eq. intros k.
      rewrite Hreg. split; [|set_solver]. intros Hk. destruct (Hh _ _ Hk) as (i & Hi & Heq). apply Hinj in Heq as ->. done.
    - intros n nd' E'. destruct (Hok' _ _ E') as [_ _ Hact' _ _]. unfold get_by_id, get_by_kind. by rewrite Hact'.
  Qed.

  (* Deactivate removes the entry on every member and stops the actor: the
     member that hosts it stops it (and is a member), nobody else stops anything *)
  Theorem deactivate_removes_everywhere_and_stops a kind id hh order :
    a ∈ sM st → sG st !! akey cfg kind id = Some hh →
    let k := akey cfg kind id in
    let r := run_op cfg (Deactivate a None kind id) order s in
    net r.1 = [] ∧ dom (nodes r.1) = sM st ∧ started r.1 = [] ∧
    (∃ t, t ∈ sM st ∧ host cfg t = hh) ∧
    ∀ n nd', nodes r.1 !! n = Some nd' →
      get_by_id nd' k = None ∧ (∀ k', k' ≠ k → get_by_id nd' k' = sG st !! k') ∧
      k ∉ registry nd' ∧ stops nd' = (if decide (host cfg n = hh) then [k] else []).
  Proof.
    intros Ha HG k r.
    destruct (run_op_refines cfg st s (Deactivate a None kind id) order Hinj HI) as [Hres HP].
    { simpl. by apply bool_decide_eq_true. }
    fold r in Hres, HP. clearbody r. subst k.
    simpl in HP. rewrite HG in HP.
    destruct HP as ((Hnet' & Hdom' & Hok' & _) & Hst' & Hlog). simpl in *.
    destruct HI as (_ & _ & _ & Hh).
    split_and!; [done|done|done|by eapply Hh|].
    intros n nd' E'. destruct (Hok' _ _ E') as [_ _ Hact' _ Hreg']. unfold get_by_id. rewrite Hact'.
    split_and!.
    - by rewrite lookup_delete.
    - intros k' Hk'. by rewrite lookup_delete_ne.
    - by rewrite Hreg', lookup_delete.
    - destruct (Hlog _ _ E') as [_ ->]. rewrite HG. destruct (decide (host cfg n = hh)) as [->|Hne].
      + by rewrite decide_True.
      + rewrite decide_False; [done|]. intros [= Heq]. done.
  Qed.

  (* when a member leaves, every activation hosted on it disappears from the
     views of the remaining members — and nothing else does *)
  Theorem leave_purges_hosted ids l order :
    NoDup ids → filter (λ i, i ∉ sM st) ids = [] → filter (λ i, i ∉ ids) (elements (sM st)) = [l] →
    let r := run_op cfg (Snap ids) order s in
    net r.1 = [] ∧ dom (nodes r.1) = sM st ∖ {[l]} ∧
    ∀ n nd', nodes r.1 !! n = Some nd' →
      ∀ k, get_by_id nd' k =
           match sG st !! k with Some hh => if decide (hh = host cfg l) then None else Some hh | None => None end.
  Proof.
    intros Hnd Hf1 Hf2 r.
    destruct (run_op_refines cfg st s (Snap ids) order Hinj HI) as [Hres HP].
    { simpl. rewrite Hf1, Hf2. by rewrite bool_decide_eq_true_2. }
    fold r in Hres, HP. clearbody r.
    simpl in HP. rewrite Hf2 in HP. simpl in HP.
    destruct HP as ((Hnet' & Hdom' & Hok' & _) & Hst' & Hlog). simpl in *.
    split_and!; [done| |].
    - rewrite Hdom'. apply set_eq. intros i. rewrite elem_of_list_to_set, elem_of_difference, elem_of_singleton.
      pose proof (filter_nil_inv _ _ Hf1) as Hsub. destruct (filter_singleton_inv _ _ _ Hf2) as (Hl & Hl' & Hrest).
      split.
      + intros Hi. split; [apply dec_stable; by apply Hsub|]. by intros ->.
      + intros [Hi Hne]. apply dec_stable. intros Hni. apply Hne, Hrest; [by apply elem_of_elements|done].
    - intros n nd' E' k. destruct (Hok' _ _ E') as [_ _ Hact' _ _]. unfold get_by_id. rewrite Hact'.
      apply purge_host_lookup.
  Qed.
End clauses.

(* cluster-Spawn of an id the cluster does not know: the actor is started on
   the spawning node, and every member resolves the id to it *)
Theorem spawn_registers_everywhere cfg (h : list (op * list nat)) a kind id order :
  host_inj cfg → wf_hist cfg sinit h.*1 = true →
  let s := cafter cfg init_state h in
  let st := spec_after cfg sinit h.*1 in
  a ∈ sM st → sG st !! akey cfg kind id = None →
  let k := akey cfg kind id in
  let r := run_op cfg (Spawn a kind id) order s in
  r.2 = RPid (host cfg a) k ∧ started r.1 = [(a, k)] ∧ net r.1 = [] ∧ dom (nodes r.1) = sM st ∧
  ∀ n nd', nodes r.1 !! n = Some nd' →
    get_by_id nd' k = Some (host cfg a) ∧ (∀ k', k' ≠ k → get_by_id nd' k' = sG st !! k') ∧
    (k ∈ registry nd' ↔ n = a).
Proof.
  intros Hinj Hwf s st Ha HG k r.
  destruct (run_op_refines cfg st s (Spawn a kind id) order Hinj (history_Inv cfg h Hinj Hwf)) as [Hres HP].
  { simpl. rewrite !bool_decide_eq_true_2 by done. done. }
  fold r in Hres, HP. clearbody r. subst k.
  destruct HP as ((Hnet' & Hdom' & Hok' & _) & Hst' & Hlog). simpl in *.
  split_and!; try done.
  intros n nd' E'. destruct (Hok' _ _ E') as [_ _ Hact' _ Hreg']. unfold get_by_id. rewrite Hact'.
  split_and!.
  - by rewrite lookup_insert.
  - intros k' Hk'. by rewrite lookup_insert_ne.
  - rewrite Hreg', lookup_insert. split; [intros [= Heq]; by apply Hinj in Heq|by intros ->].
Qed.

(** * Examples: the hypotheses are satisfiable, and each premise is needed *)
Definition ecfg (kinds : list (list nat)) : config :=
  {| host := λ i, i; nkinds := λ i, default [] (kinds !! i); spell := λ k, [107; 48 + k] |}.
Lemma ecfg_host_inj kinds : host_inj (ecfg kinds).
Proof. by intros i j. Qed.
Lemma ecfg_spell_ok kinds : spell_ok (ecfg kinds).
Proof.
  split.
  - intros k. simpl. rewrite !elem_of_cons, elem_of_nil. unfold slash. lia.
  - intros k k'. simpl. intros [= ?]. lia.
Qed.

(* what every node knows and hosts: (node, activation map sorted, registry) *)
Definition show (s : state) : list (nat * list (key * nat) * list key) :=
  (λ n, (n, default [] ((λ nd, psort (map_to_list (activated nd))) <$> nodes s !! n),
            default [] ((λ nd, elements (registry nd)) <$> nodes s !! n))) <$> node_ids s.

Definition eK : list (list nat) := [[0]; [0; 1]; [1]; [0; 1]].
Definition k01 : key := [107; 48; 47; 49].   (* "k0/1" *)
Definition k11 : key := [107; 49; 47; 49].   (* "k1/1" *)
Definition k12 : key := [107; 49; 47; 50].   (* "k1/2" *)

(* three nodes; an activation placed on another node, one on the activating
   node, a late joiner that is sent the topology (in a scrambled order), an
   activation placed by select index 1, a deactivation, the leave of a host *)
Definition eH : list (op * list nat) :=
  [(Snap [0], []); (Snap [0; 1], [1; 0]); (Activate 0 1 [49] 0, [1]); (Activate 1 0 [49] 0, []);
   (Snap [0; 1; 2], [2; 0; 3; 1]); (Activate 2 1 [50] 1, [2; 1]); (Deactivate 2 None 0 [49], [1; 1]);
   (Snap [0; 2], [1])].

Example example_history :
  wf_hist (ecfg eK) sinit eH.*1 = true ∧
  (crun (ecfg eK) init_state eH).*2 = [RNil; RNil; RPid 1 k11; RPid 0 k01; RNil; RPid 2 k12; RNil; RNil] ∧
  show (cafter (ecfg eK) init_state (take 6 eH)) =
    [(0, [(k01, 0); (k11, 1); (k12, 2)], [k01]); (1, [(k01, 0); (k11, 1); (k12, 2)], [k11]);
     (2, [(k01, 0); (k11, 1); (k12, 2)], [k12])] ∧
  show (cafter (ecfg eK) init_state eH) = [(0, [(k12, 2)], []); (2, [(k12, 2)], [k12])].
Proof. by vm_compute. Qed.

(* the hypotheses of the clause theorems hold at points of this history *)
Example example_clause_hypotheses :
  let cfg := ecfg eK in
  (* refusal: id known / kind not offered *)
  (let st := spec_after cfg sinit (take 4 eH).*1 in 0 ∈ sM st ∧ sG st !! k11 = Some 1 ∧ offered_ids cfg (sM st) 2 = []) ∧
  (* activation through select index 1 *)
  (let st := spec_after cfg sinit (take 5 eH).*1 in 2 ∈ sM st ∧ sG st !! k12 = None ∧ offered_ids cfg (sM st) 1 !! 1 = Some 2) ∧
  (* join of node 2 with two actors active *)
  (let st := spec_after cfg sinit (take 4 eH).*1 in
   filter (λ i, i ∉ sM st) [0; 1; 2] = [2] ∧ filter (λ i, i ∉ [0; 1; 2]) (elements (sM st)) = [] ∧ size (sG st) = 2) ∧
  (* deactivation of a known actor *)
  (let st := spec_after cfg sinit (take 6 eH).*1 in 2 ∈ sM st ∧ sG st !! k01 = Some 0) ∧
  (* leave of a host *)
  (let st := spec_after cfg sinit (take 7 eH).*1 in
   filter (λ i, i ∉ sM st) [0; 2] = [] ∧ filter (λ i, i ∉ [0; 2]) (elements (sM st)) = [1] ∧ sG st !! k11 = Some 1).
Proof. vm_compute. repeat split; try done; by apply bool_decide_unpack. Qed.

(* every delivery order gives the same cluster (an instance of the theorems) *)
Example example_orders_agree :
  show (cafter (ecfg eK) init_state ((λ p : op * list nat, (p.1, reverse p.2 ++ [7; 5; 3])) <$> eH)) =
  show (cafter (ecfg eK) init_state eH).
Proof. by vm_compute. Qed.

(* hosts pairwise distinct is needed: with one address for all nodes, the
   leave of node 2 makes nodes 0 and 1 forget the actor that runs on node 0 *)
Definition shared_host_cfg : config := {| host := λ _, 0; nkinds := λ _, [0]; spell := λ k, [107; 48 + k] |}.
Example hosts_distinct_needed :
  let hh := [(Snap [0], []); (Snap [0; 1], []); (Snap [0; 1; 2], []); (Activate 0 0 [49] 0, []); (Snap [0; 1], [])] in
  wf_hist shared_host_cfg sinit hh.*1 = true ∧
  show (cafter shared_host_cfg init_state hh) = [(0, [], [k01]); (1, [], [])].
Proof. by vm_compute. Qed.

(* cluster-Spawn has no duplicate check: spawning an id the cluster knows
   gives a second actor of that id (the views keep the first) *)
Example spawn_known_id_breaks_uniqueness :
  let hh := [(Snap [0], []); (Snap [0; 1], []); (Activate 0 0 [49] 0, []); (Spawn 1 0 [49], [])] in
  wf_hist (ecfg eK) sinit hh.*1 = false ∧ wf_hist (ecfg eK) sinit (take 3 hh).*1 = true ∧
  show (cafter (ecfg eK) init_state hh) = [(0, [(k01, 0)], [k01]); (1, [(k01, 0)], [k01])].
Proof. by vm_compute. Qed.

(* the boundary of GetActiveByKind: a kind name with '/' is filed under the
   part before the '/', and its ids collide with those of that other kind *)
Definition slash_cfg : config :=
  {| host := λ i, i; nkinds := λ _, [0; 3];
     spell := λ k, match k with 3 => [107; 48; 47; 120] | _ => [107; 48 + k] end |}.
Example slash_kind_is_misfiled :
  let hh := [(Snap [0], []); (Activate 0 3 [49] 0, [])] in
  let kx := [107; 48; 47; 120; 47; 49] in     (* "k0/x/1" *)
  wf_hist slash_cfg sinit hh.*1 = true ∧
  ((λ nd, (get_by_id nd kx, get_by_kind slash_cfg nd 3, get_by_kind slash_cfg nd 0))
     <$> nodes (cafter slash_cfg init_state hh) !! 0) = Some (Some 0, [], [(kx, 0)]) ∧
  akey slash_cfg 3 [49] = akey slash_cfg 0 [120; 47; 49] ∧
  (crun slash_cfg init_state (hh ++ [(Activate 0 0 [120; 47; 49] 0, [])])).*2 = [RNil; RPid 0 kx; RNil].
Proof. by vm_compute. Qed.

(* the select function must return one of the offered members: index 1 of a
   one-element offer is nil, and nothing is activated although node 0 could host it *)
Example select_must_choose_offered :
  (crun (ecfg eK) init_state [(Snap [0], []); (Activate 0 0 [49] 1, [])]).*2 = [RNil; RNil] ∧
  (crun (ecfg eK) init_state [(Snap [0], []); (Activate 0 0 [49] 0, [])]).*2 = [RNil; RPid 0 k01].
Proof. by vm_compute. Qed.

(* quiescence is needed: a second Activate of the same id from another node
   while the first one's notifications are still in flight starts a second actor *)
Example quiescence_needed :
  let s2 := cafter (ecfg eK) init_state [(Snap [0], []); (Snap [0; 1], [])] in
  let s3 := (issue (ecfg eK) (Activate 0 0 [49] 0) s2).1 in      (* not delivered *)
  let r4 := issue (ecfg eK) (Activate 1 0 [49] 1) s3 in
  length (net s3) = 2 ∧ r4.2 = RPid 1 k01 ∧ started r4.1 = [(0, k01); (1, k01)] ∧
  show (deliver_all [] r4.1) = [(0, [(k01, 0)], [k01]); (1, [(k01, 0)], [k01])].
Proof. by vm_compute. Qed.

(* one member change per snapshot is needed: when node 2 joins in the very
   snapshot in which node 1 leaves, node 0 sends its topology before it
   purges, and the joiner keeps an actor hosted on the node that is gone *)
Example combined_change_breaks_agreement :
  let hh := [(Snap [0], []); (Snap [0; 1], []); (Activate 0 1 [49] 0, []); (Snap [0; 2], [])] in
  wf_hist (ecfg eK) sinit hh.*1 = false ∧ wf_hist (ecfg eK) sinit (take 3 hh).*1 = true ∧
  show (cafter (ecfg eK) init_state hh) = [(0, [], []); (2, [(k11, 1)], [])].
Proof. by vm_compute. Qed.

(** * Kind names without '/' *)
Lemma key_kind_akey cfg kind id : slash ∉ spell cfg kind → key_kind (akey cfg kind id) = spell cfg kind.
Proof.
  unfold akey. induction (spell cfg kind) as [|c l IH]; intros Hsl; simpl.
  - done.
  - rewrite decide_False by (intros ->; apply Hsl; left). f_equal. apply IH. intros ?. apply Hsl. by right.
Qed.

Lemma elem_of_by_kind_of (G : gmap key nat) (ks : list nat) (k : key) (hh : nat) :
  (k, hh) ∈ by_kind_of G ks ↔ G !! k = Some hh ∧ key_kind k = ks.
Proof.
  unfold by_kind_of, psort. rewrite merge_sort_Permutation, elem_of_list_filter, elem_of_map_to_list. simpl. tauto.
Qed.

Lemma by_kind_lists_the_activation (cfg : config) (G : gmap key nat) (kind : nat) (id : list nat) (hh : nat) :
  slash ∉ spell cfg kind → G !! akey cfg kind id = Some hh →
  (akey cfg kind id, hh) ∈ by_kind_of G (spell cfg kind).
Proof. intros Hsl HG. apply elem_of_by_kind_of. split; [done|by apply key_kind_akey]. Qed.

(* under [spell_ok], kind/id determines kind and id, and an actor is listed
   under its own kind only *)
Lemma akey_inj cfg k1 id1 k2 id2 :
  spell_ok cfg → akey cfg k1 id1 = akey cfg k2 id2 → k1 = k2 ∧ id1 = id2.
Proof.
  intros [Hsl Hinj] Heq.
  assert (spell cfg k1 = spell cfg k2) as Hs.
  { rewrite <- (key_kind_akey cfg k1 id1), <- (key_kind_akey cfg k2 id2) by done. by rewrite Heq. }
  split; [by apply Hinj|]. unfold akey in Heq. rewrite Hs in Heq. by apply app_inv_head in Heq as [= ->].
Qed.

Lemma by_kind_only_own_kind (cfg : config) (G : gmap key nat) (kind kind' : nat) (id : list nat) (hh : nat) :
  spell_ok cfg → (akey cfg kind id, hh) ∈ by_kind_of G (spell cfg kind') → kind = kind'.
Proof.
  intros [Hsl Hinj] [_ Hk]%elem_of_by_kind_of. rewrite key_kind_akey in Hk by done. by apply Hinj.
Qed.

(* and then the outcome depends on the delivery order: if the joiner handles
   its member list after the old member's topology arrived, it sends the stale
   entry back and the old member, which had purged it, takes it again *)
Example combined_change_order_dependent :
  let cfg := ecfg [[]; []; []; [1]] in
  let ops := [Snap [3]; Activate 3 1 [49] 0; Snap [2; 3]; Snap [0; 2]] in
  show (cafter cfg init_state ((λ o, (o, [])) <$> ops)) = [(0, [(k11, 3)], []); (2, [], [])] ∧
  show (cafter cfg init_state ((λ o, (o, [3; 1; 4; 1; 5; 9; 2; 6])) <$> ops)) = [(0, [(k11, 3)], []); (2, [(k11, 3)], [])].
Proof. by vm_compute. Qed.
