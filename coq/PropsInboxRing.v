(** The property theorems of the inbox over the real ring buffer (C01, C02,
    C03 "however the inbox grows, wraps or splits its backlog into batches")
    and of the inbox with self-sends.  Nothing else lives here: each theorem
    is closed by [exact <lemma>] and followed by [Print Assumptions].

    [rst]/[rstep] (InboxRing.v) is the transition system of Inbox.v with
    Ring.push / Ring.popN / Ring.len of the transcription of ringbuffer.go in
    place of the list queue; [rvalid_start clients rs0] = rs0 is [rinit size
    clients] or [rinit_started size clients] for some capacity size >= 1 (same
    conditions on clients as for the list system). *)
From stdpp Require Import list.
From Coq Require Import Arith Bool.
From HV Require Import Ring Inbox InboxExec InboxProofs InboxRing InboxRingProofs InboxSelf InboxSelfProofs.

(** * Lock-step simulation between ring-backed and list-backed inbox *)

(* sim rs s: ring well-formed, abs ring = q s, all other fields equal *)
Theorem C01_ring_step_forward :
  forall c rs s i rs' l, 1 <= bound c -> sim rs s -> rstep c rs i = Some (rs', l) ->
    exists s', step c s i = Some (s', l) /\ sim rs' s'.
Proof. exact sim_step_forward. Qed.
Print Assumptions C01_ring_step_forward.

Theorem C01_ring_step_backward :
  forall c rs s i s' l, 1 <= bound c -> sim rs s -> step c s i = Some (s', l) ->
    exists rs', rstep c rs i = Some (rs', l) /\ sim rs' s'.
Proof. exact sim_step_backward. Qed.
Print Assumptions C01_ring_step_backward.

(* whole schedules: same labels (batch contents, Len results, CAS outcomes) *)
Theorem C01_ring_same_runs :
  forall c sched rs s, 1 <= bound c -> sim rs s ->
    match rrun_sched c rs sched with
    | Some (rs', ls) => exists s', run_sched c s sched = Some (s', ls) /\ sim rs' s'
    | None => run_sched c s sched = None
    end.
Proof. exact rrun_sched_sim. Qed.
Print Assumptions C01_ring_same_runs.

Theorem C01_ring_init_sim :
  forall size clients, 1 <= size ->
    sim (rinit size clients) (init clients) /\ sim (rinit_started size clients) (init_started clients).
Proof. intros size clients H. split; [exact (sim_init size clients H)|exact (sim_init_started size clients H)]. Qed.
Print Assumptions C01_ring_init_sim.

(** * The properties over the ring, for every initial capacity >= 1 *)

(* the ring stays well-formed: no index of ringbuffer.go leaves its slice *)
Theorem C01_ring_wf_over_inbox :
  forall c clients rs0 rs, rvalid_start clients rs0 -> 1 <= bound c -> rreach c rs0 rs ->
    Ring.wf (rq rs).
Proof. exact ring_wf_over_inbox. Qed.
Print Assumptions C01_ring_wf_over_inbox.

Theorem C01_conservation_over_ring :
  forall c clients rs0 rs, rvalid_start clients rs0 -> 1 <= bound c -> rreach c rs0 rs ->
    rdelivered rs ++ rdropped rs ++ inflight (abs_st rs) ++ Ring.abs rdflt (rq rs) = rpushed rs /\
    Ring.len (rq rs) = length (Ring.abs rdflt (rq rs)).
Proof. exact conservation_over_ring. Qed.
Print Assumptions C01_conservation_over_ring.

Theorem C01_exactly_once_in_order_over_ring :
  forall c clients rs0 rs,
    rstarted_start clients rs0 -> pills_in (program_msgs clients) = false ->
    List.NoDup (program_msgs clients) -> 1 <= bound c ->
    rreach c rs0 rs -> rquiescent rs = true ->
    rdelivered rs = rpushed rs /\
    (forall ms, List.In (SPush ms) clients -> sub_of ms (rdelivered rs) = ms) /\
    Permutation (rdelivered rs) (program_msgs clients).
Proof. exact exactly_once_in_order_over_ring. Qed.
Print Assumptions C01_exactly_once_in_order_over_ring.

Theorem C02_receive_mutex_over_ring :
  forall c clients rs0 rs, rvalid_start clients rs0 -> 1 <= bound c -> rreach c rs0 rs ->
    cnt in_region (rthr rs) <= 1.
Proof. exact receive_mutex_over_ring. Qed.
Print Assumptions C02_receive_mutex_over_ring.

Theorem C03_quiescent_is_drained_over_ring :
  forall c clients rs0 rs,
    rstarted_start clients rs0 -> pills_in (program_msgs clients) = false -> 1 <= bound c ->
    rreach c rs0 rs -> rquiescent rs = true ->
    rstatus rs = Idle /\ Ring.len (rq rs) = 0 /\ rdelivered rs = rpushed rs /\
    length (rpushed rs) = length (program_msgs clients).
Proof. exact quiescent_is_drained_over_ring. Qed.
Print Assumptions C03_quiescent_is_drained_over_ring.

Theorem C03_terminates_over_ring :
  forall c clients rs0, rvalid_start clients rs0 -> 1 <= bound c ->
    well_founded (fun r2 r1 => exists i l, rstep c r1 i = Some (r2, l) /\ rreach c rs0 r1).
Proof. exact terminates_over_ring. Qed.
Print Assumptions C03_terminates_over_ring.

(* every maximal run of the ring-backed inbox is finite and ends drained *)
Theorem C03_every_run_drains_over_ring :
  forall c clients rs0 rs,
    rstarted_start clients rs0 -> pills_in (program_msgs clients) = false -> 1 <= bound c ->
    rreach c rs0 rs ->
    rinev c (fun t => rquiescent t = true /\ rstatus t = Idle /\ Ring.len (rq t) = 0 /\
                      rdelivered t = rpushed t /\ length (rpushed t) = length (program_msgs clients)) rs.
Proof. exact every_run_drains_over_ring. Qed.
Print Assumptions C03_every_run_drains_over_ring.

(** * The inbox with self-sends (InboxSelf.v): an Invoke may Send to its own inbox

    [xst]/[xstep c]: as Inbox.v, but for every message m handed to the
    receiver the worker performs Push m'; CAS(idle->running) for each m' of
    [react c m] before it leaves Invoke.  [xvalid_start]/[xstarted_start] as
    for the list system.  [react_pill_free c]: the actor does not poison
    itself.  [fan_ok c wt]: the fan-out is well-founded, witnessed by a weight
    with  sum over m' in react m of (wt m' + 1) < wt m. *)

Theorem C02_token_invariant_self :
  forall c clients s0 s, xvalid_start clients s0 -> xreach c s0 s ->
    (xstatus s = Running -> xcnt xholder (xthr s) = 1) /\
    (xstatus s = Idle \/ xstatus s = Starting -> xcnt xholder (xthr s) = 0) /\
    (xstatus s = Stopped -> xcnt xholder (xthr s) <= 1) /\
    (xcnt xisTCas (xthr s) + xcnt xatTS (xthr s) >= 1 -> xcnt xis_worker (xthr s) = 0).
Proof. exact xtoken_invariant. Qed.
Print Assumptions C02_token_invariant_self.

(* at most one thread is inside Invoke -- the self-sends happen inside it *)
Theorem C02_receive_mutex_self :
  forall c clients s0 s, xvalid_start clients s0 -> xreach c s0 s -> xcnt xin_region (xthr s) <= 1.
Proof. exact xreceive_mutex. Qed.
Print Assumptions C02_receive_mutex_self.

(* the actor's own schedule() always fails: no second worker is ever created by a self-send *)
Theorem C02_self_cas_fails :
  forall c clients s0 s i ms pill s' l,
    xvalid_start clients s0 -> xreach c s0 s ->
    nth_error (xthr s) i = Some (XWSelfCas ms pill) -> xstep c s i = Some (s', l) ->
    l = LCas Idle Running false /\ length (xthr s') = length (xthr s).
Proof. exact xself_cas_fails. Qed.
Print Assumptions C02_self_cas_fails.

Theorem C01_conservation_self :
  forall c clients s0 s, xvalid_start clients s0 -> xreach c s0 s ->
    xdelivered s ++ xdropped s ++ xinflight s ++ xq s = xpushed s.
Proof. exact xconservation. Qed.
Print Assumptions C01_conservation_self.

Theorem C03_wakeup_invariant_self :
  forall c clients s0 s, xvalid_start clients s0 -> xreach c s0 s ->
    xstatus s = Idle -> xq s <> [] -> 0 < xcnt xpending_kick (xthr s).
Proof. exact xwakeup_invariant. Qed.
Print Assumptions C03_wakeup_invariant_self.

(* all threads finished => idle, empty, everything pushed was invoked, and
   what was pushed is (as a multiset, for every predicate f) what the clients
   sent plus what the actor sent to itself in reaction to what it received *)
Theorem C03_quiescent_is_drained_self :
  forall c clients s0 s,
    xstarted_start clients s0 -> pills_in (program_msgs clients) = false -> react_pill_free c ->
    xreach c s0 s -> xquiescent s = true ->
    xstatus s = Idle /\ xq s = [] /\ xdelivered s = xpushed s /\
    (forall f, cntm f (xpushed s) = cntm f (program_msgs clients) + cntm f (flat_map (react c) (xdelivered s))).
Proof. exact xquiescent_is_drained. Qed.
Print Assumptions C03_quiescent_is_drained_self.

(* received in the real-time order of the Push steps, the actor's own sends
   included: successive sends from one actor are received in that order *)
Theorem C01_happens_before_order_self :
  forall c clients s0 sched s ls,
    xstarted_start clients s0 -> pills_in (program_msgs clients) = false -> react_pill_free c ->
    xrun_sched c s0 sched = Some (s, ls) -> xquiescent s = true ->
    xdelivered s = pushes ls /\
    forall l1 m1 l2 m2 l3, ls = l1 ++ LPush m1 :: l2 ++ LPush m2 :: l3 ->
      xdelivered s = pushes l1 ++ m1 :: pushes l2 ++ m2 :: pushes l3.
Proof. exact xhappens_before_order. Qed.
Print Assumptions C01_happens_before_order_self.

Theorem C03_measure_decreases_self :
  forall c wt s i s' l, 1 <= xbound c -> fan_ok c wt -> XTokenInv s -> xstep c s i = Some (s', l) ->
    lexlt3 (xmeas wt s') (xmeas wt s).
Proof. exact xmeasure_decreases. Qed.
Print Assumptions C03_measure_decreases_self.

Theorem C03_terminates_self :
  forall c wt clients s0, xvalid_start clients s0 -> 1 <= xbound c -> fan_ok c wt ->
    well_founded (fun s2 s1 => exists i l, xstep c s1 i = Some (s2, l) /\ xreach c s0 s1).
Proof. exact xterminates. Qed.
Print Assumptions C03_terminates_self.

Theorem C03_every_run_drains_self :
  forall c wt clients s0 s,
    xstarted_start clients s0 -> pills_in (program_msgs clients) = false -> react_pill_free c ->
    1 <= xbound c -> fan_ok c wt -> xreach c s0 s ->
    xinev c (fun t => xquiescent t = true /\ xstatus t = Idle /\ xq t = [] /\ xdelivered t = xpushed t /\
                      length (xpushed t) = length (program_msgs clients) + length (flat_map (react c) (xdelivered t))) s.
Proof. exact xevery_run_drains. Qed.
Print Assumptions C03_every_run_drains_self.
