(** Running the five GoMini terms that tools/ringtrans generates from ringbuffer.go as ONE
    ring buffer object, operation by operation, with the operations and results of Ring.v.
    Definitions only (executable); the theorems are in RingSrcProofs.v.  This file does not
    depend on the generated terms: it takes them as a record. *)
From stdpp Require Import list.
From Coq Require Import ZArith.
From HV Require Import GoMini Ring RingExec.

Record ring_methods := { rm_new : method; rm_push : method; rm_pop : method; rm_popN : method; rm_len : method }.

(* how a run of the generated code ends *)
Inductive status := Finished | GoPanic | NotGo.
(* NotGo: the interpreter got stuck (outside the fragment / ill-typed) or a result does
   not have the shape of the Go signature *)

Section run.
Context {T : Type} (dflt : T) (M : ring_methods).

Fixpoint elems (l : list (value T)) : option (list T) :=
  match l with
  | [] => Some []
  | VElem t :: l' => match elems l' with Some ts => Some (t :: ts) | None => None end
  | _ => None
  end.

(* the state of a run: the heap and the address of the RingBuffer object *)
Definition src_state : Type := heap T * nat.

(* New(size) on the empty heap *)
Definition src_new (size : nat) : src_state + status :=
  match call dflt (rm_new M) [VInt (Z.of_nat size)] [] with
  | CRet [VRef a] h => inl (h, a)
  | CRet _ _ => inr NotGo
  | CPanic => inr GoPanic
  | CStuck => inr NotGo
  end.

Definition step_src (s : src_state) (o : op T) : (src_state * res T) + status :=
  let '(h, a) := s in
  match o with
  | Push x =>
      match call dflt (rm_push M) [VRef a; VElem x] h with
      | CRet [] h' => inl ((h', a), RPush)
      | CRet _ _ => inr NotGo | CPanic => inr GoPanic | CStuck => inr NotGo
      end
  | Pop =>
      match call dflt (rm_pop M) [VRef a] h with
      | CRet [VElem x; VBool true] h' => inl ((h', a), RPop (Some x))
      | CRet [VElem _; VBool false] h' => inl ((h', a), RPop None)
      | CRet _ _ => inr NotGo | CPanic => inr GoPanic | CStuck => inr NotGo
      end
  | PopN n =>
      match call dflt (rm_popN M) [VRef a; VInt (Z.of_nat n)] h with
      | CRet [VRef d; VBool true] h' =>
          match hget h' d with
          | Some (OArr l) => match elems l with Some xs => inl ((h', a), RPopN (Some xs)) | None => inr NotGo end
          | _ => inr NotGo
          end
      | CRet [_; VBool false] h' => inl ((h', a), RPopN None)
      | CRet _ _ => inr NotGo | CPanic => inr GoPanic | CStuck => inr NotGo
      end
  | Len =>
      match call dflt (rm_len M) [VRef a] h with
      | CRet [VInt z] h' => if (0 <=? z)%Z then inl ((h', a), RLen (Z.to_nat z)) else inr NotGo
      | CRet _ _ => inr NotGo | CPanic => inr GoPanic | CStuck => inr NotGo
      end
  end.

(* the results up to the first operation that does not finish, and how the run ended *)
Fixpoint run_from (s : src_state) (ops : list (op T)) : list (res T) * status :=
  match ops with
  | [] => ([], Finished)
  | o :: ops' =>
      match step_src s o with
      | inl (s', r) => let '(rs, st) := run_from s' ops' in (r :: rs, st)
      | inr st => ([], st)
      end
  end.

Definition run_src (size : nat) (ops : list (op T)) : list (res T) * status :=
  match src_new size with
  | inl s => run_from s ops
  | inr st => ([], st)
  end.

End run.

(** Executable comparison on the cases of the correspondence run (elements [Z], zero 0),
    used by the C14 check only when the translation succeeded but RingSrcProofs.v does not
    compile: does the GENERATED model still behave like the FIFO specification, and like
    the implementation, on the cases that were just run?  (A sampling aid for whoever has
    to port the proof; it proves nothing.) *)
Section check.
Context (M : ring_methods).

Definition src_run (c : case) : list zres * status := run_src 0%Z M (c_size c) (c_ops c).
Definition src_vs_spec (c : case) : bool :=
  match src_run c with (rs, Finished) => all2 zres_eqb rs (run_fifo (c_ops c)) | _ => false end.
Definition src_vs_obs (c : case) : bool :=
  match src_run c with (rs, Finished) => all2 zres_eqb rs (c_obs c) | _ => false end.
Definition status_code (c : case) : nat :=
  match src_run c with (_, Finished) => 0 | (_, GoPanic) => 1 | (_, NotGo) => 2 end.

(* indices of the cases on which the generated model differs from the specification / from
   what the implementation returned, and (index, 1 = panic | 2 = stuck) of the runs that
   did not finish *)
Definition src_report (cs : list case) : list nat * list nat * list (nat * nat) :=
  (failing src_vs_spec 0 cs, failing src_vs_obs 0 cs,
   filter (λ p, bool_decide (p.2 ≠ 0)) (imap (λ i c, (i, status_code c)) cs)).
End check.
