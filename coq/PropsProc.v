(** The property theorems of the process layer (C04, C05, C06, C07, C13).
    Nothing else lives here: each is closed by [exact <lemma>] and followed by
    [Print Assumptions].

    Reading guide.  [run fuel c xs = (s, t)] is a whole scenario of one actor:
    Spawn (registration, [Start], then the worker drains what was sent during
    Start), then the external operations [xs] (sends, Poison, Stop), each run
    to quiescence; [s] is the final state and [t] the trace.  [c] fixes
    MaxRestarts ([maxr c]), the batch bound ([batch c]) and the receiver: the
    script [scr c : incarnation -> message -> list action].  The theorems hold
    for every script, every MaxRestarts, every batch bound, every list of
    operations and every fuel; [out_of_fuel t = false] says that the run was
    completed (fuel exhaustion is the explicit event [OutOfFuel]).

    [stopped_safe c]: no incarnation's Stopped handler panics.  A panic raised
    by the Stopped handler is raised inside the recover path (tryRestart and
    cleanup run in the deferred function of Invoke/Start): nothing recovers
    it, in process.go as in the model, so it leaves the worker goroutine; the
    example [stopped_handler_panic_refutes] exhibits it.  The theorems that
    need it say so.

    Events of a trace: [Produce i] (Producer called for incarnation i),
    [Recv i mw m sd] (Receive of incarnation i, through the middleware chain
    iff mw, message m, Context.sender set iff sd), the engine events
    [EvInitialized] … [EvDeadLetter m], [Cancel k] (the context of pill k is
    cancelled), [InboxStop], [InboxStart _], [RegRemove], [Sleep], and the
    ghosts [Sent n] (user message n sent to the PID), [Enq e] (envelope e
    accepted into the inbox), [Escaped], [OutOfFuel].
    Projections: [recvs_of], [events_of], [sends_of] (ProcExec.v);
    [dlv t] user payloads delivered, [uacc t] user payloads accepted into the
    inbox, [cnc t] the pills cancelled, all in trace order (ProcProofs.v). *)
From Coq Require Import List Arith Bool Permutation.
Import ListNotations.
From HV Require Import Proc ProcExec ProcProofs.

(** * C13 — middleware wraps every delivery *)

(* every delivery of every run — Initialized, Started, Stopped and user
   messages, on the spawn, restart, budget-exceeded, stop and poison paths —
   went through the configured chain.  No premise. *)
Theorem C13_every_delivery_through_chain :
  forall f c xs s t, run f c xs = (s, t) ->
  forall i mw m sd, In (Recv i mw m sd) t -> mw = true.
Proof. exact C13_every_delivery_through_chain_thm. Qed.
Print Assumptions C13_every_delivery_through_chain.

(* inside the chain the Context shows the sender of that delivery: the
   (payload, sender) pair a user handler sees is that of an envelope accepted
   into the inbox during the run; hence the sender is set only if some handler
   sends that payload with [ctx.Send] (ASend: sender = the actor itself) and
   unset only if it is sent without a sender (ASendNil, or an external send) —
   also for messages drained behind a graceful pill or replayed after a restart *)
Theorem C13_context_shows_sender :
  forall f c xs s t, stopped_safe c -> run f c xs = (s, t) -> out_of_fuel t = false ->
  forall i mw n sd, In (Recv i mw (LUser n) sd) t ->
  In (Enq {| emsg := User n; esnd := sd |}) t /\
  (if sd then exists i' m, In (ASend n) (scr c i' m)
   else (exists i' m, In (ASendNil n) (scr c i' m)) \/ In (XSend n) xs).
Proof. exact C13_context_shows_sender_thm. Qed.
Print Assumptions C13_context_shows_sender.

(** * C02 — glue to the inbox layer: one message at a time covers lifecycle messages and restarts *)

(* process.go obeys the protocol under which InboxProofs proves the mutex
   ([valid_start]: at most one Start of the inbox, none after a Stop): in
   every run there is at most one [InboxStart true] (an Inbox.Start that
   really opens the inbox and may schedule a worker); after an [InboxStop] no
   Inbox.Start of any kind occurs (this is what the [dead] flag provides); and
   every [InboxStart false] — Inbox.Start on an inbox that is already open,
   after a restart: its CAS stopped->starting fails and nothing happens —
   lies after the opening and before any stop *)
Theorem C02_inbox_opened_at_most_once_and_never_after_stop :
  forall f c xs s t, stopped_safe c -> run f c xs = (s, t) -> out_of_fuel t = false ->
  count_ev (fun e => match e with InboxStart true => true | _ => false end) t <= 1 /\
  (forall t1 t2, t = t1 ++ InboxStop :: t2 ->
     Forall (fun e => match e with InboxStart _ => False | _ => True end) t2) /\
  (forall t1 t2, t = t1 ++ InboxStart false :: t2 -> In (InboxStart true) t1 /\ ~ In InboxStop t1).
Proof. exact C02_inbox_opened_at_most_once_and_never_after_stop_thm. Qed.
Print Assumptions C02_inbox_opened_at_most_once_and_never_after_stop.

(* a run is [t0 ++ t1 ++ t2]: [t0] is the trace of the first Start, on the
   spawner's goroutine; either it ended with the actor dead and never opened
   the inbox, or its last event is the one [InboxStart true] and everything
   before it — all its deliveries: Initialized, Started, and the Stopped /
   Initialized / Started of restarts caused by panics in them — contains no
   Inbox.Start: no worker exists while the spawner delivers; no user message
   is delivered in [t0] (nothing is replayed).  The rest is the worker:
   [RunLoop_s] is a sequence of batches, each handled by one [Invoke_s], and
   [Exts_s] interleaves the Receive-free traces of the external operations
   ([ext_pre_no_recv]) with further [RunLoop_s] *)
Theorem C02_lifecycle_deliveries_before_the_inbox_opens :
  forall f c xs s t, stopped_safe c -> run f c xs = (s, t) -> out_of_fuel t = false ->
  exists s0 t0 s1 t1 t2,
    start f c init_pst = (s0, t0, Normal) /\ t = t0 ++ t1 ++ t2 /\
    ((dead s0 = true /\ Forall (fun e => match e with InboxStart _ => False | _ => True end) t0) \/
     (dead s0 = false /\ exists pre, t0 = pre ++ [InboxStart true] /\
        Forall (fun e => match e with InboxStart _ => False | _ => True end) pre)) /\
    dlv t0 = [] /\
    RunLoop_s c s0 s1 t1 /\ Exts_s c s1 xs s t2.
Proof. exact C02_lifecycle_deliveries_before_the_inbox_opens_thm. Qed.
Print Assumptions C02_lifecycle_deliveries_before_the_inbox_opens.

Theorem C02_external_operations_deliver_nothing :
  forall s x s1 t1, ext_pre s x = (s1, t1) ->
  Forall (fun e => match e with Recv _ _ _ _ => False | _ => True end) t1.
Proof. exact ext_pre_no_recv. Qed.
Print Assumptions C02_external_operations_deliver_nothing.

(* a restart runs inside the Invoke that crashed: tryRestart — Stopped to the
   failed incarnation, the event, the delay, Start of the next incarnation
   with Initialized, Started and the replay of the buffer — is called by that
   Invoke's recover handler and its trace is the rest of that Invoke's trace
   (likewise [start_S] for a panic in Initialized/Started); the worker's loop
   takes the next batch only when Invoke has returned.  No premise. *)
Theorem C02_restart_runs_inside_invoke :
  (forall f c s msgs s' t o, invoke (S f) c s msgs = (s', t, o) ->
     (exists np d, invoke_loop c s msgs 0 = (s', t, Normal, np, d) /\ o = Normal) \/
     (exists s1 t1 b np d t2, invoke_loop c s msgs 0 = (s1, t1, Panicking b, np, d) /\
        try_restart f c (upd_mbuf s1 (rbuf d np msgs)) b = (s', t2, o) /\ t = t1 ++ t2)) /\
  (forall f c s s' t, run_loop (S f) c s = (s', t) -> istatus_stopped s = false -> queue s <> [] ->
     exists s1 t1 o1, invoke f c (upd_queue s (skipn (batch c) (queue s))) (firstn (batch c) (queue s)) = (s1, t1, o1) /\
       match o1 with
       | Normal => exists t2, run_loop f c s1 = (s', t2) /\ t = t1 ++ t2
       | Panicking _ => s' = s1 /\ t = t1 ++ [Escaped]
       end).
Proof. exact C02_restart_runs_inside_invoke_thm. Qed.
Print Assumptions C02_restart_runs_inside_invoke.

(** * C04 — lifecycle protocol *)

(* the deliveries form the word: per incarnation Initialized, Started, user
   messages, at most one Stopped, nothing after it; incarnations 1, 2, 3, …
   do not interleave ([c04_word] is the automaton of ProcExec.v) *)
Theorem C04_lifecycle_word :
  forall f c xs s t, stopped_safe c -> run f c xs = (s, t) -> out_of_fuel t = false ->
  c04_word (recvs_of t) 0 0 = true.
Proof. exact C04_lifecycle_word_thm. Qed.
Print Assumptions C04_lifecycle_word.

(* after Registry.Remove only ActorStoppedEvent, dead letters, cancels and
   (dead-lettered) sends occur: no Receive, no Producer call; and from
   Inbox.Stop on only the Stopped delivery and the rest of cleanup: in
   particular no Producer call, no Initialized/Started/user delivery, no
   restart ([late_ev], [final_ev] are these two sets of events) *)
Theorem C04_nothing_after_unregister :
  forall f c xs s t, stopped_safe c -> run f c xs = (s, t) -> out_of_fuel t = false ->
  (forall t1 t2, t = t1 ++ RegRemove :: t2 ->
     Forall (fun e => e = EvStopped \/
                      match e with Sent _ | EvDeadLetter _ | Cancel _ => True | _ => False end) t2) /\
  (forall t1 t2, t = t1 ++ InboxStop :: t2 ->
     Forall (fun e => match e with
                      | Recv _ _ LStopped _ | InboxStop | RegRemove | EvStopped
                      | Sent _ | Enq _ | EvDeadLetter _ | Cancel _ => True
                      | _ => False end) t2).
Proof. exact C04_nothing_after_unregister_thm. Qed.
Print Assumptions C04_nothing_after_unregister.

(* Spawn: inside Start of a fresh actor no user message is delivered — what
   is sent to the PID during Initialized/Started is retained in the inbox, in
   order ([queue s1 = acc t1]) — and if the actor is alive when Start returns
   its current incarnation has handled Started *)
Theorem C04_spawn_returns_after_started :
  forall f c s1 t1 o1, stopped_safe c -> start f c init_pst = (s1, t1, o1) -> out_of_fuel t1 = false ->
  o1 = Normal /\ dlv t1 = [] /\
  (dead s1 = false ->
     queue s1 = acc t1 /\ exists t0 sd t2, t1 = t0 ++ Recv (inc s1) true LStarted sd :: t2).
Proof. exact C04_spawn_returns_after_started_thm. Qed.
Print Assumptions C04_spawn_returns_after_started.

(* if neither Initialized nor Started panics, Started is handled by the first
   incarnation inside Start, whatever happens afterwards *)
Theorem C04_spawn_started_when_handlers_do_not_panic :
  forall c f s,
  Forall nopanic (scr c (S (inc s)) LInit) -> Forall nopanic (scr c (S (inc s)) LStarted) ->
  exists sd, In (Recv (S (inc s)) true LStarted sd) (snd (fst (start (S f) c s))).
Proof. exact start_nopanic_started. Qed.
Print Assumptions C04_spawn_started_when_handlers_do_not_panic.

(** * C05 — a panicking Receive is contained and the actor resumes behind it *)

(* no panic of Initialized, Started or a user message — any incarnation, any
   position in a batch, during a replay or a drain, any fuel — leaves the actor *)
Theorem C05_contained :
  forall f c xs s t, stopped_safe c -> run f c xs = (s, t) -> has_escaped t = false.
Proof. exact C05_contained_thm. Qed.
Print Assumptions C05_contained.

(* the monitor [prun] accepts the trace: after a delivery whose handler
   panics (and is not Stopped) the next delivery is Stopped to the same
   incarnation *)
Theorem C05_panic_then_stopped :
  forall f c xs s t, stopped_safe c -> run f c xs = (s, t) -> out_of_fuel t = false ->
  prun c t None = Some None.
Proof. exact C05_panic_then_stopped_thm. Qed.
Print Assumptions C05_panic_then_stopped.

(* every ActorRestartedEvent is preceded by Stopped to the failed incarnation
   i (only sends of that handler in between) and followed by the delay, a
   fresh receiver i+1 and its Initialized *)
Theorem C05_restart_shape :
  forall f c xs s t, stopped_safe c -> run f c xs = (s, t) -> out_of_fuel t = false ->
  forall t1 n t2, t = t1 ++ EvRestarted n :: t2 ->
  exists t0 i sd h sd' t3,
    t1 = t0 ++ Recv i true LStopped sd :: h /\
    Forall (fun e => match e with Sent _ | Enq _ => True | _ => False end) h /\
    t2 = Sleep :: Produce (S i) :: Recv (S i) true LInit sd' :: t3.
Proof. exact C05_restart_shape_thm. Qed.
Print Assumptions C05_restart_shape.

(* user messages are delivered exactly in the order in which they were
   accepted into the inbox, each once (by position): what has been delivered
   is a prefix of what was accepted — so the messages queued behind a failing
   one reach the next incarnation in their original order, ahead of anything
   sent later, and the failing one is not delivered again; what was accepted
   is a subsequence of what was sent; an actor that is still alive at
   quiescence has been delivered everything it accepted *)
Theorem C05_delivered_in_send_order_exactly_once :
  forall f c xs s t, stopped_safe c -> run f c xs = (s, t) -> out_of_fuel t = false ->
  (exists rest, uacc t = dlv t ++ rest /\ (dead s = false -> rest = [])) /\
  Subseq (uacc t) (sends_of t) /\
  Subseq (user_payloads (recvs_of t)) (sends_of t) /\
  (NoDup (sends_of t) -> NoDup (user_payloads (recvs_of t))).
Proof. exact C05_delivered_in_send_order_exactly_once_thm. Qed.
Print Assumptions C05_delivered_in_send_order_exactly_once.

(* nothing is lost silently, nothing is counted twice: the messages sent are,
   as a multiset, the messages delivered plus the messages reported as dead
   letters — also when the restart budget is exceeded with messages held back
   for the restart *)
Theorem C05_no_silent_loss :
  forall f c xs s t, stopped_safe c -> run f c xs = (s, t) -> out_of_fuel t = false ->
  Permutation (sends_of t) (user_payloads (recvs_of t) ++ dead_payloads (events_of t)) /\
  length (sends_of t) = length (user_payloads (recvs_of t)) + length (dead_payloads (events_of t)) /\
  queue s = [].
Proof. exact C05_no_silent_loss_thm. Qed.
Print Assumptions C05_no_silent_loss.

(** * C06 — restarts are bounded by MaxRestarts; exceeding it stops the actor cleanly *)

(* at most MaxRestarts ActorRestartedEvents, numbered 1, 2, 3, … (InternalError
   restarts publish none).  No premise. *)
Theorem C06_restarts_bounded :
  forall f c xs s t, run f c xs = (s, t) ->
  length (restarted_counters (events_of t)) <= maxr c /\
  restarted_counters (events_of t) = seq 1 (length (restarted_counters (events_of t))) /\
  length (restarted_counters (events_of t)) = restarts s.
Proof. exact C06_restarts_bounded_thm. Qed.
Print Assumptions C06_restarts_bounded.

(* after ActorMaxRestartsExceededEvent: Inbox.Stop, Stopped to the failed
   incarnation, Registry.Remove, ActorStoppedEvent, then only dead letters,
   cancels and dead-lettered sends; the actor ends dead, unregistered, its
   inbox stopped and empty; nothing escaped *)
Theorem C06_exceeding_stops_cleanly :
  forall f c xs s t, stopped_safe c -> run f c xs = (s, t) -> out_of_fuel t = false ->
  forall t1 t2, t = t1 ++ EvMaxRestarts :: t2 ->
  registered s = false /\ dead s = true /\ istatus_stopped s = true /\ queue s = [] /\
  has_escaped t = false /\
  exists i sd h t3, t2 = InboxStop :: Recv i true LStopped sd :: h ++ RegRemove :: EvStopped :: t3 /\
    Forall (fun e => match e with Sent _ | Enq _ => True | _ => False end) h /\
    Forall (fun e => match e with Sent _ | EvDeadLetter _ | Cancel _ => True | _ => False end) t3.
Proof. exact C06_exceeding_stops_cleanly_thm. Qed.
Print Assumptions C06_exceeding_stops_cleanly.

(* once unregistered: a send is a dead letter, a Poison/Stop is signalled at once *)
Theorem C06_later_sends_dead_letter :
  forall (f : nat) (c : cfg) (s : pst), registered s = false -> istatus_stopped s = true ->
  (forall n, ext_step (S f) c s (XSend n) = (s, [Sent n; EvDeadLetter (User n)])) /\
  ext_step (S f) c s XPoison =
    (upd_npill s (S (npill s)), [EvDeadLetter (Pill true (npill s)); Cancel (npill s)]) /\
  ext_step (S f) c s XStop =
    (upd_npill s (S (npill s)), [EvDeadLetter (Pill false (npill s)); Cancel (npill s)]).
Proof. exact C06_later_ops_thm. Qed.
Print Assumptions C06_later_sends_dead_letter.

(** * C07 — Stop/Poison: drain, stop, then signal — and every caller is signalled *)

(* no context is cancelled before the target has handled its last Stopped and
   has been unregistered ([early_cancels], ProcExec.v); every Cancel comes
   after Registry.Remove and is followed only by dead letters, cancels, sends *)
Theorem C07_cancel_only_after_stopped_and_unregistered :
  forall f c xs s t, stopped_safe c -> run f c xs = (s, t) -> out_of_fuel t = false ->
  early_cancels t = [] /\
  (forall t1 k t2, t = t1 ++ Cancel k :: t2 ->
     In RegRemove t1 /\
     Forall (fun e => match e with Sent _ | EvDeadLetter _ | Cancel _ => True | _ => False end) t2).
Proof. exact C07_cancel_only_after_stopped_and_unregistered_thm. Qed.
Print Assumptions C07_cancel_only_after_stopped_and_unregistered.

(* every pill ever created (k < npill s) is cancelled exactly once, no other
   cancel occurs: pills met in a batch, pills behind another pill, pills
   passed over by a drain that then crashed, pills left in the inbox, pills
   in the restart buffer when the budget is exceeded, pills for a stopped actor *)
Theorem C07_every_pill_cancelled_exactly_once :
  forall f c xs s t, stopped_safe c -> run f c xs = (s, t) -> out_of_fuel t = false ->
  forall k, count_occ Nat.eq_dec (cnc t) k = if k <? npill s then 1 else 0.
Proof. exact C07_every_pill_cancelled_exactly_once_thm. Qed.
Print Assumptions C07_every_pill_cancelled_exactly_once.

(* a graceful pill processed without a crash: all user envelopes of its batch
   — before and behind it — are delivered before the Inbox.Stop of its
   cleanup, and its context is cancelled after that *)
Theorem C07_graceful_pill_drains_first :
  forall c pre k b post s n s' t np d,
  Forall is_user pre ->
  invoke_loop c s (pre ++ {| emsg := Pill true k; esnd := b |} :: post) n = (s', t, Normal, np, d) ->
  exists t1 t2, t = t1 ++ InboxStop :: t2 /\ dlv t1 = uenv pre ++ uenv post /\
                Forall (fun ev => ev <> InboxStop) t1 /\ In (Cancel k) t2.
Proof. exact C07_graceful_pill_drains_first_thm. Qed.
Print Assumptions C07_graceful_pill_drains_first.

(* poison pills are never visible to Receive ([lmsg] has no constructor for
   them; invokeMsg suppresses them) *)
Theorem C07_pills_invisible :
  forall c s g k b, invoke_msg c s {| emsg := Pill g k; esnd := b |} = (s, [], Normal).
Proof. exact C07_pills_invisible_thm. Qed.
Print Assumptions C07_pills_invisible.

(** * C12 (last sentence) — the engine's lifecycle events are published for every occurrence *)

(* [lifeev t]: the events published other than dead letters, in order.  They
   are exactly what the delivery stream and the script determine
   ([expected_c c 0 None (recvs_of t)], the configuration-level form of
   ProcExec's [expected_events]): ActorInitializedEvent / ActorStartedEvent
   after every Initialized / Started delivery whose handler returns;
   at the Stopped delivery that follows a panicking delivery an
   ActorRestartedEvent numbered 1, 2, 3, … while the budget lasts (none for an
   InternalError), ActorMaxRestartsExceededEvent and ActorStoppedEvent when it
   is spent; ActorStoppedEvent at any other Stopped delivery; nothing else,
   nothing twice, in this order.  Dead letters are published only after
   ActorStoppedEvent and nothing else follows it; ActorStoppedEvent has been
   published iff the actor is unregistered at the end; every payload is
   dead-lettered exactly as often as it was sent and not delivered. *)
Theorem C12_lifecycle_events_published :
  forall f c xs s t, stopped_safe c -> run f c xs = (s, t) -> out_of_fuel t = false ->
  lifeev t = expected_c c 0 None (recvs_of t) /\
  dead_after_stopped (events_of t) = true /\
  registered s = negb (existsb (fun e => mevent_eqb e MStopped) (events_of t)) /\
  (forall n, cntb n (user_payloads (recvs_of t)) + cntb n (dead_payloads (events_of t)) = cntb n (sends_of t)).
Proof. exact C12_lifecycle_events_published_thm. Qed.
Print Assumptions C12_lifecycle_events_published.

(* [expected_c] on the configuration of a case is ProcExec's [expected_events] on its table *)
Theorem C12_expected_events_of_table :
  forall cs l k p, expected_events (c_table cs) (c_maxr cs) k p l = expected_c (cfg_of cs) k p l.
Proof. exact expected_cfg_of. Qed.
Print Assumptions C12_expected_events_of_table.

Theorem C12_oracle_sound : forall c,
  stopped_safe (cfg_of c) -> out_of_fuel (snd (model c)) = false -> oracle_c12 (selfcase c) = true.
Proof. exact oracle_c12_sound. Qed.
Print Assumptions C12_oracle_sound.

(** * The oracles of ProcExec.v hold of every model run *)

(* [selfcase c]: the case whose observation is the model's own projection.
   Premises: the Stopped rules of the table do not panic, the run completed
   within FUEL, payloads pairwise distinct (only for the last clause of
   oracle_c05), the harness's "alien" code is not a payload (only for
   oracle_c07). *)
Theorem C13_oracle_sound : forall c,
  stopped_safe (cfg_of c) -> out_of_fuel (snd (model c)) = false -> oracle_c13 (selfcase c) = true.
Proof. exact oracle_c13_sound. Qed.
Print Assumptions C13_oracle_sound.

Theorem C04_oracle_sound : forall c,
  stopped_safe (cfg_of c) -> out_of_fuel (snd (model c)) = false -> oracle_c04 (selfcase c) = true.
Proof. exact oracle_c04_sound. Qed.
Print Assumptions C04_oracle_sound.

Theorem C05_oracle_sound : forall c,
  stopped_safe (cfg_of c) -> out_of_fuel (snd (model c)) = false -> NoDup (sends_of (snd (model c))) ->
  oracle_c05 (selfcase c) = true.
Proof. exact oracle_c05_sound. Qed.
Print Assumptions C05_oracle_sound.

Theorem C06_oracle_sound : forall c,
  stopped_safe (cfg_of c) -> out_of_fuel (snd (model c)) = false -> oracle_c06 (selfcase c) = true.
Proof. exact oracle_c06_sound. Qed.
Print Assumptions C06_oracle_sound.

Theorem C07_oracle_sound : forall c,
  stopped_safe (cfg_of c) -> out_of_fuel (snd (model c)) = false -> ~ In alien (sends_of (snd (model c))) ->
  oracle_c07 (selfcase c) = true.
Proof. exact oracle_c07_sound. Qed.
Print Assumptions C07_oracle_sound.

Theorem C04567_13_oracle_sound : forall c,
  stopped_safe (cfg_of c) -> out_of_fuel (snd (model c)) = false ->
  NoDup (sends_of (snd (model c))) -> ~ In alien (sends_of (snd (model c))) ->
  oracle (selfcase c) = true.
Proof. exact C04567_13_oracle_sound_thm. Qed.
Print Assumptions C04567_13_oracle_sound.

(* [stopped_safe] is decidable on tables *)
Theorem stopped_safe_tbl_sound : forall c, stopped_safe_tbl (c_table c) = true -> stopped_safe (cfg_of c).
Proof. exact stopped_safe_of_tbl. Qed.
Print Assumptions stopped_safe_tbl_sound.

(* the model's own projection passes the correspondence check *)
Theorem model_obs_corr : forall c, out_of_fuel (snd (model c)) = false -> corr (selfcase c) = true.
Proof. exact corr_selfcase. Qed.
Print Assumptions model_obs_corr.
