(** The property theorems of the inbox layer (C01, C02, C03).  Nothing else
    lives here: each is closed by [exact <lemma>] and followed by
    [Print Assumptions].

    Reading guide.  [c] is the batch bound of PopN (any value >= 1 where
    stated; the safety theorems hold for every bound).  [clients] are the
    client threads: senders [SPush ms] and, for [init], at most one starter
    [TCas].  [valid_start clients s0] says s0 = [init clients] (fresh, stopped
    inbox; at most one starter) or s0 = [init_started clients] (Start has
    completed: Running, its worker is thread 0; no starter among the clients).
    [started_start] is the same with exactly one starter in the first case.
    [reach c s0 s] = some schedule leads from s0 to s: all theorems hold for
    every schedule, any number of senders and any number of messages. *)
From Coq Require Import List Arith Bool Permutation.
Import ListNotations.
From HV Require Import Inbox InboxExec InboxProofs.

(** * C02 — an actor processes one message at a time *)

(* status = running  <->  exactly one thread owns the processing token;
   idle/starting: none; stopped: at most one (a worker leaving after a pill);
   status = starting exactly while the starter is between its CAS and its
   Swap; and no worker exists before the starter's Swap(idle) *)
Theorem C02_token_invariant :
  forall c clients s0 s, valid_start clients s0 -> reach c s0 s ->
    (status_ s = Running -> cnt holder (thr s) = 1) /\
    (status_ s = Idle \/ status_ s = Starting -> cnt holder (thr s) = 0) /\
    (status_ s = Stopped -> cnt holder (thr s) <= 1) /\
    (status_ s = Starting <-> cnt atTS (thr s) = 1) /\
    (cnt isTCas (thr s) + cnt atTS (thr s) >= 1 -> cnt is_worker (thr s) = 0).
Proof. exact token_invariant. Qed.
Print Assumptions C02_token_invariant.

(* in every reachable state at most one thread is inside Invoke *)
Theorem C02_receive_mutex :
  forall c clients s0 s, valid_start clients s0 -> reach c s0 s -> cnt in_region (thr s) <= 1.
Proof. exact C02_receive_mutex_thm. Qed.
Print Assumptions C02_receive_mutex.

(* a thread is created only by a successful CAS idle->running, and it is a
   worker about to Load: every worker's first action happens-after that CAS *)
Theorem C02_handoff :
  forall c s i s' l, step c s i = Some (s', l) ->
    (l = LCas Idle Running true /\ status_ s = Idle /\ status_ s' = Running /\
     exists p, thr s' = firstn i (thr s) ++ p :: skipn (S i) (thr s) ++ [WLoad]) \/
    (l <> LCas Idle Running true /\ length (thr s') = length (thr s)).
Proof. exact C02_handoff_thm. Qed.
Print Assumptions C02_handoff.

(** * C01 — exactly once, same value, in order *)

(* nothing is lost, duplicated or reordered between Push and Invoke, pills or
   not: what was delivered, then what was dropped behind a pill, then the
   batch in flight, then the queue is exactly the push order *)
Theorem C01_conservation :
  forall c clients s0 s, valid_start clients s0 -> reach c s0 s ->
    delivered s ++ dropped s ++ inflight s ++ q s = pushed s.
Proof. exact conservation. Qed.
Print Assumptions C01_conservation.

Theorem C01_conservation_pill_free :
  forall c clients s0 s, valid_start clients s0 -> pills_in (program_msgs clients) = false ->
    reach c s0 s -> dropped s = [] /\ delivered s ++ inflight s ++ q s = pushed s.
Proof. exact conservation_pill_free. Qed.
Print Assumptions C01_conservation_pill_free.

(* per sender (thread j of the initial state, program ms): what it has pushed
   so far followed by what it has still to send is its program *)
Theorem C01_program_order :
  forall c clients s0 s, valid_start clients s0 -> NoDup (program_msgs clients) -> reach c s0 s ->
    forall j ms, nth_error (thr s0) j = Some (SPush ms) ->
      exists p, nth_error (thr s) j = Some p /\ sub_of ms (pushed s) ++ remaining p = ms.
Proof. exact program_order. Qed.
Print Assumptions C01_program_order.

(* hence, at any time, each sender's delivered messages are a prefix of its program *)
Theorem C01_program_order_delivered :
  forall c clients s0 s, valid_start clients s0 -> NoDup (program_msgs clients) -> reach c s0 s ->
    forall ms, In (SPush ms) clients -> prefix (sub_of ms (delivered s)) ms.
Proof. exact program_order_delivered. Qed.
Print Assumptions C01_program_order_delivered.

(* at quiescence of a started inbox (no pill): delivered = pushed, every
   sender's messages were delivered completely and in its program order, and
   every message was delivered as often as it was sent *)
Theorem C01_exactly_once_in_order :
  forall c clients s0 s,
    started_start clients s0 -> pills_in (program_msgs clients) = false ->
    NoDup (program_msgs clients) -> reach c s0 s -> quiescent s = true ->
    delivered s = pushed s /\
    (forall ms, In (SPush ms) clients -> sub_of ms (delivered s) = ms) /\
    (forall m, cntm (Nat.eqb m) (delivered s) = cntm (Nat.eqb m) (program_msgs clients)).
Proof. exact C01_exactly_once_in_order_thm. Qed.
Print Assumptions C01_exactly_once_in_order.

Theorem C01_delivered_permutation :
  forall c clients s0 s,
    started_start clients s0 -> pills_in (program_msgs clients) = false ->
    reach c s0 s -> quiescent s = true -> Permutation (delivered s) (program_msgs clients).
Proof. exact C01_delivered_permutation_thm. Qed.
Print Assumptions C01_delivered_permutation.

(** * C03 — no lost wake-up *)

(* an idle inbox with a non-empty queue always has a thread that is still
   going to try the CAS idle->running *)
Theorem C03_wakeup_invariant :
  forall c clients s0 s, valid_start clients s0 -> reach c s0 s ->
    status_ s = Idle -> q s <> [] -> 0 < cnt pending_kick (thr s).
Proof. exact wakeup_invariant. Qed.
Print Assumptions C03_wakeup_invariant.

(* when every thread has finished, the (started, pill-free) inbox rests idle
   with an empty queue and everything the clients sent was pushed and invoked *)
Theorem C03_quiescent_is_drained :
  forall c clients s0 s,
    started_start clients s0 -> pills_in (program_msgs clients) = false ->
    reach c s0 s -> quiescent s = true ->
    status_ s = Idle /\ q s = [] /\ delivered s = pushed s /\
    length (pushed s) = length (program_msgs clients).
Proof. exact C03_quiescent_is_drained_thm. Qed.
Print Assumptions C03_quiescent_is_drained.

(* every step from a state satisfying the token invariant decreases
   (unpushed messages, pending kicks, local progress) lexicographically --
   pills included *)
Theorem C03_measure_decreases :
  forall c s i s' l, 1 <= bound c -> TokenInv s -> step c s i = Some (s', l) ->
    lexlt3 (meas s') (meas s).
Proof. exact measure_decreases. Qed.
Print Assumptions C03_measure_decreases.

(* the step relation on reachable states is well-founded: no infinite schedule *)
Theorem C03_terminates :
  forall c clients s0, valid_start clients s0 -> 1 <= bound c ->
    forall s, reach c s0 s ->
      Acc (fun s2 s1 => exists i l, step c s1 i = Some (s2, l) /\ reach c s0 s1) s.
Proof. intros c clients s0 Hv Hb s _. exact (C03_terminates_thm c clients s0 Hv Hb s). Qed.
Print Assumptions C03_terminates.

Theorem C03_no_infinite_run :
  forall c clients s0 (f : nat -> st), valid_start clients s0 -> 1 <= bound c ->
    reach c s0 (f 0) -> (forall n, exists i l, step c (f n) i = Some (f (S n), l)) -> False.
Proof. exact C03_no_infinite_run_thm. Qed.
Print Assumptions C03_no_infinite_run.

(* no deadlock: a state that is not quiescent has an enabled thread *)
Theorem C03_no_deadlock :
  forall c s, quiescent s = false -> exists i, i < length (thr s) /\ step c s i <> None.
Proof. exact no_deadlock. Qed.
Print Assumptions C03_no_deadlock.

(* so, under any scheduler that keeps running some enabled thread, every
   execution from a reachable state is finite and ends drained: no fairness
   assumption, no further send *)
Theorem C03_every_run_drains :
  forall c clients s0 s,
    started_start clients s0 -> pills_in (program_msgs clients) = false -> 1 <= bound c ->
    reach c s0 s -> inev c (drained clients) s.
Proof. exact C03_every_run_drains_thm. Qed.
Print Assumptions C03_every_run_drains.

(* with pills too every run is finite and ends with all threads finished *)
Theorem C03_every_run_quiesces :
  forall c clients s0 s, valid_start clients s0 -> 1 <= bound c -> reach c s0 s ->
    inev c (fun t => quiescent t = true /\ reach c s0 t) s.
Proof. exact C03_every_run_quiesces_thm. Qed.
Print Assumptions C03_every_run_quiesces.

(* messages pushed by the time of s1 -- e.g. before Start completed -- are
   delivered, in push order, in every later quiescent state ... *)
Theorem C03_start_picks_up_backlog :
  forall c clients s0 s1 s2,
    started_start clients s0 -> pills_in (program_msgs clients) = false ->
    reach c s0 s1 -> reach c s1 s2 -> quiescent s2 = true -> prefix (pushed s1) (delivered s2).
Proof. exact C03_start_picks_up_backlog_thm. Qed.
Print Assumptions C03_start_picks_up_backlog.

(* ... and such a state is reached on every run from s1 *)
Theorem C03_backlog_is_delivered :
  forall c clients s0 s1,
    started_start clients s0 -> pills_in (program_msgs clients) = false -> 1 <= bound c ->
    reach c s0 s1 ->
    inev c (fun t => drained clients t /\ prefix (pushed s1) (delivered t)) s1.
Proof. exact C03_backlog_is_delivered_thm. Qed.
Print Assumptions C03_backlog_is_delivered.

(** * The differential oracle is a theorem about the model *)

(* the case built from any model run satisfies [oracle] (each projection) and
   [corr] *)
Theorem C0123_oracle_sound :
  forall prop bnd started clients sched s ls,
    clients_valid started clients -> NoDup (program_msgs clients) ->
    run_sched {| bound := bnd |} (start_of started clients) sched = Some (s, ls) ->
    oracle (model_case prop bnd started clients sched ls s) = true /\
    corr (model_case prop bnd started clients sched ls s) = true.
Proof. exact oracle_sound. Qed.
Print Assumptions C0123_oracle_sound.

(** * C01 — sends ordered by happens-before are received in that order *)

(* [pushes ls] = the messages of the LPush labels of the run, in schedule
   order.  If the Push of m1 (by whichever thread) comes before the Push of m2
   in the schedule -- which is what any happens-before between the two sends
   implies, in particular successive sends of one goroutine -- then the
   receiver got m1 before m2: at quiescence [delivered] is exactly the
   sequence of pushes in real-time order. *)
Theorem C01_happens_before_order :
  forall bnd started clients sched s ls,
    clients_valid started clients -> started || has_starter clients = true ->
    pills_in (program_msgs clients) = false ->
    run_sched {| bound := bnd |} (start_of started clients) sched = Some (s, ls) ->
    quiescent s = true ->
    delivered s = pushes ls /\
    forall l1 m1 l2 m2 l3, ls = l1 ++ LPush m1 :: l2 ++ LPush m2 :: l3 ->
      delivered s = pushes l1 ++ m1 :: pushes l2 ++ m2 :: pushes l3.
Proof. exact C01_happens_before_order_thm. Qed.
Print Assumptions C01_happens_before_order.

(* in any state, not only at quiescence: [pushed] is the real-time order of
   the Push steps, and [delivered] is a prefix of it (C01_conservation) *)
Theorem C01_pushed_is_push_order :
  forall c started clients sched s ls,
    run_sched c (start_of started clients) sched = Some (s, ls) -> pushed s = pushes ls.
Proof. exact pushed_is_push_order. Qed.
Print Assumptions C01_pushed_is_push_order.
