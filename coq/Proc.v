(** L2 — model of one actor's life: actor/process.go (Invoke, invokeMsg, Start,
    tryRestart, deliverStopped, cleanup, flush, discard) together with the
    parts of engine.go an actor's own handlers use on itself (Send to self,
    Poison/Stop of self) and the single-worker run loop of inbox.go.

    Statement level: the nproc / draining bookkeeping of Invoke, the two
    recover handlers, the InternalError branch, the conditional deferred
    cancel, the dead flag, the order inside cleanup and the flush are
    transcribed one by one.  User code is a script: a function from
    (incarnation, message) to a list of actions.  Recursion is on fuel; an
    exhausted fuel is the explicit event [OutOfFuel], never a normal result.

    Definitions only; proofs are in ProcProofs.v. *)
From Coq Require Import List Arith Bool.
Import ListNotations.

(** ** Messages *)
Inductive payload :=
| User (n : nat)
| Pill (graceful : bool) (k : nat).          (* k identifies the cancel func / returned context *)

(* an envelope: message and whether a sender PID was given (the actor itself) *)
Record env := { emsg : payload; esnd : bool }.

(* what a receiver can be handed *)
Inductive lmsg := LInit | LStarted | LStopped | LUser (n : nat).

(** ** Scripts: what Receive does *)
Inductive action :=
| ASend (n : nat)        (* ctx.Send(self, n): sender = self *)
| ASendNil (n : nat)     (* engine.Send(self, n): no sender *)
| APoison                (* engine.Poison(self) *)
| AStop                  (* engine.Stop(self) *)
| APanic                 (* panic(non-InternalError) *)
| APanicInternal.        (* panic(&InternalError{}) *)

Definition script := nat -> lmsg -> list action.   (* incarnation -> message -> actions *)

Record cfg := { maxr : nat;        (* MaxRestarts *)
                batch : nat;       (* PopN bound, messageBatchSize *)
                scr : script }.

(** ** Trace *)
Inductive event :=
| Produce (i : nat)                                   (* Producer() called: incarnation i begins *)
| Recv (i : nat) (via_mw : bool) (m : lmsg) (snd : bool)  (* Receive of incarnation i; through the middleware chain? context sender set? *)
| EvInitialized | EvStarted | EvStopped
| EvRestarted (n : nat) | EvMaxRestarts
| EvDeadLetter (m : payload)
| Cancel (k : nat)
| InboxStop | InboxStart (opened : bool) | RegRemove | Sleep
| Enq (e : env)                                       (* ghost: an envelope accepted into the actor's ring *)
| Sent (n : nat)                                      (* ghost: a user message was sent to the actor (accepted or not) *)
| Escaped                                             (* a panic left the worker goroutine: process dies *)
| OutOfFuel.

Inductive outcome := Normal | Panicking (internal : bool).

(** ** State *)
Record pst := { inc : nat; restarts : nat; mbuf : list env; queue : list env;
                csender : bool;         (* Context.sender left by the last user delivery *)
                dead : bool; registered : bool;
                istatus_stopped : bool; (* inbox procStatus = stopped *)
                npill : nat }.          (* pills created so far *)

Definition upd_queue s q := {| inc := inc s; restarts := restarts s; mbuf := mbuf s; queue := q; csender := csender s;
  dead := dead s; registered := registered s; istatus_stopped := istatus_stopped s; npill := npill s |}.
Definition upd_mbuf s b := {| inc := inc s; restarts := restarts s; mbuf := b; queue := queue s; csender := csender s;
  dead := dead s; registered := registered s; istatus_stopped := istatus_stopped s; npill := npill s |}.
Definition upd_csender s x := {| inc := inc s; restarts := restarts s; mbuf := mbuf s; queue := queue s; csender := x;
  dead := dead s; registered := registered s; istatus_stopped := istatus_stopped s; npill := npill s |}.
Definition upd_npill s n := {| inc := inc s; restarts := restarts s; mbuf := mbuf s; queue := queue s; csender := csender s;
  dead := dead s; registered := registered s; istatus_stopped := istatus_stopped s; npill := n |}.
Definition upd_inc s i := {| inc := i; restarts := restarts s; mbuf := mbuf s; queue := queue s; csender := csender s;
  dead := dead s; registered := registered s; istatus_stopped := istatus_stopped s; npill := npill s |}.
Definition upd_restarts s r := {| inc := inc s; restarts := r; mbuf := mbuf s; queue := queue s; csender := csender s;
  dead := dead s; registered := registered s; istatus_stopped := istatus_stopped s; npill := npill s |}.
Definition upd_dead s d := {| inc := inc s; restarts := restarts s; mbuf := mbuf s; queue := queue s; csender := csender s;
  dead := d; registered := registered s; istatus_stopped := istatus_stopped s; npill := npill s |}.
Definition upd_registered s r := {| inc := inc s; restarts := restarts s; mbuf := mbuf s; queue := queue s; csender := csender s;
  dead := dead s; registered := r; istatus_stopped := istatus_stopped s; npill := npill s |}.
Definition upd_istopped s b := {| inc := inc s; restarts := restarts s; mbuf := mbuf s; queue := queue s; csender := csender s;
  dead := dead s; registered := registered s; istatus_stopped := b; npill := npill s |}.

(** ** Engine operations on the actor itself (engine.go) *)

(* SendLocal: registry hit => Inbox.Send (push); miss => DeadLetterEvent *)
Definition sent_of (e : env) : list event := match emsg e with User n => [Sent n] | _ => [] end.
Definition send_self (s : pst) (e : env) : pst * list event :=
  if registered s then (upd_queue s (queue s ++ [e]), sent_of e ++ [Enq e])
  else (s, sent_of e ++ [EvDeadLetter (emsg e)]).

(* sendPoisonPill: miss => dead letter + cancel at once; hit => push, then the
   re-check of the registry (still registered here: same goroutine) *)
Definition poison_self (s : pst) (graceful : bool) : pst * list event :=
  let k := npill s in
  let s1 := upd_npill s (S k) in
  let p := Pill graceful k in
  if registered s then (upd_queue s1 (queue s1 ++ [{| emsg := p; esnd := false |}]), [Enq {| emsg := p; esnd := false |}])
  else (s1, [EvDeadLetter p; Cancel k]).

Fixpoint do_actions (s : pst) (acts : list action) : pst * list event * outcome :=
  match acts with
  | [] => (s, [], Normal)
  | a :: acts' =>
    match a with
    | APanic => (s, [], Panicking false)
    | APanicInternal => (s, [], Panicking true)
    | _ =>
      let '(s1, t1) := match a with
                       | ASend n => send_self s {| emsg := User n; esnd := true |}
                       | ASendNil n => send_self s {| emsg := User n; esnd := false |}
                       | APoison => poison_self s true
                       | AStop => poison_self s false
                       | _ => (s, [])
                       end in
      let '(s2, t2, o) := do_actions s1 acts' in (s2, t1 ++ t2, o)
    end
  end.

(* one Receive call of the current incarnation *)
Definition recv (c : cfg) (s : pst) (via_mw : bool) (m : lmsg) : pst * list event * outcome :=
  let '(s1, t, o) := do_actions s (scr c (inc s) m) in
  (s1, Recv (inc s) via_mw m (csender s) :: t, o).

(* invokeMsg: pills are suppressed; message and sender are set; chain applied *)
Definition invoke_msg (c : cfg) (s : pst) (e : env) : pst * list event * outcome :=
  match emsg e with
  | Pill _ _ => (s, [], Normal)
  | User n => recv c (upd_csender s (esnd e)) true (LUser n)
  end.

(* deliverStopped *)
Definition deliver_stopped (c : cfg) (s : pst) := recv c s true LStopped.

(* discard: a pill is signalled, anything else is a dead letter *)
Definition discard (e : env) : list event :=
  match emsg e with Pill _ k => [Cancel k] | m => [EvDeadLetter m] end.

(* cleanup(cancel): dead := true; (no children at this level); inbox.Stop;
   Stopped; Registry.Remove; ActorStoppedEvent; flush; deferred cancel last —
   also when the Stopped handler panics *)
Definition cleanup (c : cfg) (s : pst) (cancel : option nat) : pst * list event * outcome :=
  let s0 := upd_istopped (upd_dead s true) true in
  let '(s1, t1, o1) := deliver_stopped c s0 in
  let fin := match cancel with Some k => [Cancel k] | None => [] end in
  match o1 with
  | Panicking b => (s1, [InboxStop] ++ t1 ++ fin, Panicking b)
  | Normal =>
    let s2 := upd_registered s1 false in
    let t2 := flat_map discard (queue s2) in
    (upd_queue s2 [], [InboxStop] ++ t1 ++ [RegRemove; EvStopped] ++ t2 ++ fin, Normal)
  end.

(* the drain loop of a graceful pill: every message is counted in nproc; a
   pill is passed over (and remembered in [skipped]), anything else goes
   through invokeMsg *)
Fixpoint drain (c : cfg) (s : pst) (l : list env) (nproc : nat) (skipped : list env)
  : pst * list event * outcome * nat * list env :=
  match l with
  | [] => (s, [], Normal, nproc, skipped)
  | e :: l' =>
    let nproc := S nproc in
    match emsg e with
    | Pill _ _ => drain c s l' nproc (skipped ++ [e])
    | User _ =>
      let '(s1, t1, o1) := invoke_msg c s e in
      match o1 with
      | Normal => let '(s2, t2, o2, np, sk) := drain c s1 l' nproc skipped in (s2, t1 ++ t2, o2, np, sk)
      | _ => (s1, t1, o1, nproc, skipped)
      end
    end
  end.

(* after cleanup: what is left of the batch is discarded (pills always; other
   messages only behind a non-graceful pill — a graceful one has drained them) *)
Definition discard_rest (graceful : bool) (l : list env) : list event :=
  flat_map (fun e => match emsg e with
                     | Pill _ _ => discard e
                     | _ => if graceful then [] else discard e end) l.

(* result of the body of Invoke: state, trace, outcome, nproc, and — when a
   drain crashed — the draining pill followed by the pills it had passed over *)
Fixpoint invoke_loop (c : cfg) (s : pst) (l : list env) (nproc : nat)
  : pst * list event * outcome * nat * list env :=
  match l with
  | [] => (s, [], Normal, nproc, [])
  | e :: l' =>
    let nproc := S nproc in
    match emsg e with
    | Pill g k =>
      let '(s1, t1, o1, np, sk) := if g then drain c s l' nproc [] else (s, [], Normal, nproc, []) in
      match o1 with
      | Normal =>
        let '(s2, t2, o2) := cleanup c s1 (Some k) in
        match o2 with
        | Normal => (s2, t1 ++ t2 ++ discard_rest g l', Normal, np, [])
        | _ => (s2, t1 ++ t2, o2, np, [])
        end
      | _ => (s1, t1, o1, np, e :: sk)         (* panic while draining: the pill and the skipped pills are remembered *)
      end
    | User _ =>
      let '(s1, t1, o1) := invoke_msg c s e in
      match o1 with
      | Normal => let '(s2, t2, o2, np, d) := invoke_loop c s1 l' nproc in (s2, t1 ++ t2, o2, np, d)
      | _ => (s1, t1, o1, nproc, [])
      end
    end
  end.

Fixpoint invoke (fuel : nat) (c : cfg) (s : pst) (msgs : list env) {struct fuel} : pst * list event * outcome :=
  match fuel with 0 => (s, [OutOfFuel], Normal) | S f =>
  let '(s1, t1, o1, nproc, draining) := invoke_loop c s msgs 0 in
  match o1 with
  | Normal => (s1, t1, Normal)
  | Panicking internal =>
    (* deferred recover: buffer the draining pill, the pills its drain passed
       over, and msgs[nproc:]; then tryRestart *)
    let buf := draining ++ skipn nproc msgs in
    let '(s2, t2, o2) := try_restart f c (upd_mbuf s1 buf) internal in
    (s2, t1 ++ t2, o2)
  end end

with start (fuel : nat) (c : cfg) (s : pst) {struct fuel} : pst * list event * outcome :=
  match fuel with 0 => (s, [OutOfFuel], Normal) | S f =>
  let s := upd_inc s (S (inc s)) in
  let handler (s : pst) (t : list event) (internal : bool) :=
      let '(s', t', o') := try_restart f c s internal in (s', t ++ t', o') in
  let t0 := [Produce (inc s)] in
  let '(s1, ti, oi) := recv c s true LInit in
  match oi with Panicking b => handler s1 (t0 ++ ti) b | Normal =>
  let '(s2, ts, os) := recv c s1 true LStarted in
  let t1 := t0 ++ ti ++ [EvInitialized] ++ ts in
  match os with Panicking b => handler s2 t1 b | Normal =>
  let t2 := t1 ++ [EvStarted] in
  let '(s3, t3, o3) := match mbuf s2 with
                       | [] => (s2, [], Normal)
                       | b => let '(s', t', o') := invoke f c s2 b in
                              match o' with Normal => (upd_mbuf s' [], t', Normal) | _ => (s', t', o') end
                       end in
  match o3 with
  | Panicking b => handler s3 (t2 ++ t3) b
  | Normal =>
    if dead s3 then (s3, t2 ++ t3, Normal)
    else (* inbox.Start: CAS stopped->starting; opens only a stopped inbox *)
      (upd_istopped s3 false, t2 ++ t3 ++ [InboxStart (istatus_stopped s3)], Normal)
  end end end end

with try_restart (fuel : nat) (c : cfg) (s : pst) (internal : bool) {struct fuel} : pst * list event * outcome :=
  match fuel with 0 => (s, [OutOfFuel], Normal) | S f =>
  if internal then
    let '(s1, t1, o1) := deliver_stopped c s in
    match o1 with
    | Normal => let '(s2, t2, o2) := start f c s1 in (s2, t1 ++ [Sleep] ++ t2, o2)
    | _ => (s1, t1, o1)
    end
  else if Nat.eqb (restarts s) (maxr c) then
    let '(s1, t1, o1) := cleanup c s None in
    match o1 with
    | Normal => (* what was buffered for the restart is discarded *)
      (upd_mbuf s1 [], EvMaxRestarts :: t1 ++ flat_map discard (mbuf s1), Normal)
    | _ => (s1, EvMaxRestarts :: t1, o1)
    end
  else
    let '(s1, t1, o1) := deliver_stopped c s in
    match o1 with
    | Normal =>
      let s2 := upd_restarts s1 (S (restarts s1)) in
      let '(s3, t3, o3) := start f c s2 in (s3, t1 ++ [EvRestarted (restarts s2); Sleep] ++ t3, o3)
    | _ => (s1, t1, o1)
    end
  end.

(* the worker: run() pops batches while the inbox is not stopped; a panic that
   leaves Invoke leaves the goroutine *)
Fixpoint run_loop (fuel : nat) (c : cfg) (s : pst) : pst * list event :=
  match fuel with 0 => (s, [OutOfFuel]) | S f =>
  if istatus_stopped s then (s, []) else
  match queue s with
  | [] => (s, [])
  | q =>
    let b := firstn (batch c) q in
    let '(s1, t1, o1) := invoke f c (upd_queue s (skipn (batch c) q)) b in
    match o1 with
    | Normal => let '(s2, t2) := run_loop f c s1 in (s2, t1 ++ t2)
    | Panicking _ => (s1, t1 ++ [Escaped])
    end
  end end.

(** ** Scenarios: spawn, then external operations, each followed by quiescence *)
Inductive extop := XSend (n : nat) | XPoison | XStop.

Definition init_pst : pst :=
  {| inc := 0; restarts := 0; mbuf := []; queue := []; csender := false; dead := false;
     registered := true; istatus_stopped := true; npill := 0 |}.

Definition has_escaped (t : list event) : bool :=
  existsb (fun e => match e with Escaped => true | _ => false end) t.

(* Spawn: Registry.add then Start on the caller's goroutine (a panic escaping
   Start escapes into the spawner), then the worker drains the backlog *)
Definition spawn (fuel : nat) (c : cfg) : pst * list event :=
  let '(s1, t1, o1) := start fuel c init_pst in
  match o1 with
  | Panicking _ => (s1, t1 ++ [Escaped])
  | Normal => let '(s2, t2) := run_loop fuel c s1 in (s2, t1 ++ t2)
  end.

Definition ext_step (fuel : nat) (c : cfg) (s : pst) (x : extop) : pst * list event :=
  let '(s1, t1) := match x with
                   | XSend n => send_self s {| emsg := User n; esnd := false |}
                   | XPoison => poison_self s true
                   | XStop => poison_self s false
                   end in
  let '(s2, t2) := run_loop fuel c s1 in (s2, t1 ++ t2).

Fixpoint ext_steps (fuel : nat) (c : cfg) (s : pst) (xs : list extop) : pst * list event :=
  match xs with
  | [] => (s, [])
  | x :: xs' =>
    let '(s1, t1) := ext_step fuel c s x in
    if has_escaped t1 then (s1, t1) else
    let '(s2, t2) := ext_steps fuel c s1 xs' in (s2, t1 ++ t2)
  end.

Definition run (fuel : nat) (c : cfg) (xs : list extop) : pst * list event :=
  let '(s1, t1) := spawn fuel c in
  if has_escaped t1 then (s1, t1) else
  let '(s2, t2) := ext_steps fuel c s1 xs in (s2, t1 ++ t2).

Definition out_of_fuel (t : list event) : bool :=
  existsb (fun e => match e with OutOfFuel => true | _ => false end) t.
