(** The observation the model itself produces for a scenario (C08): the run in
    which every stop is carried out when the scenario waits for it — at its
    [SAwait], or at the wind-down at the end, where (like the harness) every
    gate is released and every handle awaited.  Between being told to stop and
    being awaited an actor has simply not got round to it, which the
    asynchronous engine allows; a closed gate is never in the way, since a
    well-formed scenario does not wait behind one.

    TreeModelProofs.v proves that the property's predicate ([oracle],
    TreeExec.v) holds of this observation for every well-formed scenario. *)
From Coq Require Import List Arith Bool.
Import ListNotations.
From HV Require Export TreeExec.

Definition is_handle (s : sstep) : bool :=
  match s with SPoison _ | SStop _ | SSelf _ | SCrash _ => true | _ => false end.
Definition nhandles (steps : list sstep) : nat := length (filter is_handle steps).

(* what the harness does at the end *)
Definition wind_down (gates : list nat) (steps : list sstep) : list sstep :=
  map SRelease gates ++ map SAwait (seq 0 (nhandles steps)).

Record estate := {
  e_m : mstate;
  e_evs : list oev;
  e_done : list nat;                      (* handles whose context is done *)
  e_alive : list (nat * list nat) }.      (* handle, who of its subtree had not stopped when it was done *)

Definition x_events (ns : list nat) : list oev := flat_map (fun n => [EXB n; EXE n]) ns.

Definition estep (t : tree) (e : estate) (s : sstep) : estate :=
  let m := e_m e in
  match s with
  | SAwait k =>
      match nth_error (m_handles m) k with
      | None => e
      | Some (_, p) =>
          let m' := mstep t m s in
          let batch := filter (fun n => negb (memb n (m_stopped m))) (post t p) in
          let newly := filter (fun j => negb (memb j (e_done e)) &&
                                        match nth_error (m_handles m) j with
                                        | Some (_, q) => subsetb (closure t q) (m_stopped m')
                                        | None => false end)
                              (seq 0 (length (m_handles m))) in
          {| e_m := m';
             e_evs := e_evs e ++ x_events batch ++ map EDone newly;
             e_done := e_done e ++ newly;
             e_alive := e_alive e ++
                        map (fun j => (j, match nth_error (m_handles m) j with
                                          | Some (_, q) => filter (fun d => negb (memb d (m_stopped m'))) (closure t q)
                                          | None => [] end)) newly |}
      end
  | _ => {| e_m := mstep t m s; e_evs := e_evs e; e_done := e_done e; e_alive := e_alive e |}
  end.

Definition e_init (t : tree) (gates dyn : list nat) : estate :=
  {| e_m := m_init t gates dyn; e_evs := []; e_done := []; e_alive := [] |}.

Definition erun (c : case) : estate :=
  fold_left (estep (c_tree c)) (c_steps c ++ wind_down (c_gates c) (c_steps c))
            (e_init (c_tree c) (c_gates c) (dyn_ids (c_steps c))).

Definition alive_of (e : estate) (j : nat) : list nat :=
  match find (fun x => Nat.eqb (fst x) j) (e_alive e) with Some x => snd x | None => [] end.

Definition model_obs (c : case) : obs :=
  let t := c_tree c in
  let e := erun c in
  let m := e_m e in
  {| o_events := e_evs e;
     o_xinfo := map (model_xinfo t) (m_stopped m);
     o_started := map (fun n => (n, parent (m_spawned m) n)) (ids t ++ m_restarted m);
     o_handles := map (fun jh => {| oh_kind := fst (snd jh); oh_target := snd (snd jh);
                                    oh_at_return := match nth (fst jh) (m_at_return m) None with
                                                    | Some b => b | None => false end;
                                    oh_done := memb (fst jh) (e_done e);
                                    oh_alive := alive_of e (fst jh) |})
                      (indexed 0 (m_handles m));
     o_probes := map (fun p => {| op_n := fst (fst p); op_answered := true; op_kids := snd (fst p);
                                  op_parent := snd p |}) (m_probes m);
     o_hang := false; o_gate_timeout := false;
     o_rstops := length (m_restarted m) |}.

Definition with_obs (c : case) (o : obs) : case :=
  {| c_tree := c_tree c; c_maxr := c_maxr c; c_gates := c_gates c; c_steps := c_steps c; c_obs := o |}.

Definition nrestarts (steps : list sstep) : nat :=
  length (filter (fun s => match s with SRestart _ => true | _ => false end) steps).

(* the model's own observation passes both checks on the examples *)
Example model_obs_d11 :
  let c := {| c_tree := T3; c_maxr := 0; c_gates := [3];
              c_steps := [SPoison 1; SWaitGate 3; SPoison 0; SHold 1 1 1; SRelease 3; SAwait 1; SAwait 0];
              c_obs := obs_seq |} in
  report [with_obs c (model_obs c)] = ([], [], [[1; 14; 3; 5]]).
Proof. vm_compute. reflexivity. Qed.

Example model_obs_restart :
  let c := {| c_tree := T3d; c_maxr := 1; c_gates := []; c_steps := steps_restart; c_obs := obs_seq |} in
  report [with_obs c (model_obs c)] = ([], [], [[1; 19; 15; 20; 18; 16]]).
Proof. vm_compute. reflexivity. Qed.
